//! Process-wide set-up: config file (auth enabled!), shards, schema registry, seed data.
use snel_db::command::dispatcher::dispatch_command;
use snel_db::command::parser::parse_command;
use snel_db::engine::auth::AuthManager;
use snel_db::engine::schema::SchemaRegistry;
use snel_db::engine::shard::manager::ShardManager;
use snel_db::shared::response::UnixRenderer;
use std::path::{Path, PathBuf};
use std::sync::Arc;
use tokio::sync::RwLock;

pub struct World {
    pub root: PathBuf,
    pub sm: Arc<ShardManager>,
    pub reg: Arc<RwLock<SchemaRegistry>>,
}

/// Writes the configuration and points SNELDB_CONFIG at it. Must run before anything touches
/// `CONFIG`. `bypass` selects `auth.bypass_auth`; `expiry` the session token lifetime.
pub fn write_config(out: &Path, tag: &str, bypass: bool, expiry: u64, rate_limit: bool) -> PathBuf {
    std::fs::create_dir_all(out).unwrap();
    let root = std::fs::canonicalize(out).unwrap().join(format!("c13-{tag}-{}", std::process::id()));
    let _ = std::fs::remove_dir_all(&root);
    std::fs::create_dir_all(&root).unwrap();
    let d = |s: &str| root.join(s).to_string_lossy().to_string();
    let cfg = format!(
        r#"[wal]
enabled = true
fsync = false
buffered = true
buffer_size = "100KB"
dir = "{wal}/"
flush_each_write = true
fsync_every_n = 1024
conservative_mode = false
archive_dir = "{arch}/"
compression_level = 3
compression_algorithm = "zstd"

[engine]
fill_factor = 3
data_dir = "{cols}"
index_dir = "{idx}/"
shard_count = 2
event_per_zone = 4
compaction_interval = 3000
sys_io_threshold = 10
sys_memory_threshold_mb = "128MB"
max_inflight_passives = 8
segments_per_merge = 2
compaction_max_shard_concurrency = 1

[schema]
def_dir = "{schema}/"

[server]
socket_path = "{sock}"
log_level = "error"
output_format = "json"
tcp_addr = "127.0.0.1:7171"
http_addr = "127.0.0.1:8085"
ws_addr = "127.0.0.1:8086"
auth_token = "mysecrettoken"
backpressure_threshold = 90

[playground]
enabled = false
allow_unauthenticated = false

[auth]
bypass_auth = {bypass}
rate_limit_enabled = {rate_limit}
rate_limit_per_second = 1
session_token_expiry_seconds = {expiry}

[logging]
log_dir = "{logs}"
stdout_level = "error"
file_level = "error"

[query]
zone_index_cache_max_entries = 256
column_block_cache_max_bytes = "64MB"
zone_surf_cache_max_bytes = "10MB"

[time]
timezone = "UTC"
week_start = "Mon"
use_calendar_bucketing = true
"#,
        wal = d("wal"),
        arch = d("wal/archived"),
        cols = d("cols"),
        idx = d("index"),
        schema = d("schema"),
        sock = d("sneldb.sock"),
        logs = d("logs"),
    );
    let path = root.join("config.toml");
    std::fs::write(&path, cfg).unwrap();
    unsafe {
        std::env::set_var("SNELDB_CONFIG", &path);
        std::env::set_var("SNELDB_AUTH_WAL_DIR", root.join("authwal0"));
    }
    root
}

impl World {
    pub async fn new(root: PathBuf) -> World {
        for s in ["wal", "cols", "index", "schema", "logs"] {
            std::fs::create_dir_all(root.join(s)).unwrap();
        }
        let reg = Arc::new(RwLock::new(SchemaRegistry::new().expect("registry")));
        let sm = Arc::new(ShardManager::new(2, root.join("cols"), root.join("wal")).await);
        World { root, sm, reg }
    }

    /// Runs one text command with the given identity, the way the listeners do after the gate.
    /// Returns (Some(raw output) | None when the dispatcher panicked).
    pub async fn run(&self, am: Option<&Arc<AuthManager>>, user: Option<&str>, text: &str) -> Result<Option<Vec<u8>>, String> {
        let cmd = parse_command(text).map_err(|e| e.to_string())?;
        let sm = self.sm.clone();
        let reg = self.reg.clone();
        let am = am.cloned();
        let user = user.map(|s| s.to_string());
        let h = tokio::spawn(async move {
            let mut out: Vec<u8> = Vec::new();
            let r = dispatch_command(&cmd, &mut out, &sm, &reg, am.as_ref(), user.as_deref(), &UnixRenderer).await;
            (out, r.is_ok())
        });
        match h.await {
            Ok((out, _)) => Ok(Some(out)),
            Err(e) if e.is_panic() => Ok(None),
            Err(e) => Err(format!("join: {e}")),
        }
    }

    /// Runs an already parsed command (what the listeners do after `parse_command`).
    /// `None` = the dispatcher panicked.
    pub async fn run_cmd(&self, am: Option<&Arc<AuthManager>>, user: Option<&str>, cmd: snel_db::command::types::Command) -> Option<Vec<u8>> {
        let sm = self.sm.clone();
        let reg = self.reg.clone();
        let am = am.cloned();
        let user = user.map(|s| s.to_string());
        let h = tokio::spawn(async move {
            let mut out: Vec<u8> = Vec::new();
            let _ = dispatch_command(&cmd, &mut out, &sm, &reg, am.as_ref(), user.as_deref(), &UnixRenderer).await;
            out
        });
        h.await.ok()
    }

    /// Schemas `ev_a`, `ev_b` and a linked pair of events in context `c1`, so that every read
    /// command has something to return.
    pub async fn seed(&self) {
        for t in [
            "DEFINE ev_a FIELDS { k: \"int\", s: \"string\" }",
            "DEFINE ev_b FIELDS { k: \"int\", s: \"string\" }",
            "STORE ev_a FOR c1 PAYLOAD {\"k\":7,\"s\":\"x\"}",
        ] {
            let o = self.run(None, Some("bypass"), t).await.expect("seed parse").expect("seed run");
            assert!(o.starts_with(b"200"), "seed {t}: {}", String::from_utf8_lossy(&o));
        }
        tokio::time::sleep(std::time::Duration::from_millis(1100)).await;
        let t = "STORE ev_b FOR c1 PAYLOAD {\"k\":7,\"s\":\"y\"}";
        let o = self.run(None, Some("bypass"), t).await.expect("seed parse").expect("seed run");
        assert!(o.starts_with(b"200"));
        for _ in 0..100 {
            let o = self.run(None, Some("bypass"), "QUERY ev_a FOLLOWED BY ev_b LINKED BY k").await.unwrap().unwrap();
            if String::from_utf8_lossy(&o).contains("\"ev_b\"") {
                return;
            }
            tokio::time::sleep(std::time::Duration::from_millis(50)).await;
        }
        eprintln!("c13: warning: seeded sequence pair not visible");
    }

    /// New AuthManager on its own, fresh auth WAL directory.
    pub fn fresh_auth(&self, n: u64) -> Arc<AuthManager> {
        let dir = self.root.join(format!("authwal{n}"));
        let _ = std::fs::remove_dir_all(&dir);
        unsafe { std::env::set_var("SNELDB_AUTH_WAL_DIR", &dir) };
        Arc::new(AuthManager::new(self.sm.clone()))
    }
    /// AuthManager re-opened on an existing auth WAL (server restart): caches loaded from disk.
    pub async fn reopen_auth(&self, n: u64) -> Arc<AuthManager> {
        let dir = self.root.join(format!("authwal{n}"));
        unsafe { std::env::set_var("SNELDB_AUTH_WAL_DIR", &dir) };
        let am = Arc::new(AuthManager::new(self.sm.clone()));
        // the start-up sequence of FrontendContext::from_config
        am.load_from_db().await.expect("load_from_db");
        am.bootstrap_admin_user().await.expect("bootstrap_admin_user");
        am.load_from_db().await.expect("load_from_db");
        am
    }
}
