//! C13 — "No data command runs without authentication and the required permission".
//!
//! Streams (one process each; `CONFIG` is process-wide):
//!   scenario  auth enabled (`auth.bypass_auth = false`): accounts, grants / revokes, request
//!             lines in every credential form through the real TCP gate
//!             (`verif_gate::Gate::check`), `parse_command`, `dispatch_command`.
//!   bypass    the same generator under `auth.bypass_auth = true`.
//!   expiry    token lifetime 5 s under the scripted token clock (`verif::set_token_clock`):
//!             requests at expires_at-1, expires_at, expires_at+1, after small steps and huge jumps.
//!   ratelimit `auth.rate_limit_enabled = true`, 1 failed attempt / s / IP: same decisions.
//!   witness   eight scripted scenarios: one minimal witness per finding class + controls.
//!
//! Model input line:  `scn <bypass> <manager> <expiry> <schemas> ; step ; step …`, steps
//!   mk id key roles | sp id et rw | dp id et | rk id | conn k | req k line parsed | tick d |
//!   restart | dir mgr uid parsed          (strings hex, lists `+`-joined, `_` = empty list)
//! Answer: one token per step (see `showOut` in lean/Drivers/C13.lean).
mod scen;
mod truth;
mod world;

use scen::{Account, CmdCtx, Two};
use snel_db::command::parser::parse_command;
use snel_db::command::types::Command;
use snel_db::engine::auth::{AuthManager, PermissionSet};
use snel_db::frontend::tcp::listener::verif_gate::Gate;
use snel_harness::enc::hexs;
use snel_harness::out::{parse_args, Stream};
use snel_harness::rng::Rng;
use std::collections::HashMap;
use std::sync::Arc;
use truth::Truth;
use world::World;

fn hexlist(xs: &[String]) -> String {
    if xs.is_empty() { "_".into() } else { xs.iter().map(|s| hexs(s)).collect::<Vec<_>>().join("+") }
}

/// What the model is told about the result of `parse_command` (C17 owns the parser).
struct Parsed {
    descr: String,
    kind: &'static str,
    reads: Vec<String>,   // event types the command reads (None-typed REPLAY: empty, see rows)
    write: Option<String>,
    admin: bool,
    tails: Vec<String>,
}

fn seq_tails(es: &Option<snel_db::command::types::EventSequence>) -> Vec<String> {
    es.as_ref().map(|s| s.links.iter().map(|(_, t)| t.event.clone()).collect()).unwrap_or_default()
}

fn payload_ok(v: &serde_json::Value) -> bool {
    match v.as_object() {
        Some(o) => o.len() == 2 && o.get("k").is_some_and(|k| k.is_i64()) && o.get("s").is_some_and(|s| s.is_string()),
        None => false,
    }
}

/// `key_override`: for CREATE USER without a key the generated one (read from the response).
fn describe(cmd: &Command, key_override: Option<&str>) -> Parsed {
    let mut p = Parsed { descr: String::new(), kind: "", reads: vec![], write: None, admin: false, tails: vec![] };
    match cmd {
        Command::Store { event_type, payload, .. } => {
            p.kind = "store";
            p.descr = format!("store/{}/{}", hexs(event_type), if payload_ok(payload) { 1 } else { 0 });
            p.write = Some(event_type.clone());
        }
        Command::Query { event_type, event_sequence, .. } => {
            p.kind = "query";
            p.tails = seq_tails(event_sequence);
            p.descr = format!("query/{}/{}", hexs(event_type), hexlist(&p.tails));
            p.reads = std::iter::once(event_type.clone()).chain(p.tails.iter().cloned()).collect();
        }
        Command::Compare { queries } => {
            p.kind = "compare";
            for q in queries {
                p.reads.push(q.event_type.clone());
                p.reads.extend(seq_tails(&q.event_sequence));
            }
            p.descr = format!("compare/{}", hexlist(&p.reads));
        }
        Command::Replay { event_type, .. } => {
            p.kind = "replay";
            p.descr = format!("replay/{}", event_type.as_ref().map(|e| hexs(e)).unwrap_or("*".into()));
            p.reads = event_type.iter().cloned().collect();
        }
        Command::RememberQuery { spec } => {
            p.kind = "remember";
            let (h, t) = match &*spec.query {
                Command::Query { event_type, event_sequence, .. } => (event_type.clone(), seq_tails(event_sequence)),
                _ => (String::new(), vec![]),
            };
            p.descr = format!("remember/{}/{}/{}", hexs(&spec.name), hexs(&h), hexlist(&t));
            p.reads = std::iter::once(h).chain(t).collect();
        }
        Command::ShowMaterialized { name } => {
            p.kind = "show";
            p.descr = format!("show/{}", hexs(name));
        }
        Command::Flush => { p.kind = "flush"; p.descr = "flush".into(); }
        Command::Ping => { p.kind = "ping"; p.descr = "ping".into(); }
        Command::Batch(_) => { p.kind = "batch"; p.descr = "batch".into(); }
        Command::Define { event_type, .. } => {
            p.kind = "define"; p.admin = true;
            p.descr = format!("define/{}", hexs(event_type));
        }
        Command::CreateUser { user_id, secret_key, roles } => {
            p.kind = "mkuser"; p.admin = true;
            let key = secret_key.as_deref().or(key_override).unwrap_or("");
            p.descr = format!("mkuser/{}/{}/{}", hexs(user_id), hexs(key), hexlist(roles.as_deref().unwrap_or(&[])));
        }
        Command::RevokeKey { user_id } => { p.kind = "revkey"; p.admin = true; p.descr = format!("revkey/{}", hexs(user_id)); }
        Command::ListUsers => { p.kind = "list"; p.admin = true; p.descr = "list".into(); }
        Command::GrantPermission { permissions, event_types, user_id } => {
            p.kind = "grant"; p.admin = true;
            p.descr = format!("grant/{}/{}/{}", hexlist(permissions), hexlist(event_types), hexs(user_id));
        }
        Command::RevokePermission { permissions, event_types, user_id } => {
            p.kind = "revoke"; p.admin = true;
            p.descr = format!("revoke/{}/{}/{}", hexlist(permissions), hexlist(event_types), hexs(user_id));
        }
        Command::ShowPermissions { user_id } => { p.kind = "showperm"; p.admin = true; p.descr = format!("showperm/{}", hexs(user_id)); }
    }
    p
}

/// Status class + the event types of returned rows (None = no row-bearing answer).
struct Answer {
    class: String,
    row_types: Vec<String>,
    rows: u64,
    text: String,
}

fn classify(out: Option<Vec<u8>>) -> Answer {
    let Some(out) = out else {
        return Answer { class: "panic".into(), row_types: vec![], rows: 0, text: String::new() };
    };
    let text = String::from_utf8_lossy(&out).to_string();
    let first = text.lines().next().unwrap_or("");
    if first.len() >= 4 && first.as_bytes()[..3].iter().all(|b| b.is_ascii_digit()) && first.as_bytes()[3] == b' ' {
        return Answer { class: first[..3].to_string(), row_types: vec![], rows: 0, text };
    }
    // streaming frames: schema / batch* / end
    let mut et_col = None;
    let mut types = vec![];
    let mut rows = 0u64;
    let mut nonzero = false;
    for l in text.lines() {
        let Ok(v) = serde_json::from_str::<serde_json::Value>(l) else { continue };
        match v["type"].as_str() {
            Some("schema") => {
                et_col = v["columns"].as_array().and_then(|c| c.iter().position(|x| x["name"] == "event_type"));
            }
            Some("batch") => {
                for row in v["rows"].as_array().into_iter().flatten() {
                    rows += 1;
                    if let Some(i) = et_col {
                        if let Some(t) = row[i].as_str() {
                            if !types.contains(&t.to_string()) {
                                types.push(t.to_string());
                            }
                        }
                    } else if row.as_array().is_some_and(|a| a.iter().any(|x| x.as_i64().is_some_and(|n| n != 0))) {
                        nonzero = true;
                    }
                }
            }
            _ => {}
        }
    }
    if et_col.is_none() && !nonzero {
        rows = 0; // aggregate rows that carry only zeros reveal no event
    }
    let class = if text.starts_with("{\"type\":\"schema\"") { "200" } else { "other" };
    Answer { class: class.into(), row_types: types, rows, text }
}

#[derive(Default)]
struct CaseOut {
    op: String,
    imp: String,
    nontrivial: bool,
    tallies: Vec<String>,
    oracle_ok: u64,
    oracle_fail: Vec<(String, String)>, // (class, detail)
}

struct Opts {
    bypass: bool,
    expiry: u64,
    allow_restart: bool,
    allow_flush: bool,
    /// the token clock is scripted (expiry stream); otherwise the real clock is followed
    scripted: bool,
}

fn api_name(e: &snel_db::engine::auth::AuthError) -> &'static str {
    use snel_db::engine::auth::AuthError::*;
    match e {
        UserExists => "exists",
        InvalidUserId => "badid",
        UserIdTooLong { .. } => "idlong",
        SecretKeyTooLong { .. } => "keylong",
        UserNotFound(_) => "nouser",
        _ => "other",
    }
}

/// One scenario in progress: the real objects, the harness' books, and the two transcripts.
struct Sess<'a> {
    w: &'a World,
    idx: u64,
    bypass: bool,
    has_mgr: bool,
    am: Arc<AuthManager>,
    truth: Truth,
    ops: Vec<String>,
    imp: Vec<String>,
    types: Vec<String>,
    schemas0: String,
    names: Vec<String>,
    name_types: HashMap<String, Vec<String>>,
    accounts: Vec<Account>,
    toks: Vec<Two>,
    gates: HashMap<u64, Gate>,
    co: CaseOut,
    /// wall clock (s) at the start of the scenario; the model's clock follows the real one
    base_s: u64,
    /// scripted token clock: `verif::set_token_clock(SCRIPT_BASE + truth.now)` before each gate call
    scripted: bool,
}
/// In the future of the real clock on purpose: the background sweep of every AuthManager
/// (`SessionStore::cleanup_expired`, types.rs) still reads the real clock and would otherwise
/// delete scripted-clock tokens as "expired" whenever it happens to run.
const SCRIPT_BASE: u64 = 4_000_000_000;

fn wall() -> std::time::Duration {
    std::time::SystemTime::now().duration_since(std::time::UNIX_EPOCH).unwrap()
}

impl<'a> Sess<'a> {
    fn new(w: &'a World, idx: u64, am: Arc<AuthManager>, bypass: bool, has_mgr: bool, expiry: u64) -> Self {
        let types: Vec<String> = vec!["ev_a".into(), "ev_b".into()];
        Sess {
            w, idx, bypass, has_mgr, am,
            truth: Truth { expiry, now: 0, ..Default::default() },
            ops: vec![], imp: vec![],
            schemas0: hexlist(&types), types,
            names: vec![], name_types: HashMap::new(), accounts: vec![], toks: vec![], gates: HashMap::new(),
            co: CaseOut::default(),
            base_s: wall().as_secs(),
            scripted: false,
        }
    }
    /// Brings the scenario clock (model + oracle) up to the real clock, which is what
    /// `generate_session_token` / `validate_session_token` read. Stays clear of second
    /// boundaries so that the gate call that follows reads the same second.
    async fn sync_clock(&mut self) {
        if self.scripted {
            snel_db::verif::set_token_clock(Some(SCRIPT_BASE + self.truth.now));
            return;
        }
        let frac = wall().subsec_millis();
        if frac > 900 {
            tokio::time::sleep(std::time::Duration::from_millis((1010 - frac) as u64)).await;
        }
        let now_s = wall().as_secs() - self.base_s;
        if now_s > self.truth.now {
            let d = now_s - self.truth.now;
            self.truth.now = now_s;
            self.ops.push(format!("tick {d}"));
            self.imp.push(".".into());
        }
    }
    fn key_of(&self, id: &str) -> String {
        self.accounts.iter().find(|a| a.id == id).map(|a| a.key.clone()).unwrap_or_default()
    }
    async fn mk(&mut self, id: &str, key: &str, roles: &[String]) {
        let res = self.am.create_user_with_roles(id.to_string(), Some(key.to_string()), roles.to_vec()).await;
        self.ops.push(format!("mk {} {} {}", hexs(id), hexs(key), hexlist(roles)));
        match res {
            Ok(_) => {
                self.imp.push("ok".into());
                self.truth.add_user(id, key, roles);
                self.truth.history.push(format!("create user {id} roles {roles:?}"));
                self.accounts.push(Account { id: id.to_string(), key: key.to_string(), roles: roles.to_vec() });
            }
            Err(e) => {
                self.co.tallies.push(format!("mk={}", api_name(&e)));
                self.imp.push(api_name(&e).into());
            }
        }
    }
    async fn set_perm(&mut self, id: &str, et: &str, rd: bool, wr: bool) {
        let res = self.am.grant_permission(id, et, PermissionSet::new(rd, wr)).await;
        self.ops.push(format!("sp {} {} {}{}", hexs(id), hexs(et), rd as u8, wr as u8));
        self.imp.push(if res.is_ok() { "ok".into() } else { "nouser".into() });
        if res.is_ok() {
            self.truth.set_rights(id, et, rd, wr);
            self.truth.hist_set(id, et, rd, wr);
            self.truth.history.push(format!("operator sets {id}/{et} to read={rd} write={wr}"));
        }
    }
    async fn drop_perm(&mut self, id: &str, et: &str) {
        let res = self.am.revoke_permission(id, et).await;
        self.ops.push(format!("dp {} {}", hexs(id), hexs(et)));
        self.imp.push(if res.is_ok() { "ok".into() } else { "nouser".into() });
        self.truth.set_rights(id, et, false, false);
        if res.is_ok() {
            self.truth.hist_drop(id, et);
            self.truth.history.push(format!("operator removes the explicit set {id}/{et}"));
        }
    }
    async fn rev_key(&mut self, id: &str) {
        let res = self.am.revoke_key(id).await;
        self.ops.push(format!("rk {}", hexs(id)));
        self.imp.push(if res.is_ok() { "ok".into() } else { "nouser".into() });
        self.truth.revoke_key(id);
        if res.is_ok() {
            self.truth.history.push(format!("operator revokes key of {id}"));
        }
    }
    async fn restart(&mut self) {
        self.am = self.w.reopen_auth(self.idx).await;
        self.gates.clear();
        self.truth.restart();
        self.truth.history.push("RESTART (new AuthManager, load_from_db / bootstrap_admin_user / load_from_db)".into());
        self.ops.push("restart".into());
        self.imp.push(".".into());
    }
    /// Scripted clock: `d` seconds pass (no real waiting).
    fn advance(&mut self, d: u64) {
        if d > 0 {
            self.truth.now += d;
            self.ops.push(format!("tick {d}"));
            self.imp.push(".".into());
        }
    }
    fn open_conn(&mut self, k: u64) {
        if !self.gates.contains_key(&k) {
            self.gates.insert(k, Gate::new(if self.has_mgr { Some(self.am.clone()) } else { None }, "127.0.0.1".into()));
            self.truth.conns.insert(k, None);
            self.ops.push(format!("conn {k}"));
            self.imp.push(".".into());
        }
    }
    fn bound(&self, k: u64) -> Option<String> {
        self.truth.conns.get(&k).cloned().flatten()
    }

    /// dispatch_command without a gate (the handlers' own 401 / no-manager branches).
    async fn direct(&mut self, mgr: bool, uid: Option<&str>, pc: Command) {
        let res = self.w.run_cmd(if mgr { Some(&self.am) } else { None }, uid, pc.clone()).await;
        let ans = classify(res);
        let keyo = ans.text.lines().find_map(|l| l.strip_prefix("Secret key: ")).map(|s| s.to_string());
        let p = describe(&pc, keyo.as_deref());
        self.ops.push(format!("dir {} {} {}", mgr as u8, uid.map(hexs).unwrap_or("~".into()), p.descr));
        self.imp.push(ans.class.clone());
        self.co.tallies.push(format!("dir={}", ans.class));
        // keep the books (a gate-less call is the harness acting as operator)
        self.apply_effects(&pc, &p, &ans, keyo.as_deref(), true);
    }

    /// One request line on connection `k`: real gate, parser, dispatcher; transcript; oracle.
    async fn request(&mut self, k: u64, line: &Two) {
        self.open_conn(k);
        self.sync_clock().await;
        let bound = self.bound(k);
        let g = self.gates.get_mut(&k).unwrap();
        let base = line.real.as_ptr() as usize;
        let verdict = g.check(&line.real).await.map(|(c, _, u, t)| ((c.to_string(), (c.as_ptr() as usize).wrapping_sub(base)), u, t));
        match verdict {
            None => {
                self.ops.push(format!("req {k} {} -", hexs(&line.toy)));
                self.imp.push("R".into());
                self.co.tallies.push("gate=reject".into());
                self.co.oracle_ok += 1;
            }
            Some((_, user, Some(token))) => {
                // AUTH accepted
                let user = user.unwrap_or_default();
                self.ops.push(format!("req {k} {} -", hexs(&line.toy)));
                self.imp.push(format!("A.{}", hexs(&user)));
                self.co.tallies.push("gate=auth-ok".into());
                if self.bypass || !self.has_mgr || self.truth.auth_ok(&line.real, &user) {
                    self.co.oracle_ok += 1;
                } else {
                    self.co.oracle_fail.push(("-".into(), format!("AUTH accepted for {user:?} without a valid signature of an active user: {:?}", line.real)));
                }
                self.truth.conns.insert(k, Some(user.clone()));
                self.truth.tokens.push(truth::TTok { real: token.clone(), owner: user, alive: true, minted_at: self.truth.now });
                self.toks.push(Two { real: token, toy: scen::toy_token(self.toks.len() as u64) });
            }
            Some(((gcmd, goff), user, None)) => {
                let user = user.unwrap_or_default();
                self.co.tallies.push("gate=pass".into());
                let parsed = parse_command(&gcmd);
                let (descr, ans, pinfo, pc) = match parsed {
                    Err(_) => ("perr".to_string(), None, None, None),
                    Ok(pc) => {
                        let res = self.w.run_cmd(if self.has_mgr { Some(&self.am) } else { None }, Some(&user), pc.clone()).await;
                        let ans = classify(res);
                        let keyo = ans.text.lines().find_map(|l| l.strip_prefix("Secret key: ")).map(|s| s.to_string());
                        let p = describe(&pc, keyo.as_deref());
                        (p.descr.clone(), Some((ans, keyo)), Some(p), Some(pc))
                    }
                };
                self.ops.push(format!("req {k} {} {}", hexs(&line.toy), descr));
                let class = ans.as_ref().map(|a| a.0.class.clone()).unwrap_or("perr".into());
                // the command text as the model will print it (toy rendering of the same slice)
                let toy_cmd = toy_slice(line, &gcmd, goff);
                self.imp.push(format!("P.{}.{}.{}", hexs(&toy_cmd), hexs(&user), class));
                self.co.tallies.push(format!("class={class}"));
                if class == "200" {
                    self.co.nontrivial = true;
                }
                // ---- oracle
                if self.bypass || !self.has_mgr {
                    self.co.oracle_ok += 1; // authentication is configured off: nothing to demand
                } else {
                    match self.truth.credential_ok(&line.real, bound.as_deref(), &gcmd, &user) {
                        Some(f) => { self.co.tallies.push(format!("accepted-by={f}")); self.co.oracle_ok += 1; }
                        None => self.co.oracle_fail.push(("-".into(), format!(
                            "gate passed ({gcmd:?}, {user:?}) without a valid credential; line {:?} bound {:?}", line.real, bound))),
                    }
                    if let (Some((a, _)), Some(p)) = (&ans, &pinfo) {
                        judge(&self.truth, &user, p, a, &self.name_types, &mut self.co, &gcmd);
                    }
                }
                if let (Some((a, keyo)), Some(p), Some(pc)) = (&ans, &pinfo, &pc) {
                    let by_admin = self.truth.is_admin(&user) || self.bypass || !self.has_mgr || user == "bypass";
                    self.apply_effects(pc, p, a, keyo.as_deref(), by_admin);
                }
            }
        }
    }

    /// `user:sig:cmd` with a valid signature.
    fn inline(&self, user: &str, cmd: &str) -> Two {
        let c = Two::lit(cmd);
        let mut l = Two::lit(&format!("{user}:"));
        l.push2(&scen::sig(&self.key_of(user), &c));
        l.push(":");
        l.push2(&c);
        l
    }

    /// Book-keeping after an executed command: the harness' own view of accounts / names / types.
    fn apply_effects(&mut self, pc: &Command, p: &Parsed, a: &Answer, keyo: Option<&str>, by_admin: bool) {
        match pc {
            Command::Define { event_type, .. } if a.class == "200" => {
                if !self.types.contains(event_type) { self.types.push(event_type.clone()); }
            }
            Command::RememberQuery { spec } if a.class == "200" => {
                self.names.push(spec.name.clone());
                self.name_types.insert(spec.name.clone(), p.reads.clone());
            }
            Command::CreateUser { user_id, secret_key, roles } if a.class == "200" => {
                let key = secret_key.clone().or(keyo.map(|s| s.to_string())).unwrap_or_default();
                let roles = roles.clone().unwrap_or_default();
                self.truth.add_user(user_id, &key, &roles);
                self.truth.history.push(format!("CREATE USER {user_id} roles {roles:?}"));
                self.accounts.push(Account { id: user_id.clone(), key, roles });
            }
            Command::RevokeKey { user_id } if a.class == "200" => {
                self.truth.revoke_key(user_id);
                self.truth.history.push(format!("REVOKE KEY {user_id}"));
            }
            // a GRANT issued by someone entitled to counts for every listed type, even when the
            // handler stopped half-way (the oracle must never demand more than the property)
            Command::GrantPermission { permissions, event_types, user_id } if by_admin && a.class != "401" && a.class != "403" => {
                for et in event_types {
                    for pm in permissions {
                        match pm.as_str() {
                            "read" => { self.truth.grant(user_id, et, "read"); self.truth.hist_grant(user_id, et, "read") }
                            "write" => { self.truth.grant(user_id, et, "write"); self.truth.hist_grant(user_id, et, "write") }
                            _ => {}
                        }
                    }
                }
                self.truth.history.push(format!("GRANT {permissions:?} ON {event_types:?} TO {user_id} (status {})", a.class));
            }
            Command::RevokePermission { permissions, event_types, user_id } if a.class == "200" => {
                for et in event_types {
                    if permissions.is_empty() || permissions.iter().any(|x| x == "read") { self.truth.ungrant(user_id, et, "read"); self.truth.hist_revoke(user_id, et, "read"); }
                    if permissions.is_empty() || permissions.iter().any(|x| x == "write") { self.truth.ungrant(user_id, et, "write"); self.truth.hist_revoke(user_id, et, "write"); }
                }
                self.truth.history.push(format!("REVOKE {permissions:?} ON {event_types:?} FROM {user_id}"));
            }
            _ => {}
        }
    }

    fn finish(mut self, expiry: u64) -> CaseOut {
        self.co.op = format!("scn {} {} {} {} ; {}", self.bypass as u8, self.has_mgr as u8, expiry, self.schemas0, self.ops.join(" ; "));
        self.co.imp = self.imp.join(" ");
        self.co
    }
}

async fn run_case(w: &World, seed: u64, stream: &str, i: u64, am0: Arc<AuthManager>, o: &Opts) -> CaseOut {
    let mut r = Rng::for_case(seed, stream, i);
    let tag = format!("{}x{}", seed % 100000, i);
    let has_mgr = o.bypass || !r.chance(1, 25);
    let mut s = Sess::new(w, i, am0, o.bypass, has_mgr, o.expiry);
    s.scripted = o.scripted;
    let mut fresh = 0u64;
    // after a clock step aimed at a token's expiry: use exactly that token next
    let mut force_token: Option<usize> = None;

    // ---- accounts through the API (what bootstrap / an operator does)
    // One case in three contains the episode "role holder — full revoke on one type — restart —
    // the same user asks for that type again" (see `revoke_reload_episode`).
    let episode = has_mgr && r.chance(1, 3);
    let mut ids = scen::gen_ids(&mut r);
    ids.insert(0, "root".into());
    for (n, id) in ids.iter().enumerate() {
        let mut key = if r.chance(1, 40) { "z".repeat(513) } else { scen::gen_key(&mut r) };
        let mut roles: Vec<String> = if n == 0 { vec!["admin".into()] } else { r.pick(scen::ROLE_SETS).iter().map(|s| s.to_string()).collect() };
        if episode && n == 1 {
            // the focus account holds a broad role
            roles = vec![r.pick(&["editor", "read-only", "viewer", "write-only"]).to_string()];
            if key.len() > 512 { key = "fk".into(); }
        }
        if n == 0 && key.len() > 512 {
            key = "rk".into(); // the admin account always exists (every other account may be refused)
        }
        s.mk(id, &key, &roles).await;
    }
    // the account and type that grants / revokes / requests concentrate on
    let focus_user: Option<String> = s.accounts.iter().skip(1).map(|a| a.id.clone()).next();
    let focus_type: String = r.pick(&["ev_a", "ev_b"]).to_string();
    // ---- some per-type permission sets through the API
    for _ in 0..(1 + r.below(6)) {
        let a = if let (Some(f), true) = (&focus_user, r.chance(1, 2)) { s.accounts.iter().find(|a| a.id == *f).unwrap().clone() } else { r.pick(&s.accounts).clone() };
        let et = if r.chance(1, 2) { focus_type.clone() } else { r.pick(&["ev_a", "ev_b", "ev_x"]).to_string() };
        let (rd, wr) = (r.chance(1, 2), r.chance(1, 2));
        s.set_perm(&a.id, &et, rd, wr).await;
    }

    let nsteps = 6 + r.below(14);
    let episode_at = r.below(4);
    for step_no in 0..nsteps {
        if episode && step_no == episode_at {
            if let Some(f) = focus_user.clone() {
                revoke_reload_episode(&mut s, &mut r, &f, &focus_type).await;
            }
        }
        let choice = r.below(100);
        if choice < 6 {
            // API-level change between requests
            let a = if let (Some(f), true) = (&focus_user, r.chance(1, 2)) { s.accounts.iter().find(|a| a.id == *f).unwrap().clone() } else { r.pick(&s.accounts).clone() };
            match r.below(4) {
                0 => { s.rev_key(&a.id).await; s.co.tallies.push("api=revoke_key".into()); }
                1 => {
                    let et = if r.chance(1, 2) { focus_type.clone() } else { r.pick(&s.types).clone() };
                    s.drop_perm(&a.id, &et).await;
                    s.co.tallies.push("api=revoke_permission".into());
                }
                _ => {
                    let et = if r.chance(1, 2) { focus_type.clone() } else { r.pick(&s.types).clone() };
                    let (rd, wr) = (r.chance(1, 2), r.chance(1, 2));
                    s.set_perm(&a.id, &et, rd, wr).await;
                    s.co.tallies.push("api=grant_permission".into());
                }
            }
            continue;
        }
        if choice < 8 && o.allow_restart && has_mgr {
            s.restart().await;
            s.co.tallies.push("restart".into());
            continue;
        }
        if choice < 22 && o.scripted {
            // clock steps: aimed at a token's last second (expires_at-1, expires_at, expires_at+1),
            // small steps, huge jumps
            let mode = r.below(10);
            if mode < 6 && !s.truth.tokens.is_empty() {
                let ti = r.below(s.truth.tokens.len() as u64) as usize;
                let delta = r.below(3); // 0: expires_at-1, 1: expires_at, 2: expires_at+1
                let target = s.truth.tokens[ti].minted_at + o.expiry + delta - 1;
                if target >= s.truth.now {
                    let d = target - s.truth.now;
                    s.advance(d);
                    force_token = Some(ti);
                    s.co.tallies.push(format!("clock=expires_at{:+}", delta as i64 - 1));
                    continue;
                }
            }
            let d = *r.pick(&[1u64, 1, 2, 3, o.expiry, 1000, 86_400, 4_000_000_000]);
            s.advance(d);
            s.co.tallies.push(if d > 100 { "clock=jump".into() } else { "clock=step".to_string() });
            continue;
        }
        // ---- a command text
        fresh += 1;
        let mut creds: Vec<Two> = vec![];
        if let Some(t) = s.toks.last() {
            let mut c = Two::lit("TOKEN ");
            c.push2(t);
            creds.push(c.clone());
            let mut c2 = Two::lit("x TOKEN ");
            c2.push2(t);
            creds.push(c2);
        }
        {
            let a = &s.accounts[0];
            let m = Two::lit("FLUSH");
            let mut c = Two::lit(&format!("{}:", a.id));
            c.push2(&scen::sig(&a.key, &m));
            c.push(":FLUSH");
            creds.push(c);
            let mut c = Two::lit(&format!("AUTH {}:", a.id));
            c.push2(&scen::sig(&a.key, &Two::lit(&a.id)));
            creds.push(c);
            creds.push(Two::lit("a TOKEN 0123456789abcdef"));
        }
        let user_ids: Vec<String> = s.accounts.iter().map(|a| a.id.clone()).collect();
        let (mut cmd, label) = {
            let ctx = CmdCtx {
                types: &s.types,
                users: &user_ids,
                names: &s.names,
                fresh_type: format!("t{tag}n{fresh}"),
                fresh_name: format!("m{tag}n{fresh}"),
                fresh_user: format!("nu{fresh}"),
                creds: &creds,
                focus_user: focus_user.clone(),
                focus_type: focus_type.clone(),
            };
            scen::gen_command(&mut r, &ctx)
        };
        if label == "FLUSH" && !o.allow_flush {
            cmd = Two::lit("PING");
        }
        s.co.tallies.push(format!("cmd={label}"));

        if choice < 16 && force_token.is_none() {
            // direct dispatch (no gate): the handlers' own 401 / no-manager branches
            let mgr = !r.chance(1, 4);
            let uid: Option<String> = match r.below(4) {
                0 => None,
                1 => Some("bypass".into()),
                2 => Some("no-auth".into()),
                _ => Some(r.pick(&s.accounts).id.clone()),
            };
            let Ok(pc) = parse_command(&cmd.real) else { continue };
            s.direct(mgr, uid.as_deref(), pc).await;
            continue;
        }

        // ---- a request line on a connection
        let k = r.below(3);
        s.open_conn(k);
        let bound = s.bound(k);
        let is_mgmt = matches!(label, "CREATE USER" | "REVOKE KEY" | "LIST USERS" | "GRANT" | "REVOKE" | "SHOW PERMISSIONS" | "DEFINE");
        let acct = if is_mgmt && r.chance(3, 5) {
            s.accounts[0].clone() // root: management commands that actually go through
        } else if let (Some(f), true) = (&focus_user, r.chance(2, 5)) {
            s.accounts.iter().find(|a| a.id == *f).unwrap().clone()
        } else {
            r.pick(&s.accounts).clone()
        };
        let other = r.pick(&s.accounts).clone();
        let form = if force_token.is_some() { 20 } else { r.below(100) };
        let mut line = Two::default();
        let form_label: &'static str;
        if form < 14 {
            // AUTH user:sig  (signature over the user id)
            form_label = "AUTH";
            let uid = if r.chance(1, 10) { "ghost".to_string() } else { acct.id.clone() };
            let (sg, sl) = scen::sig_variant(&mut r, &acct.key, &other.key, &Two::lit(&uid), 75);
            s.co.tallies.push(format!("sig={sl}"));
            line.push(&scen::flip_case(&mut r, "AUTH"));
            line.push(*r.pick(&[" ", " ", "  ", " \t"]));
            if r.chance(1, 12) {
                line.push(&uid); // no colon at all
            } else {
                line.push(&format!("{uid}:"));
                line.push2(&sg);
            }
            if !s.toks.is_empty() && r.chance(1, 10) {
                // AUTH line that also ends in a live token: the AUTH branch comes first
                let t = r.pick(&s.toks).clone();
                line.push(" TOKEN ");
                line.push2(&t);
                s.co.tallies.push("auth+token".into());
            }
        } else if form < (if o.scripted { 50 } else { 34 }) && !s.toks.is_empty() {
            form_label = "TOKEN";
            let forced = force_token.take();
            let ti = forced.unwrap_or_else(|| r.below(s.toks.len() as u64) as usize);
            let t = s.toks[ti].clone();
            let mut c = cmd.clone();
            // sometimes an (unneeded, possibly bad) signature prefix as well
            if forced.is_none() && r.chance(1, 6) {
                let mut l2 = Two::lit(&format!("{}:", acct.id));
                l2.push2(&scen::sig(&acct.key, &cmd));
                l2.push(":");
                l2.push2(&c);
                c = l2;
            }
            line.push2(&c);
            let tv = if forced.is_some() || (o.scripted && r.chance(1, 2)) { 11 } else { r.below(12) };
            let tl = match tv {
                0 => { line.push(" token "); line.push2(&t); "lowercase-marker" }
                1 => { line.push(" TOKEN "); line.push(&scen::rand_hex(&mut r, 64)); "unknown" }
                2 => { line.push(" TOKEN "); line.push2(&Two { real: t.real[..60].into(), toy: t.toy[..60].into() }); "truncated" }
                3 => { line.push(" TOKEN "); line.push2(&t); line.push(" x"); "trailing-text" }
                4 => { line.push(" TOKEN "); line.push2(&t); line.push(&"0".repeat(65)); "overlong" }
                5 => { line.push(" TOKEN "); line.push2(&t); line.push(" TOKEN "); line.push(&scen::rand_hex(&mut r, 64)); "two-markers-bad-last" }
                6 => { line.push(" TOKEN "); line.push(&scen::rand_hex(&mut r, 64)); line.push(" TOKEN "); line.push2(&t); "two-markers-good-last" }
                7 => { line.push(" TOKEN   "); line.push2(&t); "extra-spaces" }
                8 => { line.push("  TOKEN "); line.push2(&Two { real: t.real.to_uppercase(), toy: t.toy.to_uppercase() }); "uppercase" }
                _ => { line.push(" TOKEN "); line.push2(&t); "exact" }
            };
            s.co.tallies.push(format!("token={tl}"));
            if tv >= 9 || tv == 6 || tv == 7 {
                let tt = &s.truth.tokens[ti];
                let age = if o.scripted { s.truth.now - tt.minted_at } else { (wall().as_secs() - s.base_s).saturating_sub(tt.minted_at) };
                let state = if !tt.alive {
                    "dead(revoked/restart)".to_string()
                } else if age > o.expiry {
                    (if age == o.expiry + 1 { "expired(expires_at+1)" } else { "expired(later)" }).to_string()
                } else if age + 1 >= o.expiry {
                    format!("live(expires_at{:+})", age as i64 - o.expiry as i64)
                } else {
                    "live(early)".to_string()
                };
                s.co.tallies.push(format!("well-formed-token={state}"));
            }
        } else if form < 60 && bound.is_some() {
            // connection-bound  sig:cmd  (signature over the trimmed command)
            form_label = "BOUND";
            let b = bound.clone().unwrap();
            let bkey = s.key_of(&b);
            let c = if r.chance(1, 5) { let mut c = Two::lit(" "); c.push2(&cmd); c.push(" "); c } else { cmd.clone() };
            let trimmed = Two { real: c.real.trim().into(), toy: c.toy.trim().into() };
            let (sg, sl) = scen::sig_variant(&mut r, &bkey, &other.key, &trimmed, 80);
            s.co.tallies.push(format!("sig={sl}"));
            if r.chance(1, 15) {
                line.push2(&c); // no signature at all on a bound connection
            } else {
                line.push2(&sg);
                line.push(":");
                line.push2(&c);
            }
        } else if form < 92 {
            // inline  user:sig:cmd  (signature over the text after the second colon, as is)
            form_label = "INLINE";
            let uid = match r.below(14) {
                0 => "ghost".to_string(),
                1 => "".to_string(),
                2 => "u".repeat(65),
                _ => acct.id.clone(),
            };
            let c = if r.chance(1, 6) { let mut c = Two::lit(" "); c.push2(&cmd); c } else { cmd.clone() };
            let (sg, sl) = scen::sig_variant(&mut r, &acct.key, &other.key, &c, 80);
            s.co.tallies.push(format!("sig={sl}"));
            line.push(&format!("{uid}:"));
            line.push2(&sg);
            line.push(":");
            line.push2(&c);
        } else {
            form_label = "RAW";
            line.push2(&cmd);
        }
        let line = scen::pad(&mut r, &line);
        s.co.tallies.push(format!("form={form_label}"));
        s.request(k, &line).await;
    }
    s.finish(o.expiry)
}

/// The shape that decides "revoking a permission takes effect — also across a restart":
/// a role holder loses both rights on one type (REVOKE READ, WRITE / the operator's all-false set /
/// GRANT of one right followed by its REVOKE), is refused, the auth layer restarts from its WAL,
/// and the same user asks to read and to write that type again.
async fn revoke_reload_episode(s: &mut Sess<'_>, r: &mut Rng, user: &str, et: &str) {
    let store = format!("STORE {et} FOR c1 PAYLOAD {{\"k\":7,\"s\":\"x\"}}");
    let query = format!("QUERY {et}");
    let how = r.below(4);
    match how {
        0 => { let l = s.inline("root", &format!("REVOKE READ, WRITE ON {et} FROM {user}")); s.request(0, &l).await; }
        1 => { s.set_perm(user, et, false, false).await; }
        2 => {
            let l = s.inline("root", &format!("GRANT READ ON {et} TO {user}")); s.request(0, &l).await;
            let l = s.inline("root", &format!("REVOKE READ ON {et} FROM {user}")); s.request(0, &l).await;
        }
        _ => {
            let l = s.inline("root", &format!("REVOKE WRITE ON {et} FROM {user}")); s.request(0, &l).await;
            let l = s.inline("root", &format!("REVOKE READ ON {et} FROM {user}")); s.request(0, &l).await;
        }
    }
    s.co.tallies.push(format!("episode/revoke-form={}", ["REVOKE READ,WRITE", "operator all-false set", "GRANT READ then REVOKE READ", "REVOKE WRITE then REVOKE READ"][how as usize]));
    // refused right away …
    let (l1, l2) = (s.inline(user, &query), s.inline(user, &store));
    s.request(1, &l1).await;
    s.request(1, &l2).await;
    // … and after a restart
    s.restart().await;
    let first_read = r.chance(1, 2);
    let demand_r = s.truth.must_deny_read(user, et);
    let demand_w = s.truth.must_deny_write(user, et);
    for read in if first_read { [true, false] } else { [false, true] } {
        let l = s.inline(user, if read { &query } else { &store });
        s.request(1, &l).await;
    }
    s.co.tallies.push("episode: role holder, full revoke, restart, read request by that user".into());
    s.co.tallies.push("episode: role holder, full revoke, restart, write request by that user".into());
    if demand_r { s.co.tallies.push("episode: oracle demands refusal of the read after restart".into()); }
    if demand_w { s.co.tallies.push("episode: oracle demands refusal of the write after restart".into()); }
}

/// Scripted scenarios: one minimal witness per finding class, plus controls that the same
/// account is refused where a handler does check. Compared with the model like any other case.
async fn run_witness(w: &World, i: u64, am0: Arc<AuthManager>) -> CaseOut {
    let mut s = Sess::new(w, i, am0, false, true, 300);
    let none: Vec<String> = vec![];
    s.mk("root", "rk", &["admin".to_string()]).await;
    s.mk("eve", "ek", &none).await;
    let tag = format!("w{}p{}", i, std::process::id());
    macro_rules! req { ($u:expr, $c:expr) => {{ let l = s.inline($u, $c); s.request(0, &l).await; }}; }
    match i {
        0 => { req!("eve", "QUERY ev_a"); req!("eve", "REPLAY FOR c1"); req!("eve", "REPLAY ev_a FOR c1"); }
        1 => { let c = format!("REMEMBER QUERY ev_a AS {tag}"); req!("root", &c); req!("eve", "QUERY ev_a"); let c = format!("SHOW {tag}"); req!("eve", &c); }
        2 => { let c = format!("REMEMBER QUERY ev_a AS {tag}"); req!("eve", &c); let c = format!("SHOW {tag}"); req!("eve", &c); }
        3 => { req!("eve", "PLOT count OF ev_a"); req!("eve", "PLOT count OF ev_a VS count OF ev_b"); }
        4 => { req!("eve", "STORE ev_a FOR c1 PAYLOAD {\"k\":7,\"s\":\"x\"}"); req!("eve", "FLUSH"); }
        5 => {
            // control (was the witness of C13-user-id-bypass): the id is refused, nobody signs as it
            req!("root", "CREATE USER no-auth WITH KEY \"nk\"");
            req!("root", "CREATE USER bypass WITH KEY \"bk\"");
            req!("bypass", "QUERY ev_a");
            req!("bypass", "STORE ev_a FOR c1 PAYLOAD {\"k\":7,\"s\":\"x\"}");
            let c = format!("DEFINE t{tag} FIELDS {{ k: \"int\", s: \"string\" }}");
            req!("bypass", &c);
            req!("bypass", "CREATE USER mallory WITH KEY \"mk\" WITH ROLES [\"admin\"]");
            req!("bypass", "GRANT READ ON ev_a TO eve");
        }
        6 => {
            // control (was the witness of C13-sequence-tail): head readable, target not → 403
            req!("root", "GRANT READ ON ev_a TO eve");
            req!("eve", "QUERY ev_a");
            req!("eve", "QUERY ev_b");
            req!("eve", "QUERY ev_a FOLLOWED BY ev_b LINKED BY k");
            req!("eve", "QUERY ev_b PRECEDED BY ev_a LINKED BY k");
            req!("root", "GRANT READ ON ev_b TO eve");
            req!("eve", "QUERY ev_a FOLLOWED BY ev_b LINKED BY k");
        }
        7 => {
            // controls: the checking handlers refuse eve; revocation bites at once
            req!("eve", "STORE ev_a FOR c1 PAYLOAD {\"k\":7,\"s\":\"x\"}");
            req!("eve", "DEFINE zz FIELDS { k: \"int\" }");
            req!("eve", "CREATE USER m2");
            req!("eve", "GRANT READ ON ev_a TO eve");
            req!("root", "GRANT READ, WRITE ON ev_a TO eve");
            req!("eve", "QUERY ev_a");
            req!("eve", "STORE ev_a FOR c1 PAYLOAD {\"k\":7,\"s\":\"x\"}");
            req!("root", "REVOKE READ, WRITE ON ev_a FROM eve");
            req!("eve", "QUERY ev_a");
            req!("eve", "STORE ev_a FOR c1 PAYLOAD {\"k\":7,\"s\":\"x\"}");
            let l = Two::lit("QUERY ev_a"); s.request(0, &l).await;
            let l = { let mut l = Two::lit("AUTH eve:"); l.push2(&scen::sig("ek", &Two::lit("eve"))); l }; s.request(1, &l).await;
            let l = { let c = Two::lit("PING"); let mut l = scen::sig("ek", &c); l.push(":PING"); l }; s.request(1, &l).await;
            let t = s.toks[0].clone();
            let l = { let mut l = Two::lit("PING TOKEN "); l.push2(&t); l }; s.request(2, &l).await;
            req!("root", "REVOKE KEY eve");
            let l = { let c = Two::lit("PING"); let mut l = scen::sig("ek", &c); l.push(":PING"); l }; s.request(1, &l).await;
            let l = { let mut l = Two::lit("PING TOKEN "); l.push2(&t); l }; s.request(2, &l).await;
            req!("eve", "PING");
        }
        8 => {
            // GRANT merges, REVOKE removes what it names, a failing GRANT keeps its earlier types
            let st = "STORE ev_a FOR c1 PAYLOAD {\"k\":7,\"s\":\"x\"}";
            req!("root", "GRANT READ ON ev_a TO eve");
            req!("root", "GRANT WRITE ON ev_a TO eve");
            req!("eve", "QUERY ev_a"); req!("eve", st);
            req!("root", "REVOKE WRITE ON ev_a FROM eve");
            req!("eve", "QUERY ev_a"); req!("eve", st);
            req!("root", "REVOKE READ ON ev_a FROM eve");
            req!("eve", "QUERY ev_a"); req!("eve", st);
            req!("root", "GRANT READ, WRITE ON ev_b, ev_x TO eve");
            req!("eve", "QUERY ev_b"); req!("eve", "QUERY ev_x");
            req!("root", "GRANT READ ON ev_a TO nobody");
            req!("root", "REVOKE READ ON ev_a FROM nobody");
            req!("root", "SHOW PERMISSIONS FOR eve");
            req!("eve", "SHOW PERMISSIONS FOR eve");
            req!("eve", "LIST USERS");
        }
        9 => {
            // roles against explicit permission sets
            let st = "STORE ev_a FOR c1 PAYLOAD {\"k\":7,\"s\":\"x\"}";
            for (id, role) in [("ed", "editor"), ("vw", "viewer"), ("ro", "read-only"), ("wo", "write-only"), ("ad", "admin"), ("xx", "auditor")] {
                s.mk(id, "k", &[role.to_string()]).await;
            }
            for id in ["ed", "vw", "ro", "wo", "ad", "xx"] { req!(id, "QUERY ev_a"); req!(id, st); req!(id, "LIST USERS"); }
            // explicit sets override roles for write, and for read only when all-false
            for id in ["ed", "vw", "wo", "ad"] { s.set_perm(id, "ev_a", false, false).await; req!(id, "QUERY ev_a"); req!(id, st); }
            for id in ["ed", "vw", "wo"] { s.set_perm(id, "ev_a", false, true).await; req!(id, "QUERY ev_a"); req!(id, st); }
            for id in ["ed", "vw", "wo"] { s.set_perm(id, "ev_a", true, false).await; req!(id, "QUERY ev_a"); req!(id, st); }
            for id in ["ed", "vw", "wo"] { s.drop_perm(id, "ev_a").await; req!(id, "QUERY ev_a"); req!(id, st); }
            req!("root", "REVOKE READ ON ev_b FROM ed");
            req!("ed", "QUERY ev_b"); req!("ed", "STORE ev_b FOR c1 PAYLOAD {\"k\":7,\"s\":\"x\"}");
        }
        10 => {
            // control: an explicit denial under a role survives a restart (read and write)
            let st = "STORE ev_a FOR c1 PAYLOAD {\"k\":7,\"s\":\"x\"}";
            for (id, role) in [("ed", "editor"), ("vw", "viewer"), ("wo", "write-only")] {
                s.mk(id, "k", &[role.to_string()]).await;
            }
            req!("root", "REVOKE READ, WRITE ON ev_a FROM ed");
            req!("root", "GRANT READ ON ev_a TO vw");
            req!("root", "REVOKE READ ON ev_a FROM vw");
            s.set_perm("wo", "ev_a", false, false).await;
            for id in ["ed", "vw", "wo"] { req!(id, "QUERY ev_a"); req!(id, st); req!(id, "QUERY ev_b"); }
            s.restart().await;
            for id in ["ed", "vw", "wo"] { req!(id, "QUERY ev_a"); req!(id, st); req!(id, "QUERY ev_b"); }
            req!("root", "SHOW PERMISSIONS FOR ed");
            req!("root", "GRANT WRITE ON ev_a TO ed");
            s.restart().await;
            req!("ed", st); req!("ed", "QUERY ev_a");
        }
        _ => {}
    }
    s.co.tallies.push(format!("witness={i}"));
    s.finish(300)
}
const WITNESSES: u64 = 11;

/// The model sees the toy rendering of the line; the command the real gate returned is a
/// sub-slice of the real line at some byte offset — the same offsets in the toy line.
fn toy_slice(line: &Two, gcmd: &str, off: usize) -> String {
    if off.checked_add(gcmd.len()).is_some_and(|e| e <= line.real.len()) && line.real.len() == line.toy.len() {
        if line.toy.is_char_boundary(off) && line.toy.is_char_boundary(off + gcmd.len()) {
            return line.toy[off..off + gcmd.len()].to_string();
        }
    }
    gcmd.to_string()
}

/// Property oracle for one executed request.
fn judge(truth: &Truth, user: &str, p: &Parsed, a: &Answer, name_types: &HashMap<String, Vec<String>>, co: &mut CaseOut, gcmd: &str) {
    if a.class != "200" {
        co.oracle_ok += 1;
        return;
    }
    let mut bad: Option<String> = None;
    let mut missing_types: Vec<String> = vec![];
    let _ = &p.tails;
    match p.kind {
        "store" => {
            let et = p.write.clone().unwrap();
            if !truth.may_write(user, &et) {
                bad = Some(format!("stored into {et} without write right"));
            } else if truth.must_deny_write(user, &et) {
                bad = Some(format!("stored into {et} although the write right on it was revoked and not granted again"));
            }
        }
        "query" | "compare" | "replay" | "show" | "remember" => {
            // which types did the answer expose?
            let exposed: Vec<String> = if p.kind == "remember" {
                let n = a.text.lines().find_map(|l| l.strip_prefix("rows stored: ")).and_then(|s| s.trim().parse::<u64>().ok()).unwrap_or(0);
                if n > 0 { p.reads.clone() } else { vec![] }
            } else if !a.row_types.is_empty() {
                a.row_types.clone()
            } else if a.rows > 0 {
                if p.kind == "show" { name_types.get(gcmd.split_whitespace().last().unwrap_or("")).cloned().unwrap_or_default() } else { p.reads.clone() }
            } else { vec![] };
            let exposed_all = exposed.clone();
            for t in exposed {
                if !truth.may_read(user, &t) { missing_types.push(t); }
            }
            if !missing_types.is_empty() {
                bad = Some(format!("{} exposed events of {:?} without read right", p.kind, missing_types));
            } else {
                // revocation: a QUERY is judged by what it asks for (the decision), the commands
                // that never see the identity by what they exposed
                let asked: Vec<String> = if p.kind == "query" { p.reads.clone() } else { exposed_all.clone() };
                let denied: Vec<String> = asked.into_iter().filter(|t| truth.must_deny_read(user, t)).collect();
                if !denied.is_empty() {
                    bad = Some(format!("{} answered for {:?} although the read right on it was revoked (explicit all-false set) and not granted again", p.kind, denied));
                }
            }
        }
        "flush" => {
            if !truth.has_any_right(user) { bad = Some("FLUSH executed for a user holding no right at all".into()); }
        }
        "ping" | "batch" => {}
        _ => {
            if p.admin && !truth.is_admin(user) { bad = Some(format!("{} executed without the admin role", p.kind)); }
        }
    }
    match bad {
        None => co.oracle_ok += 1,
        Some(why) => {
            // finding classes: as narrow as the defect
            let class = match p.kind {
                "replay" => "anon-replay",
                "show" => "anon-show",
                "remember" => "anon-remember",
                "compare" => "anon-compare",
                "flush" => "anon-flush",
                // `user-id-bypass` (fixed by 8e1fb08) and `sequence-tail` (fixed by 6e1140a) are
                // no classes any more: a recurrence is an unclassified violation
                _ => "-",
            };
            co.tallies.push(format!("departure={class}"));
            co.oracle_fail.push((class.into(), format!("user {user:?} cmd {gcmd:?}: {why} | admin history: {}", truth.history_text())));
        }
    }
}

/// Long runs are split over child processes (one engine each, a few at a time): a single
/// engine slows down as stored events, segments and schemas pile up, and the cases are
/// independent of each other anyway. The children's files are concatenated in case order.
const CHUNK: u64 = 500;
fn run_chunked(a: &snel_harness::out::Args) -> ! {
    use std::io::Write;
    let exe = std::env::current_exe().unwrap();
    std::fs::create_dir_all(&a.out).unwrap();
    let chunks: Vec<(u64, u64)> = (0..a.cases.div_ceil(CHUNK)).map(|k| (k * CHUNK, ((k + 1) * CHUNK).min(a.cases))).collect();
    let par = 6;
    let mut results: Vec<Option<std::process::ExitStatus>> = vec![None; chunks.len()];
    for wave in (0..chunks.len()).collect::<Vec<_>>().chunks(par) {
        let kids: Vec<_> = wave.iter().map(|&k| {
            let (lo, hi) = chunks[k];
            (k, std::process::Command::new(&exe)
                .arg(&a.stream).arg("--seed").arg(a.seed.to_string()).arg("--cases").arg(a.cases.to_string())
                .arg("--out").arg(a.out.join(format!("chunk{k}"))).arg("--range").arg(lo.to_string()).arg(hi.to_string())
                .spawn().expect("spawn chunk"))
        }).collect();
        for (k, mut c) in kids {
            results[k] = Some(c.wait().expect("wait chunk"));
        }
    }
    if results.iter().any(|r| !r.is_some_and(|s| s.success())) {
        eprintln!("c13: a chunk process failed: {results:?}");
        std::process::exit(2);
    }
    let mut stats = serde_json::json!({"stream": a.stream, "evaluations": 0u64, "distinct_nontrivial": 0u64, "oracle_checks": 0u64,
        "oracle_failures": 0u64, "distribution": {}, "samples": []});
    for ext in ["ops", "impl", "oracle"] {
        let mut out = std::fs::File::create(a.out.join(format!("{}.{ext}", a.stream))).unwrap();
        for k in 0..chunks.len() {
            out.write_all(&std::fs::read(a.out.join(format!("chunk{k}")).join(format!("{}.{ext}", a.stream))).unwrap()).unwrap();
        }
    }
    for k in 0..chunks.len() {
        let d = a.out.join(format!("chunk{k}"));
        let st: serde_json::Value = serde_json::from_slice(&std::fs::read(d.join(format!("{}.stats.json", a.stream))).unwrap()).unwrap();
        for key in ["evaluations", "distinct_nontrivial", "oracle_checks", "oracle_failures"] {
            stats[key] = (stats[key].as_u64().unwrap() + st[key].as_u64().unwrap_or(0)).into();
        }
        for (kk, v) in st["distribution"].as_object().unwrap() {
            let cur = stats["distribution"][kk].as_u64().unwrap_or(0);
            stats["distribution"][kk] = (cur + v.as_u64().unwrap_or(0)).into();
        }
        if k == 0 {
            stats["samples"] = st["samples"].clone();
        }
        let _ = std::fs::remove_dir_all(d);
    }
    std::fs::write(a.out.join(format!("{}.stats.json", a.stream)), serde_json::to_string_pretty(&stats).unwrap()).unwrap();
    std::process::exit(0);
}

fn main() {
    let a = parse_args();
    // the signing helper is the repo's own (verif::hmac_hex); RFC 4231 test case 2 as a sanity check
    assert_eq!(snel_db::verif::hmac_hex(b"Jefe", b"what do ya want for nothing?"),
        "5bdcc146bf60754e6a042426089575c75a003f089d2739839dec58b964ec3843");
    let range: Option<(u64, u64)> = match a.extra.as_slice() {
        [f, lo, hi] if f == "--range" => Some((lo.parse().unwrap(), hi.parse().unwrap())),
        [] => None,
        other => { eprintln!("unknown arguments {other:?}"); std::process::exit(2); }
    };
    if range.is_none() && a.only.is_none() && a.cases > CHUNK && a.stream != "witness" {
        run_chunked(&a);
    }
    assert_eq!(scen::toy_mac("k", "m").len(), 64);
    let (bypass, expiry) = match a.stream.as_str() {
        "scenario" => (false, 300),
        "bypass" => (true, 300),
        "expiry" => (false, 5),
        "witness" => (false, 300),
        // per-IP rate limiting of failed attempts switched on (1/s): the decision must not change
        "ratelimit" => (false, 300),
        other => {
            eprintln!("unknown stream {other}");
            std::process::exit(2);
        }
    };
    let root = world::write_config(&a.out, &a.stream, bypass, expiry, a.stream == "ratelimit");
    let rt = tokio::runtime::Builder::new_multi_thread().worker_threads(8).enable_all().build().unwrap();
    let stream_name = a.stream.clone();
    rt.block_on(async move {
        let w = Arc::new(World::new(root.clone()).await);
        w.seed().await;
        // a panic inside dispatch_command (none on the present code; BATCH used to) is caught in a
        // spawned task and classed "panic": keep stderr quiet from here on
        if std::env::var("C13_LOUD").is_err() { std::panic::set_hook(Box::new(|_| {})); }
        let mut s = Stream::create(&a.out, &stream_name);
        let opts = Arc::new(Opts {
            bypass,
            expiry,
            allow_restart: true,
            allow_flush: true,
            scripted: stream_name == "expiry",
        });
        let ncases = if stream_name == "witness" { WITNESSES } else { a.cases };
        let (lo, hi) = range.unwrap_or((0, ncases));
        let todo: Vec<u64> = (lo..hi.min(ncases)).filter(|i| a.only.is_none_or(|o| o == *i)).collect();
        let chunk = 1; // cases run one after the other (the scripted token clock is process-wide)
        for group in todo.chunks(chunk) {
            // AuthManagers are created one after the other (their WAL dir comes from an env var)
            let ams: Vec<Arc<AuthManager>> = group.iter().map(|i| w.fresh_auth(*i)).collect();
            let mut hs = vec![];
            for (i, am) in group.iter().zip(ams) {
                let (w, o, sn, i, seed) = (w.clone(), opts.clone(), stream_name.clone(), *i, a.seed);
                hs.push(tokio::spawn(async move {
                    if sn == "witness" { run_witness(&w, i, am).await } else { run_case(&w, seed, &sn, i, am, &o).await }
                }));
            }
            for (i, h) in group.iter().zip(hs) {
                let co = h.await.expect("case task");
                for t in &co.tallies { s.tally(t); }
                s.case(&co.op, &co.imp, co.nontrivial);
                for _ in 0..co.oracle_ok { s.oracle_ok(); }
                for (class, detail) in &co.oracle_fail { s.oracle_fail(*i, class, detail); }
                let _ = std::fs::remove_dir_all(w.root.join(format!("authwal{i}")));
            }
        }
        s.finish();
        let _ = std::fs::remove_dir_all(&root);
    });
    std::process::exit(0);
}
