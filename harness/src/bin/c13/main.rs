//! C13 — "No data command runs without authentication and the required permission".
//!
//! Streams (one process each; `CONFIG` is process-wide):
//!   scenario  auth enabled (`auth.bypass_auth = false`): accounts, grants / revokes, request
//!             lines in every credential form through the real TCP gate
//!             (`verif_gate::Gate::check`), `parse_command`, `dispatch_command`.
//!   bypass    the same generator under `auth.bypass_auth = true`.
//!   expiry    token lifetime 2 s, real waiting (cases run concurrently).
//!
//! Model input line:  `scn <bypass> <manager> <expiry> <schemas> ; step ; step …`, steps
//!   mk id key roles | sp id et rw | dp id et | rk id | conn k | req k line parsed | tick d |
//!   restart | dir mgr uid parsed          (strings hex, lists `+`-joined, `_` = empty list)
//! Answer: one token per step (see `showOut` in lean/Drivers/C13.lean).
mod crypto;
mod scen;
mod truth;
mod world;

use scen::{Account, CmdCtx, Two};
use snel_db::command::parser::parse_command;
use snel_db::command::types::Command;
use snel_db::engine::auth::{AuthManager, PermissionSet};
use snel_db::frontend::tcp::listener::verif_gate::Gate;
use snel_harness::enc::hexs;
use snel_harness::out::{parse_args, Stream};
use snel_harness::rng::Rng;
use std::collections::HashMap;
use std::sync::Arc;
use truth::Truth;
use world::World;

fn hexlist(xs: &[String]) -> String {
    if xs.is_empty() { "_".into() } else { xs.iter().map(|s| hexs(s)).collect::<Vec<_>>().join("+") }
}

/// What the model is told about the result of `parse_command` (C17 owns the parser).
struct Parsed {
    descr: String,
    kind: &'static str,
    reads: Vec<String>,   // event types the command reads (None-typed REPLAY: empty, see rows)
    write: Option<String>,
    admin: bool,
    tails: Vec<String>,
}

fn seq_tails(es: &Option<snel_db::command::types::EventSequence>) -> Vec<String> {
    es.as_ref().map(|s| s.links.iter().map(|(_, t)| t.event.clone()).collect()).unwrap_or_default()
}

fn payload_ok(v: &serde_json::Value) -> bool {
    match v.as_object() {
        Some(o) => o.len() == 2 && o.get("k").is_some_and(|k| k.is_i64()) && o.get("s").is_some_and(|s| s.is_string()),
        None => false,
    }
}

/// `key_override`: for CREATE USER without a key the generated one (read from the response).
fn describe(cmd: &Command, key_override: Option<&str>) -> Parsed {
    let mut p = Parsed { descr: String::new(), kind: "", reads: vec![], write: None, admin: false, tails: vec![] };
    match cmd {
        Command::Store { event_type, payload, .. } => {
            p.kind = "store";
            p.descr = format!("store/{}/{}", hexs(event_type), if payload_ok(payload) { 1 } else { 0 });
            p.write = Some(event_type.clone());
        }
        Command::Query { event_type, event_sequence, .. } => {
            p.kind = "query";
            p.tails = seq_tails(event_sequence);
            p.descr = format!("query/{}/{}", hexs(event_type), hexlist(&p.tails));
            p.reads = std::iter::once(event_type.clone()).chain(p.tails.iter().cloned()).collect();
        }
        Command::Compare { queries } => {
            p.kind = "compare";
            for q in queries {
                p.reads.push(q.event_type.clone());
                p.reads.extend(seq_tails(&q.event_sequence));
            }
            p.descr = format!("compare/{}", hexlist(&p.reads));
        }
        Command::Replay { event_type, .. } => {
            p.kind = "replay";
            p.descr = format!("replay/{}", event_type.as_ref().map(|e| hexs(e)).unwrap_or("*".into()));
            p.reads = event_type.iter().cloned().collect();
        }
        Command::RememberQuery { spec } => {
            p.kind = "remember";
            let (h, t) = match &*spec.query {
                Command::Query { event_type, event_sequence, .. } => (event_type.clone(), seq_tails(event_sequence)),
                _ => (String::new(), vec![]),
            };
            p.descr = format!("remember/{}/{}/{}", hexs(&spec.name), hexs(&h), hexlist(&t));
            p.reads = std::iter::once(h).chain(t).collect();
        }
        Command::ShowMaterialized { name } => {
            p.kind = "show";
            p.descr = format!("show/{}", hexs(name));
        }
        Command::Flush => { p.kind = "flush"; p.descr = "flush".into(); }
        Command::Ping => { p.kind = "ping"; p.descr = "ping".into(); }
        Command::Batch(_) => { p.kind = "batch"; p.descr = "batch".into(); }
        Command::Define { event_type, .. } => {
            p.kind = "define"; p.admin = true;
            p.descr = format!("define/{}", hexs(event_type));
        }
        Command::CreateUser { user_id, secret_key, roles } => {
            p.kind = "mkuser"; p.admin = true;
            let key = secret_key.as_deref().or(key_override).unwrap_or("");
            p.descr = format!("mkuser/{}/{}/{}", hexs(user_id), hexs(key), hexlist(roles.as_deref().unwrap_or(&[])));
        }
        Command::RevokeKey { user_id } => { p.kind = "revkey"; p.admin = true; p.descr = format!("revkey/{}", hexs(user_id)); }
        Command::ListUsers => { p.kind = "list"; p.admin = true; p.descr = "list".into(); }
        Command::GrantPermission { permissions, event_types, user_id } => {
            p.kind = "grant"; p.admin = true;
            p.descr = format!("grant/{}/{}/{}", hexlist(permissions), hexlist(event_types), hexs(user_id));
        }
        Command::RevokePermission { permissions, event_types, user_id } => {
            p.kind = "revoke"; p.admin = true;
            p.descr = format!("revoke/{}/{}/{}", hexlist(permissions), hexlist(event_types), hexs(user_id));
        }
        Command::ShowPermissions { user_id } => { p.kind = "showperm"; p.admin = true; p.descr = format!("showperm/{}", hexs(user_id)); }
    }
    p
}

/// Status class + the event types of returned rows (None = no row-bearing answer).
struct Answer {
    class: String,
    row_types: Vec<String>,
    rows: u64,
    text: String,
}

fn classify(out: Option<Vec<u8>>) -> Answer {
    let Some(out) = out else {
        return Answer { class: "panic".into(), row_types: vec![], rows: 0, text: String::new() };
    };
    let text = String::from_utf8_lossy(&out).to_string();
    let first = text.lines().next().unwrap_or("");
    if first.len() >= 4 && first.as_bytes()[..3].iter().all(|b| b.is_ascii_digit()) && first.as_bytes()[3] == b' ' {
        return Answer { class: first[..3].to_string(), row_types: vec![], rows: 0, text };
    }
    // streaming frames: schema / batch* / end
    let mut et_col = None;
    let mut types = vec![];
    let mut rows = 0u64;
    let mut nonzero = false;
    for l in text.lines() {
        let Ok(v) = serde_json::from_str::<serde_json::Value>(l) else { continue };
        match v["type"].as_str() {
            Some("schema") => {
                et_col = v["columns"].as_array().and_then(|c| c.iter().position(|x| x["name"] == "event_type"));
            }
            Some("batch") => {
                for row in v["rows"].as_array().into_iter().flatten() {
                    rows += 1;
                    if let Some(i) = et_col {
                        if let Some(t) = row[i].as_str() {
                            if !types.contains(&t.to_string()) {
                                types.push(t.to_string());
                            }
                        }
                    } else if row.as_array().is_some_and(|a| a.iter().any(|x| x.as_i64().is_some_and(|n| n != 0))) {
                        nonzero = true;
                    }
                }
            }
            _ => {}
        }
    }
    if et_col.is_none() && !nonzero {
        rows = 0; // aggregate rows that carry only zeros reveal no event
    }
    let class = if text.starts_with("{\"type\":\"schema\"") { "200" } else { "other" };
    Answer { class: class.into(), row_types: types, rows, text }
}

#[derive(Default)]
struct CaseOut {
    op: String,
    imp: String,
    nontrivial: bool,
    tallies: Vec<String>,
    oracle_ok: u64,
    oracle_fail: Vec<(String, String)>, // (class, detail)
}

struct Opts {
    bypass: bool,
    expiry: u64,
    allow_restart: bool,
    allow_flush: bool,
    ticks: bool,
}

fn api_name(e: &snel_db::engine::auth::AuthError) -> &'static str {
    use snel_db::engine::auth::AuthError::*;
    match e {
        UserExists => "exists",
        InvalidUserId => "badid",
        UserIdTooLong { .. } => "idlong",
        SecretKeyTooLong { .. } => "keylong",
        UserNotFound(_) => "nouser",
        _ => "other",
    }
}

async fn run_case(w: &World, seed: u64, stream: &str, i: u64, am0: Arc<AuthManager>, o: &Opts) -> CaseOut {
    let mut r = Rng::for_case(seed, stream, i);
    let mut co = CaseOut::default();
    let tag = format!("{}x{}", seed % 100000, i);
    let has_mgr = o.bypass || !r.chance(1, 25);
    let mut am = am0;
    let mut truth = Truth { expiry: o.expiry, now: 0, ..Default::default() };
    let mut ops: Vec<String> = vec![];
    let mut imp: Vec<String> = vec![];
    let mut types: Vec<String> = vec!["ev_a".into(), "ev_b".into()];
    let schemas0 = hexlist(&types);
    let mut names: Vec<String> = vec![];
    let mut name_types: HashMap<String, Vec<String>> = HashMap::new();
    let mut accounts: Vec<Account> = vec![];
    let mut toks: Vec<Two> = vec![];
    let mut gates: HashMap<u64, Gate> = HashMap::new();
    let mut fresh = 0u64;

    // ---- accounts through the API (what bootstrap / an operator does)
    let mut ids = scen::gen_ids(&mut r);
    ids.insert(0, "root".into());
    for (n, id) in ids.iter().enumerate() {
        let key = if r.chance(1, 40) { "z".repeat(513) } else { scen::gen_key(&mut r) };
        let roles: Vec<String> = if n == 0 { vec!["admin".into()] } else { r.pick(scen::ROLE_SETS).iter().map(|s| s.to_string()).collect() };
        let res = am.create_user_with_roles(id.clone(), Some(key.clone()), roles.clone()).await;
        ops.push(format!("mk {} {} {}", hexs(id), hexs(&key), hexlist(&roles)));
        match res {
            Ok(_) => {
                imp.push("ok".into());
                truth.add_user(id, &key, &roles);
                accounts.push(Account { id: id.clone(), key, roles });
            }
            Err(e) => {
                co.tallies.push(format!("mk={}", api_name(&e)));
                imp.push(api_name(&e).into());
            }
        }
    }
    // ---- some per-type permission sets through the API
    for _ in 0..r.below(5) {
        let a = r.pick(&accounts).clone();
        let et = r.pick(&["ev_a", "ev_b", "ev_x"]).to_string();
        let (rd, wr) = (r.chance(1, 2), r.chance(1, 2));
        let res = am.grant_permission(&a.id, &et, PermissionSet::new(rd, wr)).await;
        ops.push(format!("sp {} {} {}{}", hexs(&a.id), hexs(&et), rd as u8, wr as u8));
        imp.push(if res.is_ok() { "ok".into() } else { "nouser".into() });
        if res.is_ok() {
            truth.set_rights(&a.id, &et, rd, wr);
        }
    }

    let nsteps = 6 + r.below(14);
    for _ in 0..nsteps {
        let choice = r.below(100);
        if choice < 6 {
            // API-level change between requests
            let a = r.pick(&accounts).clone();
            match r.below(4) {
                0 => {
                    let res = am.revoke_key(&a.id).await;
                    ops.push(format!("rk {}", hexs(&a.id)));
                    imp.push(if res.is_ok() { "ok".into() } else { "nouser".into() });
                    truth.revoke_key(&a.id);
                    co.tallies.push("api=revoke_key".into());
                }
                1 => {
                    let et = r.pick(&types).clone();
                    let res = am.revoke_permission(&a.id, &et).await;
                    ops.push(format!("dp {} {}", hexs(&a.id), hexs(&et)));
                    imp.push(if res.is_ok() { "ok".into() } else { "nouser".into() });
                    truth.set_rights(&a.id, &et, false, false);
                    co.tallies.push("api=revoke_permission".into());
                }
                _ => {
                    let et = r.pick(&types).clone();
                    let (rd, wr) = (r.chance(1, 2), r.chance(1, 2));
                    let res = am.grant_permission(&a.id, &et, PermissionSet::new(rd, wr)).await;
                    ops.push(format!("sp {} {} {}{}", hexs(&a.id), hexs(&et), rd as u8, wr as u8));
                    imp.push(if res.is_ok() { "ok".into() } else { "nouser".into() });
                    truth.set_rights(&a.id, &et, rd, wr);
                    co.tallies.push("api=grant_permission".into());
                }
            }
            continue;
        }
        if choice < 8 && o.allow_restart && has_mgr {
            am = w.reopen_auth(i).await;
            gates.clear();
            truth.restart();
            ops.push("restart".into());
            imp.push(".".into());
            co.tallies.push("restart".into());
            continue;
        }
        if choice < 12 && o.ticks {
            let d = o.expiry + 1;
            tokio::time::sleep(std::time::Duration::from_millis(d * 1000 + 150)).await;
            truth.now += d;
            ops.push(format!("tick {d}"));
            imp.push(".".into());
            co.tallies.push("tick".into());
            continue;
        }
        // ---- a command text
        fresh += 1;
        let mut creds: Vec<Two> = vec![];
        if let Some(t) = toks.last() {
            let mut c = Two::lit("TOKEN ");
            c.push2(t);
            creds.push(c.clone());
            let mut c2 = Two::lit("x TOKEN ");
            c2.push2(t);
            creds.push(c2);
        }
        {
            let a = &accounts[0];
            let m = Two::lit("FLUSH");
            let mut c = Two::lit(&format!("{}:", a.id));
            c.push2(&scen::sig(&a.key, &m));
            c.push(":FLUSH");
            creds.push(c);
            let mut c = Two::lit(&format!("AUTH {}:", a.id));
            c.push2(&scen::sig(&a.key, &Two::lit(&a.id)));
            creds.push(c);
            creds.push(Two::lit("a TOKEN 0123456789abcdef"));
        }
        let user_ids: Vec<String> = accounts.iter().map(|a| a.id.clone()).collect();
        let ctx = CmdCtx {
            types: &types,
            users: &user_ids,
            names: &names,
            fresh_type: format!("t{tag}n{fresh}"),
            fresh_name: format!("m{tag}n{fresh}"),
            fresh_user: format!("nu{fresh}"),
            creds: &creds,
        };
        let (mut cmd, label) = scen::gen_command(&mut r, &ctx);
        if label == "FLUSH" && !o.allow_flush {
            cmd = Two::lit("PING");
        }
        co.tallies.push(format!("cmd={label}"));

        if choice < 16 {
            // direct dispatch (no gate): the handlers' own 401 / no-manager branches
            let mgr = !r.chance(1, 4);
            let uid: Option<String> = match r.below(4) {
                0 => None,
                1 => Some("bypass".into()),
                2 => Some("no-auth".into()),
                _ => Some(r.pick(&accounts).id.clone()),
            };
            let parsed = parse_command(&cmd.real);
            let Ok(pc) = parsed else { continue };
            if matches!(pc, Command::Flush) && !o.allow_flush {
                continue;
            }
            let res = w.run_cmd(if mgr { Some(&am) } else { None }, uid.as_deref(), pc.clone()).await;
            let ans = classify(res);
            let keyo = ans.text.lines().find_map(|l| l.strip_prefix("Secret key: ")).map(|s| s.to_string());
            let p = describe(&pc, keyo.as_deref());
            ops.push(format!("dir {} {} {}", mgr as u8, uid.as_ref().map(|u| hexs(u)).unwrap_or("~".into()), p.descr));
            imp.push(ans.class.clone());
            co.tallies.push(format!("dir={}", ans.class));
            // keep the books (an admin-less direct call is the harness acting as operator)
            apply_effects(&pc, &p, &ans, keyo.as_deref(), &mut truth, &mut types, &mut names, &mut name_types, &mut accounts, true, mgr);
            continue;
        }

        // ---- a request line on a connection
        let k = r.below(3);
        if !gates.contains_key(&k) {
            gates.insert(k, Gate::new(if has_mgr { Some(am.clone()) } else { None }, "127.0.0.1".into()));
            truth.conns.insert(k, None);
            ops.push(format!("conn {k}"));
            imp.push(".".into());
        }
        let bound = truth.conns.get(&k).cloned().flatten();
        let acct = r.pick(&accounts).clone();
        let other = r.pick(&accounts).clone();
        let form = r.below(100);
        let mut line = Two::default();
        let form_label: &'static str;
        if form < 14 {
            // AUTH user:sig  (signature over the user id)
            form_label = "AUTH";
            let uid = if r.chance(1, 10) { "ghost".to_string() } else { acct.id.clone() };
            let (s, sl) = scen::sig_variant(&mut r, &acct.key, &other.key, &Two::lit(&uid), 75);
            co.tallies.push(format!("sig={sl}"));
            line.push(&scen::flip_case(&mut r, "AUTH"));
            line.push(*r.pick(&[" ", " ", "  ", " \t"]));
            if r.chance(1, 12) {
                line.push(&uid); // no colon at all
            } else {
                line.push(&format!("{uid}:"));
                line.push2(&s);
            }
        } else if form < 34 && !toks.is_empty() {
            form_label = "TOKEN";
            let t = r.pick(&toks).clone();
            let mut c = cmd.clone();
            // sometimes an (unneeded, possibly bad) signature prefix as well
            if r.chance(1, 6) {
                let mut l2 = Two::lit(&format!("{}:", acct.id));
                l2.push2(&scen::sig(&acct.key, &cmd));
                l2.push(":");
                l2.push2(&c);
                c = l2;
            }
            line.push2(&c);
            let tv = r.below(12);
            let tl = match tv {
                0 => { line.push(" token "); line.push2(&t); "lowercase-marker" }
                1 => { line.push(" TOKEN "); line.push(&scen::rand_hex(&mut r, 64)); "unknown" }
                2 => { line.push(" TOKEN "); line.push2(&Two { real: t.real[..60].into(), toy: t.toy[..60].into() }); "truncated" }
                3 => { line.push(" TOKEN "); line.push2(&t); line.push(" x"); "trailing-text" }
                4 => { line.push(" TOKEN "); line.push2(&t); line.push(&"0".repeat(65)); "overlong" }
                5 => { line.push(" TOKEN "); line.push2(&t); line.push(" TOKEN "); line.push(&scen::rand_hex(&mut r, 64)); "two-markers-bad-last" }
                6 => { line.push(" TOKEN "); line.push(&scen::rand_hex(&mut r, 64)); line.push(" TOKEN "); line.push2(&t); "two-markers-good-last" }
                7 => { line.push(" TOKEN   "); line.push2(&t); "extra-spaces" }
                8 => { line.push("  TOKEN "); line.push2(&Two { real: t.real.to_uppercase(), toy: t.toy.to_uppercase() }); "uppercase" }
                _ => { line.push(" TOKEN "); line.push2(&t); "exact" }
            };
            co.tallies.push(format!("token={tl}"));
        } else if form < 60 && bound.is_some() {
            // connection-bound  sig:cmd  (signature over the trimmed command)
            form_label = "BOUND";
            let b = bound.clone().unwrap();
            let bkey = accounts.iter().find(|a| a.id == b).map(|a| a.key.clone()).unwrap_or_default();
            let c = if r.chance(1, 5) { let mut c = Two::lit(" "); c.push2(&cmd); c.push(" "); c } else { cmd.clone() };
            let trimmed = Two { real: c.real.trim().into(), toy: c.toy.trim().into() };
            let (s, sl) = scen::sig_variant(&mut r, &bkey, &other.key, &trimmed, 80);
            co.tallies.push(format!("sig={sl}"));
            if r.chance(1, 15) {
                line.push2(&c); // no signature at all on a bound connection
            } else {
                line.push2(&s);
                line.push(":");
                line.push2(&c);
            }
        } else if form < 92 {
            // inline  user:sig:cmd  (signature over the text after the second colon, as is)
            form_label = "INLINE";
            let uid = match r.below(14) {
                0 => "ghost".to_string(),
                1 => "".to_string(),
                2 => "u".repeat(65),
                _ => acct.id.clone(),
            };
            let c = if r.chance(1, 6) { let mut c = Two::lit(" "); c.push2(&cmd); c } else { cmd.clone() };
            let (s, sl) = scen::sig_variant(&mut r, &acct.key, &other.key, &c, 80);
            co.tallies.push(format!("sig={sl}"));
            line.push(&format!("{uid}:"));
            line.push2(&s);
            line.push(":");
            line.push2(&c);
        } else {
            form_label = "RAW";
            line.push2(&cmd);
        }
        let line = scen::pad(&mut r, &line);
        co.tallies.push(format!("form={form_label}"));

        // ---- the real gate
        let g = gates.get_mut(&k).unwrap();
        let base = line.real.as_ptr() as usize;
        let verdict = g.check(&line.real).await.map(|(c, _, u, t)| ((c.to_string(), (c.as_ptr() as usize).wrapping_sub(base)), u, t));
        match verdict {
            None => {
                ops.push(format!("req {k} {} -", hexs(&line.toy)));
                imp.push("R".into());
                co.tallies.push("gate=reject".into());
                co.oracle_ok += 1;
            }
            Some((_, user, Some(token))) => {
                // AUTH accepted
                let user = user.unwrap_or_default();
                ops.push(format!("req {k} {} -", hexs(&line.toy)));
                imp.push(format!("A.{}", hexs(&user)));
                co.tallies.push("gate=auth-ok".into());
                if truth.auth_ok(&line.real, &user) {
                    co.oracle_ok += 1;
                } else {
                    co.oracle_fail.push(("-".into(), format!("AUTH accepted for {user:?} without a valid signature of an active user: {:?}", line.real)));
                }
                truth.conns.insert(k, Some(user.clone()));
                truth.tokens.push(truth::TTok { real: token.clone(), owner: user, alive: true, minted_at: truth.now });
                toks.push(Two { real: token, toy: scen::toy_token(toks.len() as u64) });
            }
            Some(((gcmd, goff), user, None)) => {
                let user = user.unwrap_or_default();
                co.tallies.push("gate=pass".into());
                // the command text handed on, re-rendered for the model: identical up to slots
                let parsed = parse_command(&gcmd);
                let (descr, ans, pinfo, pc) = match parsed {
                    Err(_) => ("perr".to_string(), None, None, None),
                    Ok(pc) => {
                        let res = w.run_cmd(if has_mgr { Some(&am) } else { None }, Some(&user), pc.clone()).await;
                        let ans = classify(res);
                        let keyo = ans.text.lines().find_map(|l| l.strip_prefix("Secret key: ")).map(|s| s.to_string());
                        let p = describe(&pc, keyo.as_deref());
                        (p.descr.clone(), Some((ans, keyo)), Some(p), Some(pc))
                    }
                };
                ops.push(format!("req {k} {} {}", hexs(&line.toy), descr));
                let class = ans.as_ref().map(|a| a.0.class.clone()).unwrap_or("perr".into());
                // the command text as the model will print it (toy rendering of the same slice)
                let toy_cmd = toy_slice(&line, &gcmd, goff);
                imp.push(format!("P.{}.{}.{}", hexs(&toy_cmd), hexs(&user), class));
                co.tallies.push(format!("class={class}"));
                if class == "200" {
                    co.nontrivial = true;
                }
                // ---- oracle
                if o.bypass || !has_mgr {
                    co.oracle_ok += 1; // authentication is configured off: nothing to demand
                } else {
                    let cred = truth.credential_ok(&line.real, bound.as_deref(), &gcmd, &user);
                    match cred {
                        Some(f) => { co.tallies.push(format!("accepted-by={f}")); co.oracle_ok += 1; }
                        None => co.oracle_fail.push(("-".into(), format!(
                            "gate passed ({gcmd:?}, {user:?}) without a valid credential; line {:?} bound {:?}", line.real, bound))),
                    }
                    if let (Some((a, _)), Some(p)) = (&ans, &pinfo) {
                        judge(&truth, &user, p, a, &name_types, &mut co, &gcmd);
                    }
                }
                if let (Some((a, keyo)), Some(p), Some(pc)) = (&ans, &pinfo, &pc) {
                    let by_admin = truth.is_admin(&user) || o.bypass || !has_mgr || user == "bypass";
                    apply_effects(pc, p, a, keyo.as_deref(), &mut truth, &mut types, &mut names, &mut name_types, &mut accounts, by_admin, has_mgr);
                }
            }
        }
    }
    co.op = format!("scn {} {} {} {} ; {}", o.bypass as u8, has_mgr as u8, o.expiry, schemas0, ops.join(" ; "));
    co.imp = imp.join(" ");
    co
}

/// The model sees the toy rendering of the line; the command the real gate returned is a
/// sub-slice of the real line at some byte offset — the same offsets in the toy line.
fn toy_slice(line: &Two, gcmd: &str, off: usize) -> String {
    if off.checked_add(gcmd.len()).is_some_and(|e| e <= line.real.len()) && line.real.len() == line.toy.len() {
        if line.toy.is_char_boundary(off) && line.toy.is_char_boundary(off + gcmd.len()) {
            return line.toy[off..off + gcmd.len()].to_string();
        }
    }
    gcmd.to_string()
}

/// Property oracle for one executed request.
fn judge(truth: &Truth, user: &str, p: &Parsed, a: &Answer, name_types: &HashMap<String, Vec<String>>, co: &mut CaseOut, gcmd: &str) {
    if a.class != "200" {
        co.oracle_ok += 1;
        return;
    }
    let mut bad: Option<String> = None;
    let mut missing_types: Vec<String> = vec![];
    match p.kind {
        "store" => {
            let et = p.write.clone().unwrap();
            if !truth.may_write(user, &et) { bad = Some(format!("stored into {et} without write right")); }
        }
        "query" | "compare" | "replay" | "show" | "remember" => {
            // which types did the answer expose?
            let exposed: Vec<String> = if p.kind == "remember" {
                let n = a.text.lines().find_map(|l| l.strip_prefix("rows stored: ")).and_then(|s| s.trim().parse::<u64>().ok()).unwrap_or(0);
                if n > 0 { p.reads.clone() } else { vec![] }
            } else if !a.row_types.is_empty() {
                a.row_types.clone()
            } else if a.rows > 0 {
                if p.kind == "show" { name_types.get(gcmd.split_whitespace().last().unwrap_or("")).cloned().unwrap_or_default() } else { p.reads.clone() }
            } else { vec![] };
            for t in exposed {
                if !truth.may_read(user, &t) { missing_types.push(t); }
            }
            if !missing_types.is_empty() {
                bad = Some(format!("{} exposed events of {:?} without read right", p.kind, missing_types));
            }
        }
        "flush" => {
            if !truth.has_any_right(user) { bad = Some("FLUSH executed for a user holding no right at all".into()); }
        }
        "ping" | "batch" => {}
        _ => {
            if p.admin && !truth.is_admin(user) { bad = Some(format!("{} executed without the admin role", p.kind)); }
        }
    }
    match bad {
        None => co.oracle_ok += 1,
        Some(why) => {
            // finding classes: as narrow as the defect
            let class = match p.kind {
                "replay" => "anon-replay",
                "show" => "anon-show",
                "remember" => "anon-remember",
                "compare" => "anon-compare",
                "flush" => "anon-flush",
                _ if user == "bypass" => "user-id-bypass",
                "query" if !p.tails.is_empty()
                    && truth.may_read(user, &p.reads[0])
                    && missing_types.iter().all(|t| p.tails.contains(t) && *t != p.reads[0]) => "sequence-tail",
                _ => "-",
            };
            co.tallies.push(format!("departure={class}"));
            co.oracle_fail.push((class.into(), format!("user {user:?} cmd {gcmd:?}: {why}")));
        }
    }
}

/// Book-keeping after an executed command: the harness' own view of accounts / names / types.
#[allow(clippy::too_many_arguments)]
fn apply_effects(pc: &Command, p: &Parsed, a: &Answer, keyo: Option<&str>, truth: &mut Truth, types: &mut Vec<String>,
                 names: &mut Vec<String>, name_types: &mut HashMap<String, Vec<String>>, accounts: &mut Vec<Account>,
                 by_admin: bool, _mgr: bool) {
    match pc {
        Command::Define { event_type, .. } if a.class == "200" => {
            if !types.contains(event_type) { types.push(event_type.clone()); }
        }
        Command::RememberQuery { spec } if a.class == "200" => {
            names.push(spec.name.clone());
            name_types.insert(spec.name.clone(), p.reads.clone());
        }
        Command::CreateUser { user_id, secret_key, roles } if a.class == "200" => {
            let key = secret_key.clone().or(keyo.map(|s| s.to_string())).unwrap_or_default();
            let roles = roles.clone().unwrap_or_default();
            truth.add_user(user_id, &key, &roles);
            accounts.push(Account { id: user_id.clone(), key, roles });
        }
        Command::RevokeKey { user_id } if a.class == "200" => truth.revoke_key(user_id),
        // a GRANT issued by someone entitled to counts for every listed type, even when the
        // handler stopped half-way (the oracle must never demand more than the property)
        Command::GrantPermission { permissions, event_types, user_id } if by_admin && a.class != "401" && a.class != "403" => {
            for et in event_types {
                for pm in permissions {
                    match pm.as_str() { "read" => truth.grant(user_id, et, "read"), "write" => truth.grant(user_id, et, "write"), _ => {} }
                }
            }
        }
        Command::RevokePermission { permissions, event_types, user_id } if a.class == "200" => {
            for et in event_types {
                if permissions.is_empty() || permissions.iter().any(|x| x == "read") { truth.ungrant(user_id, et, "read"); }
                if permissions.is_empty() || permissions.iter().any(|x| x == "write") { truth.ungrant(user_id, et, "write"); }
            }
        }
        _ => {}
    }
}

fn main() {
    let a = parse_args();
    crypto::self_test();
    assert_eq!(scen::toy_mac("k", "m").len(), 64);
    std::panic::set_hook(Box::new(|_| {}));
    let (bypass, expiry) = match a.stream.as_str() {
        "scenario" => (false, 300),
        "bypass" => (true, 300),
        "expiry" => (false, 2),
        other => {
            eprintln!("unknown stream {other}");
            std::process::exit(2);
        }
    };
    let root = world::write_config(&a.out, &a.stream, bypass, expiry);
    let rt = tokio::runtime::Builder::new_multi_thread().worker_threads(8).enable_all().build().unwrap();
    let stream_name = a.stream.clone();
    rt.block_on(async move {
        let w = Arc::new(World::new(root.clone()).await);
        w.seed().await;
        let mut s = Stream::create(&a.out, &stream_name);
        let opts = Arc::new(Opts {
            bypass,
            expiry,
            allow_restart: stream_name != "expiry",
            allow_flush: stream_name != "expiry",
            ticks: stream_name == "expiry",
        });
        let todo: Vec<u64> = (0..a.cases).filter(|i| a.only.is_none_or(|o| o == *i)).collect();
        let chunk = if stream_name == "expiry" { 48 } else { 1 };
        for group in todo.chunks(chunk) {
            // AuthManagers are created one after the other (their WAL dir comes from an env var)
            let ams: Vec<Arc<AuthManager>> = group.iter().map(|i| w.fresh_auth(*i)).collect();
            let mut hs = vec![];
            for (i, am) in group.iter().zip(ams) {
                let (w, o, sn, i, seed) = (w.clone(), opts.clone(), stream_name.clone(), *i, a.seed);
                hs.push(tokio::spawn(async move { run_case(&w, seed, &sn, i, am, &o).await }));
            }
            for (i, h) in group.iter().zip(hs) {
                let co = h.await.expect("case task");
                for t in &co.tallies { s.tally(t); }
                s.case(&co.op, &co.imp, co.nontrivial);
                for _ in 0..co.oracle_ok { s.oracle_ok(); }
                for (class, detail) in &co.oracle_fail { s.oracle_fail(*i, class, detail); }
                let _ = std::fs::remove_dir_all(w.root.join(format!("authwal{i}")));
            }
        }
        s.finish();
        let _ = std::fs::remove_dir_all(&root);
    });
    std::process::exit(0);
}
