//! Scenario generator: accounts, request lines in every credential form (rendered twice — real
//! HMACs / tokens for the real gate, stand-ins for the model), command texts of every kind.
use snel_db::verif::hmac_hex;
use snel_harness::rng::Rng;

/// A text rendered for the real code and for the model (they differ only inside signature and
/// token slots, which have the same length and alphabet in both).
#[derive(Clone, Debug, Default)]
pub struct Two {
    pub real: String,
    pub toy: String,
}
impl Two {
    pub fn lit(s: &str) -> Two {
        Two { real: s.to_string(), toy: s.to_string() }
    }
    pub fn push(&mut self, s: &str) {
        self.real.push_str(s);
        self.toy.push_str(s);
    }
    pub fn push2(&mut self, t: &Two) {
        self.real.push_str(&t.real);
        self.toy.push_str(&t.toy);
    }
}

/// Stand-in MAC shared with `lean/Drivers/C13.lean` (`toyMac`).
pub fn toy_mac(key: &str, msg: &str) -> String {
    let mut bytes = key.as_bytes().to_vec();
    bytes.push(0xff);
    bytes.extend_from_slice(msg.as_bytes());
    let mut out = String::new();
    for i in 0..4u64 {
        let mut h: u64 = 0xcbf29ce484222325u64.wrapping_add(i.wrapping_mul(0x9e3779b97f4a7c15));
        for b in &bytes {
            h = (h ^ (*b as u64)).wrapping_mul(0x100000001b3);
        }
        out.push_str(&format!("{:016x}", h));
    }
    out
}
pub fn toy_token(n: u64) -> String {
    format!("abcdefabcdefabcd{:048x}", n)
}

/// Signature of `msg` under `key` in both renderings.
pub fn sig(key: &str, msg: &Two) -> Two {
    Two { real: hmac_hex(key.as_bytes(), msg.real.as_bytes()), toy: toy_mac(key, &msg.toy) }
}

pub fn rand_hex(r: &mut Rng, n: usize) -> String {
    (0..n).map(|_| char::from_digit(r.below(16) as u32, 16).unwrap()).collect()
}

#[derive(Clone, Debug)]
pub struct Account {
    pub id: String,
    pub key: String,
    pub roles: Vec<String>,
}

pub const ROLE_SETS: &[&[&str]] = &[
    &[], &[], &[], &["read-only"], &["viewer"], &["editor"], &["write-only"], &["admin"],
    &["auditor"], &["read-only", "write-only"], &["Admin"],
];

pub fn gen_key(r: &mut Rng) -> String {
    match r.below(8) {
        0 => "k:e y".to_string(),
        1 => "ключ-é".to_string(),
        2 => "x".repeat(512),
        3 => "".to_string(),
        4 => "y".repeat(100), // longer than the HMAC block: hashed first
        _ => format!("key{}", rand_hex(r, 6)),
    }
}

/// Ids for accounts created up front (mostly valid, a share that the API must refuse).
pub fn gen_ids(r: &mut Rng) -> Vec<String> {
    let mut pool: Vec<String> = vec!["alice", "bob", "carol", "dave", "u_1", "x-9"].into_iter().map(String::from).collect();
    r.shuffle(&mut pool);
    let mut ids: Vec<String> = pool.into_iter().take(2 + r.below(2) as usize).collect();
    if r.chance(1, 3) {
        ids.push("bypass".into());
    }
    if r.chance(1, 8) {
        ids.push("no-auth".into());
    }
    if r.chance(1, 6) {
        ids.push((*r.pick(&["Ωmega", "éve", "я-1"])).to_string());
    }
    if r.chance(1, 5) {
        ids.push(
            (*r.pick(&["", "a b", "x:y", "semi;colon", "tab\tid", "€uro", "a×b"])).to_string(),
        );
    }
    if r.chance(1, 8) {
        ids.push(match r.below(4) {
            0 => "a".repeat(64),
            1 => "a".repeat(65),
            2 => "é".repeat(32),
            _ => "é".repeat(33),
        });
    }
    if r.chance(1, 10) {
        let d = ids[0].clone();
        ids.push(d); // duplicate
    }
    ids
}

pub fn flip_case(r: &mut Rng, w: &str) -> String {
    match r.below(5) {
        0 => w.to_lowercase(),
        1 => w.chars().enumerate().map(|(i, c)| if i % 2 == 0 { c.to_ascii_lowercase() } else { c }).collect(),
        _ => w.to_string(),
    }
}

pub struct CmdCtx<'a> {
    pub types: &'a [String],       // defined types (ev_a, ev_b, + those defined in this case)
    pub users: &'a [String],       // ids worth naming in management commands
    pub names: &'a [String],       // remembered names of this case
    pub fresh_type: String,        // a type name not yet defined
    pub fresh_name: String,        // a materialisation name not yet used
    pub fresh_user: String,
    pub creds: &'a [Two],          // credential-like texts to hide inside payloads
    pub focus_user: Option<String>, // the account grants / revokes concentrate on
    pub focus_type: String,        // … and the event type
}

/// One command text. Returns the text and a short label for the tally.
pub fn gen_command(r: &mut Rng, c: &CmdCtx) -> (Two, &'static str) {
    let et = |r: &mut Rng| -> String {
        match r.below(8) {
            0 => "ev_x".to_string(),
            1 | 2 | 3 => c.focus_type.clone(),
            _ => r.pick(c.types).clone(),
        }
    };
    let user = |r: &mut Rng| -> String {
        if let (Some(f), true) = (&c.focus_user, r.chance(1, 2)) {
            return f.clone();
        }
        if c.users.is_empty() || r.chance(1, 8) { "nobody".to_string() } else { r.pick(c.users).clone() }
    };
    let mut t = Two::default();
    let kind = r.below(100);
    let label: &'static str;
    if kind < 22 {
        label = "STORE";
        let e = et(r);
        t.push(&format!("{} {} {} c1 {} ", flip_case(r, "STORE"), e, flip_case(r, "FOR"), flip_case(r, "PAYLOAD")));
        match r.below(10) {
            0 => t.push("{\"k\":7}"),
            1 => t.push("{\"k\":7,\"s\":\"x\",\"z\":1}"),
            2 | 3 | 4 if !c.creds.is_empty() => {
                // credential-like text inside the payload
                t.push("{\"k\":7,\"s\":\"v ");
                t.push2(r.pick(c.creds));
                t.push("\"}");
            }
            5 => t.push("{ \"s\" : \"a TOKEN b:c\", \"k\" : 7 }"),
            _ => t.push("{\"k\":7,\"s\":\"x\"}"),
        }
    } else if kind < 40 {
        label = "QUERY";
        let e = et(r);
        let kw = if r.chance(1, 4) { "FIND" } else { "QUERY" };
        t.push(&format!("{} {}", flip_case(r, kw), e));
        match r.below(6) {
            0 => t.push(" WHERE k = 7"),
            1 => t.push(" RETURN [k]"),
            2 => t.push(" COUNT"),
            3 => t.push(" FOR c1"),
            4 => t.push(" WHERE s = \"a TOKEN b\""),
            _ => {}
        }
    } else if kind < 47 {
        label = "SEQUENCE";
        let (a, b) = (et(r), et(r));
        let link = if r.chance(1, 4) { "PRECEDED BY" } else { "FOLLOWED BY" };
        t.push(&format!("QUERY {a} {link} {b} LINKED BY k"));
    } else if kind < 53 {
        label = "PLOT";
        t.push(&format!("{} count OF {}", flip_case(r, "PLOT"), et(r)));
    } else if kind < 59 {
        label = "COMPARE";
        t.push(&format!("PLOT count OF {} VS count OF {}", et(r), et(r)));
        if r.chance(1, 4) {
            t.push(&format!(" VS count OF {}", et(r)));
        }
    } else if kind < 67 {
        label = "REPLAY";
        if r.chance(1, 2) {
            t.push(&format!("{} FOR c1", flip_case(r, "REPLAY")));
        } else {
            t.push(&format!("REPLAY {} FOR c1", et(r)));
        }
    } else if kind < 72 {
        label = "REMEMBER";
        let name = if !c.names.is_empty() && r.chance(1, 5) { r.pick(c.names).clone() } else { c.fresh_name.clone() };
        if r.chance(1, 5) {
            t.push(&format!("REMEMBER QUERY {} FOLLOWED BY {} LINKED BY k AS {}", et(r), et(r), name));
        } else {
            t.push(&format!("{} QUERY {} AS {}", flip_case(r, "REMEMBER"), et(r), name));
        }
    } else if kind < 77 {
        label = "SHOW";
        let name = if !c.names.is_empty() && r.chance(4, 5) { r.pick(c.names).clone() } else { "nope".to_string() };
        t.push(&format!("{} {}", flip_case(r, "SHOW"), name));
    } else if kind < 79 {
        label = "FLUSH";
        t.push(&flip_case(r, "FLUSH"));
    } else if kind < 81 {
        label = "PING";
        t.push("PING");
    } else if kind < 83 {
        label = "BATCH";
        t.push("BATCH [ STORE ev_a FOR c1 PAYLOAD {\"k\":7,\"s\":\"x\"} ]");
    } else if kind < 87 {
        label = "DEFINE";
        let e = if r.chance(1, 4) { r.pick(c.types).clone() } else { c.fresh_type.clone() };
        t.push(&format!("{} {} FIELDS {{ k: \"int\", s: \"string\" }}", flip_case(r, "DEFINE"), e));
    } else if kind < 90 {
        label = "CREATE USER";
        let id = match r.below(6) {
            0 => user(r),
            1 => "bypass".to_string(),
            2 => "\"a b\"".to_string(),
            _ => c.fresh_user.clone(),
        };
        t.push(&format!("CREATE USER {id}"));
        if r.chance(2, 3) {
            t.push(&format!(" WITH KEY \"k{}\"", rand_hex(r, 4)));
        }
        if r.chance(1, 2) {
            let roles = r.pick(ROLE_SETS);
            t.push(&format!(" WITH ROLES [{}]", roles.iter().map(|x| format!("\"{x}\"")).collect::<Vec<_>>().join(", ")));
        }
    } else if kind < 92 {
        label = "REVOKE KEY";
        t.push(&format!("REVOKE KEY {}", user(r)));
    } else if kind < 93 {
        label = "LIST USERS";
        t.push("LIST USERS");
    } else if kind < 96 {
        label = "GRANT";
        let perms = *r.pick(&["READ", "WRITE", "READ, WRITE", "read"]);
        let mut ets = et(r);
        if r.chance(1, 3) {
            ets = format!("{ets}, {}", et(r));
        }
        t.push(&format!("GRANT {perms} ON {ets} TO {}", user(r)));
    } else if kind < 98 {
        label = "REVOKE";
        let perms = *r.pick(&["READ", "WRITE", "READ, WRITE"]);
        t.push(&format!("REVOKE {perms} ON {} FROM {}", et(r), user(r)));
    } else if kind < 99 {
        label = "SHOW PERMISSIONS";
        t.push(&format!("SHOW PERMISSIONS FOR {}", user(r)));
    } else {
        label = "garbage";
        t.push(*r.pick(&["HELLO", "", "STORE", "QUERY", "{}", "AUTHX a:b"]));
    }
    (t, label)
}

pub fn pad(r: &mut Rng, t: &Two) -> Two {
    let ws = ["", "", "", " ", "  ", "\t", "\u{a0}", "\u{2003}", "\r"];
    let mut o = Two::lit(*r.pick(&ws));
    o.push2(t);
    o.push(*r.pick(&ws));
    o
}

/// Variants of a signature slot. Returns the text and its label.
pub fn sig_variant(r: &mut Rng, key: &str, other_key: &str, msg: &Two, valid_share: u64) -> (Two, &'static str) {
    let good = sig(key, msg);
    if r.chance(valid_share, 100) {
        return (good, "valid");
    }
    match r.below(9) {
        0 => (Two::lit(&rand_hex(r, 64)), "wrong"),
        1 => {
            let n = 1 + r.below(63) as usize;
            (Two { real: good.real[..64 - n].to_string(), toy: good.toy[..64 - n].to_string() }, "truncated")
        }
        2 => (sig(other_key, msg), "other-user-key"),
        3 => {
            let mut m = msg.clone();
            m.push(" ");
            (sig(key, &m), "other-message")
        }
        4 => (Two { real: good.real.to_uppercase(), toy: good.toy.to_uppercase() }, "uppercase"),
        5 => (Two::lit(""), "empty"),
        6 => {
            let mut g = good.clone();
            g.push(&"0".repeat(193));
            (g, "overlong-257")
        }
        7 => {
            let mut g = good.clone();
            g.push(&"0".repeat(192));
            (g, "padded-256")
        }
        _ => {
            // the signature of the *trimmed* / *untrimmed* other spelling of the message
            let m = Two { real: msg.real.trim().to_string() + "  ", toy: msg.toy.trim().to_string() + "  " };
            (sig(key, &m), "other-message")
        }
    }
}
