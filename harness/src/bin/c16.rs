//! C16 component streams: the real `TimeParser`, `PayloadTimeNormalizer`, literal handling of the
//! filter / condition builders, the temporal pruner and `CalendarTimeBucketer`, against the Lean
//! model `Snel.Model.Time`. The oracle ("all spellings of one instant give one value", "bucket
//! contains its instant and starts on a calendar boundary", "a literal selects what its instant
//! says") is written with plain integer arithmetic — no chrono.
use serde_json::{json, Value};
use snel_db::command::types::{Command, CompareOp, Expr, TimeGranularity};
use snel_db::engine::core::filter::filter_group_builder::FilterGroupBuilder;
use snel_db::engine::core::time::{TemporalCalendarIndex, ZoneTemporalIndex};
use snel_db::engine::core::zone::selector::pruner::temporal_pruner::TemporalPruner;
use snel_db::engine::core::zone::selector::pruner::PruneArgs;
use snel_db::engine::core::zone::zone_artifacts::ZoneArtifacts;
use snel_db::engine::core::{ConditionEvaluatorBuilder, FilterGroup, NumericCondition, StringCondition};
use snel_db::engine::schema::{FieldType, MiniSchema, PayloadTimeNormalizer, SchemaRegistry};
use snel_db::engine::types::ScalarValue;
use snel_db::shared::datetime::time::TimeConfig;
use snel_db::shared::datetime::time_bucketing::{naive_bucket_of, CalendarTimeBucketer};
use snel_db::shared::time::{format_timestamp, TimeKind, TimeParser};
use snel_harness::enc::hexs;
use snel_harness::out::{parse_args, Stream};
use snel_harness::rng::Rng;
use std::collections::HashMap;
use std::sync::Arc;

// ------------------------------------------------------------------ independent calendar (no chrono)
// Deliberately *not* the era/day-of-era algorithm the Lean model uses: counts leap years directly
// and walks months.

fn is_leap(y: i64) -> bool {
    (y % 4 == 0 && y % 100 != 0) || y % 400 == 0
}
fn dim(y: i64, m: i64) -> i64 {
    match m {
        2 => if is_leap(y) { 29 } else { 28 },
        4 | 6 | 9 | 11 => 30,
        _ => 31,
    }
}
/// number of leap years in [1, y] for y ≥ 0; extended with floor division for y < 0
fn leaps_upto(y: i64) -> i64 {
    y.div_euclid(4) - y.div_euclid(100) + y.div_euclid(400)
}
/// days from 1970-01-01 to y-01-01
fn days_to_year(y: i64) -> i64 {
    (y - 1970) * 365 + (leaps_upto(y - 1) - leaps_upto(1969))
}
fn days_from_civil(y: i64, m: i64, d: i64) -> i64 {
    let mut n = days_to_year(y);
    for k in 1..m {
        n += dim(y, k);
    }
    n + d - 1
}
fn civil_from_days(z: i64) -> (i64, i64, i64) {
    // estimate, then correct by walking
    let mut y = 1970 + z.div_euclid(366);
    while days_to_year(y + 1) <= z {
        y += 1;
    }
    while days_to_year(y) > z {
        y -= 1;
    }
    let mut rem = z - days_to_year(y);
    let mut m = 1;
    while rem >= dim(y, m) {
        rem -= dim(y, m);
        m += 1;
    }
    (y, m, rem + 1)
}

const MIN_0000: i64 = -62_167_219_200; // 0000-01-01T00:00:00Z
const MAX_9999: i64 = 253_402_300_799; // 9999-12-31T23:59:59Z

// ------------------------------------------------------------------ generators

fn pow10(k: u32) -> i128 {
    10i128.pow(k)
}

/// An instant in epoch seconds, with a label for the distribution.
fn gen_instant(r: &mut Rng) -> (i64, &'static str) {
    match r.below(12) {
        0 | 1 => (r.range(1_400_000_000, 1_900_000_000), "t:recent"),
        2 => {
            // digit-count boundaries of the heuristic (seconds): 10^k + {-1,0,1}, k = 8..11
            let k = 8 + r.below(4) as u32;
            let base = pow10(k) as i64;
            let t = base + r.range(-1, 1);
            (if r.chance(1, 4) { -t } else { t }, "t:pow10-edge")
        }
        3 => (-r.range(1, 10_000_000_000), "t:before-1970"),
        4 => (r.range(-1000, 1000), "t:near-epoch"),
        5 => (r.range(MIN_0000, -62_135_596_801), "t:year-0000"),
        6 => (r.range(MAX_9999 - 400 * 86400, MAX_9999), "t:year-9999"),
        7 => {
            // around a day / month / year boundary
            let y = r.range(1, 9999);
            let m = r.range(1, 12);
            let d = match r.below(4) { 0 => 1, 1 => dim(y, m), 2 => 28.min(dim(y, m)), _ => r.range(1, dim(y, m)) };
            let sod = match r.below(4) { 0 => 0, 1 => 86399, 2 => 1, _ => r.range(0, 86399) };
            (days_from_civil(y, m, d) * 86400 + sod, "t:calendar-edge")
        }
        8 => {
            // Feb 28/29 and Mar 1 of a leap-ish year
            let y = *r.pick(&[1600i64, 1900, 2000, 2024, 2023, 2100, 2400, 4, 100, 400, 9996]);
            let (m, d) = *r.pick(&[(2i64, 28i64), (2, 29), (3, 1)]);
            let d = d.min(dim(y, m));
            (days_from_civil(y, m, d) * 86400 + r.range(0, 86399), "t:feb-end")
        }
        9 => (r.range(100_000_000, 9_999_999_999), "t:unit-band"),
        _ => (r.range(-62_135_596_800, MAX_9999), "t:year-0001..9999"),
    }
}

fn gen_offset_minutes(r: &mut Rng) -> i64 {
    match r.below(8) {
        0 => 0,
        1 => *r.pick(&[1439i64, -1439, 1, -1, 60, -60, 330, 345, -210, 840, -720, 765]),
        2 => r.range(-23, 23) * 60,
        _ => r.range(-1439, 1439),
    }
}

struct Spelling {
    text: String,
    /// what the instant's whole second is, when the spelling is one of a definite instant
    expect: Option<i64>,
    kind: &'static str,
    /// integer spellings: (value, intended divisor, sub-second remainder)
    int_meta: Option<(i128, i128, i128)>,
}

fn rfc3339(r: &mut Rng, t: i64, s: &mut Stream) -> Option<Spelling> {
    let mut off = gen_offset_minutes(r);
    let mut l = t + off * 60;
    let (mut y, _, _) = civil_from_days(l.div_euclid(86400));
    if !(0..=9999).contains(&y) {
        off = 0;
        l = t;
        y = civil_from_days(l.div_euclid(86400)).0;
        if !(0..=9999).contains(&y) {
            return None;
        }
    }
    let (y, m, d) = civil_from_days(l.div_euclid(86400));
    let sod = l.rem_euclid(86400);
    let (hh, mi, ss) = (sod / 3600, sod / 60 % 60, sod % 60);
    let sep = match r.below(6) { 0 => 't', 1 => ' ', _ => 'T' };
    let nfrac = match r.below(6) { 0 | 1 => 0, 2 => 3, 3 => 9, 4 => r.below(10), _ => 10 + r.below(12) };
    let mut text = format!("{y:04}-{m:02}-{d:02}{sep}{hh:02}:{mi:02}:{ss:02}");
    if nfrac > 0 {
        text.push('.');
        for _ in 0..nfrac {
            text.push((b'0' + r.below(10) as u8) as char);
        }
    }
    let zstyle;
    if off == 0 {
        match r.below(5) {
            0 => { text.push('Z'); zstyle = "off:Z"; }
            1 => { text.push('z'); zstyle = "off:z"; }
            2 => { text.push_str("-00:00"); zstyle = "off:-00:00"; }
            3 => { text.push_str("\u{2212}00:00"); zstyle = "off:U+2212"; }
            _ => { text.push_str("+00:00"); zstyle = "off:+00:00"; }
        }
    } else {
        let a = off.abs();
        let sign = if off > 0 { "+" } else if r.chance(1, 8) { "\u{2212}" } else { "-" };
        zstyle = if off > 0 { "off:east" } else if sign == "-" { "off:west" } else { "off:U+2212" };
        text.push_str(&format!("{sign}{:02}:{:02}", a / 60, a % 60));
    }
    s.tally(zstyle);
    s.tally(&format!("frac-digits:{}", if nfrac > 9 { "10+".to_string() } else { nfrac.to_string() }));
    s.tally(&format!("sep:{}", if sep == ' ' { "space".to_string() } else { sep.to_string() }));
    if off.abs() % 60 != 0 { s.tally("off:minutes!=0"); }
    // surrounding whitespace is trimmed by TimeParser
    if r.chance(1, 12) {
        let ws = *r.pick(&[" ", "\t", "\n", "\u{a0}", "\u{3000}", "\r\n", "\u{2003}"]);
        text = if r.chance(1, 2) { format!("{ws}{text}") } else { format!("{text}{ws}") };
        s.tally("outer-whitespace");
    }
    Some(Spelling { text, expect: Some(t), kind: "rfc3339", int_meta: None })
}

/// second 60 written in place of 59 (chrono reads it as :59 + ≥1e9 ns; `timestamp()` shows :59)
fn leap_spelling(r: &mut Rng, t: i64) -> Option<Spelling> {
    let t59 = t - t.rem_euclid(60) + 59;
    let off = gen_offset_minutes(r);
    let l = t59 + off * 60;
    let (y, m, d) = civil_from_days(l.div_euclid(86400));
    if !(0..=9999).contains(&y) {
        return None;
    }
    let sod = l.rem_euclid(86400);
    let a = off.abs();
    let text = format!("{y:04}-{m:02}-{d:02}T{:02}:{:02}:60{}{}{:02}:{:02}", sod / 3600, sod / 60 % 60,
        if r.chance(1, 2) { ".5" } else { "" }, if off < 0 { '-' } else { '+' }, a / 60, a % 60);
    // not an oracle case: which Unix second a leap second "is" is a convention
    Some(Spelling { text, expect: None, kind: "rfc3339-leap60", int_meta: None })
}

fn date_only(r: &mut Rng, t: i64) -> Spelling {
    // midnight of t's UTC day — or an exotic year
    let (y, m, d) = if r.chance(1, 6) {
        let y = match r.below(4) { 0 => -r.range(1, 262143), 1 => r.range(10000, 262142), 2 => r.range(-262150, -262140), _ => r.range(262140, 262150) };
        let m = r.range(1, 12);
        (y, m, r.range(1, dim(y, m)))
    } else {
        civil_from_days(t.div_euclid(86400))
    };
    let in_range = (-262143..=262142).contains(&y);
    let expect = if in_range { Some(days_from_civil(y, m, d) * 86400) } else { None };
    let style = r.below(8);
    let ys = if y < 0 { format!("-{:04}", -y) } else if y > 9999 || style == 1 { format!("+{y:04}") } else if style == 2 { format!("{y}") } else { format!("{y:04}") };
    let (ms, ds) = if style == 3 { (format!("{m}"), format!("{d}")) } else { (format!("{m:02}"), format!("{d:02}")) };
    let text = match style {
        4 => format!("{ys}- {ms}-  {ds}"),
        5 => format!("{ys}-\t{ms}-{ds}"),
        _ => format!("{ys}-{ms}-{ds}"),
    };
    let kind = if !in_range { "date-year-out-of-chrono-range" } else if y < 0 || y > 9999 { "date-exotic-year" } else { "date" };
    Spelling { text, expect: if kind == "date-year-out-of-chrono-range" { None } else { expect }, kind, int_meta: None }
}

/// (value, divisor, remainder, label): the instant t (+ a sub-second part) counted in a unit
fn int_value(r: &mut Rng, t: i64) -> (i128, i128, i128, &'static str) {
    let (div, label): (i128, &'static str) = match r.below(4) {
        0 => (1, "int:s"),
        1 => (1_000, "int:ms"),
        2 => (1_000_000, "int:us"),
        _ => (1_000_000_000, "int:ns"),
    };
    let rem: i128 = if div == 1 || r.chance(1, 2) { 0 } else { r.below(div as u64) as i128 };
    ((t as i128) * div + rem, div, rem, label)
}

fn int_string(r: &mut Rng, t: i64, s: &mut Stream) -> Spelling {
    let (v, div, rem, label) = int_value(r, t);
    s.tally(label);
    let mut text = v.to_string();
    match r.below(10) {
        0 if v >= 0 => text = format!("+{text}"),
        1 => {
            let (sign, digits) = if let Some(d) = text.strip_prefix('-') { ("-", d.to_string()) } else { ("", text.clone()) };
            text = format!("{sign}{}{digits}", "0".repeat(1 + r.below(12) as usize));
            s.tally("int:leading-zeros");
        }
        2 => text = format!(" {text}\n"),
        _ => {}
    }
    Spelling { text, expect: Some(t), kind: "int-string", int_meta: Some((v, div, rem)) }
}

/// integers at the digit-count boundaries 10^9 … 10^20 (and beyond i64 / i128)
fn boundary_int_string(r: &mut Rng) -> Spelling {
    let k = 8 + r.below(14) as u32; // 10^8 .. 10^21
    let base = pow10(k);
    let v = match r.below(5) { 0 => base - 1, 1 => base, 2 => base + 1, 3 => -(base - 1), _ => -base };
    let text = match r.below(12) {
        0 => "9223372036854775807".to_string(),
        1 => "-9223372036854775808".to_string(),
        2 => "9223372036854775808".to_string(),
        3 => "170141183460469231731687303715884105727".to_string(),
        4 => "170141183460469231731687303715884105728".to_string(),
        5 => "-170141183460469231731687303715884105728".to_string(),
        6 => "18446744073709551615".to_string(),
        _ => v.to_string(),
    };
    Spelling { text, expect: None, kind: "int-boundary", int_meta: None }
}

fn mutate(r: &mut Rng, base: &str, s: &mut Stream) -> String {
    let mut chars: Vec<char> = base.chars().collect();
    let which = r.below(16);
    let label = match which {
        0 => { // bad month
            if chars.len() > 7 { let m = *r.pick(&["00", "13", "19", "99"]); chars.splice(5..7, m.chars()); }
            "mut:bad-month"
        }
        1 => { if chars.len() > 10 { let d = *r.pick(&["00", "32", "31", "30", "29", "99"]); chars.splice(8..10, d.chars()); } "mut:day" }
        2 => { if chars.len() > 13 { let h = *r.pick(&["24", "25", "99"]); chars.splice(11..13, h.chars()); } "mut:bad-hour" }
        3 => { if chars.len() > 16 { chars.splice(14..16, "60".chars()); } "mut:minute-60" }
        4 => { if chars.len() > 19 { let x = *r.pick(&["61", "60", "99"]); chars.splice(17..19, x.chars()); } "mut:second" }
        5 => { // missing zone
            while let Some(&c) = chars.last() { if c == 'Z' || c == 'z' { chars.pop(); break; } if chars.len() > 19 && (c == '+' || c == '-' || c == '\u{2212}') { chars.pop(); break; } if chars.len() <= 19 { break; } chars.pop(); }
            "mut:missing-zone"
        }
        6 => { let j = *r.pick(&["x", " ", "Z", "0", "+00:00", "\u{e9}", "."]); chars.extend(j.chars()); "mut:trailing-junk" }
        7 => { if chars.len() > 10 { chars[10] = *r.pick(&['_', 'Z', '-', ':', '\t', 'T', 't', ' ']); } "mut:separator" }
        8 => { // offset shapes
            let cut = chars.iter().rposition(|c| *c == '+' || *c == '-' || *c == '\u{2212}').filter(|p| *p >= 19);
            if let Some(p) = cut { chars.truncate(p); chars.extend(r.pick(&["+24:00", "-24:00", "+23:60", "+0530", "+05", "+5:30", "+05:3", "+05:30:00", "+99:59", "+23:59", "-23:59", " +05:30", "+ 05:30", "UTC", "+05.30"]).chars()); }
            "mut:offset-shape"
        }
        9 => { // fraction shapes
            if chars.len() > 19 { let ins = *r.pick(&[".", ",5", ".x", ". 5", ".5.5", ".-5"]); let tail: Vec<char> = chars.split_off(19); chars.extend(ins.chars()); chars.extend(tail); }
            "mut:fraction-shape"
        }
        10 => { if !chars.is_empty() { let i = r.below(chars.len() as u64) as usize; chars.remove(i); } "mut:delete-char" }
        11 => { let i = r.below(chars.len() as u64 + 1) as usize; chars.insert(i, *r.pick(&['0', '1', '-', ':', ' ', 'T', '.', '+', 'a', '\u{660}', '\u{2212}'])); "mut:insert-char" }
        12 => { if !chars.is_empty() { let i = r.below(chars.len() as u64) as usize; chars[i] = *r.pick(&['0', '9', '-', ':', ' ', 'T', 'Z', '.', '+', 'x', '\u{661}']); } "mut:replace-char" }
        13 => { if chars.len() > 4 { chars.drain(0..2); } "mut:two-digit-year" }
        14 => { if chars.len() > 10 { chars.truncate(10 + r.below(10) as usize); } "mut:truncated" }
        _ => { // Feb 29 / 30 of a random year
            let y = r.range(0, 9999);
            let d = *r.pick(&[29, 30]);
            let tail: String = if chars.len() > 10 { chars[10..].iter().collect() } else { String::new() };
            chars = format!("{y:04}-02-{d:02}{tail}").chars().collect();
            "mut:feb-29-30"
        }
    };
    s.tally(label);
    chars.into_iter().collect()
}

fn random_string(r: &mut Rng) -> String {
    let alphabet: Vec<char> = "0123456789-+:.TZtz 0123456789--::".chars().collect();
    let n = r.below(28) as usize;
    (0..n).map(|_| *r.pick(&alphabet)).collect()
}

/// One generated spelling; `t` is the instant it is (or started as) a spelling of.
fn gen_spelling(r: &mut Rng, t: i64, s: &mut Stream) -> Spelling {
    match r.below(20) {
        0..=7 => rfc3339(r, t, s).unwrap_or_else(|| int_string(r, t, s)),
        8 | 9 => date_only(r, t),
        10..=12 => int_string(r, t, s),
        13 => boundary_int_string(r),
        14 => leap_spelling(r, t).unwrap_or_else(|| boundary_int_string(r)),
        15 => Spelling { text: random_string(r), expect: None, kind: "random-chars", int_meta: None },
        _ => {
            let base = match r.below(4) {
                0 => date_only(r, t).text,
                _ => rfc3339(r, t, s).map(|x| x.text).unwrap_or_else(|| "2024-02-29T12:00:00Z".into()),
            };
            Spelling { text: mutate(r, &base, s), expect: None, kind: "malformed", int_meta: None }
        }
    }
}

// ------------------------------------------------------------------ oracle helpers

fn digits_i128(v: i128) -> u32 {
    let mut x = v.unsigned_abs();
    if x == 0 { return 1; }
    let mut c = 0;
    while x > 0 { x /= 10; c += 1; }
    c
}

/// Finding class of an integer spelling whose result differs from the instant's second.
/// `unit-ambiguous`: the digit count of the value does not fall in the band the code assigns to
/// the unit the value was written in. Anything else — in particular a negative value with a
/// sub-second remainder that is not floored (repaired in repo commit 700d14d) — has no class.
fn int_class(v: i128, div: i128, _rem: i128) -> &'static str {
    let d = digits_i128(v);
    let assumed: Option<i128> = match d { 0..=11 => Some(1), 12..=14 => Some(1_000), 15..=16 => Some(1_000_000), 17..=19 => Some(1_000_000_000), _ => None };
    if assumed != Some(div) { "unit-ambiguous" } else { "-" }
}

fn show_opt(o: Option<i64>) -> String {
    match o { Some(t) => format!("some {t}"), None => "none".into() }
}

// ------------------------------------------------------------------ streams

fn stream_parse(a: &snel_harness::out::Args) {
    let mut s = Stream::create(&a.out, "parse");
    for i in 0..a.cases {
        if a.only.is_some_and(|o| o != i) { continue; }
        let mut r = Rng::for_case(a.seed, "parse", i);
        let (t, tl) = gen_instant(&mut r);
        s.tally(tl);
        let n = 1 + r.below(6);
        for _ in 0..n {
            let sp = gen_spelling(&mut r, t, &mut s);
            let kind = if r.chance(1, 2) { TimeKind::DateTime } else { TimeKind::Date };
            let got = TimeParser::parse_str_to_epoch_seconds(&sp.text, kind);
            // the `kind` argument must not matter
            let other = TimeParser::parse_str_to_epoch_seconds(&sp.text, if kind == TimeKind::Date { TimeKind::DateTime } else { TimeKind::Date });
            s.tally(&format!("kind:{}", sp.kind));
            s.tally(if got.is_some() { "result:some" } else { "result:none" });
            if sp.kind == "malformed" || sp.kind == "random-chars" { s.tally(if got.is_some() { "malformed-accepted" } else { "malformed-rejected" }); }
            s.case(&format!("parse {}", hexs(&sp.text)), &show_opt(got), got.is_some());
            if got != other {
                s.oracle_fail(i, "-", &format!("TimeKind changes the result for {:?}: {:?} vs {:?}", sp.text, got, other));
            }
            if let Some(exp) = sp.expect {
                if got == Some(exp) {
                    s.oracle_ok();
                } else {
                    let class = match sp.int_meta { Some((v, d, rm)) => int_class(v, d, rm), None => "-" };
                    s.tally(&format!("oracle-fail:{class}"));
                    s.oracle_fail(i, class, &format!("spelling {:?} ({}) of instant {} gave {:?}", sp.text, sp.kind, exp, got));
                }
            }
        }
    }
    s.finish();
}

fn jv_token(v: &Value) -> String {
    match v {
        Value::Null => "n".into(),
        Value::Bool(true) => "t".into(),
        Value::Bool(false) => "f".into(),
        Value::Number(n) => {
            if let Some(i) = n.as_i64() { format!("i{i}") }
            else if let Some(u) = n.as_u64() { format!("u{u}") }
            else { format!("d{:016x}", n.as_f64().unwrap().to_bits()) }
        }
        Value::String(s) => format!("s{}", hexs(s)),
        other => format!("c{}", hexs(&serde_json::to_string(other).unwrap())),
    }
}

fn norm_result(v: &Value, kind: TimeKind) -> String {
    let mut x = v.clone();
    match TimeParser::normalize_json_value(&mut x, kind) {
        Ok(()) => match x.as_i64() { Some(t) => format!("ok:{t}"), None => format!("ok-but-not-i64:{x}") },
        Err(e) => {
            if e.starts_with("Unrecognized integer time magnitude") { "err:mag".into() }
            else if e.starts_with("Invalid time string") { "err:str".into() }
            else if e.starts_with("Time field must be a number or string") { "err:type".into() }
            else { format!("err:other:{e}") }
        }
    }
}

struct GenJson {
    v: Value,
    expect: Option<i64>,
    kind: &'static str,
    int_meta: Option<(i128, i128, i128)>,
}

fn gen_json(r: &mut Rng, t: i64, s: &mut Stream) -> GenJson {
    match r.below(16) {
        0..=4 => {
            let (v, div, rem, label) = int_value(r, t);
            s.tally(label);
            if let Ok(i) = i64::try_from(v) {
                GenJson { v: json!(i), expect: Some(t), kind: "json-int", int_meta: Some((v, div, rem)) }
            } else if let Ok(u) = u64::try_from(v) {
                GenJson { v: json!(u), expect: Some(t), kind: "json-u64", int_meta: Some((v, div, rem)) }
            } else {
                GenJson { v: json!(t), expect: Some(t), kind: "json-int", int_meta: Some((t as i128, 1, 0)) }
            }
        }
        5 => {
            let x = match r.below(8) {
                0 => json!(i64::MAX), 1 => json!(i64::MIN), 2 => json!(u64::MAX), 3 => json!(i64::MAX as u64 + 1),
                4 => json!(9_999_999_999_999_999_999u64), 5 => json!(10_000_000_000_000_000_000u64), 6 => json!(0),
                _ => { let k = 8 + r.below(11) as u32; let b = pow10(k) as i64; json!(match r.below(4) { 0 => b - 1, 1 => b, 2 => -b, _ => -(b - 1) }) }
            };
            GenJson { v: x, expect: None, kind: "json-int-boundary", int_meta: None }
        }
        6..=8 => {
            // float seconds t + k/1024 (exact in f64 while |t| < 2^42)
            let k = if r.chance(1, 5) { 0 } else { r.below(1024) as i64 };
            let tt = if t.abs() < (1 << 42) { t } else { t % (1 << 40) };
            let f = tt as f64 + (k as f64) / 1024.0;
            s.tally(if k == 0 { "float:integral" } else { "float:fraction" });
            if tt < 0 { s.tally("float:negative"); }
            GenJson { v: json!(f), expect: Some(tt), kind: "json-float", int_meta: None }
        }
        9 => {
            let f = *r.pick(&[0.0f64, -0.0, 0.5, -0.5, 1e300, -1e300, 9.223372036854775807e18, -9.223372036854775808e18, 9.3e18, 1e-310, -1e-310, 4503599627370496.5, 1.7e12, 1.7000000005e9, f64::MAX, f64::MIN_POSITIVE]);
            GenJson { v: json!(f), expect: None, kind: "json-float-special", int_meta: None }
        }
        10..=13 => {
            let sp = gen_spelling(r, t, s);
            GenJson { v: json!(sp.text), expect: sp.expect, kind: "json-string", int_meta: sp.int_meta }
        }
        14 => GenJson { v: r.pick(&[Value::Null, json!(true), json!(false)]).clone(), expect: None, kind: "json-null-bool", int_meta: None },
        _ => GenJson { v: r.pick(&[json!([1700000000]), json!({"t": 1700000000}), json!([]), json!(["2024-01-01"])]).clone(), expect: None, kind: "json-compound", int_meta: None },
    }
}

fn stream_json(a: &snel_harness::out::Args) {
    let mut s = Stream::create(&a.out, "json");
    for i in 0..a.cases {
        if a.only.is_some_and(|o| o != i) { continue; }
        let mut r = Rng::for_case(a.seed, "json", i);
        let (t, tl) = gen_instant(&mut r);
        s.tally(tl);
        let n = 1 + r.below(4);
        for _ in 0..n {
            let g = gen_json(&mut r, t, &mut s);
            let (ft, fname, kind) = match r.below(4) {
                0 => (FieldType::Timestamp, "ts", TimeKind::DateTime),
                1 => (FieldType::Date, "date", TimeKind::Date),
                2 => (FieldType::Optional(Box::new(FieldType::Timestamp)), "opt-ts", TimeKind::DateTime),
                _ => (FieldType::Optional(Box::new(FieldType::Date)), "opt-date", TimeKind::Date),
            };
            let direct = norm_result(&g.v, kind);
            // the payload normaliser on {"f": v, "other": …}
            let schema = MiniSchema { fields: HashMap::from([("f".to_string(), ft), ("k".to_string(), FieldType::I64)]) };
            let mut payload = json!({"f": g.v.clone(), "k": 1700000000000i64});
            let via_payload = match PayloadTimeNormalizer::new(&schema).normalize(&mut payload) {
                Ok(()) => {
                    if payload["k"] != json!(1700000000000i64) { "touched-non-time-field".to_string() }
                    else if payload["f"].is_null() { "null".to_string() }
                    else { match payload["f"].as_i64() { Some(t) => format!("ok:{t}"), None => format!("ok-but-not-i64:{}", payload["f"]) } }
                }
                Err(e) => {
                    if e.starts_with("Unrecognized integer time magnitude") { "err:mag".into() }
                    else if e.starts_with("Invalid time string") { "err:str".into() }
                    else if e.starts_with("Time field must be a number or string") { "err:type".into() }
                    else { format!("err:other:{e}") }
                }
            };
            s.tally(&format!("kind:{}", g.kind));
            s.tally(&format!("field:{fname}"));
            s.tally(&format!("result:{}", if direct.starts_with("ok") { "ok" } else { direct.as_str() }));
            s.case(&format!("json {fname} {}", jv_token(&g.v)), &format!("{direct} {via_payload}"), direct.starts_with("ok"));
            if let Some(exp) = g.expect {
                if direct == format!("ok:{exp}") {
                    s.oracle_ok();
                } else {
                    let class = match g.int_meta { Some((v, d, rm)) => int_class(v, d, rm), None => "-" };
                    s.tally(&format!("oracle-fail:{class}"));
                    s.oracle_fail(i, class, &format!("json {} ({}) of instant {} gave {}", g.v, g.kind, exp, direct));
                }
            }
        }
    }
    s.finish();
}

// ---- bucketing

const GRANS: [(&str, TimeGranularity); 5] = [
    ("hour", TimeGranularity::Hour), ("day", TimeGranularity::Day), ("week", TimeGranularity::Week),
    ("month", TimeGranularity::Month), ("year", TimeGranularity::Year),
];
const WEEKDAYS: [&str; 7] = ["Mon", "Tue", "Wed", "Thu", "Fri", "Sat", "Sun"];

fn time_config(tz: Option<&str>, week_start: usize) -> TimeConfig {
    serde_json::from_value(json!({"timezone": tz, "week_start": WEEKDAYS[week_start], "use_calendar_bucketing": true})).unwrap()
}

/// independent spec: is `b` the start of the `g` bucket of local second `l`?
fn bucket_spec_ok(g: &str, ws: i64, l: i64, b: i64) -> Result<(), String> {
    if b > l { return Err("bucket start after the instant".into()); }
    if b.rem_euclid(if g == "hour" { 3600 } else { 86400 }) != 0 { return Err("bucket start not on an hour/day boundary".into()); }
    let (bd, ld) = (b.div_euclid(86400), l.div_euclid(86400));
    let (by, bm, bdd) = civil_from_days(bd);
    let (ly, lm, _) = civil_from_days(ld);
    match g {
        "hour" => if l - b >= 3600 { return Err("instant not inside the hour".into()); },
        "day" => if l - b >= 86400 { return Err("instant not inside the day".into()); },
        "week" => {
            if l - b >= 7 * 86400 { return Err("instant not inside the week".into()); }
            // 1970-01-01 was a Thursday
            let wd = (bd + 3).rem_euclid(7);
            if wd != ws { return Err(format!("week starts on weekday {wd}, configured {ws}")); }
        }
        "month" => if (by, bm) != (ly, lm) || bdd != 1 { return Err("not the first of the instant's month".into()); },
        "year" => if by != ly || bm != 1 || bdd != 1 { return Err("not Jan 1 of the instant's year".into()); },
        _ => unreachable!(),
    }
    Ok(())
}

fn stream_bucket(a: &snel_harness::out::Args) {
    let mut s = Stream::create(&a.out, "bucket");
    std::panic::set_hook(Box::new(|_| {}));
    // (name given to chrono-tz, constant offset in seconds, earliest instant for which it is constant)
    let mut zones: Vec<(Option<String>, i64, i64)> = vec![(None, 0, i64::MIN), (Some("UTC".into()), 0, i64::MIN), (Some("Etc/UTC".into()), 0, i64::MIN)];
    for h in -14i64..=12 {
        // POSIX sign convention: Etc/GMT+5 is five hours *west*
        let name = if h == 0 { "Etc/GMT".to_string() } else { format!("Etc/GMT{}{}", if h > 0 { "+" } else { "-" }, h.abs()) };
        zones.push((Some(name), -h * 3600, i64::MIN));
    }
    zones.push((Some("Asia/Kolkata".into()), 19800, -600_000_000)); // +05:30 since 1945
    zones.push((Some("Asia/Kathmandu".into()), 20700, 600_000_000)); // +05:45 since 1986
    zones.push((Some("No/Such_Zone".into()), 0, i64::MIN)); // unparsable ⇒ UTC branch
    for i in 0..a.cases {
        if a.only.is_some_and(|o| o != i) { continue; }
        let mut r = Rng::for_case(a.seed, "bucket", i);
        let (name, off, from) = r.pick(&zones).clone();
        let ws = r.below(7) as usize;
        let (gname, gran) = r.pick(&GRANS).clone();
        let utc_like = off == 0 && from == i64::MIN;
        let (t, tl): (i64, &str) = match r.below(10) {
            0 if utc_like => (*r.pick(&[-8_334_601_228_800i64, -8_334_601_228_801, 8_210_266_876_799, 8_210_266_876_800, i64::MAX, i64::MIN, -1, 0]), "ts:chrono-range-edge"),
            1 if utc_like => (-r.range(1, 8_000_000_000_000), "ts:negative-as-u64"),
            2 if utc_like => (r.range(0, 8_000_000_000_000), "ts:far-future"),
            _ => { let (t, l) = gen_instant(&mut r); (t.max(from), l) }
        };
        let ts = t as u64;
        let bucketer = CalendarTimeBucketer::new(time_config(name.as_deref(), ws));
        // chrono panics (`NaiveDate - TimeDelta` overflowed) when the week start would fall before
        // NaiveDate::MIN; the model reproduces that as "panic"
        let got = match std::panic::catch_unwind(std::panic::AssertUnwindSafe(|| bucketer.bucket_of(ts, &gran))) {
            Ok(v) => v.to_string(),
            Err(_) => { s.tally("result:panic"); "panic".to_string() }
        };
        s.tally(tl);
        s.tally(&format!("gran:{gname}"));
        s.tally(&format!("zone:{}", match &name { None => "none".to_string(), Some(n) if n.starts_with("Etc/GMT") => "Etc/GMT±h".to_string(), Some(n) => n.clone() }));
        if gname == "week" { s.tally(&format!("week-start:{}", WEEKDAYS[ws])); }
        s.case(&format!("bucket {off} {ws} {gname} {ts}"), &got, true);
        // oracle (instants chrono can represent; the fallback-to-epoch region is compared only)
        if (-8_000_000_000_000..=8_000_000_000_000).contains(&t) {
            let b = got.parse::<u64>().map(|x| x as i64).unwrap_or(i64::MIN);
            match bucket_spec_ok(gname, ws as i64, t + off, b + off) {
                Ok(()) => s.oracle_ok(),
                Err(e) => s.oracle_fail(i, "-", &format!("bucket_of({ts}, {gname}) tz={name:?} week_start={} = {got}: {e}", WEEKDAYS[ws])),
            }
        }
        // naive variant rides along (same op namespace, separate line)
        if r.chance(1, 5) {
            let n = naive_bucket_of(ts, &gran);
            s.case(&format!("naive {gname} {ts}"), &n.to_string(), true);
        }
    }
    s.finish();
}

fn stream_fmt(a: &snel_harness::out::Args) {
    let mut s = Stream::create(&a.out, "fmt");
    for i in 0..a.cases {
        if a.only.is_some_and(|o| o != i) { continue; }
        let mut r = Rng::for_case(a.seed, "fmt", i);
        let (t, tl) = gen_instant(&mut r);
        let t = t.clamp(MIN_0000, MAX_9999);
        s.tally(tl);
        let text = format_timestamp(t as u64);
        s.case(&format!("fmt {}", t as u64), &hexs(&text), true);
        // oracle: chrono's own rendering, re-read by the code's parser, is the same instant;
        // and it equals the independent calendar
        let (y, m, d) = civil_from_days(t.div_euclid(86400));
        let sod = t.rem_euclid(86400);
        let want = format!("{y:04}-{m:02}-{d:02}T{:02}:{:02}:{:02}+00:00", sod / 3600, sod / 60 % 60, sod % 60);
        let back = TimeParser::parse_str_to_epoch_seconds(&text, TimeKind::DateTime);
        if text == want && back == Some(t) { s.oracle_ok(); } else {
            s.oracle_fail(i, "-", &format!("format_timestamp({t}) = {text:?}, independent calendar says {want:?}, parsed back {back:?}"));
        }
    }
    s.finish();
}

// ---- the query-side sites

fn sv_token(v: &ScalarValue) -> String {
    match v {
        ScalarValue::Null => "n".into(),
        ScalarValue::Boolean(true) => "t".into(),
        ScalarValue::Boolean(false) => "f".into(),
        ScalarValue::Int64(i) => format!("i{i}"),
        ScalarValue::Timestamp(i) => format!("T{i}"),
        ScalarValue::Float64(f) => format!("d{:016x}", f.to_bits()),
        ScalarValue::Utf8(s) => format!("s{}", hexs(s)),
        ScalarValue::Binary(_) => "bin".into(),
    }
}

const OPS: [(&str, CompareOp); 6] = [("eq", CompareOp::Eq), ("neq", CompareOp::Neq), ("gt", CompareOp::Gt), ("gte", CompareOp::Gte), ("lt", CompareOp::Lt), ("lte", CompareOp::Lte)];

fn query_cmd(where_clause: Option<Expr>, since: Option<String>, time_field: Option<String>) -> Command {
    Command::Query {
        event_type: "ev".into(), context_id: None, since, time_field, sequence_time_field: None, where_clause,
        limit: None, offset: None, order_by: None, picked_zones: None, return_fields: None, link_field: None,
        aggs: None, time_bucket: None, group_by: None, event_sequence: None,
    }
}

fn cond_token(e: &Expr, field: &str, op: &CompareOp, lit_str: Option<&str>) -> String {
    let mut b = ConditionEvaluatorBuilder::new();
    b.add_where_clause(e);
    let conds = b.into_evaluator().into_conditions();
    match conds.len() {
        0 => "dropped".into(),
        1 => {
            let c = &conds[0];
            if let Some(n) = c.as_any().downcast_ref::<NumericCondition>() {
                if n.field() != field || format!("{:?}", n.op()) != format!("{:?}", op) { return "numeric-with-other-field-or-op".into(); }
                format!("num:{}", n.value())
            } else if c.as_any().downcast_ref::<StringCondition>().is_some() {
                // the value is private: confirm it is the literal itself through Eq evaluation
                let lit = lit_str.unwrap_or("");
                let mut vals = HashMap::new();
                vals.insert(field.to_string(), vec![lit.to_string()]);
                let hit = c.evaluate(&vals);
                let is_eq = *op == CompareOp::Eq;
                let is_neq = *op == CompareOp::Neq;
                if (is_eq && hit) || (is_neq && !hit) || (!is_eq && !is_neq) { format!("str:{}", hexs(lit)) } else { "str:other-value".into() }
            } else {
                format!("other:{c:?}")
            }
        }
        n => format!("{n}-conditions"),
    }
}

fn stream_sites(a: &snel_harness::out::Args) {
    let mut s = Stream::create(&a.out, "sites");
    let rt = tokio::runtime::Builder::new_current_thread().build().unwrap();
    let dir = a.out.join("schema-sites");
    let _ = std::fs::remove_dir_all(&dir);
    std::fs::create_dir_all(&dir).unwrap();
    let mut reg = SchemaRegistry::new_with_path(dir.join("schemas.bin")).unwrap();
    let schema = MiniSchema { fields: HashMap::from([
        ("f".to_string(), FieldType::Timestamp), ("g".to_string(), FieldType::Date),
        ("h".to_string(), FieldType::Optional(Box::new(FieldType::Timestamp))), ("k".to_string(), FieldType::I64),
    ]) };
    reg.define("ev", schema.clone()).unwrap();
    let reg = Arc::new(tokio::sync::RwLock::new(reg));
    for i in 0..a.cases {
        if a.only.is_some_and(|o| o != i) { continue; }
        let mut r = Rng::for_case(a.seed, "sites", i);
        let (t, tl) = gen_instant(&mut r);
        s.tally(tl);
        let g = gen_json(&mut r, t, &mut s);
        let field = *r.pick(&["f", "g", "h"]);
        let (opname, op) = r.pick(&OPS).clone();
        s.tally(&format!("kind:{}", g.kind));
        s.tally(&format!("op:{opname}"));
        // site 1: STORE
        let kind = if field == "g" { TimeKind::Date } else { TimeKind::DateTime };
        let store = norm_result(&g.v, kind);
        // site 2: FilterGroupBuilder::build_all → normalize_temporal_literals → FilterGroup value.
        // build_all is what reaches the rewrite; QueryPlan only calls it when `build` returned None.
        let expr = Expr::Compare { field: field.to_string(), op: op.clone(), value: g.v.clone() };
        let groups = rt.block_on(FilterGroupBuilder::build_all(&query_cmd(Some(expr.clone()), None, None), &reg));
        let mut rw = "missing".to_string();
        for fg in &groups {
            if let FilterGroup::Filter { column, operation: Some(o), value: Some(v), .. } = fg {
                if column == field && *o == op { rw = sv_token(v); }
            }
        }
        // the un-normalised path (`FilterGroupBuilder::build`), which is what plans with a WHERE use
        let raw = match FilterGroupBuilder::build(&expr, &None) {
            Some(FilterGroup::Filter { value: Some(v), .. }) => sv_token(&v),
            _ => "missing".to_string(),
        };
        // site 3: row condition
        let lit_str: Option<String> = match ScalarValue::from(g.v.clone()) { ScalarValue::Utf8(x) => Some(x), _ => None };
        let row = cond_token(&expr, field, &op, lit_str.as_deref());
        s.case(&format!("sites {}", jv_token(&g.v)), &format!("store={store} raw={raw} rw={rw} row={row}"), store.starts_with("ok"));
        // oracle: every site that accepts the literal reads it as the instant's second.
        // JSON *numbers* in WHERE are epoch seconds by the property text; a number written in
        // ms/us/ns is not a spelling WHERE promises to accept, so it is tallied, not judged.
        let where_int_other_unit = matches!((&g.v, g.int_meta), (Value::Number(n), Some((_, d, _))) if (n.is_i64() || n.is_u64()) && d != 1);
        if where_int_other_unit { s.tally("where-integer-in-ms/us/ns (not judged)"); }
        if let (Some(exp), false) = (g.expect, where_int_other_unit) {
            let mut bad: Vec<String> = vec![];
            if store != format!("ok:{exp}") { bad.push(format!("store={store}")); }
            if row != format!("num:{exp}") { bad.push(format!("row={row}")); }
            if rw != format!("i{exp}") { bad.push(format!("rewrite={rw}")); }
            if bad.is_empty() { s.oracle_ok(); } else {
                let class = site_class(&g, exp);
                s.tally(&format!("oracle-fail:{class}"));
                s.oracle_fail(i, class, &format!("literal {} ({}) of instant {exp}: {}", g.v, g.kind, bad.join(" ")));
            }
        }
    }
    s.finish();
}

/// Finding class for a literal of a definite instant on which the sites do not all return it.
fn site_class(g: &GenJson, _exp: i64) -> &'static str {
    match (&g.v, g.int_meta) {
        // an integer (number or numeric string) outside the band of its unit, or negative with remainder
        (Value::String(_), Some((v, d, rm))) => int_class(v, d, rm),
        // JSON integers: STORE applies the unit heuristic, WHERE compares the raw number
        (Value::Number(n), Some((v, d, rm))) if n.is_i64() || n.is_u64() => int_class(v, d, rm),
        // JSON floats: STORE floors, the row condition drops the comparison, the rewrite keeps the float
        (Value::Number(_), None) => "where-float-literal",
        _ => "-",
    }
}

/// SINCE literal through the real planner: `QueryPlan::build` (→ `build_all` → `add_time_filter`)
/// and `ConditionEvaluatorBuilder::build_from_plan` (→ `add_special_fields`).
fn stream_since(a: &snel_harness::out::Args) {
    use snel_db::engine::core::QueryPlan;
    let mut s = Stream::create(&a.out, "since");
    let rt = tokio::runtime::Builder::new_current_thread().build().unwrap();
    let dir = a.out.join("schema-since");
    let _ = std::fs::remove_dir_all(&dir);
    std::fs::create_dir_all(&dir).unwrap();
    let mut reg = SchemaRegistry::new_with_path(dir.join("schemas.bin")).unwrap();
    reg.define("ev", MiniSchema { fields: HashMap::from([("f".to_string(), FieldType::Timestamp), ("k".to_string(), FieldType::I64)]) }).unwrap();
    let reg = Arc::new(tokio::sync::RwLock::new(reg));
    for i in 0..a.cases {
        if a.only.is_some_and(|o| o != i) { continue; }
        let mut r = Rng::for_case(a.seed, "since", i);
        let (t, tl) = gen_instant(&mut r);
        s.tally(tl);
        let sp = gen_spelling(&mut r, t, &mut s);
        let using = r.chance(1, 2);
        let tf = if using { "f" } else { "timestamp" };
        s.tally(&format!("kind:{}", sp.kind));
        s.tally(if using { "using:f" } else { "using:default-timestamp" });
        let cmd = query_cmd(None, Some(sp.text.clone()), if using { Some("f".to_string()) } else { None });
        let plan = rt.block_on(QueryPlan::build(&cmd, Arc::clone(&reg)));
        // filter side: the time filter carries the literal unparsed (the pruner parses it)
        let mut filt = "missing".to_string();
        for fg in &plan.filter_groups {
            if let FilterGroup::Filter { column, operation: Some(CompareOp::Gte), value: Some(v), .. } = fg {
                if column == tf { filt = sv_token(v); }
            }
        }
        // row side
        let conds = ConditionEvaluatorBuilder::build_from_plan(&plan).into_conditions();
        let mut row = "none".to_string();
        let mut extra = 0;
        for c in &conds {
            if let Some(n) = c.as_any().downcast_ref::<NumericCondition>() {
                if n.field() == tf && format!("{:?}", n.op()) == "Gte" { row = format!("some {}", n.value()); } else { extra += 1; }
            }
        }
        if extra > 0 { row = format!("{row}+{extra}-unexpected-numeric"); }
        s.tally(if row == "none" { "result:ignored" } else { "result:condition" });
        s.case(&format!("since {}", hexs(&sp.text)), &format!("filter={filt} row={row}"), row != "none");
        if let Some(exp) = sp.expect {
            if row == format!("some {exp}") { s.oracle_ok(); } else {
                let class = match sp.int_meta { Some((v, d, rm)) => int_class(v, d, rm), None => "-" };
                s.tally(&format!("oracle-fail:{class}"));
                s.oracle_fail(i, class, &format!("SINCE {:?} ({}) of instant {exp}: row condition {row}", sp.text, sp.kind));
            }
        }
    }
    s.finish();
}

// ---- temporal pruner: literal → zones

fn stream_zone(a: &snel_harness::out::Args) {
    let mut s = Stream::create(&a.out, "zone");
    let base = a.out.join("zone-segs");
    let _ = std::fs::remove_dir_all(&base);
    for i in 0..a.cases {
        if a.only.is_some_and(|o| o != i) { continue; }
        let mut r = Rng::for_case(a.seed, "zone", i);
        let (t, tl) = gen_instant(&mut r);
        s.tally(tl);
        // literal
        let g = loop {
            let g = gen_json(&mut r, t, &mut s);
            if !matches!(g.v, Value::Array(_) | Value::Object(_)) || r.chance(1, 3) { break g; }
        };
        let sv = ScalarValue::from(g.v.clone());
        let (opname, op) = r.pick(&OPS).clone();
        // one zone holding 1–4 instants near the literal's instant (or negative / far away)
        let centre = match r.below(8) { 0 => 0, 1 => -r.range(1, 100_000), 2 => r.range(0, 4_000_000_000), 3 | 4 => t.abs() % 4_000_000_000, _ => t };
        let n = 1 + r.below(4);
        let mut zone: Vec<i64> = (0..n).map(|_| centre.saturating_add(match r.below(4) { 0 => 0, 1 => r.range(-3, 3), 2 => r.range(-4000, 4000), _ => r.range(-90_000, 90_000) })).collect();
        if r.chance(1, 10) { zone = vec![t]; }
        // keep the calendar loops short and inside its u32 bucket ids: the calendar is C08's
        // subject; here it must only not hide the ZTI decision. A zone is registered in the
        // calendar iff min ≥ 0 (temporal_builder.rs); otherwise the pruner sees no candidates.
        let seg = format!("{:05}", i % 50000);
        let segdir = base.join(&seg);
        std::fs::create_dir_all(&segdir).unwrap();
        let column = *r.pick(&["timestamp", "f"]);
        let zti = ZoneTemporalIndex::from_timestamps(zone.clone(), 1, 64);
        ZoneTemporalIndex::save_field_slab("u1", column, &segdir, &[(0u32, &zti)]).unwrap();
        let (mn, mx) = (*zone.iter().min().unwrap(), *zone.iter().max().unwrap());
        let registered = mn >= 0 && mx >= 0;
        let mut cal = TemporalCalendarIndex::new(column);
        if registered { cal.add_zone_range(0, mn as u64, mx as u64); }
        cal.save("u1", &segdir).unwrap();
        let pruner = TemporalPruner { artifacts: ZoneArtifacts::new(&base, None) };
        let args = PruneArgs { segment_id: &seg, uid: "u1", column, value: Some(&sv), op: Some(&op) };
        let out = pruner.apply_temporal_only(&args);
        let imp = match &out { None => "unhandled".to_string(), Some(z) if z.is_empty() => "pruned".to_string(), Some(_) => "kept".to_string() };
        let _ = std::fs::remove_dir_all(&segdir);
        s.tally(&format!("kind:{}", g.kind));
        s.tally(&format!("op:{opname}"));
        s.tally(&format!("result:{imp}"));
        s.tally(if registered { "zone:in-calendar" } else { "zone:negative-not-in-calendar" });
        let zs = zone.iter().map(|z| z.to_string()).collect::<Vec<_>>().join(",");
        s.case(&format!("zone {opname} {} {} {zs}", if registered { "cal" } else { "nocal" }, jv_token(&g.v)), &imp, imp != "unhandled");
        // oracle: a zone that holds a row whose instant satisfies `row op literal-instant` must be kept
        if let Some(exp) = g.expect {
            let should_hold = lit_denotes(&g, exp);
            if let (Some(lit), true) = (should_hold, opname != "neq") {
                let matches = zone.iter().any(|z| match opname { "eq" => *z == lit, "gt" => *z > lit, "gte" => *z >= lit, "lt" => *z < lit, "lte" => *z <= lit, _ => false });
                if matches && imp == "pruned" {
                    // hour-bucket ids are `start & u32::MAX`: aliasing begins at the first hour start ≥ 2^32
                    let class = if lit < 0 { "pruner-negative-literal" } else if !registered { "pruner-negative-zone" }
                        else if lit.max(mx) >= 4_294_969_200 { "calendar-u32-truncation" } else { "-" };
                    s.tally(&format!("oracle-fail:{class}"));
                    s.oracle_fail(i, class, &format!("zone {zone:?} holds a row matching `{column} {opname} {}` (instant {lit}) but the temporal pruner dropped it", g.v));
                } else { s.oracle_ok(); }
            }
        }
    }
    s.finish();
}

// ---- segment path: the real TemporalIndexBuilder on zone plans, then the real TemporalPruner

/// One value for a time field as a client would send it, and the instant it denotes.
/// Spellings: date-only string (midnight), RFC 3339 with an offset, epoch seconds number,
/// epoch milliseconds number, numeric string. `t` must lie in the unambiguous band.
fn store_spelling(r: &mut Rng, t: i64, s: &mut Stream) -> Value {
    let midnight = t.rem_euclid(86400) == 0;
    match r.below(if midnight { 6 } else { 5 }) {
        0 | 1 => {
            let off = gen_offset_minutes(r);
            let l = t + off * 60;
            let (y, m, d) = civil_from_days(l.div_euclid(86400));
            let sod = l.rem_euclid(86400);
            let a = off.abs();
            s.tally("seg-store:rfc3339");
            json!(format!("{y:04}-{m:02}-{d:02}T{:02}:{:02}:{:02}{}{:02}:{:02}", sod / 3600, sod / 60 % 60, sod % 60, if off < 0 { '-' } else { '+' }, a / 60, a % 60))
        }
        2 => { s.tally("seg-store:epoch-seconds"); json!(t) }
        3 => { s.tally("seg-store:epoch-millis"); json!(t * 1000 + r.range(0, 999)) }
        4 => { s.tally("seg-store:numeric-string"); json!(t.to_string()) }
        _ => {
            let (y, m, d) = civil_from_days(t.div_euclid(86400));
            s.tally("seg-store:date-only");
            json!(format!("{y:04}-{m:02}-{d:02}"))
        }
    }
}

fn stream_seg(a: &snel_harness::out::Args) {
    use snel_db::engine::core::event::event_builder::EventBuilder;
    use snel_db::engine::core::time::temporal_builder::TemporalIndexBuilder;
    use snel_db::engine::core::zone::zone_plan::ZonePlan;
    let mut s = Stream::create(&a.out, "seg");
    let rt = tokio::runtime::Builder::new_current_thread().build().unwrap();
    let base = a.out.join("seg-segs");
    let _ = std::fs::remove_dir_all(&base);
    std::fs::create_dir_all(&base).unwrap();
    let mut reg = SchemaRegistry::new_with_path(base.join("schemas.bin")).unwrap();
    let schema = MiniSchema { fields: HashMap::from([
        ("d".to_string(), FieldType::Date), ("od".to_string(), FieldType::Optional(Box::new(FieldType::Date))),
        ("f".to_string(), FieldType::Timestamp), ("of".to_string(), FieldType::Optional(Box::new(FieldType::Timestamp))),
        ("k".to_string(), FieldType::I64),
    ]) };
    reg.define("ev", schema.clone()).unwrap();
    let uid = reg.get_uid("ev").unwrap();
    let reg = Arc::new(tokio::sync::RwLock::new(reg));
    let normalizer_schema = schema.clone();
    for i in 0..a.cases {
        if a.only.is_some_and(|o| o != i) { continue; }
        let mut r = Rng::for_case(a.seed, "seg", i);
        let column = *r.pick(&["d", "d", "od", "f", "of", "timestamp"]);
        let is_date = column == "d" || column == "od";
        s.tally(&format!("column:{column}"));
        // a base day inside the unambiguous unit band and below the calendar's u32 horizon (mostly)
        let base_day: i64 = match r.below(12) {
            0 => r.range(49_600, 49_720),              // around 2^32 s (2106): calendar truncation
            1 if column != "timestamp" => -r.range(1, 20_000), // before 1970
            _ => r.range(1_200, 49_000),               // 1973 .. 2104
        };
        let nz = 1 + r.below(3) as usize;
        let mut zones: Vec<(u32, Vec<i64>)> = vec![];
        let mut plans: Vec<ZonePlan> = vec![];
        let mut row = 0usize;
        let mut store_bad: Option<String> = None;
        for z in 0..nz {
            let n = match r.below(8) { 0 => 1, _ => 2 + r.below(4) } as usize;
            let day0 = base_day + (z as i64) * r.range(0, 3);
            let mut vals: Vec<i64> = vec![];
            let mut events = vec![];
            for k in 0..n {
                // instants: midnights (date-only style) mixed with times of day
                let day = day0 + r.range(0, 2);
                let tod = match r.below(5) { 0 | 1 => 0, 2 => *r.pick(&[1i64, 3600, 36000, 43200, 86399]), _ => r.range(0, 86399) };
                let t = day * 86400 + tod;
                let mut b = EventBuilder::new();
                b.event_type = "ev".into();
                b.context_id = format!("c{k}");
                b.payload.insert("k".into(), ScalarValue::Int64((row + k) as i64));
                if column == "timestamp" {
                    b.timestamp = t.max(0) as u64;
                    vals.push(t.max(0));
                } else {
                    b.timestamp = 1_700_000_000 + (row + k) as u64;
                    let absent = (column == "od" || column == "of") && r.chance(1, 6);
                    if !absent {
                        // through the real STORE-side normaliser, in a spelling of the instant
                        let in_band = (100_000_000..10_000_000_000i64).contains(&t);
                        let v = if in_band { store_spelling(&mut r, t, &mut s) } else {
                            s.tally("seg-store:rfc3339-utc(out-of-unit-band)");
                            let (y, m, d) = civil_from_days(t.div_euclid(86400));
                            let sod = t.rem_euclid(86400);
                            json!(format!("{y:04}-{m:02}-{d:02}T{:02}:{:02}:{:02}Z", sod / 3600, sod / 60 % 60, sod % 60))
                        };
                        let mut payload = json!({ column: v.clone(), "k": 1 });
                        match PayloadTimeNormalizer::new(&normalizer_schema).normalize(&mut payload) {
                            Ok(()) if payload[column].as_i64() == Some(t) => {}
                            other => store_bad = Some(format!("STORE of {v} into `{column}` for instant {t}: {other:?} -> {}", payload[column])),
                        }
                        b.payload.insert(column.to_string(), ScalarValue::Int64(payload[column].as_i64().unwrap_or(t)));
                        vals.push(payload[column].as_i64().unwrap_or(t));
                    }
                }
                events.push(b.build());
            }
            plans.push(ZonePlan { id: z as u32, start_index: row, end_index: row + n - 1, events, uid: uid.clone(), event_type: "ev".into(), segment_id: 1, created_at: 0 });
            row += n;
            zones.push((z as u32, vals));
        }
        let seg = "00001";
        let case_base = base.join(format!("c{i}"));
        let segdir = case_base.join(seg);
        std::fs::create_dir_all(&segdir).unwrap();
        rt.block_on(TemporalIndexBuilder::new(&uid, &segdir, Arc::clone(&reg)).build_for_zone_plans(&plans)).expect("temporal build");
        // probes
        let all_vals: Vec<i64> = zones.iter().flat_map(|(_, v)| v.iter().copied()).collect();
        let np = 2 + r.below(5);
        let mut probes: Vec<(&str, CompareOp, Value, Option<i64>)> = vec![];
        for _ in 0..np {
            let (opname, op) = if r.chance(1, 2) { ("eq", CompareOp::Eq) } else { r.pick(&OPS).clone() };
            let target = if !all_vals.is_empty() && r.chance(4, 5) { *r.pick(&all_vals) + match r.below(8) { 0 => 1, 1 => -1, 2 => 86400, 3 => -86400, _ => 0 } } else { base_day * 86400 + r.range(-200_000, 200_000) };
            let in_band = (100_000_000..10_000_000_000i64).contains(&target);
            // literal spellings: ISO with offset, date-only when midnight, epoch seconds, numeric string
            let (lit, denotes): (Value, Option<i64>) = if in_band && r.chance(3, 4) {
                let v = loop { let v = store_spelling(&mut r, target, &mut s); if !(v.is_number() && v.as_i64() != Some(target)) { break v; } };
                (v, Some(target))
            } else if (MIN_0000..=MAX_9999).contains(&target) && r.chance(1, 2) {
                let (y, m, d) = civil_from_days(target.div_euclid(86400));
                let sod = target.rem_euclid(86400);
                (json!(format!("{y:04}-{m:02}-{d:02}T{:02}:{:02}:{:02}Z", sod / 3600, sod / 60 % 60, sod % 60)), Some(target))
            } else {
                (json!(target), Some(target))
            };
            probes.push((opname, op, lit, denotes));
        }
        let pruner = TemporalPruner { artifacts: ZoneArtifacts::new(&case_base, None) };
        let mut outs: Vec<String> = vec![];
        let mut any_kept = false;
        for (opname, op, lit, denotes) in &probes {
            let sv = ScalarValue::from(lit.clone());
            let args = PruneArgs { segment_id: seg, uid: &uid, column, value: Some(&sv), op: Some(op) };
            let got: Option<Vec<u32>> = pruner.apply_temporal_only(&args).map(|v| { let mut z: Vec<u32> = v.iter().map(|c| c.zone_id).collect(); z.sort(); z });
            outs.push(match &got { None => "unhandled".into(), Some(z) if z.is_empty() => "-".into(), Some(z) => { any_kept = true; z.iter().map(|x| x.to_string()).collect::<Vec<_>>().join(",") } });
            s.tally(&format!("seg-op:{opname}"));
            // statistics the coordinator asked for
            let lit_t = denotes.unwrap();
            let holder = zones.iter().find(|(_, v)| v.contains(&lit_t));
            if *opname == "eq" && is_date {
                s.tally("eq-on-date-field-after-flush");
                if let Some((_, v)) = holder {
                    s.tally("eq-on-date-field-after-flush:literal-present-in-a-zone");
                    if v.iter().any(|x| (x - lit_t).rem_euclid(86400) != 0) { s.tally("eq-on-date-field-after-flush:zone-has-non-day-aligned-distances"); }
                    if (lit_t - v.iter().min().unwrap()).rem_euclid(86400) != 0 { s.tally("eq-on-date-field-after-flush:literal-not-day-aligned-to-zone-min"); }
                }
            }
            if *opname == "eq" && !is_date && holder.is_some() { s.tally("eq-on-datetime-or-timestamp:literal-present-in-a-zone"); }
            // oracle: every zone holding a row that satisfies `row op literal` is returned
            if *opname != "neq" {
                let got = got.clone().unwrap_or_default();
                let mut lost: Vec<(u32, &'static str)> = vec![];
                for (zid, v) in &zones {
                    let m = v.iter().any(|x| match *opname { "eq" => *x == lit_t, "gt" => *x > lit_t, "gte" => *x >= lit_t, "lt" => *x < lit_t, "lte" => *x <= lit_t, _ => false });
                    if m && !got.contains(zid) {
                        let (mn, mx) = (*v.iter().min().unwrap(), *v.iter().max().unwrap());
                        let class = if lit_t < 0 { "pruner-negative-literal" } else if mn < 0 { "pruner-negative-zone" }
                            else if lit_t.max(mx) >= 4_294_969_200 || all_vals.iter().any(|x| *x >= 4_294_969_200) { "calendar-u32-truncation" } else { "-" };
                        lost.push((*zid, class));
                    }
                }
                if lost.is_empty() { s.oracle_ok(); } else {
                    let class = if lost.iter().any(|(_, c)| *c == "-") { "-" } else { lost[0].1 };
                    s.tally(&format!("oracle-fail:{class}"));
                    s.oracle_fail(i, class, &format!("segment zones {zones:?} of field `{column}`: `{column} {opname} {lit}` (instant {lit_t}) lost zone(s) {:?}; pruner returned {got:?}", lost.iter().map(|(z, _)| *z).collect::<Vec<_>>()));
                }
            }
        }
        if let Some(e) = store_bad { s.oracle_fail(i, "-", &e); }
        let _ = std::fs::remove_dir_all(&case_base);
        let zs = zones.iter().map(|(z, v)| format!("{z} {}{}", v.len(), v.iter().map(|x| format!(" {x}")).collect::<String>())).collect::<Vec<_>>().join(" ");
        let ps = probes.iter().map(|(o, _, l, _)| format!("{o} {}", jv_token(l))).collect::<Vec<_>>().join(" ");
        s.case(&format!("seg {} {} {zs} {} {ps}", if column == "timestamp" { "ts" } else { "field" }, zones.len(), probes.len()), &outs.join(" "), any_kept);
    }
    s.finish();
}

/// The instant a WHERE/SINCE literal denotes according to the property text: ISO strings and
/// numeric strings as on the STORE side; JSON integers are epoch seconds. `None` when the
/// property does not fix a meaning (floats, or integers the heuristic misreads — those are
/// reported by the `sites` stream).
fn lit_denotes(g: &GenJson, exp: i64) -> Option<i64> {
    match (&g.v, g.int_meta) {
        (Value::String(_), None) => Some(exp),
        (Value::String(_), Some((v, d, rm))) => if int_class(v, d, rm) == "-" { Some(exp) } else { None },
        (Value::Number(n), Some((v, _, _))) if n.is_i64() => i64::try_from(v).ok(),
        _ => None,
    }
}

fn main() {
    let a = parse_args();
    match a.stream.as_str() {
        "parse" => stream_parse(&a),
        "json" => stream_json(&a),
        "bucket" => stream_bucket(&a),
        "fmt" => stream_fmt(&a),
        "sites" => stream_sites(&a),
        "since" => stream_since(&a),
        "zone" => stream_zone(&a),
        "seg" => stream_seg(&a),
        other => {
            eprintln!("unknown stream {other}");
            std::process::exit(2);
        }
    }
}
