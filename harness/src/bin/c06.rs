//! C06 — STORE accepts exactly the payloads that conform to the defined schema.
//!
//! Streams
//! * `alias`   `FieldType::from_spec_with_nullable` on generated spellings vs the model's alias table
//! * `define`  DEFINE text → `parse_command` → `MiniSchema::from` (field types) vs the model
//! * `store`   the real `define::handle` / `SchemaRegistry::define` + `store::handle` (which owns the
//!             private `validate_payload` / `type_allows_value`) against a stub shard whose queue the
//!             harness drains: answer class, error kind, and the normalised payload that was enqueued
//! * `session` end to end: text commands through `parse_command` + `dispatch_command` on a real
//!             `ShardManager` in a child process (`snel_harness::sys`), DEFINE / STORE / QUERY
//!
//! Oracle everywhere: accepted ⇔ the generator's own ground truth (known from how the case was
//! constructed: which valid pool a value came from, which mutation was applied), and a rejected
//! STORE leaves no trace (nothing enqueued / absent from the following QUERY).
use serde_json::{json, Map, Value};
use snel_db::command::handlers::{define, store};
use snel_db::command::parser::parse_command;
use snel_db::command::types::{Command, FieldSpec, MiniSchema as CmdSchema};
use snel_db::engine::schema::{EnumType, FieldType, MiniSchema, SchemaRegistry};
use snel_db::engine::shard::{Shard, ShardManager, ShardMessage};
use snel_db::engine::types::ScalarValue;
use snel_db::shared::response::JsonRenderer;
use snel_db::shared::time::{TimeKind, TimeParser};
use snel_harness::enc::{hexs, json_line};
use snel_harness::out::{parse_args, Args, Stream};
use snel_harness::rng::Rng;
use snel_harness::sys::{self, Session, SysCfg};
use std::collections::HashMap;
use std::sync::Arc;
use tokio::sync::RwLock;

// ------------------------------------------------------------------------------------------
// Generator-side types. `GT` is what the generator *intends* a field to be; validity of a value
// is known from the pool it was drawn from, never computed by looking at code or model.

#[derive(Clone, Debug, PartialEq)]
enum GT {
    Str,
    U64,
    I64,
    F64,
    Bool,
    Ts,
    Date,
    Opt(Box<GT>),
    Enum(Vec<String>),
}

/// How the field is declared to the real code.
#[derive(Clone, Debug)]
enum Decl {
    Spec(String),          // DEFINE primitive spec text ("Int | null")
    EnumSpec(Vec<String>), // DEFINE enum
    Direct(FieldType),     // registered through SchemaRegistry::define, not reachable by DEFINE text
}

/// The harness' own copy of the documented spellings (README / types.rs doc comment), kept apart
/// from the table the model gets from the source.
const ALIASES: &[(&str, u8)] = &[
    ("string", 0), ("str", 0), ("text", 0), ("varchar", 0),
    ("u64", 1), ("uint64", 1),
    ("i64", 2), ("int64", 2), ("int", 2), ("integer", 2),
    ("f64", 3), ("float", 3), ("double", 3), ("number", 3),
    ("bool", 4), ("boolean", 4),
    ("datetime", 5), ("timestamp", 5),
    ("date", 6),
];

fn prim_of(code: u8) -> GT {
    match code {
        0 => GT::Str,
        1 => GT::U64,
        2 => GT::I64,
        3 => GT::F64,
        4 => GT::Bool,
        5 => GT::Ts,
        _ => GT::Date,
    }
}

fn prim_code(g: &GT) -> Option<u8> {
    Some(match g {
        GT::Str => 0,
        GT::U64 => 1,
        GT::I64 => 2,
        GT::F64 => 3,
        GT::Bool => 4,
        GT::Ts => 5,
        GT::Date => 6,
        _ => return None,
    })
}

fn rand_case(r: &mut Rng, s: &str) -> String {
    match r.below(4) {
        0 => s.to_string(),
        1 => s.to_ascii_uppercase(),
        2 => {
            let mut c = s.chars();
            match c.next() {
                Some(f) => f.to_ascii_uppercase().to_string() + c.as_str(),
                None => String::new(),
            }
        }
        _ => s.chars().map(|c| if r.chance(1, 2) { c.to_ascii_uppercase() } else { c }).collect(),
    }
}

fn alias_for(r: &mut Rng, code: u8) -> String {
    let c: Vec<&str> = ALIASES.iter().filter(|a| a.1 == code).map(|a| a.0).collect();
    let a = *r.pick(&c[..]);
    rand_case(r, a)
}

fn pad(r: &mut Rng) -> &'static str {
    *r.pick(&["", " ", "  ", "\t"])
}

/// Spec text for a primitive or `Optional(primitive)` type.
fn spec_text(r: &mut Rng, g: &GT) -> String {
    match g {
        GT::Opt(inner) => {
            let a = alias_for(r, prim_code(inner).unwrap());
            let n = rand_case(r, "null");
            if r.chance(1, 4) {
                format!("{}{}{}|{}{}{}", pad(r), n, pad(r), pad(r), a, pad(r))
            } else {
                format!("{}{}{}|{}{}{}", pad(r), a, pad(r), pad(r), n, pad(r))
            }
        }
        _ => alias_for(r, prim_code(g).unwrap()),
    }
}

fn gt_to_field_type(g: &GT) -> FieldType {
    match g {
        GT::Str => FieldType::String,
        GT::U64 => FieldType::U64,
        GT::I64 => FieldType::I64,
        GT::F64 => FieldType::F64,
        GT::Bool => FieldType::Bool,
        GT::Ts => FieldType::Timestamp,
        GT::Date => FieldType::Date,
        GT::Opt(i) => FieldType::Optional(Box::new(gt_to_field_type(i))),
        GT::Enum(v) => FieldType::Enum(EnumType { variants: v.clone() }),
    }
}

fn type_tokens(ft: &FieldType) -> String {
    match ft {
        FieldType::String => "S".into(),
        FieldType::U64 => "U".into(),
        FieldType::I64 => "I".into(),
        FieldType::F64 => "F".into(),
        FieldType::Bool => "B".into(),
        FieldType::Timestamp => "T".into(),
        FieldType::Date => "D".into(),
        FieldType::Optional(i) => format!("O {}", type_tokens(i)),
        FieldType::Enum(e) => {
            let mut s = format!("E {}", e.variants.len());
            for v in &e.variants {
                s.push(' ');
                s.push_str(&hexs(v));
            }
            s
        }
    }
}

fn decl_tokens(d: &Decl) -> String {
    match d {
        Decl::Spec(s) => format!("p{}", hexs(s)),
        Decl::EnumSpec(vs) => {
            let mut s = format!("e {}", vs.len());
            for v in vs {
                s.push(' ');
                s.push_str(&hexs(v));
            }
            s
        }
        Decl::Direct(ft) => format!("T {}", type_tokens(ft)),
    }
}

const STRINGS: &[&str] = &[
    "", "a", "hello world", "Ünï-çødé ✓", "123", "-5", "1.5e3", "true", "null", "{\"a\":1}", "[1,2]",
    " padded ", "2024-01-15", "\u{200b}", "line\nbreak", "q\"uote", "back\\slash", "}{", "日本語",
];

fn rand_string(r: &mut Rng) -> String {
    if r.chance(3, 4) {
        r.pick(STRINGS).to_string()
    } else {
        let n = r.below(12);
        (0..n).map(|_| *r.pick(&['a', 'Z', '0', ' ', '_', 'é', '-', '.', ':', 'T'])).collect()
    }
}

fn finite_f64(r: &mut Rng) -> f64 {
    match r.below(8) {
        0 => 3.0,
        1 => -0.0,
        2 => 1.5,
        3 => 1e300,
        4 => -1e300,
        5 => 9.223372036854775807e18,
        6 => (r.range(-1_000_000, 1_000_000) as f64) / 8.0,
        _ => loop {
            let f = f64::from_bits(r.next());
            if f.is_finite() {
                break f;
            }
        },
    }
}

fn jf(f: f64) -> Value {
    Value::Number(serde_json::Number::from_f64(f).unwrap())
}

/// Around the digit bands of the time-unit heuristic: 10^d - 1, 10^d, 10^d + small.
fn band_edge(r: &mut Rng) -> u64 {
    let d = 9 + r.below(11) as u32; // 10^9 .. 10^19
    let p = 10u64.pow(d);
    match r.below(3) {
        0 => p - 1,
        1 => p,
        _ => p + r.below(1000),
    }
}

fn rand_u64(r: &mut Rng) -> u64 {
    if r.chance(1, 5) {
        return band_edge(r);
    }
    match r.below(8) {
        0 => 0,
        1 => i64::MAX as u64,
        2 => i64::MAX as u64 + 1,
        3 => u64::MAX,
        4 => 9_999_999_999_999_999_999,
        5 => 10_000_000_000_000_000_000,
        6 => r.below(1000),
        _ => r.next(),
    }
}

fn rand_i64(r: &mut Rng) -> i64 {
    if r.chance(1, 5) {
        let e = band_edge(r).min(i64::MAX as u64) as i64;
        return if r.chance(1, 2) { e } else { -e };
    }
    match r.below(7) {
        0 => i64::MIN,
        1 => -1,
        2 => 0,
        3 => i64::MAX,
        4 => r.range(-1000, 1000),
        5 => 1_700_000_000_000 + r.range(0, 1000),
        _ => r.next() as i64,
    }
}

const GOOD_TIMES: &[&str] = &[
    "2024-01-15T10:30:00Z",
    "2024-01-15T10:30:00+02:00",
    "1969-12-31T23:59:59Z",
    "2024-02-29T00:00:00.123Z",
    "2024-01-15T10:30:00.123456789-08:00",
    "2024-01-15",
    "1970-01-01",
    "2024-02-29",
    " 2024-01-15 ",
    "\t2024-01-15T10:30:00Z\n",
    "1700000000",
    "1700000000000",
    "-86400",
    "+42",
    "0",
    "0000000000000000000000001700000000",
    " 1700000000000000 ",
    "1700000000000000000",
    "9999999999999999999",
];

const BAD_TIMES: &[&str] = &[
    "", "   ", "not a time", "2024-13-01", "2024-02-30", "2024-01-15T25:00:00Z", "2024-01-15T10:30:00",
    "10:30:00", "15/01/2024", "2024-01-15T10:30:00Zjunk", "10000000000000000000", "99999999999999999999999999",
    "-10000000000000000000", "1.5", "1e9", "0x10", "--5", "+", "-", "１２３",
    "999999999999999999999999999999999999999999",
];

/// A value that conforms to `g` (None = the optional field is left out).
fn valid_value(r: &mut Rng, g: &GT) -> Option<Value> {
    Some(match g {
        GT::Str => json!(rand_string(r)),
        GT::U64 => json!(rand_u64(r)),
        GT::I64 => json!(rand_i64(r)),
        GT::F64 => match r.below(4) {
            0 => json!(rand_i64(r)),  // CHOICE of the statement: an integer literal is a JSON number
            1 => json!(rand_u64(r)),
            _ => jf(finite_f64(r)),
        },
        GT::Bool => json!(r.chance(1, 2)),
        GT::Ts | GT::Date => match r.below(6) {
            0 => json!(rand_i64(r)),
            1 => {
                let u = loop {
                    let u = rand_u64(r);
                    if u < 10_000_000_000_000_000_000 {
                        break u;
                    }
                };
                json!(u)
            }
            2 => jf(finite_f64(r)), // CHOICE: a float is seconds (floor, clamped)
            3 => {
                // numeric string around a band edge (at most 19 digits: always a valid time)
                let e = band_edge(r).min(9_999_999_999_999_999_999);
                let sign = *r.pick(&["", "", "-", "+"]);
                let zeros = *r.pick(&["", "", "000"]);
                json!(format!("{}{sign}{zeros}{e}{}", pad(r), pad(r)))
            }
            _ => json!(*r.pick(GOOD_TIMES)),
        },
        GT::Opt(inner) => match r.below(4) {
            0 => return None,
            1 => Value::Null,
            _ => return valid_value(r, inner),
        },
        GT::Enum(vs) => json!(r.pick(vs).clone()),
    })
}

fn nested(r: &mut Rng) -> Value {
    match r.below(4) {
        0 => json!([]),
        1 => json!([1, "a"]),
        2 => json!({}),
        _ => json!({"x": {"y": [1, 2]}}),
    }
}

fn flip_case(s: &str) -> String {
    s.chars()
        .map(|c| if c.is_ascii_lowercase() { c.to_ascii_uppercase() } else { c.to_ascii_lowercase() })
        .collect()
}

/// A value that does **not** conform to `g`, with a label for the distribution.
fn invalid_value(r: &mut Rng, g: &GT) -> (Value, &'static str) {
    match g {
        GT::Str => match r.below(5) {
            0 => (json!(rand_i64(r)), "num-in-string"),
            1 => (json!(true), "bool-in-string"),
            2 => (Value::Null, "null-in-required"),
            3 => (jf(1.5), "num-in-string"),
            _ => (nested(r), "nested"),
        },
        GT::U64 => match r.below(7) {
            0 => (json!(-1 - (r.below(1000) as i64)), "negative-in-u64"),
            1 => (jf(3.0), "integral-float-in-int"),
            2 => (jf(1.5), "float-in-int"),
            3 => (json!("5"), "string-in-num"),
            4 => (json!(false), "bool-in-num"),
            5 => (Value::Null, "null-in-required"),
            _ => (nested(r), "nested"),
        },
        GT::I64 => match r.below(8) {
            0 => (jf(3.0), "integral-float-in-int"),
            1 => (jf(1.5), "float-in-int"),
            2 => (json!(i64::MAX as u64 + 1 + r.below(5)), "u64>i64max-in-int"),
            3 => (json!(u64::MAX), "u64>i64max-in-int"),
            4 => (json!("5"), "string-in-num"),
            5 => (json!(true), "bool-in-num"),
            6 => (Value::Null, "null-in-required"),
            _ => (nested(r), "nested"),
        },
        GT::F64 => match r.below(4) {
            0 => (json!("1.5"), "string-in-num"),
            1 => (json!(true), "bool-in-num"),
            2 => (Value::Null, "null-in-required"),
            _ => (nested(r), "nested"),
        },
        GT::Bool => match r.below(6) {
            0 => (json!(0), "num-in-bool"),
            1 => (json!(1), "num-in-bool"),
            2 => (json!("true"), "string-in-bool"),
            3 => (Value::Null, "null-in-required"),
            4 => (jf(1.0), "num-in-bool"),
            _ => (nested(r), "nested"),
        },
        GT::Ts | GT::Date => match r.below(6) {
            0 => (json!(true), "bool-in-time"),
            1 => (Value::Null, "null-in-required"),
            2 => (nested(r), "nested"),
            3 => (json!(10_000_000_000_000_000_000u64 + r.below(1_000_000)), "time-out-of-range"),
            _ => (json!(*r.pick(BAD_TIMES)), "time-unparseable"),
        },
        GT::Opt(inner) => loop {
            let (v, l) = invalid_value(r, inner);
            if !v.is_null() {
                break (v, l);
            }
        },
        GT::Enum(vs) => match r.below(7) {
            0 => {
                let v = r.pick(vs).clone();
                let f = flip_case(&v);
                if vs.contains(&f) { (json!("nope"), "unknown-variant") } else { (json!(f), "wrong-case-variant") }
            }
            1 => (json!("nope"), "unknown-variant"),
            2 => (json!(""), "unknown-variant"),
            3 => (json!(0), "num-in-enum"),
            4 => (Value::Null, "null-in-required"),
            5 => (json!(false), "bool-in-enum"),
            _ => (nested(r), "nested"),
        },
    }
}

const FIELD_NAMES: &[&str] = &["k", "a", "b", "ts", "name", "amount", "Ünï", "x y", "A", "k2", "", "created_at", "é", "a.b"];
const IDENT_NAMES: &[&str] = &["k", "a", "b", "ts", "name", "amount", "A", "k2", "created_at", "plan", "day", "ok"];
const VARIANTS: &[&str] = &["free", "pro", "Pro", "ENTERPRISE", "a b", "x", "ö", "basic"];

fn gen_gt(r: &mut Rng, allow_direct_only: bool) -> GT {
    let prim = |r: &mut Rng| prim_of(r.below(7) as u8);
    match r.below(10) {
        0..=4 => prim(r),
        5 | 6 => GT::Opt(Box::new(prim(r))),
        7 | 8 => {
            let n = 1 + r.below(4) as usize;
            let mut vs: Vec<String> = vec![];
            while vs.len() < n {
                let v = r.pick(VARIANTS).to_string();
                if !vs.contains(&v) {
                    vs.push(v);
                }
            }
            GT::Enum(vs)
        }
        _ => {
            if allow_direct_only {
                // shapes DEFINE text cannot produce: Optional(Enum), Optional(Optional(non-time))
                if r.chance(1, 2) {
                    GT::Opt(Box::new(GT::Enum(vec!["u".into(), "V".into()])))
                } else {
                    let base = loop {
                        let p = prim(r);
                        if p != GT::Ts && p != GT::Date {
                            break p;
                        }
                    };
                    GT::Opt(Box::new(GT::Opt(Box::new(base))))
                }
            } else {
                prim(r)
            }
        }
    }
}

fn definable_by_text(g: &GT) -> bool {
    match g {
        GT::Opt(i) => prim_code(i).is_some(),
        _ => true,
    }
}

struct Field {
    name: String,
    gt: GT,
    decl: Decl,
}

fn gen_schema(r: &mut Rng, names: &[&str], allow_direct: bool) -> Vec<Field> {
    let n = 1 + r.below(5) as usize;
    let mut used: Vec<&str> = vec![];
    let mut out = vec![];
    while out.len() < n.min(names.len()) {
        let name = *r.pick(names);
        if used.contains(&name) {
            continue;
        }
        used.push(name);
        let gt = gen_gt(r, allow_direct);
        let decl = if !definable_by_text(&gt) || (allow_direct && r.chance(1, 6)) {
            Decl::Direct(gt_to_field_type(&gt))
        } else {
            match &gt {
                GT::Enum(vs) => Decl::EnumSpec(vs.clone()),
                g => Decl::Spec(spec_text(r, g)),
            }
        };
        out.push(Field { name: name.to_string(), gt, decl });
    }
    out
}

// ------------------------------------------------------------------------------------------
// payload construction + mutation, ground truth by construction

struct Case {
    payload: Value,
    conforms: bool,          // payload conforms to the schema (statement's reading)
    labels: Vec<&'static str>,
}

fn gen_payload(r: &mut Rng, schema: &[Field]) -> Case {
    let mut m = Map::new();
    for f in schema {
        if let Some(v) = valid_value(r, &f.gt) {
            m.insert(f.name.clone(), v);
        }
    }
    let mut c = Case { payload: Value::Null, conforms: true, labels: vec![] };
    let nmut = match r.below(20) {
        0..=10 => 0,
        11..=18 => 1,
        _ => 2,
    };
    // Ground truth is bookkeeping over what the mutations did, per key: which schema fields
    // currently hold a value drawn from an invalid pool, which required fields are absent,
    // which keys outside the schema were added.
    let mut bad: Vec<String> = vec![];
    let mut missing: Vec<String> = vec![];
    let mut extra: Vec<String> = vec![];
    let mut not_object: Option<Value> = None;
    for _ in 0..nmut {
        match r.below(10) {
            0 | 1 => {
                // drop a field
                let f = r.pick(schema);
                let present = m.remove(&f.name).is_some();
                bad.retain(|k| k != &f.name);
                if matches!(f.gt, GT::Opt(_)) {
                    c.labels.push("drop-optional");
                } else if present {
                    missing.push(f.name.clone());
                    c.labels.push("drop-required");
                }
            }
            2 => {
                // extra key
                let mut k = r.pick(&["extra", "zz", "K", "k ", "ts2", "_"]).to_string();
                while schema.iter().any(|f| f.name == k) {
                    k.push('_');
                }
                m.insert(k.clone(), match r.below(3) { 0 => Value::Null, 1 => json!(1), _ => json!("x") });
                extra.push(k);
                c.labels.push("extra-key");
            }
            3 => {
                // misspell a key that is present
                let f = r.pick(schema);
                if let Some(v) = m.remove(&f.name) {
                    bad.retain(|k| k != &f.name);
                    let mut k = match r.below(3) {
                        0 => flip_case(&f.name),
                        1 => format!("{} ", f.name),
                        _ => format!("{}x", f.name),
                    };
                    while schema.iter().any(|g| g.name == k) {
                        k.push('x');
                    }
                    m.insert(k.clone(), v);
                    extra.push(k);
                    if !matches!(f.gt, GT::Opt(_)) {
                        missing.push(f.name.clone());
                    }
                    c.labels.push("misspelled-key");
                }
            }
            4..=8 => {
                let f = r.pick(schema);
                let (v, l) = invalid_value(r, &f.gt);
                m.insert(f.name.clone(), v);
                missing.retain(|k| k != &f.name);
                if !bad.contains(&f.name) {
                    bad.push(f.name.clone());
                }
                c.labels.push(l);
            }
            _ => {
                not_object = Some(match r.below(5) {
                    0 => Value::Null,
                    1 => json!([{"k": 1}]),
                    2 => json!("{}"),
                    3 => json!(42),
                    _ => json!(true),
                });
                c.labels.push("not-an-object");
            }
        }
    }
    c.conforms = bad.is_empty() && missing.is_empty() && extra.is_empty() && not_object.is_none();
    c.payload = not_object.unwrap_or(Value::Object(m));
    c
}

// ------------------------------------------------------------------------------------------
// chrono as the model's parameter: what the calendar parsers say for a trimmed text

fn looks_numeric(s: &str) -> bool {
    let b = s.strip_prefix(['+', '-']).unwrap_or(s);
    !b.is_empty() && b.bytes().all(|c| c.is_ascii_digit())
}

fn cal_tokens(payloads: &[&Value]) -> String {
    let mut seen: Vec<String> = vec![];
    let mut out = String::new();
    for p in payloads {
        if let Some(o) = p.as_object() {
            for v in o.values() {
                if let Some(s) = v.as_str() {
                    let t = s.trim().to_string();
                    if seen.contains(&t) {
                        continue;
                    }
                    let res = if looks_numeric(&t) {
                        None // the numeric branch is the model's own
                    } else {
                        TimeParser::parse_str_to_epoch_seconds(&t, TimeKind::DateTime)
                    };
                    out.push(' ');
                    out.push_str(&hexs(&t));
                    out.push(' ');
                    match res {
                        Some(z) => out.push_str(&format!("z{z}")),
                        None => out.push('n'),
                    }
                    seen.push(t);
                }
            }
        }
    }
    format!("{}{}", seen.len(), out)
}

// ------------------------------------------------------------------------------------------
// canonical answers

fn parse_reply(buf: &[u8]) -> (i64, String) {
    let v: Value = serde_json::from_slice(buf).unwrap_or(Value::Null);
    (
        v.get("status").and_then(|s| s.as_i64()).unwrap_or(-1),
        v.get("message").and_then(|s| s.as_str()).unwrap_or("").to_string(),
    )
}

/// (canonical line, accepted)
fn canon_store_reply(status: i64, msg: &str, results_ok: bool) -> (String, bool) {
    if status == 200 && results_ok {
        return ("ok".into(), true);
    }
    let kind = if msg == "event_type cannot be empty" {
        "empty-type".to_string()
    } else if msg == "context_id cannot be empty" {
        "empty-context".to_string()
    } else if msg.starts_with("No schema defined for event type '") {
        "no-schema".to_string()
    } else if msg == "Payload must be a JSON object" {
        "not-object".to_string()
    } else if let Some(f) = msg.strip_prefix("Field '").and_then(|m| m.strip_suffix("' does not match expected type")) {
        format!("mismatch {}", hexs(f))
    } else if let Some(f) = msg.strip_prefix("Missing field '").and_then(|m| m.strip_suffix("' in payload")) {
        format!("missing {}", hexs(f))
    } else if let Some(t) = msg.strip_prefix("Payload contains fields not defined in schema: ") {
        format!("extra {}", t.len())
    } else if msg.starts_with("Unrecognized integer time magnitude: ") {
        "time-magnitude".to_string()
    } else if msg.starts_with("Invalid time string: '") {
        "time-string".to_string()
    } else if msg == "Time field must be a number or string" {
        "time-kind".to_string()
    } else {
        format!("other {}", hexs(msg))
    };
    if status == 400 {
        (format!("err {kind}"), false)
    } else {
        (format!("err status-{status} {kind}"), false)
    }
}

fn stored_summary(ev: &snel_db::engine::core::Event) -> String {
    if ev.payload.is_empty() {
        return "-".into();
    }
    ev.payload
        .iter()
        .map(|(k, v)| {
            let tag = match v {
                ScalarValue::Null => "n".to_string(),
                ScalarValue::Boolean(_) => "b".to_string(),
                ScalarValue::Int64(i) => format!("i{i}"),
                ScalarValue::Float64(f) => format!("d{}", f.to_bits()),
                ScalarValue::Utf8(_) => "s".to_string(),
                _ => "?".to_string(),
            };
            format!("{}:{}", hexs(k), tag)
        })
        .collect::<Vec<_>>()
        .join(" ")
}

// ------------------------------------------------------------------------------------------
// stream: alias

const DIRTY_SPECS: &[&str] = &[
    "", " ", "foo", "strings", "null", "NULL", "int64 ", " int", "in t", "int | string", "int|string|null",
    "string | int | null", "null | null", "|int", "int|", "int | | null", "| null", "null |", "||", "|",
    "int\u{00a0}|\u{2003}null", "\u{00a0}int", "int | nil", "Optional<int>", "int?", "ſtring", "İnt", "date time",
    "int | NULL | float", "null | bool | null", "BOOL|Null", "number|null|", "u64 |null|i64",
];

fn gen_spec(r: &mut Rng) -> (String, Option<Option<GT>>) {
    // (text, expectation known by construction: Some(Some(t)) = must parse to t, None = not specified)
    match r.below(10) {
        0..=2 => {
            let c = r.below(7) as u8;
            (alias_for(r, c), Some(Some(prim_of(c))))
        }
        3..=5 => {
            let g = GT::Opt(Box::new(prim_of(r.below(7) as u8)));
            (spec_text(r, &g), Some(Some(g)))
        }
        6 | 7 => (r.pick(DIRTY_SPECS).to_string(), None),
        _ => {
            // random assembly of parts
            let n = 1 + r.below(4);
            let mut parts = vec![];
            for _ in 0..n {
                let p = match r.below(6) {
                    0 => rand_case(r, "null"),
                    1 => String::new(),
                    2 => r.pick(&["foo", "in", "strin g", "x"]).to_string(),
                    _ => {
                        let c = r.below(7) as u8;
                        alias_for(r, c)
                    }
                };
                parts.push(format!("{}{}{}", pad(r), p, pad(r)));
            }
            (parts.join("|"), None)
        }
    }
}

fn field_type_line(ft: &Option<FieldType>) -> String {
    match ft {
        None => "none".into(),
        Some(t) => type_tokens(t),
    }
}

fn run_alias(a: &Args) {
    let mut s = Stream::create(&a.out, "alias");
    for i in 0..a.cases {
        if a.only.is_some_and(|o| o != i) {
            continue;
        }
        let mut r = Rng::for_case(a.seed, "alias", i);
        let (text, expect) = gen_spec(&mut r);
        let got = FieldType::from_spec_with_nullable(&text);
        let op = format!("alias {}", hexs(&text));
        let imp = field_type_line(&got);
        s.tally(match &got {
            None => "result:none",
            Some(FieldType::Optional(_)) => "result:optional",
            Some(_) => "result:primitive",
        });
        s.tally(if text.contains('|') { "with-union" } else { "plain" });
        s.case(&op, &imp, got.is_some());
        match expect {
            Some(Some(g)) => {
                if got == Some(gt_to_field_type(&g)) {
                    s.oracle_ok();
                } else {
                    s.oracle_fail(i, "-", &format!("spec {text:?} expected {g:?} got {got:?}"));
                }
            }
            _ => s.tally("oracle-skipped:unspecified-spelling"),
        }
    }
    s.finish();
}

// ------------------------------------------------------------------------------------------
// stream: define (DEFINE text → field types)

fn quote(s: &str) -> String {
    // only texts without quote/backslash are generated for DEFINE
    format!("\"{s}\"")
}

struct DefField {
    name: String,
    text: String,            // the field's text inside FIELDS { }
    decl: Decl,
    expect: Option<GT>,      // None = statement does not say (dirty spelling)
}

fn gen_define_fields(r: &mut Rng) -> Vec<DefField> {
    let n = 1 + r.below(5) as usize;
    let mut used: Vec<String> = vec![];
    let mut out = vec![];
    while out.len() < n {
        let name = if r.chance(1, 6) { r.pick(&["my field", "é", "a.b", "with:colon", "1st"]).to_string() } else { r.pick(IDENT_NAMES).to_string() };
        if used.contains(&name) {
            continue;
        }
        used.push(name.clone());
        let bare_name = name.chars().all(|c| c.is_ascii_alphanumeric() || c == '_') && name.chars().next().is_some_and(|c| c.is_ascii_alphabetic());
        let name_txt = if bare_name && r.chance(1, 2) { name.clone() } else { quote(&name) };
        let (decl, val_txt, expect) = match r.below(10) {
            0..=1 => {
                let k = 1 + r.below(4) as usize;
                let mut vs: Vec<String> = vec![];
                while vs.len() < k {
                    let v = r.pick(VARIANTS).to_string();
                    if !vs.contains(&v) {
                        vs.push(v);
                    }
                }
                let txt = format!("[{}]", vs.iter().map(|v| quote(v)).collect::<Vec<_>>().join(&format!(",{}", pad(r))));
                (Decl::EnumSpec(vs.clone()), txt, Some(GT::Enum(vs)))
            }
            _ => {
                let (text, e) = gen_spec(r);
                let text = text.replace('\t', " ");
                let simple = !text.is_empty() && text.chars().all(|c| c.is_ascii_alphanumeric());
                let starts_digit = text.chars().next().is_some_and(|c| c.is_ascii_digit());
                let txt = if simple && !starts_digit && r.chance(1, 3) { text.clone() } else { quote(&text) };
                (Decl::Spec(text), txt, e.flatten())
            }
        };
        out.push(DefField { name, text: format!("{}{}:{}{}", name_txt, pad(r).replace('\t', " "), pad(r).replace('\t', " "), val_txt), decl, expect });
    }
    out
}

fn run_define(a: &Args) {
    let mut s = Stream::create(&a.out, "define");
    for i in 0..a.cases {
        if a.only.is_some_and(|o| o != i) {
            continue;
        }
        let mut r = Rng::for_case(a.seed, "define", i);
        let fields = gen_define_fields(&mut r);
        let kw = rand_case(&mut r, "define");
        let fk = rand_case(&mut r, "fields");
        let ver = if r.chance(1, 4) { format!(" AS {}", 1 + r.below(3)) } else { String::new() };
        let text = format!(
            "{kw} ev{}{ver} {fk} {{ {} }}",
            i % 7,
            fields.iter().map(|f| f.text.clone()).collect::<Vec<_>>().join(", ")
        );
        let mut sorted: Vec<&DefField> = fields.iter().collect();
        sorted.sort_by(|x, y| x.name.cmp(&y.name));
        let op = format!(
            "deftypes {} {}",
            sorted.len(),
            sorted.iter().map(|f| format!("{} {}", hexs(&f.name), decl_tokens(&f.decl))).collect::<Vec<_>>().join(" ")
        );
        let (imp, parsed) = match parse_command(&text) {
            Ok(Command::Define { schema, .. }) => {
                let ms: MiniSchema = schema.into();
                let mut v: Vec<(&String, &FieldType)> = ms.fields.iter().collect();
                v.sort_by(|x, y| x.0.cmp(y.0));
                (
                    v.iter().map(|(k, t)| format!("{}:{}", hexs(k), type_tokens(t).replace(' ', ","))).collect::<Vec<_>>().join(" "),
                    Some(ms),
                )
            }
            Ok(_) => ("not-a-define".to_string(), None),
            Err(e) => (format!("parse-error {}", hexs(&format!("{e:?}"))), None),
        };
        for f in &fields {
            s.tally(match (&f.decl, &f.expect) {
                (Decl::EnumSpec(_), _) => "field:enum",
                (_, Some(GT::Opt(_))) => "field:nullable",
                (_, Some(_)) => "field:alias",
                (_, None) => "field:dirty-spelling",
            });
        }
        s.case(&op, &imp, parsed.is_some());
        // oracle: a well-formed DEFINE parses, and every cleanly spelled field gets the declared type
        match parsed {
            None => s.oracle_fail(i, "-", &format!("well-formed DEFINE did not parse: {text}")),
            Some(ms) => {
                let bad: Vec<String> = fields
                    .iter()
                    .filter(|f| match &f.expect {
                        Some(g) => ms.fields.get(&f.name) != Some(&gt_to_field_type(g)),
                        None => !ms.fields.contains_key(&f.name),
                    })
                    .map(|f| f.name.clone())
                    .collect();
                if bad.is_empty() && ms.fields.len() == fields.len() {
                    s.oracle_ok();
                } else {
                    s.oracle_fail(i, "-", &format!("field types differ for {bad:?}: {text}"));
                }
            }
        }
    }
    s.finish();
}

// ------------------------------------------------------------------------------------------
// stream: store (real handlers, stub shard)

const CONTEXTS: &[&str] = &["c1", "ctx-42", "ÜñÏ", "a b", " lead", "0", "\u{200b}", "user:1"];
const BLANK_CONTEXTS: &[&str] = &[" ", "   ", "\t", "\n", "\u{00a0}", " \u{3000}\t", "\u{2028}"];

fn run_store(a: &Args) {
    let rt = tokio::runtime::Builder::new_current_thread().enable_all().build().unwrap();
    rt.block_on(async {
        let mut s = Stream::create(&a.out, "store");
        let (tx, mut rx) = tokio::sync::mpsc::channel::<ShardMessage>(64);
        let sm = ShardManager { shards: vec![Shard { id: 0, tx, base_dir: a.out.join("stub-shard") }] };
        let mut registry: Option<Arc<RwLock<SchemaRegistry>>> = None;
        for i in 0..a.cases {
            if a.only.is_some_and(|o| o != i) {
                continue;
            }
            if registry.is_none() || i % 512 == 0 {
                let p = a.out.join(format!("store-registry-{}.bin", i / 512));
                let _ = std::fs::remove_file(&p);
                registry = Some(Arc::new(RwLock::new(SchemaRegistry::new_with_path(p).expect("registry"))));
            }
            let registry = registry.as_ref().unwrap();
            let mut r = Rng::for_case(a.seed, "store", i);
            let schema = gen_schema(&mut r, FIELD_NAMES, true);
            let case = gen_payload(&mut r, &schema);
            // event type, definedness, context
            let mut et = match r.below(12) {
                0 => format!("Ev {i}"),
                1 => format!("évt{i}"),
                _ => format!("ev{i}"),
            };
            let mut defined = true;
            let mut labels = case.labels.clone();
            match r.below(25) {
                0 => {
                    defined = false;
                    labels.push("undefined-type");
                }
                1 => {
                    defined = false;
                    et = r.pick(&["", " ", "\t "]).to_string();
                    labels.push("blank-type");
                }
                _ => {}
            }
            let (ctx, ctx_kind) = match r.below(14) {
                0 => (String::new(), "empty-context"),
                1 => (r.pick(BLANK_CONTEXTS).to_string(), "blank-context"),
                _ => (r.pick(CONTEXTS).to_string(), ""),
            };
            if !ctx_kind.is_empty() {
                labels.push(ctx_kind);
            }
            // ---- define through the real code
            let any_direct = schema.iter().any(|f| matches!(f.decl, Decl::Direct(_)));
            if defined {
                if any_direct {
                    let mut fields = HashMap::new();
                    for f in &schema {
                        let ft = match &f.decl {
                            Decl::Direct(ft) => ft.clone(),
                            Decl::Spec(t) => FieldType::from_spec_with_nullable(t).unwrap_or(FieldType::String),
                            Decl::EnumSpec(vs) => FieldType::Enum(EnumType { variants: vs.clone() }),
                        };
                        fields.insert(f.name.clone(), ft);
                    }
                    registry.write().await.define(&et, MiniSchema { fields }).expect("direct define");
                    s.tally("define:direct-registry");
                } else {
                    let mut fields = HashMap::new();
                    for f in &schema {
                        fields.insert(
                            f.name.clone(),
                            match &f.decl {
                                Decl::Spec(t) => FieldSpec::Primitive(t.clone()),
                                Decl::EnumSpec(vs) => FieldSpec::Enum(vs.clone()),
                                Decl::Direct(_) => unreachable!(),
                            },
                        );
                    }
                    let cmd = Command::Define { event_type: et.clone(), version: None, schema: CmdSchema { fields } };
                    let mut buf = Vec::new();
                    define::handle(&cmd, &sm, registry, None, Some("bypass"), &mut buf, &JsonRenderer).await.unwrap();
                    let (st, msg) = parse_reply(&buf);
                    assert!(st == 200, "define failed: {msg}");
                    s.tally("define:handler");
                }
            }
            // the registry's own iteration order of the fields (what validate_payload walks)
            let order: Vec<String> = match registry.read().await.get(&et) {
                Some(ms) => ms.fields.keys().cloned().collect(),
                None => schema.iter().map(|f| f.name.clone()).collect(),
            };
            // with a direct registration, specs were already resolved by the harness: hand the model the type
            let field_toks: Vec<String> = order
                .iter()
                .map(|n| {
                    let f = schema.iter().find(|f| &f.name == n).unwrap();
                    let d = if any_direct && defined {
                        match &f.decl {
                            Decl::Spec(_) | Decl::EnumSpec(_) | Decl::Direct(_) => {
                                let ms = registry.try_read().unwrap();
                                Decl::Direct(ms.get(&et).unwrap().fields.get(n).unwrap().clone())
                            }
                        }
                    } else {
                        f.decl.clone()
                    };
                    format!("{} {}", hexs(n), decl_tokens(&d))
                })
                .collect();
            // ---- store through the real handler
            let cmd = Command::Store { event_type: et.clone(), context_id: ctx.clone(), payload: case.payload.clone() };
            let mut buf = Vec::new();
            store::handle(&cmd, &sm, registry, None, Some("bypass"), &mut buf, &JsonRenderer).await.unwrap();
            let (status, msg) = parse_reply(&buf);
            let (mut imp, accepted) = canon_store_reply(status, &msg, true);
            let mut enq = vec![];
            while let Ok(m) = rx.try_recv() {
                if let ShardMessage::Store(ev, _) = m {
                    enq.push(ev);
                }
            }
            if accepted {
                imp = match enq.first() {
                    Some(ev) => format!("ok {}", stored_summary(ev)),
                    None => "ok nothing-enqueued".into(),
                };
            }
            let op = format!(
                "store {} {} {} {} {} {} {}",
                hexs(&et),
                hexs(&ctx),
                defined as u8,
                field_toks.len(),
                field_toks.join(" "),
                cal_tokens(&[&case.payload]),
                json_line(&case.payload)
            );
            s.case(&op, &imp, accepted);
            // ---- distribution
            for l in &labels {
                s.tally(&format!("mut:{l}"));
            }
            if labels.is_empty() {
                s.tally("mut:none");
            }
            if accepted {
                s.tally("answer:ok");
            } else {
                s.tally(&format!("answer:{}", imp.split(' ').nth(1).unwrap_or("?")));
            }
            for f in &schema {
                s.tally(&format!("type:{}", match &f.gt { GT::Opt(i) => match **i { GT::Opt(_) => "opt-opt", GT::Enum(_) => "opt-enum", _ => "optional" }, GT::Enum(_) => "enum", GT::Ts | GT::Date => "time", _ => "primitive" }));
            }
            // ---- oracle
            // ground truth by construction; the statement's literal reading of "context id is non-empty"
            let expected = defined && !ctx.is_empty() && case.conforms;
            let trace_ok = if accepted {
                enq.len() == 1
                    && enq[0].event_type == et
                    && enq[0].context_id == ctx
                    && case.payload.as_object().is_some_and(|o| o.keys().eq(enq[0].payload.keys()))
            } else {
                enq.is_empty()
            };
            // accepted ⇒ every time-typed field that is present and not null reached the shard as an integer
            let times_ok = !accepted
                || schema.iter().all(|f| {
                    let is_time = matches!(&f.gt, GT::Ts | GT::Date) || matches!(&f.gt, GT::Opt(i) if matches!(**i, GT::Ts | GT::Date));
                    !is_time
                        || match enq.first().and_then(|e| e.payload.get(&f.name)) {
                            None | Some(ScalarValue::Null) | Some(ScalarValue::Int64(_)) => true,
                            _ => false,
                        }
                });
            if accepted == expected && trace_ok && times_ok {
                s.oracle_ok();
            } else {
                let class = if !accepted && expected && !ctx.is_empty() && ctx.trim().is_empty() && imp == "err empty-context" && trace_ok {
                    "blank-context"
                } else {
                    "-"
                };
                s.oracle_fail(
                    i,
                    class,
                    &format!(
                        "expected_accept={expected} accepted={accepted} trace_ok={trace_ok} times_ok={times_ok} labels={labels:?} answer={imp} msg={msg:?} type={et:?} ctx={ctx:?} schema={:?} payload={}",
                        schema.iter().map(|f| (f.name.clone(), f.gt.clone())).collect::<Vec<_>>(),
                        case.payload
                    ),
                );
            }
        }
        s.finish();
    });
}

// ------------------------------------------------------------------------------------------
// stream: defineh — sequences of define::handle on one registry (redefinition, empty schema)

fn registry_snapshot(reg: &SchemaRegistry) -> Vec<(String, Vec<(String, String)>)> {
    let mut v: Vec<(String, Vec<(String, String)>)> = reg
        .get_all()
        .iter()
        .map(|(k, ms)| {
            let mut f: Vec<(String, String)> = ms.fields.iter().map(|(n, t)| (n.clone(), type_tokens(t))).collect();
            f.sort();
            (k.clone(), f)
        })
        .collect();
    v.sort();
    v
}

fn run_defineh(a: &Args) {
    let rt = tokio::runtime::Builder::new_current_thread().enable_all().build().unwrap();
    rt.block_on(async {
        let mut s = Stream::create(&a.out, "defineh");
        let (tx, _rx) = tokio::sync::mpsc::channel::<ShardMessage>(4);
        let sm = ShardManager { shards: vec![Shard { id: 0, tx, base_dir: a.out.join("stub-shard") }] };
        const TYPES: &[&str] = &["ev", "Ev", "order", "o", " ", "évt", "a b"];
        for i in 0..a.cases {
            if a.only.is_some_and(|o| o != i) {
                continue;
            }
            let mut r = Rng::for_case(a.seed, "defineh", i);
            let p = a.out.join("defineh-registry.bin");
            let _ = std::fs::remove_file(&p);
            let registry = Arc::new(RwLock::new(SchemaRegistry::new_with_path(p.clone()).expect("registry")));
            let n = 2 + r.below(6);
            let mut ops = vec![];
            let mut ans = vec![];
            let mut ok_all = true;
            let mut detail = String::new();
            let mut defined: Vec<String> = vec![];
            for _ in 0..n {
                let et = r.pick(TYPES).to_string();
                let fields: Vec<Field> = if r.chance(1, 6) { vec![] } else { gen_schema(&mut r, IDENT_NAMES, false) };
                let mut map = HashMap::new();
                for f in &fields {
                    map.insert(f.name.clone(), match &f.decl {
                        Decl::Spec(t) => FieldSpec::Primitive(t.clone()),
                        Decl::EnumSpec(vs) => FieldSpec::Enum(vs.clone()),
                        Decl::Direct(_) => unreachable!(),
                    });
                }
                let before = registry_snapshot(&*registry.read().await);
                let cmd = Command::Define { event_type: et.clone(), version: if r.chance(1, 3) { Some(2) } else { None }, schema: CmdSchema { fields: map } };
                let mut buf = Vec::new();
                define::handle(&cmd, &sm, &registry, None, Some("bypass"), &mut buf, &JsonRenderer).await.unwrap();
                let (status, msg) = parse_reply(&buf);
                let after = registry_snapshot(&*registry.read().await);
                let kind = if status == 200 {
                    "ok".to_string()
                } else if status == 500 && msg.contains("already defined") {
                    "err already-defined".to_string()
                } else if status == 500 && msg.to_lowercase().contains("empty") {
                    "err empty-schema".to_string()
                } else {
                    format!("err other {status} {}", hexs(&msg))
                };
                s.tally(&format!("answer:{kind}"));
                // oracle: error ⇒ registry untouched; ok ⇒ exactly this type added, nothing else changed;
                // accepted ⇔ the type was new and the field list non-empty
                let expect_ok = !defined.contains(&et) && !fields.is_empty();
                if status == 200 {
                    let mut exp = before.clone();
                    let mut f: Vec<(String, String)> = fields.iter().map(|f| (f.name.clone(), type_tokens(&gt_to_field_type(&f.gt)))).collect();
                    f.sort();
                    exp.push((et.clone(), f));
                    exp.sort();
                    if exp != after || !expect_ok {
                        ok_all = false;
                        detail = format!("DEFINE {et:?} ok but registry differs from before+new, or acceptance unexpected (expect_ok={expect_ok})");
                    }
                    defined.push(et.clone());
                } else if before != after || expect_ok {
                    ok_all = false;
                    detail = format!("DEFINE {et:?} answered {kind} but registry changed or rejection unexpected (expect_ok={expect_ok})");
                }
                let toks: Vec<String> = fields.iter().map(|f| format!("{} {}", hexs(&f.name), decl_tokens(&f.decl))).collect();
                ops.push(format!("D {} {}{}{}", hexs(&et), toks.len(), if toks.is_empty() { "" } else { " " }, toks.join(" ")));
                ans.push(kind);
            }
            // a reload from the file sees the same registry (errors left no trace on disk either)
            let reloaded = SchemaRegistry::new_with_path(p).expect("reload");
            if registry_snapshot(&reloaded) != registry_snapshot(&*registry.read().await) {
                ok_all = false;
                detail = "registry reloaded from schemas.bin differs from the live one".into();
            }
            s.case(&format!("session 0 {} {}", ops.len(), ops.join(" ")), &ans.join("; "), !defined.is_empty());
            if ok_all { s.oracle_ok() } else { s.oracle_fail(i, "-", &detail) }
        }
        s.finish();
    });
}

// ------------------------------------------------------------------------------------------
// stream: peg — the STORE grammar's raw brace matcher on valid JSON object texts

fn run_peg(a: &Args) {
    let mut s = Stream::create(&a.out, "peg");
    const PIECES: &[&str] = &["a}b", "a{b", "{}", "}{", "{{}", "x", "{\"a\":1}", "}", "{", "}}{{", "q\"}", "", "ü{", "{a}{b}"];
    fn gen_val(r: &mut Rng, depth: u32) -> Value {
        match r.below(if depth == 0 { 5 } else { 8 }) {
            0 => json!(r.below(100)),
            1 => json!(true),
            2..=4 => json!(*r.pick(PIECES)),
            5 => json!([*r.pick(PIECES), 1]),
            _ => {
                let mut m = Map::new();
                for _ in 0..r.below(3) {
                    m.insert(r.pick(PIECES).to_string(), gen_val(r, depth - 1));
                }
                Value::Object(m)
            }
        }
    }
    for i in 0..a.cases {
        if a.only.is_some_and(|o| o != i) {
            continue;
        }
        let mut r = Rng::for_case(a.seed, "peg", i);
        let mut m = Map::new();
        for _ in 0..r.below(4) {
            let k = if r.chance(1, 4) { r.pick(PIECES).to_string() } else { r.pick(IDENT_NAMES).to_string() };
            m.insert(k, gen_val(&mut r, 2));
        }
        let text = format!("{}{}{}", pad(&mut r).replace('\t', " "), serde_json::to_string(&Value::Object(m.clone())).unwrap(), pad(&mut r).replace('\t', " "));
        let cmd = format!("STORE ev FOR c1 PAYLOAD {text}");
        let parsed = parse_command(&cmd);
        let ok = match &parsed {
            Ok(Command::Store { payload, .. }) => *payload == Value::Object(m.clone()),
            _ => false,
        };
        let imp = if parsed.is_ok() { "ok" } else { "parse-error" };
        s.tally(&format!("answer:{imp}"));
        let braces_in_strings = has_brace(&Value::Object(m.clone()));
        s.tally(if braces_in_strings { "text:brace-in-a-string" } else { "text:structural-braces-only" });
        s.case(&format!("peg {}", hexs(&text)), imp, parsed.is_ok());
        // oracle: every text here is a valid JSON object, so a STORE carrying it must parse to that object
        if ok {
            s.oracle_ok();
        } else {
            let class = if parsed.is_err() && braces_in_strings && !peg_accepts(text.trim_start()) { "brace-in-string" } else { "-" };
            s.oracle_fail(i, class, &format!("valid JSON object not parsed ({:?}): {cmd}", parsed.as_ref().err()));
        }
    }
    s.finish();
}

fn main() {
    sys::maybe_child();
    let a = parse_args();
    match a.stream.as_str() {
        "alias" => run_alias(&a),
        "define" => run_define(&a),
        "store" => run_store(&a),
        "defineh" => run_defineh(&a),
        "peg" => run_peg(&a),
        "session" => run_session(&a),
        other => {
            eprintln!("unknown stream {other}");
            std::process::exit(2);
        }
    }
}

// ------------------------------------------------------------------------------------------
// stream: session (end to end): text → parse_command → dispatch_command on a real ShardManager
// in a child process; DEFINE, a few STOREs (valid / mutated), a failing re-DEFINE, then QUERY.

struct SessStore {
    text: String,
    k: i64,
    expected: bool,           // ground truth by construction (text level)
    labels: Vec<&'static str>,
    blank_ctx: bool,          // context is white-space-only, everything else valid
    brace: bool,              // a string of the payload holds '{' or '}', everything else valid
    plus_exp: bool,           // a float literal is spelled with "e+", everything else valid
    huge_time: bool,          // an integer literal above u64::MAX sits in a time field, everything else valid
    to_defined: bool,         // addressed to the session's defined type
}

fn has_brace(v: &Value) -> bool {
    match v {
        Value::String(s) => s.contains('{') || s.contains('}'),
        Value::Object(o) => o.iter().any(|(k, v)| k.contains('{') || k.contains('}') || has_brace(v)),
        Value::Array(a) => a.iter().any(has_brace),
        _ => false,
    }
}

/// `balanced_braces` of the STORE grammar (src/command/parser/commands/store.rs), which counts
/// braces without regard to JSON string quoting: does it consume exactly the whole text?
fn peg_balanced(s: &[char], mut i: usize) -> Option<usize> {
    if i >= s.len() || s[i] != '{' {
        return None;
    }
    i += 1;
    loop {
        if let Some(j) = peg_balanced(s, i) {
            i = j;
            continue;
        }
        if i < s.len() && s[i] != '}' {
            i += 1;
            continue;
        }
        break;
    }
    if i < s.len() && s[i] == '}' { Some(i + 1) } else { None }
}

fn peg_accepts(text: &str) -> bool {
    let cs: Vec<char> = text.trim_end().chars().collect();
    peg_balanced(&cs, 0) == Some(cs.len())
}

fn ctx_text(c: &str) -> String {
    let bare = !c.is_empty()
        && c.chars().next().is_some_and(|ch| ch.is_ascii_alphabetic() || ch == '_')
        && c.chars().all(|ch| ch.is_ascii_alphanumeric() || ch == '_' || ch == '-');
    if bare { c.to_string() } else { format!("\"{c}\"") }
}

fn sess_class_of_error(msg: &str) -> String {
    let (line, _) = canon_store_reply(400, msg, true);
    let kind = line.strip_prefix("err ").unwrap_or(&line);
    let k = kind.split(' ').next().unwrap_or("");
    match k {
        "mismatch" | "missing" => "err field".into(),
        "extra" => "err extra".into(),
        "time-magnitude" | "time-string" | "time-kind" => "err time".into(),
        _ => format!("err {kind}"),
    }
}

fn run_session(a: &Args) {
    let root = a.out.join("session-sys");
    let _ = std::fs::remove_dir_all(&root);
    // No flush in this stream: admission is decided before the shard, and a flush of the extreme
    // (but admitted) time values generated here costs minutes in the calendar index builder.
    let cfg = SysCfg { shards: 2, event_per_zone: 1 << 16, fill_factor: 8, ..SysCfg::default() };
    let mut sess = Session::start(&root, &cfg);
    let mut s = Stream::create(&a.out, "session");
    const SESS_CTX: &[&str] = &["c1", "ctx-42", "ÜñÏ", "a b", " lead", "u_1", "0", "user:1"];
    const SESS_BLANK: &[&str] = &[" ", "   ", "\t", "\u{00a0}", " \u{3000}"];
    for i in 0..a.cases {
        if a.only.is_some_and(|o| o != i) {
            continue;
        }
        let mut r = Rng::for_case(a.seed, "session", i);
        let et = format!("t{}_{}", a.seed % 1000, i);
        let names: Vec<&str> = IDENT_NAMES.iter().copied().filter(|n| *n != "k").collect();
        let schema = gen_schema(&mut r, &names, false);
        // ---- DEFINE text
        let mut parts = vec!["k: \"int\"".to_string()];
        for f in &schema {
            parts.push(match &f.decl {
                Decl::Spec(t) => format!("{}: \"{}\"", f.name, t.replace('\t', " ")),
                Decl::EnumSpec(vs) => format!("{}: [{}]", f.name, vs.iter().map(|v| format!("\"{v}\"")).collect::<Vec<_>>().join(", ")),
                Decl::Direct(_) => unreachable!(),
            });
        }
        r.shuffle(&mut parts);
        let define_text = format!("DEFINE {et} FIELDS {{ {} }}", parts.join(", "));
        let mut model_ops: Vec<String> = vec![];
        let mut impl_ans: Vec<String> = vec![];
        let mut payload_values: Vec<Value> = vec![];
        let mut fails: Vec<(String, String)> = vec![]; // (class, detail)
        let mut checks = 0u64;
        let def_tokens = {
            let mut t = vec![format!("{} p{}", hexs("k"), hexs("int"))];
            for f in &schema {
                let d = match &f.decl {
                    Decl::Spec(t) => Decl::Spec(t.replace('\t', " ")),
                    d => d.clone(),
                };
                t.push(format!("{} {}", hexs(&f.name), decl_tokens(&d)));
            }
            t
        };
        let t0 = std::time::Instant::now();
        let Some(rep) = sess.cmd(&define_text) else { panic!("session child died on {define_text}") };
        s.tally_n("ms:define", t0.elapsed().as_millis() as u64);
        checks += 1;
        if rep.status_class() == "ok" {
            model_ops.push(format!("D {} {} {}", hexs(&et), def_tokens.len(), def_tokens.join(" ")));
            impl_ans.push("ok".into());
        } else {
            fails.push(("-".into(), format!("well-formed DEFINE answered {}: {define_text} :: {}", rep.status_class(), rep.message)));
            if rep.parse == "ok" {
                model_ops.push(format!("D {} {} {}", hexs(&et), def_tokens.len(), def_tokens.join(" ")));
                impl_ans.push(format!("err {}", rep.status_class()));
            }
        }
        // ---- STOREs
        let n = 3 + r.below(4);
        let redefine_at = if r.chance(1, 2) { Some(r.below(n)) } else { None };
        let mut stores: Vec<SessStore> = vec![];
        let mut answers: Vec<bool> = vec![];
        for j in 0..n {
            if redefine_at == Some(j) {
                // a DEFINE that must be answered with an error and change nothing
                let text = match r.below(3) {
                    0 => format!("DEFINE {et} FIELDS {{ k: \"string\" }}"),
                    1 => format!("DEFINE {et} FIELDS {{ k: \"int\", zz: \"int\" }}"),
                    _ => format!("DEFINE {et} AS 2 FIELDS {{ other: \"bool\" }}"),
                };
                let Some(rep) = sess.cmd(&text) else { panic!("session child died on {text}") };
                checks += 1;
                s.tally("op:redefine");
                if rep.parse == "ok" {
                    let toks: Vec<String> = match parse_command(&text) {
                        Ok(Command::Define { schema, .. }) => schema
                            .fields
                            .iter()
                            .map(|(k, v)| {
                                format!("{} {}", hexs(k), match v {
                                    FieldSpec::Primitive(t) => format!("p{}", hexs(t)),
                                    FieldSpec::Enum(vs) => decl_tokens(&Decl::EnumSpec(vs.clone())),
                                })
                            })
                            .collect(),
                        _ => vec![],
                    };
                    model_ops.push(format!("D {} {} {}", hexs(&et), toks.len(), toks.join(" ")));
                    impl_ans.push(if rep.status_class() == "ok" {
                        "ok".into()
                    } else if rep.message.contains("already defined") {
                        "err already-defined".into()
                    } else {
                        format!("err other {}", hexs(&rep.message))
                    });
                }
                if rep.status_class() == "ok" {
                    fails.push(("-".into(), format!("re-DEFINE of an existing type was accepted: {text}")));
                }
            }
            let mut case = gen_payload(&mut r, &schema);
            let k = j as i64 + 1;
            if let Some(o) = case.payload.as_object_mut() {
                o.insert("k".into(), json!(k));
            }
            let mut labels = case.labels.clone();
            let mut st = SessStore { text: String::new(), k, expected: case.conforms, labels: vec![], blank_ctx: false, brace: false, plus_exp: false, huge_time: false, to_defined: true };
            // text-level specials, only on otherwise valid cases so the class is unambiguous
            let mut payload_text = serde_json::to_string(&case.payload).unwrap();
            let brace_breaks = case.conforms && has_brace(&case.payload) && !peg_accepts(&payload_text);
            if case.conforms && !brace_breaks && r.chance(1, 12) {
                if let Some(f) = schema.iter().find(|f| matches!(f.gt, GT::F64)) {
                    let ph = serde_json::to_string(case.payload.get(&f.name).unwrap_or(&Value::Null)).unwrap();
                    let lit = *r.pick(&["1e+5", "2.5E+3", "-7e+0"]);
                    payload_text = payload_text.replacen(&format!("\"{}\":{}", f.name, ph), &format!("\"{}\":{}", f.name, lit), 1);
                    if payload_text.contains(lit) {
                        st.plus_exp = true;
                        labels.push("plus-exponent");
                    }
                } else if let Some(f) = schema.iter().find(|f| matches!(f.gt, GT::Ts | GT::Date)) {
                    let ph = serde_json::to_string(case.payload.get(&f.name).unwrap_or(&Value::Null)).unwrap();
                    let lit = *r.pick(&["18446744073709551616", "10000000000000000000000000", "-9223372036854775809000"]);
                    payload_text = payload_text.replacen(&format!("\"{}\":{}", f.name, ph), &format!("\"{}\":{}", f.name, lit), 1);
                    if payload_text.contains(lit) {
                        st.huge_time = true;
                        st.expected = false; // an integer time of more than 19 digits is out of range
                        labels.push("time-int-above-u64");
                    }
                }
            }
            if brace_breaks {
                st.brace = true;
                labels.push("brace-in-string");
            } else if case.conforms && has_brace(&case.payload) {
                labels.push("balanced-braces-in-string");
            }
            let special = st.brace || st.plus_exp || st.huge_time;
            let (mut target, mut ctx) = (et.clone(), r.pick(SESS_CTX).to_string());
            match if special { 15 } else { r.below(16) } {
                0 => {
                    ctx = String::new();
                    st.expected = false;
                    labels.push("empty-context");
                }
                1 => {
                    ctx = r.pick(SESS_BLANK).to_string();
                    st.blank_ctx = st.expected;
                    labels.push("blank-context");
                }
                2 => {
                    target = format!("u{}_{}", a.seed % 1000, i);
                    st.to_defined = false;
                    st.expected = false;
                    labels.push("undefined-type");
                }
                _ => {}
            }
            let sp = if r.chance(1, 5) { "  " } else { " " };
            st.text = format!("STORE {target}{sp}FOR {}{sp}PAYLOAD {payload_text}", ctx_text(&ctx));
            st.labels = labels;
            let t0 = std::time::Instant::now();
            let Some(rep) = sess.cmd(&st.text) else { panic!("session child died on {}", st.text) };
            s.tally_n("ms:store", t0.elapsed().as_millis() as u64);
            checks += 1;
            let accepted = rep.status_class() == "ok";
            answers.push(accepted);
            // what the model is told: the command as the real parser sees it
            if rep.parse == "ok" {
                match parse_command(&st.text) {
                    Ok(Command::Store { event_type, context_id, payload }) => {
                        model_ops.push(format!("S {} {} {}", hexs(&event_type), hexs(&context_id), json_line(&payload)));
                        payload_values.push(payload);
                        impl_ans.push(if accepted { "ok".into() } else if rep.status_class() == "bad-request" { sess_class_of_error(&rep.message) } else { format!("err {}", rep.status_class()) });
                    }
                    _ => impl_ans.push("parent-parse-differs".into()),
                }
            }
            s.tally(&format!("store-answer:{}", rep.status_class()));
            for l in &st.labels {
                s.tally(&format!("mut:{l}"));
            }
            if st.labels.is_empty() {
                s.tally("mut:none");
            }
            // ---- oracle on the answer
            if accepted != st.expected {
                // the flags are set only on cases whose every other aspect is valid by construction
                let class = if !accepted && st.blank_ctx && rep.message == "context_id cannot be empty" {
                    "blank-context"
                } else if !accepted && st.brace && rep.parse == "error" {
                    "brace-in-string"
                } else if !accepted && st.plus_exp && rep.parse == "error" {
                    "plus-exponent"
                } else if accepted && st.huge_time {
                    "time-int-above-u64"
                } else {
                    "-"
                };
                fails.push((class.into(), format!("expected_accept={} answer={} msg={:?} labels={:?} :: {} :: {}", st.expected, rep.status_class(), rep.message, st.labels, define_text, st.text)));
            }
            stores.push(st);
        }
        // ---- QUERY: exactly the accepted ids are readable (poll: STORE is acknowledged on enqueue)
        let want: Vec<i64> = stores.iter().zip(&answers).filter(|(st, ok)| **ok && st.to_defined).map(|(st, _)| st.k).collect();
        let qtext = format!("QUERY {et} RETURN [k]");
        let mut got: Vec<i64> = vec![];
        let t0 = std::time::Instant::now();
        for attempt in 0..80 {
            let Some(rep) = sess.cmd(&qtext) else { panic!("session child died on {qtext}") };
            got = rep.col("k").iter().filter_map(|v| v.as_i64()).collect();
            got.sort();
            if got.len() >= want.len() || rep.status_class() != "ok" {
                break;
            }
            if attempt > 0 {
                s.tally("query:polled-again");
            }
            std::thread::sleep(std::time::Duration::from_millis(25));
        }
        s.tally_n("ms:query", t0.elapsed().as_millis() as u64);
        checks += 1;
        model_ops.push(format!("Q {} {}", hexs(&et), hexs("k")));
        impl_ans.push(format!("rows {}", got.iter().map(|k| k.to_string()).collect::<Vec<_>>().join(",")));
        let mut want_sorted = want.clone();
        want_sorted.sort();
        if got != want_sorted {
            fails.push(("-".into(), format!("QUERY returned ids {got:?}, accepted ids {want_sorted:?} :: {define_text} :: {:?}", stores.iter().map(|x| x.text.clone()).collect::<Vec<_>>())));
        }
        // ---- emit
        let refs: Vec<&Value> = payload_values.iter().collect();
        let op = format!("session {} {} {}", cal_tokens(&refs), model_ops.len(), model_ops.join(" "));
        s.case(&op, &impl_ans.join("; "), answers.iter().any(|x| *x));
        s.tally_n("commands", checks);
        if fails.is_empty() {
            s.oracle_ok();
        } else {
            for (class, detail) in fails {
                s.oracle_fail(i, &class, &detail);
            }
        }
    }
    sess.kill();
    s.finish();
}
