//! C04: REPLAY returns a context's events in append order.
//!
//! Streams
//! * `replay` / `replaycrash` (mode "relation"): shard-machine histories (sysops `Exec`, one
//!   shard, flush worker stepped through its hook points, compaction rounds, restarts) with the
//!   observations `P ctx` (REPLAY FOR c<ctx> RETURN [k]), `PT ctx ty` (REPLAY ev<ty> FOR …) and
//!   `LAY` (rows of every zone file of every segment directory, read back through the real
//!   `ZoneCursorLoader`). The model answers `ilv:<memtable flow>|<segment flow>`; the
//!   implementation line carries `seq:<keys in response order>`.
//! * `bigflush` (mode "relation"): memtables of 24..64 rows with 2-3 event types and 3-5 contexts,
//!   flushed, every (type, context) replayed from disk before and after a compaction round.
//! * `heap` (exact): the real `ZoneMerger::next_zone` on generated cursor sets; oracle: rows of
//!   one context leave in input order (holds since fix 32904ff).
//!
//! Oracle: replay sequence == append order of that context (and type); departures are classified
//! from the on-disk layout dump (see `classify`).
use snel_harness::out::{parse_args, Args, Stream};
use snel_harness::rng::Rng;
use snel_harness::sys::{self, SysCfg};
use snel_harness::sysops::{Exec, Op};
use std::collections::{BTreeMap, BTreeSet};
use std::path::{Path, PathBuf};

// ------------------------------------------------------------------ on-disk layout dump

/// Helper process: reads every zone of every segment directory of a shard through the real
/// `ZoneCursorLoader` (the loader the compactor uses) and prints one JSON line per
/// (segment, type): {"seg":label,"ty":t,"zones":[[[ctx,k],…],…]}.
fn dump_main(shard_dir: &str, ntypes: u64) {
    use snel_db::engine::core::ZoneCursorLoader;
    use snel_db::engine::schema::SchemaRegistry;
    use std::sync::Arc;
    use tokio::sync::RwLock;
    let rt = tokio::runtime::Builder::new_current_thread().enable_all().build().unwrap();
    rt.block_on(async {
        let reg = SchemaRegistry::new().expect("registry");
        let uids: Vec<Option<String>> = (0..ntypes).map(|t| reg.get_uid(&format!("ev{t}"))).collect();
        let reg = Arc::new(RwLock::new(reg));
        let base = PathBuf::from(shard_dir);
        let mut labels: Vec<String> = std::fs::read_dir(&base)
            .map(|rd| {
                rd.flatten()
                    .filter(|e| e.path().is_dir())
                    .map(|e| e.file_name().to_string_lossy().to_string())
                    .filter(|n| !n.is_empty() && n.chars().all(|c| c.is_ascii_digit()))
                    .collect()
            })
            .unwrap_or_default();
        labels.sort();
        for label in labels {
            for (t, uid) in uids.iter().enumerate() {
                let Some(uid) = uid else { continue };
                if !base.join(&label).join(format!("{uid}.zones")).exists() {
                    continue;
                }
                let loader = ZoneCursorLoader::new(uid.clone(), vec![label.clone()], Arc::clone(&reg), base.clone());
                match loader.load_all().await {
                    Ok(l) => {
                        let zones: Vec<Vec<(String, i64)>> = l
                            .cursors
                            .iter()
                            .map(|c| {
                                let ks = c.payload_fields.get("k");
                                (0..c.context_ids.len())
                                    .map(|i| (c.context_ids[i].clone(), ks.and_then(|v| v.get(i)).and_then(|v| v.as_i64()).unwrap_or(-1)))
                                    .collect()
                            })
                            .collect();
                        println!("{}", serde_json::json!({"seg": label, "ty": t, "zones": zones}));
                    }
                    Err(e) => println!("{}", serde_json::json!({"seg": label, "ty": t, "error": e.to_string()})),
                }
            }
        }
    });
}

#[derive(Clone, Debug)]
struct SegDump {
    label: u64,
    ty: u64,
    zones: Vec<Vec<(u64, u64)>>, // (ctx, k)
}

fn dump_layout(root: &Path, shard_dir: &Path, ntypes: u64) -> Vec<SegDump> {
    let exe = std::env::current_exe().unwrap();
    let out = std::process::Command::new(exe)
        .env("SNEL_C04_DUMP", shard_dir)
        .env("SNEL_C04_NTYPES", ntypes.to_string())
        .env("SNELDB_CONFIG", root.join("cfg.toml"))
        .env_remove("SNEL_SYS_CHILD")
        .current_dir(root)
        .output()
        .expect("dump helper");
    let mut v = vec![];
    for line in String::from_utf8_lossy(&out.stdout).lines() {
        let Ok(j) = serde_json::from_str::<serde_json::Value>(line) else { continue };
        if j.get("error").is_some() {
            panic!("dump error: {line}");
        }
        let zones = j["zones"]
            .as_array()
            .unwrap()
            .iter()
            .map(|z| {
                z.as_array()
                    .unwrap()
                    .iter()
                    .map(|r| {
                        let c = r[0].as_str().unwrap().trim_start_matches('c').parse::<u64>().unwrap();
                        (c, r[1].as_i64().unwrap() as u64)
                    })
                    .collect()
            })
            .collect();
        v.push(SegDump { label: j["seg"].as_str().unwrap().parse().unwrap(), ty: j["ty"].as_u64().unwrap(), zones });
    }
    v.sort_by_key(|s| (s.label, s.ty));
    v
}

fn join(ks: &[u64]) -> String {
    ks.iter().map(|k| k.to_string()).collect::<Vec<_>>().join(",")
}

/// With several event types the numeric label of a compaction output depends on hash-map order in
/// the planner (which plan allocates first): directories above level 0 are then shown as
/// `level * 10000 + rank inside the level`.
fn shown_label(d: &[SegDump], label: u64, ntypes: u64) -> u64 {
    if ntypes <= 1 || label < 10_000 {
        return label;
    }
    let mut same: Vec<u64> = d.iter().map(|s| s.label).filter(|l| l / 10_000 == label / 10_000 && *l < label).collect();
    same.sort();
    same.dedup();
    (label / 10_000) * 10_000 + same.len() as u64
}

fn show_layout(d: &[SegDump], ntypes: u64) -> String {
    if d.is_empty() {
        return "lay:-".into();
    }
    let parts: Vec<String> = d
        .iter()
        .map(|s| {
            let zs: Vec<String> = s.zones.iter().map(|z| join(&z.iter().map(|(_, k)| *k).collect::<Vec<_>>())).collect();
            format!("{}.{}={}", shown_label(d, s.label, ntypes), s.ty, zs.join("/"))
        })
        .collect();
    format!("lay:{}", parts.join(" "))
}

/// Input distribution: flushed memtables (level-0 directories, each counted once) by size and mix.
/// `big_multitype_repeated`: more than 20 rows, at least two event types and some (type, context)
/// with two or more rows — what an unstable sort of the drained rows would need to show.
fn count_big_l0(st: &mut Stream, d: &[SegDump], counted: &mut BTreeSet<u64>) {
    let labels: BTreeSet<u64> = d.iter().map(|s| s.label).filter(|l| *l < 10_000).collect();
    for l in labels {
        if !counted.insert(l) {
            continue;
        }
        let parts: Vec<&SegDump> = d.iter().filter(|s| s.label == l).collect();
        let rows: usize = parts.iter().map(|s| s.zones.iter().map(|z| z.len()).sum::<usize>()).sum();
        let repeated = parts.iter().any(|s| {
            let mut seen = BTreeSet::new();
            s.zones.iter().flatten().any(|(c, _)| !seen.insert(*c))
        });
        let zones_max = parts.iter().map(|s| s.zones.len()).max().unwrap_or(0);
        st.tally("flushed_memtables");
        if rows > 20 {
            st.tally("flushed_memtables_over_20_rows");
        }
        if rows > 20 && parts.len() >= 2 && repeated {
            st.tally("flushed_memtables_big_multitype_repeated");
            if zones_max >= 2 {
                st.tally("flushed_memtables_big_multitype_repeated_several_zones");
            }
        }
    }
}

/// Keys replayed from the WAL by a restart: every line of every `wal-*.log`.
fn wal_keys(wal_dir: &Path) -> BTreeSet<u64> {
    let mut out = BTreeSet::new();
    if let Ok(rd) = std::fs::read_dir(wal_dir) {
        for e in rd.flatten() {
            let name = e.file_name().to_string_lossy().to_string();
            if !(name.starts_with("wal-") && name.ends_with(".log")) {
                continue;
            }
            if let Ok(text) = std::fs::read_to_string(e.path()) {
                for line in text.lines() {
                    if let Ok(j) = serde_json::from_str::<serde_json::Value>(line) {
                        if let Some(k) = j["payload"]["k"].as_u64() {
                            out.insert(k);
                        }
                    }
                }
            }
        }
    }
    out
}

// ------------------------------------------------------------------ histories

#[derive(Clone, Debug, PartialEq)]
enum Tok {
    Op(Op),
    /// REPLAY FOR c<ctx> RETURN [k]
    P(u64),
    /// REPLAY ev<ty> FOR c<ctx> RETURN [k]
    Pt(u64, u64),
    /// on-disk layout
    Lay,
    /// the store clock reads <secs> from now on (`verif::set_store_now_secs`): the second the STORE
    /// handler stamps on the following events; it may step back or repeat
    T(u64),
}

impl Tok {
    fn token(&self) -> String {
        match self {
            Tok::Op(o) => o.token(),
            Tok::P(c) => format!("P {c}"),
            Tok::Pt(c, t) => format!("PT {c} {t}"),
            Tok::Lay => "LAY".into(),
            Tok::T(t) => format!("T {t}"),
        }
    }
}

fn parse_tok(t: &str) -> Option<Tok> {
    let w: Vec<&str> = t.split_whitespace().collect();
    Some(match w.as_slice() {
        ["S", k, c, ty] => Tok::Op(Op::S { k: k.parse().ok()?, ctx: c.parse().ok()?, ty: ty.parse().ok()? }),
        ["F"] => Tok::Op(Op::F),
        ["ADV"] => Tok::Op(Op::Adv),
        ["RUN"] => Tok::Op(Op::Run),
        ["X"] => Tok::Op(Op::X),
        ["D"] => Tok::Op(Op::D),
        ["C"] => Tok::Op(Op::C),
        ["LS"] => Tok::Op(Op::Ls),
        ["P", c] => Tok::P(c.parse().ok()?),
        ["PT", c, t] => Tok::Pt(c.parse().ok()?, t.parse().ok()?),
        ["LAY"] => Tok::Lay,
        ["T", t] => Tok::T(t.parse().ok()?),
        _ => return None,
    })
}

fn hist_line(cfg: &SysCfg, ntypes: u64, toks: &[Tok]) -> String {
    let mut s = format!("hist cap={} k={} t={} z={}", cfg.capacity(), cfg.segments_per_merge, ntypes, cfg.event_per_zone);
    for t in toks {
        s.push_str(" | ");
        s.push_str(&t.token());
    }
    s
}

fn replay_once(ex: &mut Exec, ctx: u64, ty: Option<u64>) -> Option<Vec<u64>> {
    let tys = ty.map(|t| format!("ev{t} ")).unwrap_or_default();
    let r = ex.s.cmd(&format!("REPLAY {tys}FOR c{ctx} RETURN [k]")).expect("child died in replay");
    if r.parse != "ok" || r.dispatch_panic {
        return None;
    }
    if r.columns.is_empty() {
        // no schema frame: a plain message (e.g. nothing found)
        return if r.status == 200 || r.rows.is_empty() { Some(vec![]) } else { None };
    }
    Some(r.col("k").iter().filter_map(|v| v.as_u64()).collect())
}

fn live_labels(ex: &mut Exec) -> BTreeSet<u64> {
    ex.s.ctl(serde_json::json!({"ctl":"live","shard":0}))
        .and_then(|v| v["live"].as_array().map(|a| a.iter().filter_map(|x| x.as_str().and_then(|s| s.parse().ok())).collect()))
        .unwrap_or_default()
}

fn ascending(v: &[u64]) -> bool {
    v.windows(2).all(|w| w[0] < w[1])
}

/// Class of a replay that is not in append order. `seq`: the answer; `app`: the selected
/// events in append order; `disk`: per segment directory (label order) the selected keys in
/// file order, a key present in several directories kept in the first only (`disk_raw`: without
/// that deduplication); `mem_poss`: keys that may (also) be in memory buffers.
///
/// Narrowness: the answer must hold exactly the selected events; events that are on disk only
/// must come in file order (label order, zone order, row order) — anything else is class `-`.
fn classify(seq: &[u64], app: &[u64], disk: &[(u64, Vec<u64>)], disk_raw: &[(u64, Vec<u64>)], mem_poss: &BTreeSet<u64>) -> &'static str {
    let (mut a, mut b) = (seq.to_vec(), app.to_vec());
    a.sort();
    b.sort();
    if a != b {
        return "-";
    }
    let dorder: Vec<u64> = disk.iter().flat_map(|(_, ks)| ks.iter().copied()).collect();
    let dset: BTreeSet<u64> = dorder.iter().copied().collect();
    let disk_only = |k: &u64| dset.contains(k) && !mem_poss.contains(k);
    let s_do: Vec<u64> = seq.iter().copied().filter(|k| disk_only(k)).collect();
    let d_do: Vec<u64> = dorder.iter().copied().filter(|k| disk_only(k)).collect();
    if s_do != d_do {
        return "-";
    }
    if !ascending(&dorder) {
        // The directories' rows, concatenated in label order, are not in append order. Known cause:
        // label order is not age order — a compaction output (older rows) carries a higher label
        // than newer directories of a lower level. Decidable: list the directories by age instead
        // (higher levels first, labels ascending inside a level; a row present in several
        // directories — re-flushed WAL replay, C01-wal-replay-duplicates — taken from the oldest):
        // then every directory and their concatenation must be in append order. Anything else
        // (e.g. a flushed segment or a compaction output that is internally out of order) is new.
        let mut by_age: Vec<&(u64, Vec<u64>)> = disk_raw.iter().collect();
        by_age.sort_by_key(|(l, _)| (std::cmp::Reverse(*l / 10_000), *l));
        let mut seen: BTreeSet<u64> = BTreeSet::new();
        let mut aged: Vec<u64> = vec![];
        for (_, ks) in by_age {
            let own: Vec<u64> = ks.iter().copied().filter(|k| seen.insert(*k)).collect();
            if !ascending(&own) {
                return "-";
            }
            aged.extend(own);
        }
        let has_level = disk_raw.iter().any(|(l, ks)| *l >= 10_000 && !ks.is_empty());
        return if has_level && ascending(&aged) { "compacted-level-listed-after-newer-l0" } else { "-" };
    }
    let in_mem: Vec<u64> = seq.iter().copied().filter(|k| !dset.contains(k)).collect();
    if mem_poss.iter().any(|k| app.contains(k)) {
        return if !ascending(&in_mem) { "active-buffer-before-passive" } else { "memtable-before-older-segments" };
    }
    "-"
}

struct Case {
    cfg: SysCfg,
    ntypes: u64,
    toks: Vec<Tok>,
}

const CTX_POOL: [u64; 7] = [0, 1, 2, 3, 10, 12, 20];

fn gen_history(r: &mut Rng, ntypes: u64, len: usize, crashes: bool) -> Vec<Tok> {
    let mut toks = vec![];
    let mut k = 0u64;
    let nctx = 1 + r.below(3) as usize;
    let mut pool = CTX_POOL.to_vec();
    r.shuffle(&mut pool);
    let ctxs: Vec<u64> = pool[..nctx].to_vec();
    let compaction = ntypes == 1;
    // scripted store clock: per STORE the same second, +1..5 s, or -1..100 s, so that append order
    // and time order of a context disagree inside a zone, across zones and across segments
    let scripted = r.chance(9, 10);
    let mut clock: u64 = 1_700_001_000;
    let mut clock_sent = false;
    let pblock = |toks: &mut Vec<Tok>, c: u64| {
        for _ in 0..3 {
            if ntypes == 1 {
                toks.push(Tok::P(c));
            } else {
                for t in 0..ntypes {
                    toks.push(Tok::Pt(c, t));
                }
            }
        }
    };
    for _ in 0..len {
        let x = r.below(100);
        if x < 52 {
            k += 1;
            let ctx = if r.chance(3, 5) { ctxs[0] } else { *r.pick(&ctxs) };
            if scripted {
                let before = clock;
                match r.below(3) {
                    0 => {}
                    1 => clock += 1 + r.below(5),
                    _ => clock -= 1 + r.below(100),
                }
                if clock != before || !clock_sent {
                    toks.push(Tok::T(clock));
                    clock_sent = true;
                }
            }
            toks.push(Tok::Op(Op::S { k, ctx, ty: r.below(ntypes) }));
        } else if x < 60 {
            toks.push(Tok::Op(Op::Adv));
        } else if x < 67 {
            toks.push(Tok::Op(Op::Run));
        } else if x < 71 {
            toks.push(Tok::Op(Op::F));
        } else if x < 79 {
            if compaction {
                toks.push(Tok::Op(Op::C));
                toks.push(Tok::Lay);
                pblock(&mut toks, ctxs[0]);
            } else {
                toks.push(Tok::Op(Op::Run));
            }
        } else if x < 93 {
            let c = if r.chance(2, 3) { ctxs[0] } else { *r.pick(&ctxs) };
            pblock(&mut toks, c);
        } else if x < 96 {
            toks.push(Tok::Lay);
        } else if crashes {
            toks.push(Tok::Op(if r.chance(1, 3) { Op::D } else { Op::X }));
            pblock(&mut toks, ctxs[0]);
        } else {
            toks.push(Tok::Op(Op::Ls));
        }
    }
    toks.push(Tok::Op(Op::Run));
    for c in &ctxs {
        pblock(&mut toks, *c);
    }
    toks.push(Tok::Lay);
    if compaction {
        toks.push(Tok::Op(Op::C));
        toks.push(Tok::Lay);
        pblock(&mut toks, ctxs[0]);
        k += 1;
        if scripted {
            toks.push(Tok::T(clock - 1 - r.below(50)));
        }
        toks.push(Tok::Op(Op::S { k, ctx: ctxs[0], ty: 0 }));
        pblock(&mut toks, ctxs[0]);
    }
    toks.push(Tok::Op(Op::Ls));
    toks
}

/// Large memtables: capacity 24..64 rows (several zones per segment), 2-3 event types interleaved,
/// 3-5 contexts with many events per (type, context); k or k+1 memtables are flushed (automatic
/// rotation at capacity, or a manual FLUSH of more than 20 rows), every (type, context) is replayed
/// from disk, a compaction round runs, everything is replayed again, then once more with rows in memory.
fn gen_bigflush(r: &mut Rng) -> Case {
    const SHAPES: [(usize, usize); 14] = [(4, 6), (4, 8), (6, 4), (6, 6), (8, 3), (8, 4), (8, 6), (12, 2), (12, 3), (16, 2), (16, 3), (16, 4), (3, 9), (5, 7)];
    let (epz, ff) = *r.pick(&SHAPES);
    let cfg = SysCfg { event_per_zone: epz, fill_factor: ff, segments_per_merge: 2 + r.below(2) as usize, ..Default::default() };
    let cap = cfg.capacity() as u64;
    let ntypes = 2 + r.below(2);
    let nctx = 3 + r.below(3) as usize;
    let mut pool = CTX_POOL.to_vec();
    r.shuffle(&mut pool);
    let ctxs: Vec<u64> = pool[..nctx].to_vec();
    let mut toks = vec![];
    let mut k = 0u64;
    let mut clock: u64 = 1_700_001_000;
    let nseg = cfg.segments_per_merge as u64 + r.below(2);
    let mut store = |toks: &mut Vec<Tok>, r: &mut Rng, ty: u64, first: bool| {
        let before = clock;
        match r.below(3) {
            0 => {}
            1 => clock += 1 + r.below(5),
            _ => clock -= 1 + r.below(100),
        }
        if clock != before || first {
            toks.push(Tok::T(clock));
        }
        k += 1;
        toks.push(Tok::Op(Op::S { k, ctx: *r.pick(&ctxs), ty }));
    };
    let all_pt = |toks: &mut Vec<Tok>| {
        for c in &ctxs {
            for t in 0..ntypes {
                toks.push(Tok::Pt(*c, t));
            }
        }
    };
    for seg in 0..nseg {
        // every memtable holds every type (so each compaction round is one batch over all types)
        let manual = r.chance(1, 2);
        let m = if manual { 21 + r.below(cap - 21) } else { cap };
        for i in 0..m {
            let ty = if i < ntypes { i } else { r.below(ntypes) };
            store(&mut toks, r, ty, seg == 0 && i == 0);
        }
        toks.push(Tok::Op(if manual { Op::F } else { Op::Run }));
        if seg == 0 {
            toks.push(Tok::Lay);
            all_pt(&mut toks);
        }
    }
    toks.push(Tok::Op(Op::Run));
    toks.push(Tok::Lay);
    all_pt(&mut toks);
    toks.push(Tok::Op(Op::C));
    toks.push(Tok::Lay);
    all_pt(&mut toks);
    for i in 0..(ntypes + r.below(6)) {
        store(&mut toks, r, i % ntypes, false);
    }
    for t in 0..ntypes {
        toks.push(Tok::Pt(ctxs[0], t));
    }
    toks.push(Tok::Op(Op::Ls));
    Case { cfg, ntypes, toks }
}

fn bigflush_stream(a: &Args) {
    let mut st = Stream::create(&a.out, &a.stream);
    for i in 0..a.cases {
        if a.only.is_some_and(|o| o != i) {
            continue;
        }
        let mut r = Rng::for_case(a.seed, &a.stream, i);
        let case = gen_bigflush(&mut r);
        let root = a.out.join(format!("{}-{i}", a.stream));
        run_history(&mut st, i, &case, &root);
    }
    st.finish();
}

fn witnesses() -> Vec<Case> {
    let h = |epz: usize, ff: usize, k: usize, nt: u64, s: &str| Case {
        cfg: SysCfg { event_per_zone: epz, fill_factor: ff, segments_per_merge: k, ..Default::default() },
        ntypes: nt,
        toks: s.split(" | ").map(|t| parse_tok(t).expect("witness token")).collect(),
    };
    vec![
        // memtable-before-older-segments: two flushed events, one in memory
        h(1, 2, 2, 1, "S 1 0 0 | S 2 0 0 | RUN | S 3 0 0 | P 0 | P 0 | P 0 | P 0"),
        // active-buffer-before-passive: the rotated buffer (older) is listed after the active one
        h(1, 2, 2, 1, "S 1 0 0 | S 2 0 0 | S 3 0 0 | P 0 | P 0"),
        // compacted-level-listed-after-newer-l0
        h(1, 1, 2, 1, "S 1 0 0 | RUN | S 2 0 0 | RUN | C | LAY | P 0 | S 3 0 0 | RUN | LAY | P 0 | P 0"),
        // regression histories of the fixed finding C04-heap-tie-order (32904ff): two segments of two
        // zones each, one context — compaction output and replay must be in append order
        h(1, 2, 2, 1, "S 1 0 0 | S 2 0 0 | RUN | S 3 0 0 | S 4 0 0 | RUN | LAY | P 0 | C | LAY | P 0 | P 0"),
        h(2, 2, 2, 1, "S 1 0 0 | S 2 1 0 | S 3 0 0 | S 4 0 0 | RUN | S 5 0 0 | S 6 1 0 | S 7 0 0 | S 8 0 0 | RUN | LAY | C | LAY | P 0 | P 1"),
        // context key order is the byte order of the ids: c10 < c2
        h(2, 2, 2, 1, "S 1 2 0 | S 2 10 0 | S 3 2 0 | S 4 10 0 | RUN | LAY | P 2 | P 10"),
        // append order is not time order: the store clock steps back between STOREs of one context.
        // out-of-order pairs inside one zone / across two zones of a segment / across two segments
        // (and carried through a compaction round and a restart)
        h(4, 1, 2, 1, "T 1700000100 | S 1 0 0 | T 1700000105 | S 2 0 0 | T 1700000103 | S 3 0 0 | T 1700000101 | S 4 0 0 | RUN | LAY | P 0 | P 0"),
        h(2, 2, 2, 1, "T 1700000100 | S 1 0 0 | T 1700000105 | S 2 0 0 | S 3 1 0 | T 1700000103 | S 4 0 0 | T 1700000090 | S 5 0 0 | P 0 | S 6 1 0 | RUN | LAY | P 0 | P 1"),
        h(2, 1, 2, 1, "T 1700000105 | S 1 0 0 | S 2 0 0 | RUN | T 1700000100 | S 3 0 0 | T 1700000050 | S 4 0 0 | RUN | LAY | P 0 | C | LAY | P 0 | P 0"),
        h(3, 1, 2, 1, "T 1700000105 | S 1 0 0 | T 1700000101 | S 2 0 0 | T 1700000103 | S 3 0 0 | RUN | LAY | P 0 | D | LAY | P 0"),
        // untyped REPLAY over two event types: zone list keyed by (zone id, label) only
        h(1, 2, 2, 2, "S 1 0 0 | S 2 0 1 | PT 0 0 | PT 0 1 | RUN | LAY | PT 0 0 | PT 0 1"),
    ]
}

fn run_history(st: &mut Stream, idx: u64, case: &Case, root: &Path) {
    let Case { cfg, ntypes, toks } = case;
    let ntypes = *ntypes;
    let _ = std::fs::remove_dir_all(root);
    let mut ex = Exec::start(root, cfg, ntypes);
    let line = hist_line(cfg, ntypes, toks);
    let mut obs: Vec<String> = vec![];
    // applied events in append order: (k, ctx, ty)
    let mut applied: Vec<(u64, u64, u64)> = vec![];
    let mut wmem: BTreeSet<u64> = BTreeSet::new();
    let mut dump_cache: Option<Vec<SegDump>> = None;
    let mut clock: Option<u64> = None;
    let mut counted_l0: BTreeSet<u64> = BTreeSet::new();
    let mut ts_of: BTreeMap<u64, u64> = BTreeMap::new();
    let mut rounds = 0u64;
    let mut reads = 0u64;
    for (n, t) in toks.iter().enumerate() {
        match t {
            Tok::Op(o) => {
                dump_cache = None;
                if let Op::S { k, ctx, ty } = o {
                    applied.push((*k, *ctx, *ty));
                }
                if *o == Op::C {
                    rounds += 1;
                }
                if let (Op::S { k, .. }, Some(secs)) = (o, clock) {
                    // scripted store clock (re-sent before every STORE: a restart forgets it)
                    ex.s.ctl(serde_json::json!({"ctl": "store_now", "secs": secs}));
                    ts_of.insert(*k, secs);
                }
                if let Some(l) = ex.exec(o) {
                    obs.push(l);
                }
                if *o == Op::C {
                    // reclaim of the drained directories is asynchronous: wait until every directory
                    // on disk is one the live list names
                    let t0 = std::time::Instant::now();
                    loop {
                        let live: BTreeSet<String> = ex.s.ctl(serde_json::json!({"ctl":"live","shard":0}))
                            .and_then(|v| v["live"].as_array().map(|a| a.iter().filter_map(|x| x.as_str().map(|s| s.to_string())).collect()))
                            .unwrap_or_default();
                        let dirs: BTreeSet<String> = std::fs::read_dir(ex.s.shard_data_dir(0))
                            .map(|rd| rd.flatten().filter(|e| e.path().is_dir()).map(|e| e.file_name().to_string_lossy().to_string()).filter(|n| !n.is_empty() && n.chars().all(|c| c.is_ascii_digit())).collect())
                            .unwrap_or_default();
                        if dirs.is_subset(&live) || t0.elapsed().as_secs() > 5 {
                            break;
                        }
                        std::thread::sleep(std::time::Duration::from_millis(5));
                    }
                }
                match o {
                    Op::X | Op::D => {
                        wmem = wal_keys(&ex.s.shard_wal_dir(0));
                        // stores a crash loses are C01's subject (recorded finding
                        // C01-wal-segment-id-skew): the replay is expected to hold what survived,
                        // i.e. what the restart finds in the WAL files and the segment directories
                        let d = dump_layout(&ex.s.root.clone(), &ex.s.shard_data_dir(0), ntypes);
                        let mut alive: BTreeSet<u64> = wmem.clone();
                        let live = live_labels(&mut ex);
                        alive.extend(d.iter().filter(|s| live.contains(&s.label)).flat_map(|s| s.zones.iter().flatten().map(|(_, k)| *k)));
                        let before = applied.len();
                        applied.retain(|(k, _, _)| alive.contains(k));
                        st.tally_n("stores_lost_by_crash", (before - applied.len()) as u64);
                        dump_cache = Some(d);
                    }
                    Op::F => wmem.clear(),
                    _ => {}
                }
            }
            Tok::T(secs) => {
                if let Some(prev) = clock {
                    st.tally(if *secs < prev { "clock_steps_back" } else { "clock_steps_forward" });
                }
                clock = Some(*secs);
            }
            Tok::Lay => {
                let d = dump_cache.get_or_insert_with(|| dump_layout(&ex.s.root.clone(), &ex.s.shard_data_dir(0), ntypes));
                count_big_l0(st, d, &mut counted_l0);
                obs.push(show_layout(d, ntypes));
            }
            Tok::P(_) | Tok::Pt(_, _) => {
                let (c, ty) = match t {
                    Tok::P(c) => (*c, None),
                    Tok::Pt(c, ty) => (*c, Some(*ty)),
                    _ => unreachable!(),
                };
                // reads in racy / stale states are answered nondeterministically (recorded findings
                // C03-inflight-hides-published, C05-stale-cache-on-segment-id-reuse): not issued
                if ex.racy_state() {
                    st.tally("racy_skipped");
                    obs.push("racy".into());
                    continue;
                }
                if ex.tainted {
                    st.tally("stale_skipped");
                    obs.push("stale".into());
                    continue;
                }
                let window = ex.flush_window();
                let d = dump_cache.get_or_insert_with(|| dump_layout(&ex.s.root.clone(), &ex.s.shard_data_dir(0), ntypes)).clone();
                let sel = |cc: u64, tt: u64| cc == c && ty.map(|x| x == tt).unwrap_or(true);
                // selected keys per directory in file order (types in ascending order inside a directory)
                // directories a read visits: the live list, plus the directory of the flush job that is
                // written but not yet published (ids are allocated above every directory on disk, so
                // it is the highest level-0 label). Since 113ae95 a restart no longer serves directories
                // that segments.idx does not name.
                let live: BTreeSet<u64> = live_labels(&mut ex);
                let inflight: Option<u64> = if window { d.iter().map(|s| s.label).filter(|l| *l < 10_000).max() } else { None };
                let mut disk: Vec<(u64, Vec<u64>)> = vec![];
                for s in d.iter().filter(|s| live.contains(&s.label) || inflight == Some(s.label)) {
                    let ks: Vec<u64> = s.zones.iter().flatten().filter(|(cc, _)| sel(*cc, s.ty)).map(|(_, k)| *k).collect();
                    match disk.last_mut() {
                        Some((l, v)) if *l == s.label => v.extend(ks),
                        _ => disk.push((s.label, ks)),
                    }
                }
                // a row present in several directories (WAL replay flushed again: recorded finding
                // C01-wal-replay-duplicates) is answered from the first one (deduplication by id)
                let disk_raw = disk.clone();
                let mut seen_disk: BTreeSet<u64> = BTreeSet::new();
                for (_, v) in disk.iter_mut() {
                    v.retain(|k| seen_disk.insert(*k));
                }
                let disk_set: BTreeSet<u64> = seen_disk;
                let dup = window || disk_set.iter().any(|k| wmem.contains(k));
                let app: Vec<u64> = applied.iter().filter(|(_, cc, tt)| sel(*cc, *tt)).map(|(k, _, _)| *k).collect();
                let Some(seq) = replay_once(&mut ex, c, ty) else {
                    st.oracle_fail(idx, "-", &format!("op#{n}: REPLAY failed in {line}"));
                    obs.push("error".into());
                    continue;
                };
                reads += 1;
                if dup {
                    st.tally("dup_states");
                }
                obs.push(if dup { "dup".to_string() } else { format!("seq:{}", join(&seq)) });
                // ---- oracle
                if ty.is_none() && ntypes > 1 {
                    unreachable!("untyped replays over several types are judged by wildcard_check");
                }
                if seq == app {
                    st.tally(if app.is_empty() { "replay_empty" } else if disk_set.is_empty() { "replay_ok_memory_only" } else if app.iter().all(|k| disk_set.contains(k)) { "replay_ok_disk_only" } else { "replay_ok_mixed" });
                    st.oracle_ok();
                } else {
                    // keys that may be in a memory buffer: not on disk, replayed from the WAL, or (flush
                    // window) the rows of the segment being published
                    let mut mem_poss: BTreeSet<u64> = app.iter().copied().filter(|k| !disk_set.contains(k)).collect();
                    mem_poss.extend(wmem.iter().copied().filter(|k| app.contains(k)));
                    if window {
                        if let Some((_, ks)) = disk.iter().filter(|(l, _)| *l < 10_000).last() {
                            mem_poss.extend(ks.iter().copied());
                        }
                    }
                    let class = classify(&seq, &app, &disk, &disk_raw, &mem_poss);
                    st.tally(&format!("departure:{class}"));
                    st.oracle_fail(idx, class, &format!("op#{n}: want [{}] got [{}] disk {:?} in {line}", join(&app), join(&seq), disk));
                }
                // the untyped REPLAY as well when several types exist (judged for membership only)
                if ntypes > 1 && ty == Some(0) {
                    wildcard_check(st, idx, n, &mut ex, c, &applied, &d, &line);
                }
            }
        }
    }
    // where do pairs of one context whose append order and time order disagree end up on disk?
    if !ts_of.is_empty() {
        let d = dump_layout(&ex.s.root.clone(), &ex.s.shard_data_dir(0), ntypes);
        let later = |a: u64, b: u64| matches!((ts_of.get(&a), ts_of.get(&b)), (Some(x), Some(y)) if a < b && x > y);
        let (mut same_zone, mut same_dir, mut other_dir) = (0u64, 0u64, 0u64);
        let rows: Vec<(usize, usize, u64, u64)> = d.iter().enumerate().flat_map(|(di, s)| s.zones.iter().enumerate().flat_map(move |(zi, z)| z.iter().map(move |(c, k)| (di, zi, *c, *k)))).collect();
        for (i, a) in rows.iter().enumerate() {
            for b in rows.iter().skip(i + 1) {
                if a.2 == b.2 && (later(a.3, b.3) || later(b.3, a.3)) {
                    if a.0 == b.0 && a.1 == b.1 { same_zone += 1 } else if a.0 == b.0 { same_dir += 1 } else { other_dir += 1 }
                }
            }
        }
        st.tally_n("time_inverted_pairs_in_one_zone", same_zone);
        st.tally_n("time_inverted_pairs_across_zones", same_dir);
        st.tally_n("time_inverted_pairs_across_segments", other_dir);
        if same_zone > 0 {
            st.tally("histories_with_time_inversion_inside_a_zone");
        }
    }
    drop(ex);
    if std::env::var("KEEP").is_err() {
        let _ = std::fs::remove_dir_all(root);
    }
    st.tally(&format!("types={ntypes}"));
    st.tally(&format!("epz={}", cfg.event_per_zone));
    st.tally(&format!("cap={}", cfg.capacity()));
    st.tally_n("ops", toks.len() as u64);
    st.tally_n("stores", applied.len() as u64);
    st.tally_n("rounds", rounds);
    st.tally_n("replays", reads);
    st.case(&line, &obs.join(" ; "), reads > 0 && applied.len() >= cfg.capacity());
}

/// `REPLAY FOR c<ctx>` with several event types defined: membership only. The zone list of the
/// segment flow is deduplicated by (zone id, label) without the type, so of several types'
/// zones with the same id in one directory only one is read.
fn wildcard_check(st: &mut Stream, idx: u64, n: usize, ex: &mut Exec, c: u64, applied: &[(u64, u64, u64)], d: &[SegDump], line: &str) {
    let Some(seq) = replay_once(ex, c, None) else {
        st.oracle_fail(idx, "-", &format!("op#{n}: untyped REPLAY failed in {line}"));
        return;
    };
    let want: BTreeSet<u64> = applied.iter().filter(|(_, cc, _)| *cc == c).map(|(k, _, _)| *k).collect();
    let got: BTreeSet<u64> = seq.iter().copied().collect();
    if got == want && seq.len() == want.len() {
        st.tally("wildcard_complete");
        st.oracle_ok();
        return;
    }
    let mut class = "wildcard-zone-dedup-drops-types";
    if !got.is_subset(&want) || seq.len() != got.len() {
        class = "-";
    }
    for k in want.difference(&got) {
        // the missing row sits in zone i of directory L for type t, and another type has a zone i in L
        let mut explained = false;
        for s in d {
            for (zi, z) in s.zones.iter().enumerate() {
                if z.iter().any(|(_, kk)| kk == k) && d.iter().any(|o| o.label == s.label && o.ty != s.ty && o.zones.len() > zi) {
                    explained = true;
                }
            }
        }
        if !explained {
            class = "-";
        }
    }
    st.tally(&format!("departure:{class}"));
    st.oracle_fail(idx, class, &format!("op#{n}: untyped REPLAY FOR c{c} want set {want:?} got {seq:?} in {line}"));
}

fn history_stream(a: &Args, crashes: bool) {
    let mut st = Stream::create(&a.out, &a.stream);
    let wits = if crashes { vec![] } else { witnesses() };
    let nw = wits.len() as u64;
    for i in 0..(a.cases + nw) {
        if a.only.is_some_and(|o| o != i) {
            continue;
        }
        let case = if i < nw {
            st.tally("witness_histories");
            Case { cfg: wits[i as usize].cfg.clone(), ntypes: wits[i as usize].ntypes, toks: wits[i as usize].toks.clone() }
        } else {
            let mut r = Rng::for_case(a.seed, &a.stream, i - nw);
            let cfg = SysCfg {
                event_per_zone: *r.pick(&[1usize, 2, 2, 3, 3, 4, 4]),
                fill_factor: 1 + r.below(3) as usize,
                segments_per_merge: 2 + r.below(2) as usize,
                ..Default::default()
            };
            // restarts are exercised with one event type (the shared shard machine is compared on
            // multi-type crash histories by the C05 streams)
            let ntypes = if crashes || r.chance(3, 4) { 1 } else { 2 };
            let len = 12 + r.below(30) as usize;
            Case { toks: gen_history(&mut r, ntypes, len, crashes), cfg, ntypes }
        };
        let root = a.out.join(format!("{}-{i}", a.stream));
        run_history(&mut st, i, &case, &root);
    }
    st.finish();
}

// ------------------------------------------------------------------ ZoneMerger component stream

fn heap_stream(a: &Args) {
    use snel_db::engine::core::{EventId, ZoneCursor, ZoneMerger};
    let mut st = Stream::create(&a.out, &a.stream);
    for i in 0..a.cases {
        if a.only.is_some_and(|o| o != i) {
            continue;
        }
        let mut r = Rng::for_case(a.seed, &a.stream, i);
        let ncur = 1 + r.below(7) as usize;
        let nalpha = 1 + r.below(3) as usize;
        let mut pool = CTX_POOL.to_vec();
        r.shuffle(&mut pool);
        let alpha: Vec<u64> = pool[..nalpha].to_vec();
        let max_rows = 1 + r.below(6) as usize;
        let mut k = 0u64;
        let mut cursors_spec: Vec<Vec<(u64, u64)>> = vec![];
        for _ in 0..ncur {
            let len = if r.chance(1, 12) { 0 } else { 1 + r.below(5) as usize };
            let mut ctxs: Vec<u64> = (0..len).map(|_| *r.pick(&alpha)).collect();
            // rows of a zone are in context-id (byte string) order
            ctxs.sort_by_key(|c| format!("c{c}"));
            cursors_spec.push(ctxs.into_iter().map(|c| { k += 1; (c, k) }).collect());
        }
        let cursors: Vec<ZoneCursor> = cursors_spec
            .iter()
            .enumerate()
            .map(|(ci, rows)| ZoneCursor {
                segment_id: (ci / 2) as u64,
                zone_id: (ci % 2) as u32,
                context_ids: rows.iter().map(|(c, _)| format!("c{c}")).collect(),
                timestamps: rows.iter().map(|_| "0".to_string()).collect(),
                event_types: rows.iter().map(|_| "ev0".to_string()).collect(),
                event_ids: rows.iter().map(|(_, k)| EventId::from_raw(*k)).collect(),
                payload_fields: Default::default(),
                pos: 0,
                created_at: ci as u64,
            })
            .collect();
        let mut merger = ZoneMerger::new(cursors);
        let mut zones: Vec<Vec<(u64, u64)>> = vec![];
        while let Some((rows, _)) = merger.next_zone(max_rows) {
            zones.push(rows.iter().map(|r| (r.context_id.trim_start_matches('c').parse().unwrap(), r.event_id.raw())).collect());
            assert!(zones.len() < 1000);
        }
        let op = format!(
            "heap {max_rows} | {}",
            cursors_spec
                .iter()
                .map(|c| if c.is_empty() { "-".to_string() } else { c.iter().map(|(c, k)| format!("{c}:{k}")).collect::<Vec<_>>().join(" ") })
                .collect::<Vec<_>>()
                .join(" | ")
        );
        let imp = if zones.is_empty() { "-".to_string() } else { zones.iter().map(|z| join(&z.iter().map(|(_, k)| *k).collect::<Vec<_>>())).collect::<Vec<_>>().join("/") };
        // oracle: rows of one context leave in input order (cursor order, then position)
        let out: Vec<(u64, u64)> = zones.iter().flatten().copied().collect();
        let mut bad_ctx: Option<u64> = None;
        for c in &alpha {
            let ks: Vec<u64> = out.iter().filter(|(cc, _)| cc == c).map(|(_, k)| *k).collect();
            if !ascending(&ks) {
                bad_ctx = Some(*c);
            }
        }
        let total: usize = cursors_spec.iter().map(|c| c.len()).sum();
        let shared = alpha.iter().any(|c| cursors_spec.iter().filter(|cur| cur.iter().any(|(cc, _)| cc == c)).count() >= 2);
        st.tally(&format!("cursors={ncur}"));
        st.tally(if shared { "context_in_several_cursors" } else { "contexts_disjoint" });
        st.case(&op, &imp, total > 1);
        if out.len() != total {
            st.oracle_fail(i, "-", &format!("rows lost: {op} -> {imp}"));
        } else if let Some(c) = bad_ctx {
            // finding C04-heap-tie-order is fixed (32904ff): any instability is a violation
            st.tally("unstable_merge");
            st.oracle_fail(i, "-", &format!("context c{c} out of input order: {op} -> {imp}"));
        } else {
            st.oracle_ok();
        }
    }
    st.finish();
}

fn main() {
    if let Ok(dir) = std::env::var("SNEL_C04_DUMP") {
        let nt = std::env::var("SNEL_C04_NTYPES").ok().and_then(|s| s.parse().ok()).unwrap_or(1);
        dump_main(&dir, nt);
        return;
    }
    sys::maybe_child();
    let a = parse_args();
    match a.stream.as_str() {
        "replay" => history_stream(&a, false),
        "replaycrash" => history_stream(&a, true),
        "heap" => heap_stream(&a),
        "bigflush" => bigflush_stream(&a),
        "probe" => probe(&a),
        other => {
            eprintln!("unknown stream {other}");
            std::process::exit(2);
        }
    }
}

/// Debugging aid: `c04 probe --out DIR <epz> <ff> <k> <ntypes> "<tok> | <tok> …"`
fn probe(a: &Args) {
    let epz: usize = a.extra[0].parse().unwrap();
    let ff: usize = a.extra[1].parse().unwrap();
    let k: usize = a.extra[2].parse().unwrap();
    let nt: u64 = a.extra[3].parse().unwrap();
    let toks: Vec<Tok> = a.extra[4].split(" | ").map(|t| parse_tok(t).expect("bad token")).collect();
    let cfg = SysCfg { event_per_zone: epz, fill_factor: ff, segments_per_merge: k, ..Default::default() };
    let root = a.out.join("probe");
    let _ = std::fs::remove_dir_all(&root);
    let mut ex = Exec::start(&root, &cfg, nt);
    println!("{}", hist_line(&cfg, nt, &toks));
    let mut clock: Option<u64> = None;
    for t in &toks {
        match t {
            Tok::T(secs) => clock = Some(*secs),
            Tok::Op(o) => {
                if let (Op::S { .. }, Some(secs)) = (o, clock) {
                    ex.s.ctl(serde_json::json!({"ctl": "store_now", "secs": secs}));
                }
                if let Some(l) = ex.exec(o) {
                    println!("{} -> {l}", o.token());
                }
            }
            Tok::P(_) | Tok::Pt(_, _) => {
                let (c, ty) = match t {
                    Tok::P(c) => (c, None),
                    Tok::Pt(c, ty) => (c, Some(*ty)),
                    _ => unreachable!(),
                };
                let racy = ex.racy_state();
                let window = ex.flush_window();
                let live = ex.s.ctl(serde_json::json!({"ctl":"live","shard":0}));
                let mut seen: BTreeMap<String, u64> = BTreeMap::new();
                for _ in 0..8 {
                    let s = replay_once(&mut ex, *c, ty);
                    *seen.entry(format!("{s:?}")).or_insert(0) += 1;
                }
                println!("{} racy={racy} window={window} tainted={} live={:?} -> {seen:?}", t.token(), ex.tainted, live.map(|v| v["live"].clone()));
            }
            Tok::Lay => {
                let root = ex.s.root.clone();
                let d = dump_layout(&root, &ex.s.shard_data_dir(0), nt);
                println!("{}", show_layout(&d, nt));
            }
        }
    }
}
