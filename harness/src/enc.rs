//! Token encodings shared with the Lean drivers (space-separated tokens, strings in hex).
pub fn hex(bytes: &[u8]) -> String {
    if bytes.is_empty() {
        return "-".to_string();
    }
    let mut s = String::with_capacity(bytes.len() * 2);
    for b in bytes {
        s.push_str(&format!("{:02x}", b));
    }
    s
}
pub fn hexs(s: &str) -> String {
    hex(s.as_bytes())
}

/// JSON value → prefix tokens: n | t | f | i<dec> | u<dec> | d<16 hex bits> | s<hex> |
/// a<len> v… | o<len> (s<hex> v)…
pub fn json_tokens(v: &serde_json::Value, out: &mut Vec<String>) {
    use serde_json::Value::*;
    match v {
        Null => out.push("n".into()),
        Bool(true) => out.push("t".into()),
        Bool(false) => out.push("f".into()),
        Number(n) => {
            if let Some(i) = n.as_i64() {
                out.push(format!("i{}", i));
            } else if let Some(u) = n.as_u64() {
                out.push(format!("u{}", u));
            } else {
                out.push(format!("d{:016x}", n.as_f64().unwrap().to_bits()));
            }
        }
        String(s) => out.push(format!("s{}", hexs(s))),
        Array(a) => {
            out.push(format!("a{}", a.len()));
            for x in a {
                json_tokens(x, out);
            }
        }
        Object(o) => {
            out.push(format!("o{}", o.len()));
            for (k, x) in o {
                out.push(format!("s{}", hexs(k)));
                json_tokens(x, out);
            }
        }
    }
}
pub fn json_line(v: &serde_json::Value) -> String {
    let mut t = Vec::new();
    json_tokens(v, &mut t);
    t.join(" ")
}
