//! Stream output: `<stream>.ops` (model input), `<stream>.impl` (implementation output),
//! `<stream>.oracle` (property failures seen on the implementation), `<stream>.stats.json`.
use std::collections::{BTreeMap, HashSet};
use std::fs::File;
use std::io::{BufWriter, Write};
use std::path::{Path, PathBuf};

pub struct Args {
    pub stream: String,
    pub seed: u64,
    pub cases: u64,
    pub out: PathBuf,
    pub only: Option<u64>,
    pub extra: Vec<String>,
}

pub fn parse_args() -> Args {
    let mut a = Args {
        stream: String::new(),
        seed: 1,
        cases: 100,
        out: PathBuf::from("."),
        only: None,
        extra: vec![],
    };
    let mut it = std::env::args().skip(1);
    while let Some(x) = it.next() {
        match x.as_str() {
            "--seed" => a.seed = it.next().unwrap().parse().unwrap(),
            "--cases" => a.cases = it.next().unwrap().parse().unwrap(),
            "--out" => a.out = PathBuf::from(it.next().unwrap()),
            "--only" => a.only = Some(it.next().unwrap().parse().unwrap()),
            _ if a.stream.is_empty() => a.stream = x,
            _ => a.extra.push(x),
        }
    }
    a
}

pub struct Stream {
    name: String,
    dir: PathBuf,
    ops: BufWriter<File>,
    imp: BufWriter<File>,
    oracle: BufWriter<File>,
    pub evaluations: u64,
    pub oracle_checks: u64,
    pub oracle_failures: u64,
    distinct: HashSet<u64>,
    dist: BTreeMap<String, u64>,
    samples: Vec<serde_json::Value>,
}

fn fnv(s: &str) -> u64 {
    let mut h: u64 = 0xcbf29ce484222325;
    for b in s.bytes() {
        h ^= b as u64;
        h = h.wrapping_mul(0x100000001b3);
    }
    h
}

impl Stream {
    pub fn create(dir: &Path, name: &str) -> Self {
        std::fs::create_dir_all(dir).unwrap();
        let f = |ext: &str| BufWriter::new(File::create(dir.join(format!("{name}.{ext}"))).unwrap());
        Stream {
            name: name.to_string(),
            dir: dir.to_path_buf(),
            ops: f("ops"),
            imp: f("impl"),
            oracle: f("oracle"),
            evaluations: 0,
            oracle_checks: 0,
            oracle_failures: 0,
            distinct: HashSet::new(),
            dist: BTreeMap::new(),
            samples: vec![],
        }
    }
    /// One case: the model's input line and the implementation's canonical answer.
    /// `nontrivial`: the case reached a non-error / non-degenerate branch (stream's own rule).
    pub fn case(&mut self, op: &str, imp: &str, nontrivial: bool) {
        debug_assert!(!op.contains('\n') && !imp.contains('\n'));
        writeln!(self.ops, "{op}").unwrap();
        writeln!(self.imp, "{imp}").unwrap();
        self.evaluations += 1;
        if nontrivial {
            self.distinct.insert(fnv(op));
        }
        if self.samples.len() < 3 || (self.samples.len() < 6 && nontrivial && self.evaluations % 97 == 0) {
            self.samples.push(serde_json::json!({"op": trunc(op), "impl": trunc(imp)}));
        }
    }
    /// Count a feature of the generated input / the branch the implementation took.
    pub fn tally(&mut self, key: &str) {
        *self.dist.entry(key.to_string()).or_insert(0) += 1;
    }
    pub fn tally_n(&mut self, key: &str, n: u64) {
        *self.dist.entry(key.to_string()).or_insert(0) += n;
    }
    /// The implementation was compared with the executable spec of the property.
    pub fn oracle_ok(&mut self) {
        self.oracle_checks += 1;
    }
    /// Property failure observed on the implementation. `class` is the finding class the
    /// failing case falls in ("-" when none); `detail` must allow a replay.
    pub fn oracle_fail(&mut self, case: u64, class: &str, detail: &str) {
        self.oracle_checks += 1;
        self.oracle_failures += 1;
        writeln!(self.oracle, "FAIL\t{case}\t{class}\t{}", detail.replace('\n', " ")).unwrap();
    }
    pub fn finish(mut self) {
        self.ops.flush().unwrap();
        self.imp.flush().unwrap();
        self.oracle.flush().unwrap();
        let stats = serde_json::json!({
            "stream": self.name,
            "evaluations": self.evaluations,
            "distinct_nontrivial": self.distinct.len(),
            "oracle_checks": self.oracle_checks,
            "oracle_failures": self.oracle_failures,
            "distribution": self.dist,
            "samples": self.samples,
        });
        std::fs::write(
            self.dir.join(format!("{}.stats.json", self.name)),
            serde_json::to_string_pretty(&stats).unwrap(),
        )
        .unwrap();
    }
}

fn trunc(s: &str) -> String {
    if s.len() > 300 {
        let mut e = 300;
        while !s.is_char_boundary(e) {
            e -= 1;
        }
        format!("{}…", &s[..e])
    } else {
        s.to_string()
    }
}
