//! Executor for shard-machine operation sequences on the real engine (one shard), stepping the
//! flush worker deterministically through its hook points.
//!
//! Op language (tokens separated by " | " in the model input line):
//!   S <k> <ctx> <ty>   store an event (payload {"k":k}) of type ev<ty> for context c<ctx>
//!   F                  manual FLUSH (issued unparked: drains first, waits for completion)
//!   ADV                the flush worker advances its head job by one hook interval
//!   RUN                the flush worker runs until no job is left
//!   R                  read: selection keys (dedup by id), COUNT, per-context REPLAY order
//!   X                  kill -9, restart on the same directories
//!   XM                 kill -9 INSIDE the segment write of the head job (directory created, files
//!                      incomplete), restart; nothing happens unless a job is parked at its start
//!   FF                 the head job's flush FAILS: a regular file sits where its segment directory
//!                      would be created; the job ends, its passive buffer is retained. Nothing
//!                      happens unless a job is parked at its start and that path is free
//!   D                  clean shutdown (flush all, stop), restart
//!   C                  one compaction round (unparked)
//!   LS                 durable listing: WAL files with line counts, segment directories

use crate::sys::{Reply, Session, SysCfg};
use serde_json::json;
use std::path::Path;

#[derive(Clone, Debug, PartialEq)]
pub enum Op {
    S { k: u64, ctx: u64, ty: u64 },
    F,
    Adv,
    Run,
    R,
    X,
    Xm,
    Ff,
    D,
    C,
    Ls,
}

impl Op {
    pub fn token(&self) -> String {
        match self {
            Op::S { k, ctx, ty } => format!("S {k} {ctx} {ty}"),
            Op::F => "F".into(),
            Op::Adv => "ADV".into(),
            Op::Run => "RUN".into(),
            Op::R => "R".into(),
            Op::X => "X".into(),
            Op::Xm => "XM".into(),
            Op::Ff => "FF".into(),
            Op::D => "D".into(),
            Op::C => "C".into(),
            Op::Ls => "LS".into(),
        }
    }
}

/// Hook points a non-empty flush job passes, in order; the model's job step after passing
/// point i is i (parked at POINTS[0] = step 0 … POINTS[5] = step 5).
pub const POINTS: [&str; 6] = [
    "flush.registered",
    "flusher.zones_written",
    "flush.written",
    "flush.published",
    "flush.passive_cleared",
    "flush.wal_cleaned",
];

pub struct Exec {
    pub s: Session,
    pub ntypes: u64,
    stores_this_life: u64,
    pub log: Vec<String>,
    /// what the engine really answered to the last `R` (also when the compared line is `racy`)
    pub last_real_read: String,
    pub last_read_racy: bool,
    /// labels of segment directories seen during this process lifetime / currently present
    seen_labels: std::collections::BTreeSet<String>,
    cur_labels: std::collections::BTreeSet<String>,
    /// a directory label reappeared within one lifetime (per-label caches may be stale)
    pub tainted: bool,
    /// keys whose WAL entry was written to an unlinked log file, or whose log file was deleted by
    /// a cleanup (observed on the real engine)
    pub orphaned: Vec<u64>,
    /// a kill inside a segment write happened while no `segments.idx` existed: the incomplete
    /// directory gets registered by the next index rebuild (finding C01-kill-in-first-segment-write);
    /// reads are not compared from then on
    pub poisoned: bool,
    xm_count: u64,
    /// level-0 id the first rotation of this process lifetime gets (highest level-0 directory + 1)
    l0_base: u64,
    pub failed_flushes: u64,
    /// several event types and at least one compaction round so far: from the second round on the
    /// planner's hash-map order decides which labels are chunked together, so COUNT and the number
    /// of directories are under-determined; reads print the selection only, listings the WAL only
    pub loose: bool,
}

fn arm_all(s: &mut Session) {
    for p in POINTS {
        s.ctl(json!({"ctl": "arm_park", "point": p}));
    }
}

impl Exec {
    pub fn start(root: &Path, cfg: &SysCfg, ntypes: u64) -> Exec {
        let mut s = Session::start(root, cfg);
        for t in 0..ntypes {
            let r = s.cmd(&format!("DEFINE ev{t} FIELDS {{ k: \"int\" }}"));
            assert!(r.map(|r| r.ok()).unwrap_or(false), "DEFINE failed");
        }
        arm_all(&mut s);
        Exec { s, ntypes, stores_this_life: 0, log: vec![], last_real_read: String::new(), last_read_racy: false, seen_labels: Default::default(), cur_labels: Default::default(), tainted: false, orphaned: vec![], poisoned: false, xm_count: 0, l0_base: 0, failed_flushes: 0, loose: false }
    }

    fn hits(&mut self, p: &str) -> u64 {
        self.s.ctl(json!({"ctl": "hits", "point": p})).and_then(|v| v["hits"].as_u64()).unwrap_or(0)
    }
    fn parked(&mut self, p: &str) -> u64 {
        self.s.ctl(json!({"ctl": "parked", "point": p})).and_then(|v| v["parked"].as_u64()).unwrap_or(0)
    }
    /// Barrier: every STORE sent so far has been applied by the shard worker (FIFO mailbox).
    fn sync_worker(&mut self) {
        let _ = self.s.cmd("QUERY ev0 LIMIT 1");
    }
    fn outstanding_jobs(&mut self) -> u64 {
        self.sync_worker();
        self.hits("flush.queued").saturating_sub(self.hits("flush.task_done"))
    }
    /// Where is the flush worker parked? (index into POINTS); waits until it is parked
    /// somewhere when a job is outstanding.
    fn where_parked(&mut self) -> Option<usize> {
        if self.outstanding_jobs() == 0 {
            return None;
        }
        let t0 = std::time::Instant::now();
        loop {
            for (i, p) in POINTS.iter().enumerate() {
                if self.parked(p) > 0 {
                    return Some(i);
                }
            }
            if self.outstanding_jobs() == 0 {
                return None;
            }
            if t0.elapsed().as_secs() > 20 {
                panic!("flush worker neither parked nor idle");
            }
            std::thread::sleep(std::time::Duration::from_millis(2));
        }
    }
    fn adv(&mut self) {
        let Some(i) = self.where_parked() else { return };
        let done_before = self.hits("flush.task_done");
        self.s.ctl(json!({"ctl": "pass_one", "point": POINTS[i]}));
        // wait until the job is parked at a later point or has finished
        let t0 = std::time::Instant::now();
        loop {
            if self.hits("flush.task_done") > done_before {
                // job finished; if another job is queued wait until it parks at its start
                let _ = self.where_parked();
                return;
            }
            let mut moved = false;
            for (j, p) in POINTS.iter().enumerate() {
                if j != i && self.parked(p) > 0 {
                    moved = true;
                }
            }
            if moved {
                return;
            }
            if t0.elapsed().as_secs() > 20 {
                panic!("flush worker did not advance from {}", POINTS[i]);
            }
            std::thread::sleep(std::time::Duration::from_millis(2));
        }
    }
    fn run_all(&mut self) {
        // step job by job so that every job passes every point exactly like ADV would
        let mut guard = 0;
        while self.where_parked().is_some() {
            self.adv();
            guard += 1;
            assert!(guard < 10_000);
        }
    }
    /// Kill the process INSIDE the segment write of the head job. The flush worker must be parked
    /// at the start of a job (`flush.registered`); it is let go and the process aborts when it
    /// reaches `point` (`zonewriter.meta_written` / `zonewriter.cols_written`: the directory
    /// exists, its files are incomplete). Then the engine is restarted on the same directories.
    /// Returns false, without doing anything, when no job is parked at its start.
    pub fn crash_in_write(&mut self, point: &str) -> bool {
        self.wait_wal_drained();
        if self.where_parked() != Some(0) {
            return false;
        }
        let n = self.hits(point);
        self.s.arm_crash(point, n + 1);
        self.s.ctl(json!({"ctl": "pass_one", "point": POINTS[0]}));
        if !self.s.wait_dead(5000) {
            self.s.kill();
        }
        self.restart();
        true
    }
    fn wait_wal_drained(&mut self) {
        let t0 = std::time::Instant::now();
        while self.hits("wal.appended") < self.stores_this_life {
            if t0.elapsed().as_secs() > 20 {
                panic!("WAL did not drain");
            }
            std::thread::sleep(std::time::Duration::from_millis(2));
        }
    }
    fn restart(&mut self) {
        let root = self.s.root.clone();
        let cfg = self.s.cfg.clone();
        self.s = Session::start(&root, &cfg);
        arm_all(&mut self.s);
        self.stores_this_life = 0;
        self.tainted = false;
        self.cur_labels = self.dir_labels();
        self.seen_labels = self.cur_labels.clone();
        // `ShardContext::new` seeds the level-0 counter from the directory listing
        self.l0_base = self.cur_labels.iter().filter_map(|l| l.parse::<u64>().ok()).filter(|n| *n < 10_000).max().map(|m| m + 1).unwrap_or(0);
    }
    /// Let the head job's flush fail: a regular file sits where `create_dir_all` would create the
    /// segment directory. Every job of this lifetime consumed one level-0 id, in order, so the head
    /// job's id is the lifetime's first id plus the number of finished jobs.
    fn fail_head_flush(&mut self) {
        self.wait_wal_drained();
        if self.where_parked() != Some(0) {
            return;
        }
        let done_before = self.hits("flush.task_done");
        let path = self.s.shard_data_dir(0).join(format!("{:05}", self.l0_base + done_before));
        if path.exists() {
            return;
        }
        std::fs::write(&path, b"").expect("blocker file");
        self.s.ctl(json!({"ctl": "pass_one", "point": POINTS[0]}));
        let t0 = std::time::Instant::now();
        while self.hits("flush.task_done") <= done_before {
            if t0.elapsed().as_secs() > 20 {
                panic!("failing flush did not end");
            }
            std::thread::sleep(std::time::Duration::from_millis(2));
        }
        assert!(path.is_file(), "the blocked flush created its directory after all");
        std::fs::remove_file(&path).expect("remove blocker file");
        self.failed_flushes += 1;
        let _ = self.where_parked();
    }

    fn dir_labels(&self) -> std::collections::BTreeSet<String> {
        std::fs::read_dir(self.s.shard_data_dir(0))
            .map(|rd| {
                rd.flatten()
                    .filter(|e| e.path().is_dir())
                    .map(|e| e.file_name().to_string_lossy().to_string())
                    .filter(|n| !n.is_empty() && n.chars().all(|c| c.is_ascii_digit()))
                    .collect()
            })
            .unwrap_or_default()
    }
    fn track_labels(&mut self) {
        let now = self.dir_labels();
        for l in now.difference(&self.cur_labels.clone()) {
            if self.seen_labels.contains(l) {
                self.tainted = true;
            }
            self.seen_labels.insert(l.clone());
        }
        self.cur_labels = now;
    }

    /// keys per WAL file currently in the directory
    fn wal_snapshot(&self) -> std::collections::BTreeMap<String, Vec<u64>> {
        let mut m = std::collections::BTreeMap::new();
        if let Ok(rd) = std::fs::read_dir(self.s.shard_wal_dir(0)) {
            for e in rd.flatten() {
                let name = e.file_name().to_string_lossy().to_string();
                if !(name.starts_with("wal-") && name.ends_with(".log")) {
                    continue;
                }
                let mut keys = vec![];
                if let Ok(text) = std::fs::read_to_string(e.path()) {
                    for line in text.lines() {
                        if let Ok(v) = serde_json::from_str::<serde_json::Value>(line) {
                            if let Some(k) = v.get("payload").and_then(|p| p.get("k")).and_then(|k| k.as_u64()) {
                                keys.push(k);
                            }
                        }
                    }
                }
                m.insert(name, keys);
            }
        }
        m
    }

    /// Executes one op; reads and listings return the canonical observation line.
    pub fn exec(&mut self, op: &Op) -> Option<String> {
        // ops during which the flush worker may run its WAL cleanup: remember which WAL entries
        // disappear (class predicate of finding C01-wal-segment-id-skew: an acknowledged event is
        // lost by a crash only after its WAL entry was removed or written to an unlinked log)
        let may_clean = matches!(op, Op::Adv | Op::Run | Op::F | Op::D | Op::C);
        let before = if may_clean { self.wal_snapshot() } else { Default::default() };
        let out = self.exec_inner(op);
        if may_clean && !matches!(op, Op::D) {
            let after = self.wal_snapshot();
            for (name, keys) in before {
                if !after.contains_key(&name) {
                    self.orphaned.extend(keys);
                }
            }
        }
        self.track_labels();
        out
    }

    fn exec_inner(&mut self, op: &Op) -> Option<String> {
        match op {
            Op::S { k, ctx, ty } => {
                let before = self.s.wal_lines(0);
                let r = self.s.cmd(&format!("STORE ev{ty} FOR c{ctx} PAYLOAD {{\"k\":{k}}}"));
                assert!(r.map(|r| r.ok()).unwrap_or(false), "STORE failed");
                self.stores_this_life += 1;
                // The flush worker is parked or idle between ops, so nothing deletes WAL files
                // here: if the directory did not gain a line, the entry went to a log file that
                // has been unlinked while open (finding C01-wal-segment-id-skew).
                self.wait_wal_drained();
                if self.s.wal_lines(0) <= before {
                    self.orphaned.push(*k);
                }
                None
            }
            Op::F => {
                self.run_all();
                self.wait_wal_drained();
                self.s.ctl(json!({"ctl": "release_all"}));
                let r = self.s.cmd("FLUSH");
                assert!(r.map(|r| r.ok()).unwrap_or(false), "FLUSH failed");
                arm_all(&mut self.s);
                None
            }
            Op::Adv => {
                self.wait_wal_drained();
                self.adv();
                None
            }
            Op::Run => {
                self.wait_wal_drained();
                self.run_all();
                None
            }
            Op::R => {
                // reads in racy states are not compared with the model (see `racy_state`)
                let racy = self.racy_state();
                let full = self.read();
                self.last_read_racy = racy;
                // the oracle sees the full answer; the compared line drops COUNT when `loose`
                self.last_real_read = full.clone();
                let line = if self.loose { full.split(' ').next().unwrap().to_string() } else { full };
                Some(if self.poisoned { "poisoned".to_string() } else if racy { "racy".to_string() } else if self.tainted { if self.ntypes <= 1 { "stale".to_string() } else { "any".to_string() } } else { line })
            }
            Op::Xm => {
                const MID: [&str; 2] = ["zonewriter.meta_written", "zonewriter.cols_written"];
                let no_index = !self.s.shard_data_dir(0).join("segments.idx").exists();
                let point = MID[(self.xm_count % 2) as usize];
                self.xm_count += 1;
                if self.crash_in_write(point) && no_index {
                    self.poisoned = true;
                }
                None
            }
            Op::Ff => {
                self.fail_head_flush();
                None
            }
            Op::X => {
                self.sync_worker();
                self.wait_wal_drained();
                self.s.kill();
                self.restart();
                None
            }
            Op::D => {
                self.run_all();
                self.wait_wal_drained();
                self.s.ctl(json!({"ctl": "release_all"}));
                let ok = self.s.shutdown();
                assert!(ok, "shutdown reported errors");
                self.restart();
                None
            }
            Op::C => {
                if self.ntypes > 1 {
                    self.loose = true;
                }
                self.run_all();
                self.s.ctl(json!({"ctl": "release_all"}));
                let v = self.s.compact(0);
                assert!(v.as_ref().map(|v| v["ok"].as_bool().unwrap_or(false)).unwrap_or(false), "compaction failed: {v:?}");
                // reclaim of retired directories is asynchronous: wait until every numeric
                // directory on disk is named by the live list again (nothing is in flight here)
                let t0 = std::time::Instant::now();
                loop {
                    let live: std::collections::BTreeSet<String> = self
                        .s
                        .ctl(json!({"ctl": "live", "shard": 0}))
                        .and_then(|v| v["live"].as_array().map(|a| a.iter().filter_map(|x| x.as_str().map(|s| s.to_string())).collect()))
                        .unwrap_or_default();
                    let reclaim_busy = std::fs::read_dir(self.s.shard_data_dir(0).join(".reclaim")).map(|d| d.count()).unwrap_or(0) > 0;
                    if (self.dir_labels().is_subset(&live) && !reclaim_busy) || t0.elapsed().as_millis() > 5000 {
                        break;
                    }
                    std::thread::sleep(std::time::Duration::from_millis(5));
                }
                arm_all(&mut self.s);
                None
            }
            Op::Ls => Some(self.ls()),
        }
    }

    fn keys_of(r: &Reply) -> Vec<i64> {
        r.col("k").iter().filter_map(|v| v.as_i64()).collect()
    }

    /// Before the repair 4f45061 the engine answered reads nondeterministically while an in-flight
    /// segment had no files next to segment directories on disk (finding
    /// C03-inflight-hides-published, fixed); such reads were not compared with the model. They are
    /// compared now.
    pub fn racy_state(&mut self) -> bool {
        false
    }

    /// The head job is between "files written" and "passive buffer released" (COUNT sees its rows
    /// twice: finding C03-count-dup-flush-window).
    pub fn flush_window(&mut self) -> bool {
        matches!(self.where_parked(), Some(1..=3))
    }

    /// `keys=<sorted selection keys> count=<sum of COUNT over types>`
    pub fn read(&mut self) -> String {
        let mut keys: Vec<i64> = vec![];
        let mut count: i64 = 0;
        for t in 0..self.ntypes {
            let r = self.s.cmd(&format!("QUERY ev{t} RETURN [k]")).expect("child died in read");
            assert!(r.ok(), "QUERY failed: {}", r.raw);
            keys.extend(Self::keys_of(&r));
            let c = self.s.cmd(&format!("QUERY ev{t} COUNT")).expect("child died in read");
            assert!(c.ok(), "COUNT failed: {}", c.raw);
            count += c.rows.first().and_then(|r| r.first()).and_then(|v| v.as_i64()).unwrap_or(0);
        }
        keys.sort();
        format!(
            "keys={} count={}",
            if keys.is_empty() { "-".to_string() } else { keys.iter().map(|k| k.to_string()).collect::<Vec<_>>().join(",") },
            count
        )
    }

    /// `wal=<id>:<lines>,… segs=<id>,…`
    pub fn ls(&mut self) -> String {
        self.sync_worker();
        self.wait_wal_drained();
        let mut wal: Vec<(u64, usize)> = vec![];
        if let Ok(rd) = std::fs::read_dir(self.s.shard_wal_dir(0)) {
            for e in rd.flatten() {
                let name = e.file_name().to_string_lossy().to_string();
                if let Some(id) = name.strip_prefix("wal-").and_then(|s| s.strip_suffix(".log")).and_then(|s| s.parse::<u64>().ok()) {
                    let n = std::fs::read(e.path()).map(|b| b.iter().filter(|c| **c == b'\n').count()).unwrap_or(0);
                    wal.push((id, n));
                }
            }
        }
        wal.sort();
        let mut segs: Vec<u64> = vec![];
        if let Ok(rd) = std::fs::read_dir(self.s.shard_data_dir(0)) {
            for e in rd.flatten() {
                let name = e.file_name().to_string_lossy().to_string();
                if !name.is_empty() && name.chars().all(|c| c.is_ascii_digit()) && e.path().is_dir() {
                    segs.push(name.parse().unwrap());
                }
            }
        }
        segs.sort();
        // with several event types compaction output ids depend on hash-map iteration order in
        // the planner: only the number of directories per level is compared
        let shown: Vec<u64> = if self.ntypes <= 1 {
            segs.clone()
        } else {
            (0..6u64).map(|lvl| segs.iter().filter(|s| **s / 10_000 == lvl).count() as u64).collect()
        };
        if self.loose {
            return format!("wal={}", if wal.is_empty() { "-".to_string() } else { wal.iter().map(|(i, n)| format!("{i}:{n}")).collect::<Vec<_>>().join(",") });
        }
        format!(
            "wal={} segs={}",
            if wal.is_empty() { "-".to_string() } else { wal.iter().map(|(i, n)| format!("{i}:{n}")).collect::<Vec<_>>().join(",") },
            if shown.is_empty() { "-".to_string() } else { shown.iter().map(|s| s.to_string()).collect::<Vec<_>>().join(",") }
        )
    }
}

/// Model input line for a history: `sys cap=<cap> k=<kmerge> | op | op …`
pub fn history_line(cfg: &SysCfg, ntypes: u64, ops: &[Op]) -> String {
    let mut s = format!("sys cap={} k={} t={}", cfg.capacity(), cfg.segments_per_merge, ntypes);
    for o in ops {
        s.push_str(" | ");
        s.push_str(&o.token());
    }
    s
}
