//! System sessions: the real engine (ShardManager + SchemaRegistry + dispatch_command) in a
//! child process per configuration and lifetime. The parent talks JSON lines over
//! stdin/stdout; CRASH is a real abort at a named hook point or a SIGKILL, RESTART is a new
//! child on the same directories.
//!
//! Any harness binary that wants system sessions calls `sys::maybe_child()` first thing in
//! `main` (it never returns in the child).

use serde_json::{json, Value};
use std::io::{BufRead, BufReader, Write};
use std::path::{Path, PathBuf};
use std::process::{Child, ChildStdin, ChildStdout, Command, Stdio};

#[derive(Clone, Debug)]
pub struct SysCfg {
    pub shards: usize,
    pub event_per_zone: usize,
    pub fill_factor: usize,
    pub segments_per_merge: usize,
    pub wal_flush_each_write: bool,
    pub wal_buffered: bool,
    /// `[wal] buffer_size` (a size string or a byte count)
    pub wal_buffer_size: String,
    pub conservative: bool,
    pub bypass_auth: bool,
    pub max_inflight_passives: usize,
    pub streaming_batch_size: Option<usize>,
    pub week_start: String,
    pub timezone: String,
}

impl Default for SysCfg {
    fn default() -> Self {
        SysCfg {
            shards: 1,
            event_per_zone: 2,
            fill_factor: 2,
            segments_per_merge: 2,
            wal_flush_each_write: true,
            wal_buffered: false,
            wal_buffer_size: "100KB".into(),
            conservative: false,
            bypass_auth: true,
            max_inflight_passives: 8,
            streaming_batch_size: None,
            week_start: "Mon".into(),
            timezone: "UTC".into(),
        }
    }
}

impl SysCfg {
    pub fn capacity(&self) -> usize {
        self.event_per_zone * self.fill_factor
    }
    /// Writes `<root>/cfg.toml` with every directory under `root`; returns its path.
    pub fn write(&self, root: &Path) -> PathBuf {
        std::fs::create_dir_all(root).unwrap();
        let r = root.display();
        let sbs = match self.streaming_batch_size {
            Some(n) => format!("streaming_batch_size = {n}\n"),
            None => String::new(),
        };
        let text = format!(
            r#"[wal]
enabled = true
fsync = false
buffered = {buffered}
buffer_size = "{bufsz}"
dir = "{r}/wal/"
flush_each_write = {few}
fsync_every_n = 1024
conservative_mode = {cons}
archive_dir = "{r}/wal/archived/"
compression_level = 3
compression_algorithm = "zstd"

[engine]
fill_factor = {ff}
data_dir = "{r}/cols"
index_dir = "{r}/index/"
shard_count = {shards}
event_per_zone = {epz}
compaction_interval = 100000
sys_io_threshold = 1000000
sys_memory_threshold_mb = "1MB"
max_inflight_passives = {mip}
segments_per_merge = {spm}
compaction_max_shard_concurrency = 1

[schema]
def_dir = "{r}/schema/"

[server]
socket_path = "{r}/sneldb.sock"
log_level = "error"
output_format = "json"
tcp_addr = "127.0.0.1:0"
http_addr = "127.0.0.1:0"
ws_addr = "127.0.0.1:0"
auth_token = "t"
backpressure_threshold = 80

[playground]
enabled = false
allow_unauthenticated = true

[auth]
bypass_auth = {bypass}
rate_limit_enabled = false

[logging]
log_dir = "{r}/logs"
stdout_level = "off"
file_level = "{flevel}"

[query]
zone_index_cache_max_entries = 256
column_block_cache_max_bytes = "64MB"
zone_surf_cache_max_bytes = "10MB"
{sbs}
[time]
timezone = "{tz}"
week_start = "{ws}"
use_calendar_bucketing = true
"#,
            buffered = self.wal_buffered,
            bufsz = self.wal_buffer_size,
            few = self.wal_flush_each_write,
            cons = self.conservative,
            ff = self.fill_factor,
            shards = self.shards,
            epz = self.event_per_zone,
            mip = self.max_inflight_passives,
            spm = self.segments_per_merge,
            bypass = self.bypass_auth,
            tz = self.timezone,
            ws = self.week_start,
            flevel = if std::env::var("SNEL_TRACE").is_ok() { "debug" } else { "error" },
        );
        let p = root.join("cfg.toml");
        std::fs::write(&p, text).unwrap();
        p
    }
}

// ------------------------------------------------------------------------------ child side

/// If this process was started as a session child, run the child loop and exit.
pub fn maybe_child() {
    if std::env::var("SNEL_SYS_CHILD").as_deref() != Ok("1") {
        return;
    }
    let rt = tokio::runtime::Builder::new_multi_thread()
        .worker_threads(6)
        .enable_all()
        .build()
        .unwrap();
    rt.block_on(child_main());
    std::process::exit(0);
}

async fn child_main() {
    use snel_db::command::dispatcher::dispatch_command;
    use snel_db::command::parser::parse_command;
    use snel_db::engine::schema::SchemaRegistry;
    use snel_db::engine::shard::manager::ShardManager;
    use snel_db::shared::config::CONFIG;
    use snel_db::shared::response::json::JsonRenderer;
    use std::sync::Arc;
    use tokio::sync::RwLock;

    if std::env::var("SNEL_TRACE").is_ok() {
        let _ = snel_db::logging::init();
    }
    let registry = Arc::new(RwLock::new(SchemaRegistry::new().expect("schema registry")));
    let sm = Arc::new(
        ShardManager::new(
            CONFIG.engine.shard_count,
            PathBuf::from(&CONFIG.engine.data_dir),
            PathBuf::from(&CONFIG.wal.dir),
        )
        .await,
    );
    let stdin = std::io::stdin();
    let mut out = std::io::stdout();
    writeln!(out, "{}", json!({"ready": true})).unwrap();
    out.flush().unwrap();
    let mut line = String::new();
    loop {
        line.clear();
        if stdin.lock().read_line(&mut line).unwrap_or(0) == 0 {
            break;
        }
        let req: Value = match serde_json::from_str(&line) {
            Ok(v) => v,
            Err(e) => {
                writeln!(out, "{}", json!({"error": format!("bad request: {e}")})).unwrap();
                out.flush().unwrap();
                continue;
            }
        };
        let reply = if let Some(cmd) = req.get("cmd").and_then(|c| c.as_str()) {
            // Exactly the TCP front end's path: parse, then dispatch with the bypass identity.
            let parsed = std::panic::catch_unwind(|| parse_command(cmd));
            match parsed {
                Err(_) => json!({"parse": "panic"}),
                Ok(Err(e)) => json!({"parse": "error", "msg": format!("{e:?}")}),
                Ok(Ok(c)) => {
                    let mut buf: Vec<u8> = Vec::new();
                    let user = req.get("user").and_then(|u| u.as_str()).unwrap_or("bypass").to_string();
                    let sm2 = Arc::clone(&sm);
                    let reg2 = Arc::clone(&registry);
                    // run in a task so a panic inside dispatch is reported, not fatal
                    let h = tokio::spawn(async move {
                        let r = dispatch_command(&c, &mut buf, &sm2, &reg2, None, Some(user.as_str()), &JsonRenderer).await;
                        (r.is_ok(), buf)
                    });
                    match h.await {
                        Ok((ok, buf)) => json!({"parse": "ok", "io_ok": ok, "out": String::from_utf8_lossy(&buf)}),
                        Err(e) => json!({"parse": "ok", "dispatch": "panic", "msg": e.to_string()}),
                    }
                }
            }
        } else if let Some(ctl) = req.get("ctl").and_then(|c| c.as_str()) {
            let name = req.get("point").and_then(|p| p.as_str()).unwrap_or("");
            match ctl {
                "arm_crash" => {
                    snel_db::verif::arm_crash(name, req["k"].as_u64().unwrap_or(1));
                    json!({"ok": true})
                }
                "arm_park" => {
                    snel_db::verif::arm_park(name);
                    json!({"ok": true})
                }
                "release" => {
                    snel_db::verif::release(name);
                    json!({"ok": true})
                }
                "pass_one" => {
                    snel_db::verif::pass_one(name);
                    json!({"ok": true})
                }
                "release_all" => {
                    snel_db::verif::release_all();
                    json!({"ok": true})
                }
                "parked" => json!({"parked": snel_db::verif::parked(name)}),
                "wait_parked" => {
                    // wait (up to ms) until some thread is parked at `point`
                    let ms = req["ms"].as_u64().unwrap_or(3000);
                    let t0 = std::time::Instant::now();
                    let mut n = 0;
                    while t0.elapsed().as_millis() < ms as u128 {
                        n = snel_db::verif::parked(name);
                        if n > 0 {
                            break;
                        }
                        tokio::time::sleep(std::time::Duration::from_millis(2)).await;
                    }
                    json!({"parked": n})
                }
                "hits" => json!({"hits": snel_db::verif::hits(name)}),
                "start_trace" => {
                    snel_db::verif::start_trace();
                    json!({"ok": true})
                }
                "take_trace" => json!({"trace": snel_db::verif::take_trace()}),
                "store_now" => {
                    snel_db::verif::set_store_now_secs(req["secs"].as_u64());
                    json!({"ok": true})
                }
                "id_clock" => {
                    match req["readings"].as_array() {
                        Some(a) => snel_db::verif::set_id_clock(a.iter().filter_map(|x| x.as_u64()).collect()),
                        None => snel_db::verif::clear_id_clock(),
                    }
                    json!({"ok": true})
                }
                "compact" => {
                    let id = req["shard"].as_u64().unwrap_or(0) as usize;
                    match snel_db::verif::compact_now(id).await {
                        Ok(ran) => json!({"ok": true, "ran": ran}),
                        Err(e) => json!({"ok": false, "error": e}),
                    }
                }
                "live" => {
                    let id = req["shard"].as_u64().unwrap_or(0) as usize;
                    json!({"live": snel_db::verif::shard_live_segments(id)})
                }
                "route" => {
                    let ctx = req["ctx"].as_str().unwrap_or("");
                    json!({"shard": sm.get_shard(ctx).id})
                }
                "await_flush" => {
                    let errs = sm.wait_for_flush_completion().await;
                    json!({"ok": errs.is_empty(), "errors": format!("{errs:?}")})
                }
                "shutdown" => {
                    // what the server does on a clean stop: flush everything, stop shards
                    let e1 = sm.flush_all(Arc::clone(&registry)).await;
                    let e2 = sm.shutdown_all().await;
                    writeln!(out, "{}", json!({"ok": e1.is_empty() && e2.is_empty(), "errors": format!("{e1:?} {e2:?}")})).unwrap();
                    out.flush().unwrap();
                    // give WAL tasks a moment to close their files
                    tokio::time::sleep(std::time::Duration::from_millis(100)).await;
                    std::process::exit(0);
                }
                "abort" => std::process::abort(),
                _ => json!({"error": "unknown ctl"}),
            }
        } else {
            json!({"error": "unknown request"})
        };
        writeln!(out, "{reply}").unwrap();
        out.flush().unwrap();
    }
}

// ----------------------------------------------------------------------------- parent side

pub struct Session {
    pub root: PathBuf,
    pub cfg: SysCfg,
    child: Child,
    stdin: ChildStdin,
    stdout: BufReader<ChildStdout>,
    pub dead: bool,
}

/// A decoded response of the JSON renderer.
#[derive(Debug, Clone, Default)]
pub struct Reply {
    pub parse: String,        // ok | error | panic
    pub dispatch_panic: bool,
    pub status: i64,          // 200, 400, …; 0 when unknown
    pub message: String,
    pub columns: Vec<String>,
    pub rows: Vec<Vec<Value>>,
    pub row_count: Option<u64>, // announced in the end frame
    pub raw: String,
}

impl Reply {
    pub fn ok(&self) -> bool {
        self.parse == "ok" && !self.dispatch_panic && self.status == 200
    }
    /// Column `name` of every row.
    pub fn col(&self, name: &str) -> Vec<Value> {
        match self.columns.iter().position(|c| c == name) {
            Some(i) => self.rows.iter().map(|r| r.get(i).cloned().unwrap_or(Value::Null)).collect(),
            None => vec![],
        }
    }
    pub fn status_class(&self) -> &'static str {
        if self.parse == "panic" || self.dispatch_panic {
            return "panic";
        }
        if self.parse == "error" {
            return "parse-error";
        }
        match self.status {
            200 => "ok",
            400 => "bad-request",
            401 => "unauthorized",
            403 => "forbidden",
            404 => "not-found",
            500 => "internal",
            503 => "unavailable",
            _ => "other",
        }
    }
}

/// Decode the JSON renderer's output: either a single `{"status":..,"message":..,"results":..}`
/// object or streaming frames (`schema` / `batch`|`row` / `end`), one JSON document per line.
pub fn decode_json_output(raw: &str) -> Reply {
    let mut r = Reply { parse: "ok".into(), raw: raw.to_string(), ..Default::default() };
    let mut saw_frame = false;
    for line in raw.lines() {
        let line = line.trim();
        if line.is_empty() {
            continue;
        }
        let v: Value = match serde_json::from_str(line) {
            Ok(v) => v,
            Err(_) => continue,
        };
        if let Some(t) = v.get("type").and_then(|t| t.as_str()) {
            saw_frame = true;
            match t {
                "schema" => {
                    if let Some(cols) = v.get("columns").and_then(|c| c.as_array()) {
                        r.columns = cols
                            .iter()
                            .map(|c| c.get("name").and_then(|n| n.as_str()).unwrap_or("").to_string())
                            .collect();
                    }
                    r.status = 200;
                }
                "batch" => {
                    if let Some(rows) = v.get("rows").and_then(|x| x.as_array()) {
                        for row in rows {
                            if let Some(a) = row.as_array() {
                                r.rows.push(a.clone());
                            }
                        }
                    }
                }
                "row" => {
                    if let Some(vals) = v.get("values") {
                        if let Some(a) = vals.as_array() {
                            r.rows.push(a.clone());
                        } else if let Some(o) = vals.as_object() {
                            r.rows.push(r.columns.iter().map(|c| o.get(c).cloned().unwrap_or(Value::Null)).collect());
                        }
                    }
                }
                "end" => {
                    r.row_count = v.get("row_count").and_then(|x| x.as_u64());
                }
                _ => {}
            }
        } else if v.get("status").is_some() || v.get("message").is_some() {
            r.status = v.get("status").and_then(|s| s.as_i64()).unwrap_or(0);
            r.message = v.get("message").map(|m| m.as_str().map(|s| s.to_string()).unwrap_or(m.to_string())).unwrap_or_default();
            if let Some(res) = v.get("results").and_then(|x| x.as_array()) {
                for x in res {
                    r.rows.push(vec![x.clone()]);
                }
            }
        }
    }
    if !saw_frame && r.status == 0 {
        r.status = -1;
    }
    r
}

impl Session {
    /// Start (or restart) the engine on `root` with `cfg`. The executable is the current one.
    pub fn start(root: &Path, cfg: &SysCfg) -> Session {
        Self::start_env(root, cfg, &[])
    }
    pub fn start_env(root: &Path, cfg: &SysCfg, env: &[(&str, String)]) -> Session {
        std::fs::create_dir_all(root).unwrap();
        let root = &root.canonicalize().unwrap();
        let cfg_path = cfg.write(root);
        let exe = std::env::current_exe().unwrap();
        let errlog = std::fs::OpenOptions::new().create(true).append(true).open(root.join("child.stderr")).unwrap();
        let mut cmd = Command::new(exe);
        cmd.env("SNEL_SYS_CHILD", "1")
            .env("SNELDB_CONFIG", &cfg_path)
            .current_dir(root)
            .stdin(Stdio::piped())
            .stdout(Stdio::piped())
            .stderr(Stdio::from(errlog));
        for (k, v) in env {
            cmd.env(k, v);
        }
        let mut child = cmd.spawn().expect("spawn session child");
        let stdin = child.stdin.take().unwrap();
        let stdout = BufReader::new(child.stdout.take().unwrap());
        let mut s = Session { root: root.to_path_buf(), cfg: cfg.clone(), child, stdin, stdout, dead: false };
        let ready = s.read_line();
        if ready.is_none() {
            s.dead = true;
        }
        s
    }
    fn read_line(&mut self) -> Option<Value> {
        let mut line = String::new();
        match self.stdout.read_line(&mut line) {
            Ok(0) | Err(_) => None,
            Ok(_) => serde_json::from_str(&line).ok(),
        }
    }
    fn request(&mut self, v: Value) -> Option<Value> {
        if self.dead {
            return None;
        }
        if writeln!(self.stdin, "{v}").is_err() || self.stdin.flush().is_err() {
            self.dead = true;
            return None;
        }
        let r = self.read_line();
        if r.is_none() {
            self.dead = true;
        }
        r
    }
    /// Send one text command through parse_command + dispatch_command.
    /// `None` when the child died (crash point hit).
    pub fn cmd(&mut self, text: &str) -> Option<Reply> {
        let v = self.request(json!({"cmd": text}))?;
        let parse = v.get("parse").and_then(|p| p.as_str()).unwrap_or("").to_string();
        if parse != "ok" {
            return Some(Reply { parse, message: v.get("msg").and_then(|m| m.as_str()).unwrap_or("").to_string(), ..Default::default() });
        }
        if v.get("dispatch").and_then(|d| d.as_str()) == Some("panic") {
            return Some(Reply { parse, dispatch_panic: true, ..Default::default() });
        }
        let out = v.get("out").and_then(|o| o.as_str()).unwrap_or("");
        let mut r = decode_json_output(out);
        r.parse = parse;
        Some(r)
    }
    pub fn ctl(&mut self, v: Value) -> Option<Value> {
        self.request(v)
    }
    pub fn arm_crash(&mut self, point: &str, k: u64) {
        self.ctl(json!({"ctl": "arm_crash", "point": point, "k": k}));
    }
    pub fn compact(&mut self, shard: usize) -> Option<Value> {
        self.ctl(json!({"ctl": "compact", "shard": shard}))
    }
    /// SIGKILL (process-kill semantics: nothing buffered in user space survives).
    pub fn kill(&mut self) {
        let _ = self.child.kill();
        let _ = self.child.wait();
        self.dead = true;
    }
    /// Wait for a child that is expected to die at an armed crash point.
    pub fn wait_dead(&mut self, ms: u64) -> bool {
        let t0 = std::time::Instant::now();
        loop {
            match self.child.try_wait() {
                Ok(Some(_)) => {
                    self.dead = true;
                    return true;
                }
                _ => {}
            }
            if t0.elapsed().as_millis() as u64 > ms {
                return false;
            }
            std::thread::sleep(std::time::Duration::from_millis(5));
        }
    }
    pub fn is_alive(&mut self) -> bool {
        matches!(self.child.try_wait(), Ok(None))
    }
    /// Clean stop: flush all shards, shut the workers and WAL tasks down.
    pub fn shutdown(&mut self) -> bool {
        let ok = self.request(json!({"ctl": "shutdown"})).and_then(|v| v.get("ok").and_then(|b| b.as_bool())).unwrap_or(false);
        let _ = self.child.wait();
        self.dead = true;
        ok
    }
    pub fn shard_wal_dir(&self, shard: usize) -> PathBuf {
        self.root.join("wal").join(format!("shard-{shard}"))
    }
    pub fn shard_data_dir(&self, shard: usize) -> PathBuf {
        self.root.join("cols").join(format!("shard-{shard}"))
    }
    /// Total number of lines in the shard's WAL files (to wait until appends have drained).
    pub fn wal_lines(&self, shard: usize) -> usize {
        let mut n = 0;
        if let Ok(rd) = std::fs::read_dir(self.shard_wal_dir(shard)) {
            for e in rd.flatten() {
                let name = e.file_name().to_string_lossy().to_string();
                if name.starts_with("wal-") && name.ends_with(".log") {
                    if let Ok(s) = std::fs::read(e.path()) {
                        n += s.iter().filter(|b| **b == b'\n').count();
                    }
                }
            }
        }
        n
    }
}

impl Drop for Session {
    fn drop(&mut self) {
        let _ = self.child.kill();
        let _ = self.child.wait();
    }
}

/// Listing of a directory tree relative to `root` (sorted), files with their sizes.
pub fn tree(root: &Path) -> Vec<(String, u64)> {
    fn walk(base: &Path, p: &Path, out: &mut Vec<(String, u64)>) {
        if let Ok(rd) = std::fs::read_dir(p) {
            for e in rd.flatten() {
                let path = e.path();
                if path.is_dir() {
                    out.push((format!("{}/", path.strip_prefix(base).unwrap().display()), 0));
                    walk(base, &path, out);
                } else {
                    let sz = e.metadata().map(|m| m.len()).unwrap_or(0);
                    out.push((path.strip_prefix(base).unwrap().display().to_string(), sz));
                }
            }
        }
    }
    let mut v = vec![];
    walk(root, root, &mut v);
    v.sort();
    v
}
