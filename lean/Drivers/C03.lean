-- stub driver for C03: replaced when the property's model exists
def main : IO Unit := pure ()
