import Snel.Model.ShardProto
open Snel

def main : IO Unit := Proto.serve (ShardProto.answerWith id)
