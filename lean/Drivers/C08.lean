-- stub driver for C08: replaced when the property's model exists
def main : IO Unit := pure ()
