import Snel.Model.Proto
import Snel.Model.C08Enc
import Snel.Model.C08Trie
import Snel.Model.C08Zone
open Snel Snel.Proto Snel.C08

/-! Line-protocol driver for the C08 streams. Tokens are space separated; byte strings in hex
(`-` = empty). A malformed line answers `bad-op`. -/

def bytesOf (tok : String) : Option (List Nat) := (unhex tok).map fun bs => bs.map (·.toNat)
def hexOf (bs : List Nat) : String := hexOfBytes (bs.map UInt8.ofNat)

def hex64? (s : String) : Option Nat :=
  if s.length != 16 then none
  else s.toList.foldlM (fun acc c => (hexVal c).map fun v => acc * 16 + v) 0

def int? (s : String) : Option Int :=
  if s.startsWith "-" then (s.drop 1).toNat?.map fun n => -(n : Int)
  else s.toNat?.map fun n => (n : Int)

/-- value token: `n` null, `b0`/`b1`, `i<u64 pattern>`, `t<u64 pattern>`, `d<16 hex>`,
`s<hex>:<16 hex | ->` (string and what `parse::<f64>` said), `y` binary, `m` field missing. -/
def sv? (tok : String) : Option (Option SV) :=
  if tok == "m" then some none
  else if tok == "n" then some (some .null)
  else if tok == "y" then some (some .binary)
  else if tok == "b0" then some (some (.bool false))
  else if tok == "b1" then some (some (.bool true))
  else
    let rest := (tok.drop 1).toString
    match tok.front with
    | 'i' => rest.toNat?.bind fun x => if x < two64 then some (some (.int64 x)) else none
    | 't' => rest.toNat?.bind fun x => if x < two64 then some (some (.ts x)) else none
    | 'd' => (hex64? rest).map fun b => some (.f64 b)
    | 's' =>
      match rest.splitOn ":" with
      | [h, "-"] => (bytesOf h).map fun bs => some (.utf8 bs none)
      | [h, p] => do
        let bs ← bytesOf h
        let b ← hex64? p
        some (some (.utf8 bs (some b)))
      | _ => none
    | _ => none

def encTok (o : Option (List Nat)) : String :=
  match o with
  | none => "none"
  | some bs => hexOf bs

/-- Take `n` items with `f` from a token list. -/
def takeN {α} (f : List String → Option (α × List String)) : Nat → List String → Option (List α × List String)
  | 0, ts => some ([], ts)
  | n + 1, ts => do
    let (a, ts1) ← f ts
    let (as, ts2) ← takeN f n ts1
    some (a :: as, ts2)

def takeNat : List String → Option (Nat × List String)
  | t :: ts => t.toNat?.map fun n => (n, ts)
  | [] => none

def takeInt : List String → Option (Int × List String)
  | t :: ts => (int? t).map fun n => (n, ts)
  | [] => none

def takeBytes : List String → Option (List Nat × List String)
  | t :: ts => (bytesOf t).map fun b => (b, ts)
  | [] => none

def takeSv : List String → Option (Option SV × List String)
  | t :: ts => (sv? t).map fun v => (v, ts)
  | [] => none

/-- `<count> item*` -/
def takeCounted {α} (f : List String → Option (α × List String)) (ts : List String) : Option (List α × List String) := do
  let (n, ts1) ← takeNat ts
  takeN f n ts1

def idList (zs : List Nat) : String :=
  if zs.isEmpty then "-" else ",".intercalate (zs.map toString)

def natList (xs : Array Nat) : String :=
  if xs.isEmpty then "-" else ",".intercalate (xs.toList.map toString)

def boolTok (b : Bool) : String := if b then "1" else "0"

/-! ### streams -/

def ansRaw : List String → String
  | [k, x, y] =>
    match x.toNat?, y.toNat? with
    | some x, some y =>
      if x ≥ two64 || y ≥ two64 then "bad-op"
      else if k == "i" then s!"{hexOf (encI64 x)} {hexOf (encI64 y)} {boolTok (decide (i64Val x < i64Val y))}"
      else if k == "u" then s!"{hexOf (encU64 x)} {hexOf (encU64 y)} {boolTok (decide (x < y))}"
      else if k == "f" then
        let num :=
          if f64IsNaN x || f64IsNaN y then "un"
          else if (x % two63 == 0) && (y % two63 == 0) then "eq"
          else if f64Key x < f64Key y then "lt" else if f64Key x = f64Key y then "eq" else "gt"
        s!"{hexOf (encF64 x)} {hexOf (encF64 y)} {boolTok (decide (f64Lt x y))} {num}"
      else "bad-op"
    | _, _ => "bad-op"
  | _ => "bad-op"

def ansEnc (ts : List String) : String :=
  match ts.mapM sv? with
  | some vs => " ".intercalate (vs.map fun o => match o with
      | some v => encTok (encodeValue v)
      | none => "missing")
  | none => "bad-op"

def ansTrie (ts : List String) : String :=
  match ts.mapM bytesOf with
  | some ks =>
    let f := flatten (build ks)
    s!"deg={natList f.degrees} off={natList f.childOffsets} lab={natList f.labels} e2c={natList f.edgeToChild} term={natList f.termBits}"
  | none => "bad-op"

def takeZoneKeys (ts : List String) : Option ((Nat × List (List Nat)) × List String) := do
  let (z, ts1) ← takeNat ts
  let (ks, ts2) ← takeCounted takeBytes ts1
  some ((z, ks), ts2)

/-- probe token pair: `gi|ge|li|le` (ge/le × inclusive/exclusive) then the bound. -/
def takeProbe (ts : List String) : Option ((Bool × Bool × List Nat) × List String) :=
  match ts with
  | k :: b :: rest =>
    match bytesOf b with
    | some bs =>
      if k == "gi" then some ((true, true, bs), rest)
      else if k == "ge" then some ((true, false, bs), rest)
      else if k == "li" then some ((false, true, bs), rest)
      else if k == "le" then some ((false, false, bs), rest)
      else none
    | none => none
  | _ => none

def ansSurf (ts : List String) : String :=
  match (do
    let (zs, ts1) ← takeCounted takeZoneKeys ts
    let (ps, ts2) ← takeCounted takeProbe ts1
    if ts2.isEmpty then some (zs, ps) else none) with
  | none => "bad-op"
  | some (zs, ps) =>
    let trees := zs.map fun p => (p.1, build p.2)
    let flats := trees.map fun p => (p.1, flatten p.2)
    let outs := ps.map fun (ge, incl, b) =>
      let viaFlat := (flats.filter fun e => if ge then e.2.mayOverlapGe b incl else e.2.mayOverlapLe b incl).map (·.1)
      let viaTree := zonesOverlapping trees ge b incl
      (if viaFlat == viaTree then "" else "TIE-BROKEN:") ++ idList viaFlat
    if outs.isEmpty then "-" else " ".intercalate outs

def takeZoneVals (ts : List String) : Option ((Nat × List (Option SV)) × List String) := do
  let (z, ts1) ← takeNat ts
  let (vs, ts2) ← takeCounted takeSv ts1
  some ((z, vs), ts2)

def takeLitProbe (ts : List String) : Option ((Bool × Bool × SV) × List String) :=
  match ts with
  | k :: v :: rest =>
    match sv? v with
    | some (some sv) =>
      if k == "gte" then some ((true, true, sv), rest)
      else if k == "gt" then some ((true, false, sv), rest)
      else if k == "lte" then some ((false, true, sv), rest)
      else if k == "lt" then some ((false, false, sv), rest)
      else none
    | _ => none
  | _ => none

def ansSeg (ts : List String) : String :=
  match (do
    let (zs, ts1) ← takeCounted takeZoneVals ts
    let (ps, ts2) ← takeCounted takeLitProbe ts1
    if ts2.isEmpty then some (zs, ps) else none) with
  | none => "bad-op"
  | some (zs, ps) =>
    match surfBuild zs with
    | none => "nofilter"
    | some entries =>
      let flats := entries.map fun p => (p.1, flatten p.2)
      let outs := ps.map fun (ge, incl, lit) =>
        match surfPrune entries ge incl lit with
        | none => "none"
        | some z =>
          let viaFlat := match encodeValue lit with
            | some b => (flats.filter fun e => if ge then e.2.mayOverlapGe b incl else e.2.mayOverlapLe b incl).map (·.1)
            | none => []
          (if viaFlat == z then "" else "TIE-BROKEN:") ++ idList viaFlat
      s!"zones={idList (entries.map (·.1))} " ++ (if outs.isEmpty then "-" else " ".intercalate outs)

def op? (s : String) : Option Op :=
  if s == "eq" then some .eq else if s == "neq" then some .neq else if s == "gt" then some .gt
  else if s == "gte" then some .gte else if s == "lt" then some .lt else if s == "lte" then some .lte else none

def takeStr : List String → Option (String × List String)
  | t :: ts => some (t, ts)
  | [] => none

def takeZoneStrs (ts : List String) : Option ((Nat × List String) × List String) := do
  let (z, ts1) ← takeNat ts
  let (vs, ts2) ← takeCounted takeStr ts1
  some ((z, vs), ts2)

def takeEbmProbe (ts : List String) : Option ((Op × Nat) × List String) :=
  match ts with
  | o :: v :: rest =>
    match op? o, v.toNat? with
    | some op, some vid => some ((op, vid), rest)
    | _, _ => none
  | _ => none

/-- `ebm <rows> <nvar> var* <nz> (zone <n> val*)* <np> (op vid)*`; strings stay hex tokens. -/
def ansEbm (ts : List String) : String :=
  match (do
    let (rows, t1) ← takeNat ts
    let (vars, t2) ← takeCounted takeStr t1
    let (zs, t3) ← takeCounted takeZoneStrs t2
    let (ps, t4) ← takeCounted takeEbmProbe t3
    if t4.isEmpty then some (rows, vars, zs, ps) else none) with
  | none => "bad-op"
  | some (rows, vars, zs, ps) =>
    match ebmBuild vars rows zs with
    | none => "panic"
    | some built =>
      let outs := ps.map fun (op, vid) => idList (sortDedupN (ebmPrune built op vid))
      if outs.isEmpty then "-" else " ".intercalate outs

inductive TProbe where
  | cmp (op : Op) (v : Int)
  | rng (lo hi : Int)

def takeTProbe (ts : List String) : Option (TProbe × List String) :=
  match ts with
  | "rng" :: a :: b :: rest =>
    match int? a, int? b with
    | some lo, some hi => some (.rng lo hi, rest)
    | _, _ => none
  | o :: v :: rest =>
    match op? o, int? v with
    | some op, some x => some (.cmp op x, rest)
    | _, _ => none
  | _ => none

/-- `zti <stride> <n> ts* <np> probe*` -/
def ansZti (ts : List String) : String :=
  match (do
    let (stride, t1) ← takeInt ts
    let (vals, t2) ← takeCounted takeInt t1
    let (ps, t3) ← takeCounted takeTProbe t2
    if t3.isEmpty then some (stride, vals, ps) else none) with
  | none => "bad-op"
  | some (stride, vals, ps) =>
    if stride < 1 then "bad-op" else
    let z := Zti.ofTimestamps vals stride
    let outs := ps.map fun p => match p with
      | .cmp op v => boolTok (z.mayMatch op v)
      | .rng lo hi => boolTok (z.mayMatchRange lo hi)
    s!"{z.minTs} {z.maxTs} {idList z.keys} " ++ (if outs.isEmpty then "-" else "".intercalate outs)

def takeReg (ts : List String) : Option (Reg × List String) :=
  match ts with
  | z :: a :: b :: rest =>
    match z.toNat?, a.toNat?, b.toNat? with
    | some z, some a, some b => some (⟨z, a, b⟩, rest)
    | _, _, _ => none
  | _ => none

/-- `cal <n> (zone min max)* <np> probe*` -/
def ansCal (ts : List String) : String :=
  match (do
    let (regs, t1) ← takeCounted takeReg ts
    let (ps, t2) ← takeCounted takeTProbe t1
    if t2.isEmpty then some (regs, ps) else none) with
  | none => "bad-op"
  | some (regs, ps) =>
    let outs := ps.map fun p => match p with
      | .cmp op v => idList (zonesIntersecting regs op v)
      | .rng lo hi => idList (zonesIntersectingRange regs lo hi)
    if outs.isEmpty then "-" else " ".intercalate outs

/-- xor value token: `s<hex>` string, `i<int>`, `t<int>`, `d<hex of f64::to_string()>`, `b0/b1`, `n`. -/
def xv? (tok : String) : Option XV :=
  if tok == "n" then some .other
  else if tok == "b0" then some (.bool false)
  else if tok == "b1" then some (.bool true)
  else
    let rest := (tok.drop 1).toString
    match tok.front with
    | 'i' => (int? rest).map .int64
    | 't' => (int? rest).map .ts
    | 's' => (unhex rest).bind fun bs => (String.fromUTF8? (ByteArray.mk bs.toArray)).map .utf8
    | 'd' => (unhex rest).bind fun bs => (String.fromUTF8? (ByteArray.mk bs.toArray)).map .f64
    | _ => none

/-- `xor v*` → the texts `value_to_string` produces (hex), `none` for unsupported values. -/
def ansXor (ts : List String) : String :=
  match ts.mapM xv? with
  | some vs =>
    if vs.isEmpty then "-" else
    " ".intercalate (vs.map fun v => match valueToString v with
      | some s => hexOfBytes s.toUTF8.toList
      | none => "none")
  | none => "bad-op"

def answer (line : String) : String :=
  match words line with
  | "raw" :: rest => ansRaw rest
  | "enc" :: rest => ansEnc rest
  | "trie" :: rest => ansTrie rest
  | "surf" :: rest => ansSurf rest
  | "seg" :: rest => ansSeg rest
  | "ebm" :: rest => ansEbm rest
  | "zti" :: rest => ansZti rest
  | "cal" :: rest => ansCal rest
  | "xor" :: rest => ansXor rest
  | _ => "bad-op"

def main : IO Unit := serve answer
