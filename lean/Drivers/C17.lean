import Snel.Model.Proto
import Snel.Model.ParserCmd
open Snel Snel.Proto Snel.Parser

/-! Driver for C17. Ops:
* `p <hex utf8 input> <classes>` → canonical rendering of `parse_command`'s result;
  `<classes>`: one digit per non-ASCII character of the input in order of occurrence
  (bit 0 `is_alphanumeric`, bit 1 `is_numeric`, bit 2 `is_whitespace` according to Rust's std), or `-`.
* `f <neg 0|1> <int digits> <frac digits>` → `d<16 hex>` bit pattern of the parsed f64 or `nonfinite`.
* `d <Variant>` → `handled` | `unreachable`.
* `t <hex> <classes>` → token list.
-/

def hx (s : Str) : String := hexOfBytes (String.ofList s).toUTF8.toList

def ho (o : Option Str) : String := match o with | none => "-" | some s => "s" ++ hx s

def hl (l : List Str) : String := "[" ++ ",".intercalate (l.map hx) ++ "]"

def hlo (o : Option (List Str)) : String := match o with | none => "-" | some l => hl l

def hex16 (n : Nat) : String :=
  String.ofList ((List.range 16).reverse.map fun i => hexDigit ((n / 16 ^ i) % 16))

def rValue : Value → String
  | .str s => "s" ++ hx s
  | .int i => "i" ++ toString i
  | .float b => "d" ++ hex16 b
  | .bool b => if b then "b1" else "b0"

def rExpr : Expr → String
  | .cmp f op v => s!"(cmp {hx f} {op.name} {rValue v})"
  | .inList f vs => s!"(in {hx f} [{",".intercalate (vs.map rValue)}])"
  | .and a b => s!"(and {rExpr a} {rExpr b})"
  | .or a b => s!"(or {rExpr a} {rExpr b})"
  | .not a => s!"(not {rExpr a})"

def rAgg : Agg → String
  | .count u => "count:" ++ ho u
  | .countField f => "countField:" ++ hx f
  | .total f => "total:" ++ hx f
  | .avg f => "avg:" ++ hx f
  | .min f => "min:" ++ hx f
  | .max f => "max:" ++ hx f

def rLink : Link → String
  | .followedBy => "F" | .precededBy => "P"

def rNat (o : Option Nat) : String := match o with | none => "-" | some n => toString n

def rQuery (q : Query) : String :=
  let w := match q.whereClause with | none => "-" | some e => rExpr e
  let ord := match q.orderBy with | none => "-" | some (f, d) => hx f ++ ":" ++ (if d then "1" else "0")
  let aggs := match q.aggs with | none => "-" | some l => "[" ++ ",".intercalate (l.map rAgg) ++ "]"
  let tb := match q.timeBucket with | none => "-" | some g => g.name
  let seq := match q.eventSequence with
    | none => "-"
    | some (h, ls) => hx h ++ "(" ++ ",".intercalate (ls.map fun (l, t) => rLink l ++ ":" ++ hx t) ++ ")"
  s!"Q et={hx q.eventType} ctx={ho q.contextId} since={ho q.since} tf={ho q.timeField} stf={ho q.seqTimeField} w={w} lim={rNat q.limit} off={rNat q.offset} ord={ord} ret={hlo q.returnFields} link={ho q.linkField} aggs={aggs} tb={tb} gb={hlo q.groupBy} seq={seq}"

def rCmd1 : Cmd1 → String
  | .query q => rQuery q
  | .replay r => s!"R et={ho r.eventType} ctx={hx r.contextId} since={ho r.since} tf={ho r.timeField} ret={hlo r.returnFields}"
  | .store s => s!"S et={hx s.eventType} ctx={hx s.contextId} json={hx s.json}"
  | .remember n q => s!"M name={hx n} {rQuery q}"
  | .showMaterialized n => s!"SHOWMAT {hx n}"
  | .ping => "PING"
  | .flush => "FLUSH"
  | .createUser u k r => s!"CREATEUSER {hx u} key={ho k} roles={hlo r}"
  | .revokeKey u => s!"REVOKEKEY {hx u}"
  | .listUsers => "LISTUSERS"
  | .grant p e u => s!"GRANT {hl p} {hl e} {hx u}"
  | .revokePerm p e u => s!"REVOKEPERM {hl p} {hl e} {hx u}"
  | .showPermissions u => s!"SHOWPERMS {hx u}"

def rCommand : Command → String
  | .single c => rCmd1 c
  | .batch cs => "B[" ++ ";".intercalate (cs.map rCmd1) ++ "]"

def rRes : Res Command → String
  | .ok c => "ok " ++ rCommand c
  | .error => "error"
  | .panic => "panic"
  | .oof => "oof"
  | .unmodelled => "unmodelled"

def rToken : Token → String
  | .word w => "W" ++ hx w
  | .number r => "N" ++ hex16 (tokNumberBits r)
  | .str s => "S" ++ hx s
  | .sym c => "Y" ++ hx [c]
  | .lbrace => "{" | .rbrace => "}" | .semi => ";" | .lbrack => "[" | .rbrack => "]"
  | .lparen => "(" | .rparen => ")" | .invalid => "INVALID"

def decodeInput (h cls : String) : Option (Str × Uni) := do
  let bytes ← unhex h
  let s ← String.fromUTF8? (ByteArray.mk bytes.toArray)
  let cs := s.toList
  let na := cs.filter (fun c => c.toNat ≥ 128)
  let masks ← if cls == "-" then some [] else cls.toList.mapM (fun c => if '0' ≤ c ∧ c ≤ '7' then some (c.toNat - 48) else none)
  if masks.length ≠ na.length then none else
  let tab := na.zip masks
  let look (bit : Nat) (c : Char) : Bool := match tab.lookup c with | some m => (m / bit) % 2 == 1 | none => false
  some (cs, ⟨look 1, look 2, look 4⟩)

def answer (line : String) : String :=
  match words line with
  | ["p", h, cls] =>
    (match decodeInput h cls with
     | some (cs, U) => rRes (parseCommand U cs)
     | none => "bad-op")
  | ["t", h, cls] =>
    (match decodeInput h cls with
     | some (cs, U) => " ".intercalate ((tokenize U cs).map rToken)
     | none => "bad-op")
  | ["f", ng, ip, fp] =>
    if (ng == "0" || ng == "1") && ip.toList.all isDigit && fp.toList.all isDigit && !ip.isEmpty && !fp.isEmpty then
      (match f64OfDec (ng == "1") ip.toList fp.toList with
       | some b => "d" ++ hex16 b
       | none => "nonfinite")
    else "bad-op"
  | ["d", v] => if Gen.C17.commandVariants.contains v then
      (match dispatchVariant v with | .handled => "handled" | .unreachable => "unreachable") else "bad-op"
  | _ => "bad-op"

def main : IO Unit := serve answer
