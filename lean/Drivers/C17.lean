-- stub driver for C17: replaced when the property's model exists
def main : IO Unit := pure ()
