-- stub driver for C16: replaced when the property's model exists
def main : IO Unit := pure ()
