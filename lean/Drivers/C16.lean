import Snel.Model.Proto
import Snel.Model.Time
open Snel Snel.Proto Snel.Time

/-- hex of UTF-8 bytes → characters (`-` = empty). -/
def unhexStr (tok : String) : Option (List Char) := do
  let bs ← unhex tok
  let s ← String.fromUTF8? (ByteArray.mk bs.toArray)
  some s.toList

def parseHex64 (s : String) : Option Nat :=
  if s.length ≠ 16 then none else
  s.toList.foldlM (fun acc c => (hexVal c).map fun v => acc * 16 + v) 0

/-- `n | t | f | i<dec> | u<dec> | d<16 hex> | s<hex> | c<hex>` -/
def parseJV (tok : String) : Option JV :=
  match tok.toList with
  | ['n'] => some .null
  | ['t'] => some (.bool true)
  | ['f'] => some (.bool false)
  | 'i' :: r => (String.ofList r).toInt?.map .int
  | 'u' :: r => (String.ofList r).toNat?.map .uint
  | 'd' :: r => (parseHex64 (String.ofList r)).map .float
  | 's' :: r => (unhexStr (String.ofList r)).map .str
  | 'c' :: r => (unhexStr (String.ofList r)).map .compound
  | _ => none

def hexOfStr (s : List Char) : String := hexOfBytes (String.ofList s).toUTF8.toList

def hex16 (n : Nat) : String :=
  String.ofList ((List.range 16).reverse.map fun i => hexDigit (n / 16 ^ i % 16))

def showSV : SV → String
  | .null => "n"
  | .bool true => "t"
  | .bool false => "f"
  | .int i => s!"i{i}"
  | .ts i => s!"T{i}"
  | .float b => "d" ++ hex16 b
  | .utf8 s => "s" ++ hexOfStr s

def showOpt : Option Int → String
  | some t => s!"some {t}"
  | none => "none"

def showCond : Cond → String
  | .num t => s!"num:{t}"
  | .str s => "str:" ++ hexOfStr s
  | .dropped => "dropped"

def showNorm : NormRes → String
  | .ok t => s!"ok:{t}"
  | .error .magnitude => "err:mag"
  | .error .badString => "err:str"
  | .error .badType => "err:type"

def parseGran : String → Option Gran
  | "hour" => some .hour | "day" => some .day | "week" => some .week
  | "month" => some .month | "year" => some .year | _ => none

def parseOp : String → Option Op
  | "eq" => some .eq | "neq" => some .neq | "gt" => some .gt | "gte" => some .gte
  | "lt" => some .lt | "lte" => some .lte | _ => none

def parseZone (tok : String) : Option (List Int) :=
  if tok == "-" then some [] else (tok.splitOn ",").mapM (·.toInt?)

/-- `<nz> (<zid> <n> <v>…)…` → zones, rest -/
def parseZones : Nat → List String → Option (List (Nat × List Int) × List String)
  | 0, rest => some ([], rest)
  | k + 1, zid :: n :: rest => do
    let zid ← zid.toNat?
    let n ← n.toNat?
    if rest.length < n then none else
    let vals ← (rest.take n).mapM (·.toInt?)
    let (zs, rest') ← parseZones k (rest.drop n)
    some ((zid, vals) :: zs, rest')
  | _, _ => none

def parseProbes : Nat → List String → Option (List (Op × JV))
  | 0, [] => some []
  | k + 1, op :: tok :: rest => do
    let op ← parseOp op
    let v ← parseJV tok
    let ps ← parseProbes k rest
    some ((op, v) :: ps)
  | _, _ => none

def answerSeg (col : String) (toks : List String) : String :=
  let stride? : Option Nat :=
    if col == "ts" then some Snel.Gen.C16.ztiStrideTimestamp
    else if col == "field" then some Snel.Gen.C16.ztiStrideField else none
  match stride?, toks with
  | some stride, nz :: rest =>
    match nz.toNat? with
    | none => "bad-op"
    | some nz =>
      match parseZones nz rest with
      | some (zones, np :: rest') =>
        match np.toNat? with
        | none => "bad-op"
        | some np =>
          match parseProbes np rest' with
          | none => "bad-op"
          | some probes =>
            " ".intercalate (probes.map fun (op, v) =>
              match segPrune op (SV.ofJson v) stride (col == "ts") zones with
              | none => "unhandled"
              | some [] => "-"
              | some zs => ",".intercalate (zs.map toString))
      | _ => "bad-op"
  | _, _ => "bad-op"

def answer (line : String) : String :=
  match words line with
  | ["parse", h] =>
    match unhexStr h with
    | some s => showOpt (parseStr s)
    | none => "bad-op"
  | ["json", fld, tok] =>
    match parseJV tok with
    | some v =>
      if fld ∉ ["ts", "date", "opt-ts", "opt-date"] then "bad-op" else
      let direct := showNorm (normalizeJson v)
      let viaPayload := if (fld == "opt-ts" || fld == "opt-date") && v == .null then "null" else direct
      s!"{direct} {viaPayload}"
    | none => "bad-op"
  | ["bucket", off, ws, g, ts] =>
    match off.toInt?, ws.toNat?, parseGran g, ts.toNat? with
    | some off, some ws, some g, some ts =>
      match bucketOf off ws g ts with
      | some b => toString b
      | none => "panic"
    | _, _, _, _ => "bad-op"
  | ["naive", g, ts] =>
    match parseGran g, ts.toNat? with
    | some g, some ts => toString (naiveBucketOf g ts)
    | _, _ => "bad-op"
  | ["fmt", ts] =>
    match ts.toNat? with
    | some ts =>
      let t := u64AsI64 (ts % 2 ^ 64)
      let st : Style := { sep := 'T', frac := [], zulu := none, minus := '-', negZero := false }
      hexOfStr (format t 0 st)
    | none => "bad-op"
  | ["sites", tok] =>
    match parseJV tok with
    | some v =>
      let rw := rewriteLiteral v
      s!"store={showNorm (normalizeJson v)} raw={showSV (SV.ofJson v)} rw={showSV (SV.ofJson rw)} row={showCond (rowCondition v)}"
    | none => "bad-op"
  | ["since", h] =>
    match unhexStr h with
    | some s => s!"filter={showSV (.utf8 s)} row={showOpt (sinceCondition s)}"
    | none => "bad-op"
  | "seg" :: col :: toks => answerSeg col toks
  | ["zone", op, cal, tok, z] =>
    match parseOp op, parseJV tok, parseZone z with
    | some op, some v, some zone =>
      if cal ≠ "cal" ∧ cal ≠ "nocal" then "bad-op" else
      match prunerDecision op (SV.ofJson v) (cal == "cal") zone with
      | some true => "kept"
      | some false => "pruned"
      | none => "unhandled"
    | _, _, _ => "bad-op"
  | ["cmp", op, l, r] =>
    match parseOp op, l.toInt?, r.toInt? with
    | some op, some l, some r => toString (op.eval l r)
    | _, _, _ => "bad-op"
  | _ => "bad-op"

def main : IO Unit := serve answer
