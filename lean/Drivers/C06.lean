-- stub driver for C06: replaced when the property's model exists
def main : IO Unit := pure ()
