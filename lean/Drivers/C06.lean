import Snel.Model.Proto
import Snel.Model.Validate
/-!
Driver for C06. Streams (first token):

* `alias <hex>`                                → `none` | type
* `deftypes <n> (<name> <spec>)*`              → `<name>:<type>` …            (DEFINE → field types)
* `store <etype> <ctx> <defined> <n> (<name> <field>)* <ncal> (<str> <calres>)* <json>`
                                               → `ok <stored payload summary>` | `err <kind>`
* `session <ncal> (<str> <calres>)* <nops> <op>*` → one answer per op, `;`-separated

`<field>` = `p<hex>` (primitive spec text) | `e <n> <hex>*` (enum spec) | `T <type>` (a `FieldType`
given directly); `<type>` = `S|U|I|F|B|T|D` | `O <type>` | `E <n> <hex>*`.
`<json>` = the prefix tokens of `enc::json_tokens`. `<calres>` = `n` | `z<int>`.
-/
open Snel Snel.Proto Snel.Validate

abbrev P (α : Type) := List String → Option (α × List String)

def hexStr (tok : String) : Option String := do
  let bs ← unhex tok
  String.fromUTF8? (ByteArray.mk bs.toArray)

def strHex (s : String) : String := hexOfBytes s.toUTF8.toList

def pNat : P Nat
  | t :: r => t.toNat?.map (·, r)
  | [] => none

def pStr : P String
  | t :: r => (hexStr t).map (·, r)
  | [] => none

def pMany {α} (p : P α) : Nat → P (List α)
  | 0, ts => some ([], ts)
  | n + 1, ts => do
    let (x, ts) ← p ts
    let (xs, ts) ← pMany p n ts
    some (x :: xs, ts)

def pType : Nat → P FieldType
  | 0, _ => none
  | fuel + 1, t :: r =>
    match t with
    | "S" => some (.string, r)
    | "U" => some (.u64, r)
    | "I" => some (.i64, r)
    | "F" => some (.f64, r)
    | "B" => some (.bool, r)
    | "T" => some (.timestamp, r)
    | "D" => some (.date, r)
    | "O" => do
      let (ty, r) ← pType fuel r
      some (.optional ty, r)
    | "E" => do
      let (n, r) ← pNat r
      let (vs, r) ← pMany pStr n r
      some (.enum vs, r)
    | _ => none
  | _, [] => none

/-- A schema entry: either a DEFINE spec (goes through `fieldOfSpec`) or a direct type. -/
def pField : P (Sum FieldSpec FieldType)
  | t :: r =>
    if t == "e" then do
      let (n, r) ← pNat r
      let (vs, r) ← pMany pStr n r
      some (.inl (.enum vs), r)
    else if t == "T" then do
      let (ty, r) ← pType (r.length + 1) r
      some (.inr ty, r)
    else if t.startsWith "p" then do
      let s ← hexStr (t.drop 1).toString
      some (.inl (.prim s), r)
    else none
  | [] => none

def fieldType : Sum FieldSpec FieldType → FieldType
  | .inl s => fieldOfSpec s
  | .inr t => t

def pNamedField : P (String × Sum FieldSpec FieldType) := fun ts => do
  let (k, ts) ← pStr ts
  let (f, ts) ← pField ts
  some ((k, f), ts)

def pInt (s : String) : Option Int :=
  if s.startsWith "-" then (s.drop 1).toString.toNat?.map fun n => -(n : Int)
  else s.toNat?.map fun n => (n : Int)

def pHex64 (s : String) : Option UInt64 :=
  if s.length ≠ 16 then none else
  s.toList.foldlM (fun acc c => (hexVal c).map fun d => acc * 16 + d) 0 |>.map UInt64.ofNat

def pJson : Nat → P Json
  | 0, _ => none
  | fuel + 1, t :: r =>
    if t == "n" then some (.null, r)
    else if t == "t" then some (.bool true, r)
    else if t == "f" then some (.bool false, r)
    else
      let body := (t.drop 1).toString
      match t.toList.head? with
      | some 'i' => do
        let z ← pInt body
        if 0 ≤ z then
          if z ≤ (i64Max : Int) then some (.num (.pos (UInt64.ofNat z.toNat)), r) else none
        else if i64Min ≤ z then
          if h : Int64.ofInt z < 0 then some (.num (.neg ⟨Int64.ofInt z, h⟩), r) else none
        else none
      | some 'u' => do
        let n ← body.toNat?
        if n < 2 ^ 64 then some (.num (.pos (UInt64.ofNat n)), r) else none
      | some 'd' => do
        let b ← pHex64 body
        some (.num (.flt b), r)
      | some 's' => do
        let s ← hexStr body
        some (.str s, r)
      | some 'a' => do
        let n ← body.toNat?
        let (xs, r) ← pMany (pJson fuel) n r
        some (.arr xs, r)
      | some 'o' => do
        let n ← body.toNat?
        let (kvs, r) ← pMany (fun ts => do
          let (k, ts) ← pJson fuel ts
          let (v, ts) ← pJson fuel ts
          match k with
          | .str k => some ((k, v), ts)
          | _ => none) n r
        some (.obj kvs, r)
      | _ => none
  | _, [] => none

def pCalEntry : P (String × Option Int) := fun ts => do
  let (s, ts) ← pStr ts
  match ts with
  | t :: r =>
    if t == "n" then some ((s, none), r)
    else if t.startsWith "z" then do
      let z ← pInt (t.drop 1).toString
      if i64Min ≤ z ∧ z ≤ (i64Max : Int) then some ((s, some z), r) else none
    else none
  | [] => none

def libOf (tbl : List (String × Option Int)) : TimeLib :=
  ⟨fun s => (tbl.lookup s).join.map Int64.ofInt⟩

/-- Every top-level string of the payload must have its (model-)trimmed text in the table:
the harness lists them all, so a miss means the two `trim`s disagree. -/
def calCovers (tbl : List (String × Option Int)) : Json → Bool
  | .obj kvs => kvs.all fun (_, v) =>
    match v with
    | .str s => (tbl.lookup (String.ofList (trimChars s.toList))).isSome
    | _ => true
  | _ => true

partial def showType : FieldType → String
  | .string => "S" | .u64 => "U" | .i64 => "I" | .f64 => "F" | .bool => "B"
  | .timestamp => "T" | .date => "D"
  | .optional t => "O " ++ showType t
  | .enum vs => " ".intercalate (("E" :: toString vs.length :: vs.map strHex))

/-- `ScalarValue::from(serde_json::Value)` as far as the summary needs it. -/
def showStored : Json → String
  | .null => "n"
  | .bool _ => "b"
  | .num (.pos n) => if n.toNat ≤ i64Max then s!"i{n.toNat}" else "s"
  | .num (.neg i) => s!"i{i.val.toInt}"
  | .num (.flt b) => s!"d{b.toNat}"
  | .str _ => "s"
  | .arr _ => "s"
  | .obj _ => "s"

def showPayload (kvs : List (String × Json)) : String :=
  if kvs.isEmpty then "-" else " ".intercalate (kvs.map fun (k, v) => strHex k ++ ":" ++ showStored v)

def utf8Len (s : String) : Nat := s.utf8ByteSize

def showErr : Err → String
  | .emptyType => "err empty-type"
  | .emptyContext => "err empty-context"
  | .noSchema => "err no-schema"
  | .invalid .notObject => "err not-object"
  | .invalid (.mismatch f) => "err mismatch " ++ strHex f
  | .invalid (.missing f) => "err missing " ++ strHex f
  | .invalid (.extra ks) =>
    s!"err extra {(ks.map utf8Len).foldl (· + ·) 0 + 2 * (ks.length - 1)}"
  | .time .magnitude => "err time-magnitude"
  | .time .badString => "err time-string"
  | .time .badKind => "err time-kind"
  | .alreadyDefined => "err already-defined"
  | .emptySchema => "err empty-schema"

/-- Session answers: the error kind as far as it does not depend on the registry's iteration
order (which the parent process cannot observe in the child). -/
def showErrClass : Err → String
  | .invalid (.mismatch _) => "err field"
  | .invalid (.missing _) => "err field"
  | .invalid (.extra _) => "err extra"
  | .time _ => "err time"
  | e => showErr e

def schemaOfFields (fs : List (String × Sum FieldSpec FieldType)) : Schema :=
  fs.map fun (k, f) => (k, fieldType f)

def showStore (lib : TimeLib) (st : St) (et ctx : String) (payload : Json) : String × St :=
  match store lib st et ctx payload with
  | (.ok (), st') =>
    match st'.events.getLast? with
    | some e => ("ok " ++ showPayload e.payload, st')
    | none => ("bad-op", st')
  | (.error e, st') => (showErr e, st')

/-! ### session ops
`D <etype> <n> (<name> <field>)*`   define (fields given in the registry's iteration order)
`S <etype> <ctx> <json>`            store
`Q <etype> <keyfield>`              query: ids (values of integer field `<keyfield>`) stored so far, ascending
-/
inductive SOp where
  | define (et : String) (fs : List (String × Sum FieldSpec FieldType))
  | store (et ctx : String) (p : Json)
  | query (et key : String)

def pSOp : P SOp
  | "D" :: r => do
    let (et, r) ← pStr r
    let (n, r) ← pNat r
    let (fs, r) ← pMany pNamedField n r
    some (.define et fs, r)
  | "S" :: r => do
    let (et, r) ← pStr r
    let (ctx, r) ← pStr r
    let (p, r) ← pJson (r.length + 1) r
    some (.store et ctx p, r)
  | "Q" :: r => do
    let (et, r) ← pStr r
    let (k, r) ← pStr r
    some (.query et k, r)
  | _ => none

def insertSorted (x : Int) : List Int → List Int
  | [] => [x]
  | y :: ys => if x ≤ y then x :: y :: ys else y :: insertSorted x ys

def runSession (lib : TimeLib) : List SOp → St → List String → List String
  | [], _, acc => acc.reverse
  | .define et fs :: rest, st, acc =>
    -- a session defines through DEFINE text only: every entry must be a spec
    match fs.mapM (fun (k, f) => match f with | .inl s => some (k, s) | .inr _ => none) with
    | none => runSession lib rest st ("bad-op" :: acc)
    | some specs =>
      let (r, st') := define st et specs
      runSession lib rest st' ((match r with | .ok _ => "ok" | .error e => showErr e) :: acc)
  | .store et ctx p :: rest, st, acc =>
    let (r, st') := store lib st et ctx p
    runSession lib rest st' ((match r with | .ok _ => "ok" | .error e => showErrClass e) :: acc)
  | .query et key :: rest, st, acc =>
    let ids := (query st et none).foldl (fun l e =>
      match e.payload.lookup key with
      | some (.num (.pos n)) => insertSorted (n.toNat : Int) l
      | some (.num (.neg i)) => insertSorted i.val.toInt l
      | _ => l) []
    runSession lib rest st (("rows " ++ ",".intercalate (ids.map toString)) :: acc)

def answer (line : String) : String :=
  match words line with
  | ["alias", h] =>
    match hexStr h with
    | some s =>
      match fromSpecChars s.toList with
      | some t => showType t
      | none => "none"
    | none => "bad-op"
  | ["peg", h] =>
    match hexStr h with
    | some s => if jsonBlockAccepts s.toList then "ok" else "parse-error"
    | none => "bad-op"
  | "deftypes" :: rest =>
    match (do
      let (n, r) ← pNat rest
      let (fs, r) ← pMany pNamedField n r
      if r.isEmpty then some fs else none) with
    | some fs => if fs.isEmpty then "-" else
      " ".intercalate (fs.map fun (k, f) => strHex k ++ ":" ++ (showType (fieldType f)).replace " " ",")
    | none => "bad-op"
  | "store" :: rest =>
    match (do
      let (et, r) ← pStr rest
      let (ctx, r) ← pStr r
      let (defd, r) ← pNat r
      let (n, r) ← pNat r
      let (fs, r) ← pMany pNamedField n r
      let (nc, r) ← pNat r
      let (tbl, r) ← pMany pCalEntry nc r
      let (p, r) ← pJson (r.length + 1) r
      if r.isEmpty && defd ≤ 1 then some (et, ctx, defd, fs, tbl, p) else none) with
    | some (et, ctx, defd, fs, tbl, p) =>
      if !calCovers tbl p then "bad-op cal-miss" else
      let st : St := ⟨if defd = 1 then [(et, schemaOfFields fs)] else [], []⟩
      (showStore (libOf tbl) st et ctx p).1
    | none => "bad-op"
  | "session" :: rest =>
    match (do
      let (nc, r) ← pNat rest
      let (tbl, r) ← pMany pCalEntry nc r
      let (n, r) ← pNat r
      let (ops, r) ← pMany pSOp n r
      if r.isEmpty then some (tbl, ops) else none) with
    | some (tbl, ops) =>
      -- cal coverage is checked per store against the session table
      let lib := libOf tbl
      let bad := ops.any fun o => match o with | .store _ _ p => !calCovers tbl p | _ => false
      if bad then "bad-op cal-miss" else
      "; ".intercalate (runSession lib ops St.empty [])
    | none => "bad-op"
  | _ => "bad-op"

def main : IO Unit := serve answer
