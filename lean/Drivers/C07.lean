import Snel.Model.Proto
import Snel.Model.ColumnBlock
import Snel.Model.Value
import Snel.Model.ReturnProjection
import Snel.Model.F64Parse
import Snel.Model.MemRows
open Snel Snel.Proto Snel.ColumnBlock Snel.Value

/-! Line protocol of the C07 streams. Tokens are separated by blanks, sections by `|`.
Value tokens — JSON: `n t f p<dec> m<dec> d<16hex> s<hex> c<hex>`; scalar:
`n t f i<dec> T<dec> d<16hex> s<hex>`; cell: `n i<dec> u<dec> d<16hex> t f b<hex>`.
Oracle tables (external functions evaluated by the harness on the real libraries):
`F<16hex>=<hex>` f64::to_string, `J<hex>=<verdict>` serde_json::from_str,
`W<16hex>=<16hex>` f64 → serde_json text → f64. -/

def hexNat? (s : String) : Option Nat :=
  s.toList.foldlM (fun acc c => (hexVal c).map (acc * 16 + ·)) 0

def hex16 (n : Nat) : String :=
  String.ofList ((List.range 16).map fun i => hexDigit (n / 16 ^ (15 - i) % 16))

def unhexStr (s : String) : Option Bytes := unhex s

def hexStr (s : Bytes) : String := hexOfBytes s

def splitSections (ws : List String) : List (List String) :=
  let rec go (ws : List String) (cur : List String) (acc : List (List String)) : List (List String) :=
    match ws with
    | [] => (cur.reverse :: acc).reverse
    | w :: rest => if w = "|" then go rest [] (cur.reverse :: acc) else go rest (w :: cur) acc
  go ws [] []

def tokSplit (tok : String) : Option (Char × String) :=
  match tok.toList with
  | [] => none
  | c :: rest => some (c, String.ofList rest)

def parseJson (tok : String) : Option Json := do
  let (c, r) ← tokSplit tok
  match c with
  | 'n' => if r.isEmpty then some .null else none
  | 't' => if r.isEmpty then some (.bool true) else none
  | 'f' => if r.isEmpty then some (.bool false) else none
  | 'p' => (r.toNat?).map fun u => .num (.pos u)
  | 'm' => (r.toNat?).map fun u => .num (.neg u)
  | 'd' => (hexNat? r).map fun b => .num (.flt b)
  | 's' => (unhexStr r).map .str
  | 'c' => (unhexStr r).map .nested
  | _ => none

def showJson : Json → String
  | .null => "n"
  | .bool true => "t"
  | .bool false => "f"
  | .num (.pos u) => s!"p{u}"
  | .num (.neg m) => s!"m{m}"
  | .num (.flt b) => "d" ++ hex16 b
  | .str s => "s" ++ hexStr s
  | .nested t => "c" ++ hexStr t

def parseScalar (tok : String) : Option Scalar := do
  let (c, r) ← tokSplit tok
  match c with
  | 'n' => if r.isEmpty then some .null else none
  | 't' => if r.isEmpty then some (.bool true) else none
  | 'f' => if r.isEmpty then some (.bool false) else none
  | 'i' => (r.toInt?).map .int
  | 'T' => (r.toInt?).map .ts
  | 'd' => (hexNat? r).map .float
  | 's' => (unhexStr r).map .utf8
  | _ => none

def showScalar : Scalar → String
  | .null => "n"
  | .bool true => "t"
  | .bool false => "f"
  | .int i => s!"i{i}"
  | .ts i => s!"T{i}"
  | .float b => "d" ++ hex16 b
  | .utf8 s => "s" ++ hexStr s

def showCell : Cell → String
  | .null => "n"
  | .i64 v => s!"i{v}"
  | .u64 v => s!"u{v}"
  | .f64 b => "d" ++ hex16 b
  | .bool true => "t"
  | .bool false => "f"
  | .bytes b => "b" ++ hexOfBytes b

def parseVerdict (s : String) : Option Verdict := do
  let (c, r) ← tokSplit s
  match c with
  | 'c' => (unhexStr r).map .container
  | 'p' => (r.toNat?).map fun u => .number (.pos u)
  | 'm' => (r.toNat?).map fun u => .number (.neg u)
  | 'd' => (hexNat? r).map fun b => .number (.flt b)
  | 'o' => some .other
  | 'x' => some .invalid
  | _ => none

structure Tables where
  fmt : List (Nat × Bytes) := []
  json : List (Bytes × Verdict) := []
  wal : List (Nat × Nat) := []
  bad : Bool := false

def parseTables (toks : List String) : Tables :=
  toks.foldl (fun t tok =>
    match tokSplit tok with
    | some ('F', r) =>
      (match r.splitOn "=" with
       | [a, b] => match hexNat? a, unhexStr b with
         | some a, some b => { t with fmt := (a, b) :: t.fmt }
         | _, _ => { t with bad := true }
       | _ => { t with bad := true })
    | some ('W', r) =>
      (match r.splitOn "=" with
       | [a, b] => match hexNat? a, hexNat? b with
         | some a, some b => { t with wal := (a, b) :: t.wal }
         | _, _ => { t with bad := true }
       | _ => { t with bad := true })
    | some ('J', r) =>
      (match r.splitOn "=" with
       | [a, b] => match unhexStr a, parseVerdict b with
         | some a, some b => { t with json := (a, b) :: t.json }
         | _, _ => { t with bad := true }
       | _ => { t with bad := true })
    | _ => { t with bad := true }) {}

/-- A string no table has: makes a missing oracle entry visible in the diff. -/
def missFmt : Bytes := "<oracle-miss>".toUTF8.data.toList

def extOf (t : Tables) : Ext where
  parseF64 := Snel.F64Parse.parseF64
  fmtF64 := fun b => (t.fmt.lookup b).getD missFmt
  jsonParse := fun s => (t.json.lookup s).getD (.container missFmt)
  walFloat := fun b => (t.wal.lookup b).getD 0x7ff8000000000bad

def physOfCode? (s : String) : Option Phys :=
  match s.toNat? with
  | some n => if n ≤ 5 then some (Phys.ofCode n) else none
  | none => none

def parseBaseType (s : String) : Option FieldType :=
  match s with
  | "string" => some .string
  | "u64" => some .u64
  | "i64" => some .i64
  | "f64" => some .f64
  | "bool" => some .bool
  | "timestamp" => some .timestamp
  | "date" => some .date
  | _ =>
    match tokSplit s with
    | some ('e', r) => ((r.splitOn ",").mapM unhexStr).map .enum
    | _ => none

/-- `?`-prefixes are optionals (at most `fuel` levels) -/
def parseFieldTypeF : Nat → String → Option FieldType
  | 0, s => parseBaseType s
  | f + 1, s =>
    match tokSplit s with
    | some ('?', r) => (parseFieldTypeF f r).map .optional
    | _ => parseBaseType s

def parseFieldType (s : String) : Option FieldType := parseFieldTypeF 4 s

def blockAnswer (physTok : String) (vals : List String) (tabs : List String) : String :=
  let t := parseTables tabs
  match physOfCode? physTok, vals.mapM parseScalar with
  | some phys, some scalars =>
    if t.bad then "bad-op" else
    let x := extOf t
    let strs := scalars.map fun v => colString x v
    let block := encodeBlock x.parseF64 phys strs
    let dec := match decodeBlock strs.length block with
      | none => "none"
      | some (p, cells) =>
        " ".intercalate ([toString p.code] ++ cells.map showCell ++ ["#"]
          ++ cells.map fun c => showScalar (cellToScalar c))
    hexOfBytes block ++ " " ++ dec
  | _, _ => "bad-op"

def decodeAnswer (rowsTok hexTok : String) : String :=
  match rowsTok.toNat?, unhex hexTok with
  | some rows, some bs =>
    (match decodeBlock rows bs with
     | none => "none"
     | some (p, cells) => " ".intercalate ([toString p.code] ++ cells.map showCell ++ ["#"]
          ++ cells.map fun c => showScalar (cellToScalar c)))
  | _, _ => "bad-op"

def scalarAnswer (jt : String) (tabs : List String) : String :=
  let t := parseTables tabs
  match parseJson jt with
  | some j =>
    if t.bad then "bad-op" else
    let x := extOf t
    let v := ofJson j
    let w := walTier x v
    " ".intercalate [showScalar v, showJson (toJson x v), showScalar w, showJson (toJson x w)]
  | none => "bad-op"

/-- `flush <k> <ft_1..ft_k> <n> <n·k json tokens or ->` : per event and field the rendered
value on the four tiers `mem wal flushed compacted` (absent field: `-`). A field absent in
the event is written as a null cell when any event of the zone carries it; the harness uses
one zone per line and tells which fields are present in the zone through the values. -/
def flushAnswer (args : List String) (tabs : List String) : String :=
  let t := parseTables tabs
  match args with
  | kTok :: rest =>
    (match kTok.toNat? with
     | some k =>
       (match (rest.take k).mapM parseFieldType, (rest.drop k) with
        | some fts, nTok :: valToks =>
          (match nTok.toNat? with
           | some n =>
             if t.bad || fts.length ≠ k || valToks.length ≠ n * k then "bad-op" else
             let x := extOf t
             let parsed : Option (List (Option Json)) :=
               valToks.mapM fun tok => if tok = "-" then some none else (parseJson tok).map some
             (match parsed with
              | none => "bad-op"
              | some vals =>
                -- which columns exist in the zone: some event carries the field
                let colPresent : List Bool := (List.range k).map fun c =>
                  (List.range n).any fun r => ((vals[r * k + c]?).getD none).isSome
                let cells := (List.range (n * k)).map fun idx =>
                  let c := idx % k
                  let ft := (fts[c]?).getD .string
                  let phys := physOf ft
                  match (vals[idx]?).getD none with
                  | some j =>
                    let v := ofJson j
                    let m := showJson (toJson x (memTier v))
                    let w := showJson (toJson x (walTier x v))
                    let f := showJson (toJson x (flushedTier x phys v))
                    let cp := showJson (toJson x (compactedTier x phys v))
                    s!"{m},{w},{f},{cp}"
                  | none =>
                    if (colPresent[c]?).getD false then
                      let f := showJson (toJson x (flushedTier x phys .null))
                      let cp := showJson (toJson x (compactedTier x phys .null))
                      s!"-,-,{f},{cp}"
                    else "-,-,-,-"
                " ".intercalate cells)
           | none => "bad-op")
        | _, _ => "bad-op")
     | none => "bad-op")
  | _ => "bad-op"

def namesOf (toks : List String) : Option (List String) :=
  toks.mapM fun t => (unhex t).bind fun b => String.fromUTF8? ⟨b.toArray⟩

def projectAnswer (secs0 : List (List String)) : String :=
  let sorted := secs0.length = 4 && secs0[3]? = some ["sorted"]
  let secs := if sorted then secs0.take 3 else secs0
  match secs with
  | [inp, ret, payload] =>
    (match namesOf inp, namesOf payload with
     | some inp, some payload =>
       let ret? : Option (Option (List String)) :=
         if ret = ["none"] then some none else (namesOf ret).map some
       (match ret? with
        | some ret =>
          let idx := ReturnProjection.projection inp ret payload
          let names := ReturnProjection.outNames inp idx
          let names := if sorted then (names.toArray.qsort (· < ·)).toList else names
          " ".intercalate (names.map fun n => hexOfBytes n.toUTF8.data.toList)
        | none => "bad-op")
     | _, _ => "bad-op")
  | _ => "bad-op"

/-- `memrows <ncols> <col…> <ctx filter | *> <nev> (<ctx> <type> <ts> <id> <npay> (<name> <scalar>)*)*` -/
def parseEvents : Nat → List String → Option (List MemRows.Ev × List String)
  | 0, rest => some ([], rest)
  | n + 1, ctx :: ty :: ts :: id :: np :: rest => do
    let ctx ← unhex ctx
    let ty ← unhex ty
    let ts ← ts.toNat?
    let id ← id.toNat?
    let np ← np.toNat?
    if rest.length < 2 * np then none else
    let rec pay : Nat → List String → Option (List (Bytes × Scalar))
      | 0, _ => some []
      | k + 1, a :: b :: r => do
        let a ← unhex a
        let b ← parseScalar b
        let tl ← pay k r
        some ((a, b) :: tl)
      | _, _ => none
    let payload ← pay np rest
    let (evs, rest') ← parseEvents n (rest.drop (2 * np))
    some (⟨ctx, ty, ts, id, payload⟩ :: evs, rest')
  | _, _ => none

def memrowsAnswer (args : List String) : String :=
  match args with
  | nc :: rest =>
    (match nc.toNat? with
     | some nc =>
       (match (rest.take nc).mapM unhex, rest.drop nc with
        | some cols, filt :: nev :: evToks =>
          (match nev.toNat?, (if filt = "*" then some none else (unhex filt).map some) with
           | some nev, some filt =>
             (match parseEvents nev evToks with
              | some (evs, []) =>
                if cols.length ≠ nc then "bad-op" else
                let keep : MemRows.Ev → Bool := fun e => match filt with | none => true | some c => e.ctx == c
                let rows := MemRows.memRows cols keep evs
                if rows.isEmpty then "-" else
                " ; ".intercalate (rows.map fun r => " ".intercalate (r.map showScalar))
              | _ => "bad-op")
           | _, _ => "bad-op")
        | _, _ => "bad-op")
     | none => "bad-op")
  | _ => "bad-op"

def answer (line : String) : String :=
  match splitSections (words line) with
  | ("block" :: phys :: vals) :: tabs => blockAnswer phys vals tabs.flatten
  | ["decode", rows, bytes] :: [] => decodeAnswer rows bytes
  | ["scalar", j] :: tabs => scalarAnswer j tabs.flatten
  | ("flush" :: args) :: tabs => flushAnswer args tabs.flatten
  | ("project" :: inp) :: rest => projectAnswer (inp :: rest)
  | ("memrows" :: args) :: [] => memrowsAnswer args
  | ["f64parse", h] :: [] =>
    (match unhex h with
     | some b => (match Snel.F64Parse.parseF64 b with | some bits => hex16 bits | none => "x")
     | none => "bad-op")
  | _ => "bad-op"

def main : IO Unit := serve answer
