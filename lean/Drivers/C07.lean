-- stub driver for C07: replaced when the property's model exists
def main : IO Unit := pure ()
