-- stub driver for C14: replaced when the property's model exists
def main : IO Unit := pure ()
