import Snel.Model.Proto
import Snel.Model.Materialize
/-!
Driver for C14. One line = one history:

    show | op | op | …

ops
* `E key ts id shard ctx x`      an applied STORE (ids as observed on the engine)
* `F shard` / `C shard` / `B`    flush of a shard (file time far in the future of all stamps),
                                  compaction round, backdating of the segment files
* `FB shard` / `FE`              the two halves of a flush (files readable, buffer not yet released)
* `REM n ctx cmp since now fr`   REMEMBER under name n; `ctx` = `*`|c, `cmp` = `*`|`eq:v`|`ge:v`…,
                                  `since` = `*`|t; `fr` = the frames the engine stored, batches
                                  separated by `;`, keys by `,` (`-` = none)
* `SHOW n fr`                    SHOW n; `fr` = the frames the engine appended
* `CUT n fr`                     SHOW n interrupted after its delta frames `fr` were stored
                                  (catalog entry not rewritten, no response)
* `Q ctx cmp since`              the live query

observations, joined by ` ; `:
`rem:ok mark=<ts>,<id>|none`, `rem:dup`, `rem:bad-frames want=<keys>`,
`show:<keys> mark=…`, `show:unknown`, `show:bad-delta want=<keys>`, `q:<keys>`.
The frames are scheduling input: the model checks that they are a split of what its own
query returns (and, for SHOW, of what its own watermark filter keeps) and otherwise answers
`bad-…`, which never equals the implementation's line.
-/
open Snel Snel.Proto Snel.Materialize

def bigTime : Nat := 100000000000

def keysStr (ks : List Nat) : String :=
  let s := ks.mergeSort (fun a b => decide (a ≤ b))
  if s.isEmpty then "-" else ",".intercalate (s.map toString)

def markStr : Option (Nat × Nat) → String
  | none => "none"
  | some (a, b) => s!"{a},{b}"

def parseOpt (t : String) : Option (Option Nat) :=
  if t == "*" then some none else t.toNat?.map some

def parseCmp (t : String) : Option (Option (Cmp × Nat)) :=
  if t == "*" then some none else
  match t.splitOn ":" with
  | [o, v] =>
    match v.toNat? with
    | none => none
    | some v =>
      match o with
      | "eq" => some (some (.eq, v))
      | "ge" => some (some (.ge, v))
      | "le" => some (some (.le, v))
      | "gt" => some (some (.gt, v))
      | "lt" => some (some (.lt, v))
      | _ => none
  | _ => none

def parseFrames (t : String) : Option (List (List Nat)) :=
  if t == "-" then some [] else
  (t.splitOn ";").mapM fun b => (b.splitOn ",").mapM (·.toNat?)

def lookupKey (vis : List Ev) (k : Nat) : Option Ev := vis.find? (·.key == k)

def framesOf (vis : List Ev) (fr : List (List Nat)) : Option (List (List Ev)) :=
  fr.mapM fun b => b.mapM (lookupKey vis)

def sameKeys (a b : List Nat) : Bool := keysStr a == keysStr b

structure DSt where
  st : St
  out : List String
  bad : Bool

def emit (d : DSt) (s : String) : DSt := { d with out := s :: d.out }

def stepOp (d : DSt) (toks : List String) : DSt :=
  if d.bad then d else
  let fail : DSt := { d with bad := true }
  match toks with
  | ["E", key, ts, id, shard, ctx, x] =>
    match key.toNat?, ts.toNat?, id.toNat?, shard.toNat?, ctx.toNat?, x.toNat? with
    | some key, some ts, some id, some shard, some ctx, some x =>
      { d with st := step d.st (.store { ts, id, shard, key, ctx, x }) }
    | _, _, _, _, _, _ => fail
  | ["F", shard] =>
    match shard.toNat? with
    | some sh => { d with st := { d.st with store := d.st.store.flush sh bigTime } }
    | none => fail
  | ["C", shard] =>
    match shard.toNat? with
    | some sh => { d with st := { d.st with store := d.st.store.compact sh bigTime } }
    | none => fail
  | ["B"] => { d with st := { d.st with store := d.st.store.backdate } }
  | ["FB", shard] =>
    match shard.toNat? with
    | some sh => { d with st := { d.st with store := d.st.store.flushBegin sh bigTime } }
    | none => fail
  | ["FE"] => { d with st := { d.st with store := d.st.store.flushEnd } }
  | ["REM", n, ctx, cmp, since, now, fr] =>
    match n.toNat?, parseOpt ctx, parseCmp cmp, parseOpt since, now.toNat?, parseFrames fr with
    | some n, some ctx, some cmp, some since, some now, some fr =>
      let q := ({ ctx, cmp, since } : QSpec).toSpec
      -- REMEMBER waits for in-flight flushes: when it answers, no flush window is open
      let d := { d with st := { d.st with store := d.st.store.flushEnd } }
      match d.st.cat n with
      | some _ => emit { d with st := (remember d.st n q now []).1 } "rem:dup"
      | none =>
        let want := (runQuery d.st.store q none).map (·.key)
        match framesOf d.st.store.vis fr with
        | none => emit d s!"rem:bad-frames want={keysStr want}"
        | some sched =>
          if !sameKeys fr.flatten want then emit d s!"rem:bad-frames want={keysStr want}" else
          let (st', ok) := remember d.st n q now sched
          let mk := match st'.cat n with | some e => markStr e.mark | none => "?"
          emit { d with st := st' } (if ok then s!"rem:ok mark={mk}" else "rem:dup")
    | _, _, _, _, _, _ => fail
  | ["SHOW", n, fr] =>
    match n.toNat?, parseFrames fr with
    | some n, some fr =>
      match d.st.cat n with
      | none => emit d "show:unknown"
      | some e =>
        let d := { d with st := { d.st with store := d.st.store.flushEnd } }
        let w0 := filterMark e
        -- what the model's own watermark filter keeps from the model's own delta query
        let want := (keptBatches w0 [deltaQuery d.st.store e]).flatten.map (·.key)
        match framesOf d.st.store.vis fr with
        | none => emit d s!"show:bad-delta want={keysStr want}"
        | some sched =>
          if !sameKeys fr.flatten want then emit d s!"show:bad-delta want={keysStr want}" else
          let (st', rows) := showM d.st n sched
          let mk := match st'.cat n with | some e => markStr e.mark | none => "?"
          match rows with
          | some rows => emit { d with st := st' } s!"show:{keysStr (rows.map (·.key))} mark={mk}"
          | none => emit d "show:unknown"
    | _, _ => fail
  | ["CUT", n, fr] =>
    -- a SHOW that stored its delta frames and never rewrote the catalog entry
    match n.toNat?, parseFrames fr with
    | some n, some fr =>
      match d.st.cat n with
      | none => emit d "cut:unknown"
      | some e =>
        let d := { d with st := { d.st with store := d.st.store.flushEnd } }
        let w0 := filterMark e
        let want := (keptBatches w0 [deltaQuery d.st.store e]).flatten.map (·.key)
        match framesOf d.st.store.vis fr with
        | none => emit d s!"cut:bad-delta want={keysStr want}"
        | some sched =>
          if !sameKeys fr.flatten want then emit d s!"cut:bad-delta want={keysStr want}" else
          let st' := showCut d.st n sched
          let mk := match st'.cat n with | some e => markStr e.mark | none => "?"
          emit { d with st := st' } s!"cut:mark={mk}"
    | _, _ => fail
  | ["Q", ctx, cmp, since] =>
    match parseOpt ctx, parseCmp cmp, parseOpt since with
    | some ctx, some cmp, some since =>
      let q := ({ ctx, cmp, since } : QSpec).toSpec
      emit d s!"q:{keysStr ((queryAnswer d.st.store q).map (·.key))}"
    | _, _, _ => fail
  | _ => fail

/-- `tickets N M<id> …`: FlushProgress counters after every call, and whether the barrier for
the current snapshot is open. -/
def ticketsAnswer (toks : List String) : String :=
  let rec go (p : Progress) (ts : List String) (acc : List String) : Option (List String) :=
    match ts with
    | [] => some acc.reverse
    | t :: rest =>
      if t == "N" then
        let (p', id) := p.nextId
        go p' rest (s!"n{id}:{p'.submitted},{p'.completed},{if p'.barrierOpen p'.submitted then 1 else 0}" :: acc)
      else if t.startsWith "M" then
        match (t.drop 1).toString.toNat? with
        | some id =>
          let p' := p.markCompleted id
          go p' rest (s!"m:{p'.submitted},{p'.completed},{if p'.barrierOpen p'.submitted then 1 else 0}" :: acc)
        | none => none
      else none
  match go Progress.init toks [] with
  | some out => if out.isEmpty then "-" else " ".intercalate out
  | none => "bad-op"

def answer (line : String) : String :=
  match words line with
  | "tickets" :: toks => ticketsAnswer toks
  | _ =>
  match (line.trimAscii.toString.splitOn " | ") with
  | "show" :: ops =>
    let d := ops.foldl (fun d op => stepOp d (words op)) { st := St.init, out := [], bad := false }
    if d.bad then "bad-op" else
    if d.out.isEmpty then "-" else " ; ".intercalate d.out.reverse
  | _ => "bad-op"

def main : IO Unit := serve answer
