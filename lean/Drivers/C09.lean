-- stub driver for C09: replaced when the property's model exists
def main : IO Unit := pure ()
