import Snel.Model.Proto
import Snel.Model.Aggregate
open Snel Snel.Proto Snel.Agg

/-! Line driver for C09. Streams:

* `flow <cal> <gran|-> <tf> <groupBy|-> <metrics> <width> { P { B { R cell* } } }` → final table
* `state <metric> <state>+` → left fold of `AggState::merge`, then `agg_state_to_scalar`
* `bucket <cal|naive> <gran> <i64>` → bucket start (u64)
* `pi64 <hex>` → `get_i64_at` of a one-string column
* `conv <width> { B { R cell* } }` → per row the cells (`get_i64_at`, `get_str_at`) -/

def strOfHex (h : String) : Option String := do
  let bs ← unhex h
  String.fromUTF8? (ByteArray.mk bs.toArray)

def hexOfStr (s : String) : String := hexOfBytes s.toUTF8.toList

def parseInt (s : String) : Option Int :=
  match s.toList with
  | '-' :: ds => (String.ofList ds).toNat?.map fun n => -(n : Int)
  | _ => s.toNat?.map fun n => (n : Int)

def parseCell (tok : String) : Option Scalar :=
  match tok.toList with
  | ['n'] => some .null
  | ['y'] => some .bin
  | ['b', '0'] => some (.bool false)
  | ['b', '1'] => some (.bool true)
  | 'i' :: r => (parseInt (String.ofList r)).map .int
  | 't' :: r => (parseInt (String.ofList r)).map .ts
  | 'd' :: r => (strOfHex (String.ofList r)).map .float
  | 's' :: r => (strOfHex (String.ofList r)).map .str
  | _ => none

def parseGran (s : String) : Option (Option Gran) :=
  match s with
  | "-" => some none
  | "h" => some (some .hour)
  | "d" => some (some .day)
  | "w" => some (some .week)
  | "m" => some (some .month)
  | "y" => some (some .year)
  | _ => none

def parseMetric (tok : String) : Option Metric :=
  match tok.toList with
  | ['c'] => some .countAll
  | 'f' :: r => (String.ofList r).toNat?.map .countField
  | 'u' :: r => (String.ofList r).toNat?.map .countUnique
  | 't' :: r => (String.ofList r).toNat?.map .total
  | 'a' :: r => (String.ofList r).toNat?.map .avg
  | 'n' :: r => (String.ofList r).toNat?.map .min
  | 'x' :: r => (String.ofList r).toNat?.map .max
  | _ => none

def parsePlan (cal gran tf gb ms : String) : Option Plan := do
  let calendar ← (match cal with | "1" => some true | "0" => some false | _ => none)
  let bucket ← parseGran gran
  let timeField ← tf.toNat?
  let groupBy ← (if gb == "-" then some none else ((gb.splitOn ",").mapM String.toNat?).map some)
  let metrics ← (ms.splitOn ",").mapM parseMetric
  some { metrics, groupBy, bucket, timeField, calendar }

/-- take `w` cells -/
def takeCells : Nat → List String → List Scalar → Option (List Scalar × List String)
  | 0, rest, acc => some (acc.reverse, rest)
  | _ + 1, [], _ => none
  | n + 1, t :: rest, acc => do
    let c ← parseCell t
    takeCells n rest (c :: acc)

/-- body → flows of batches of rows (reversed accumulators); stops at `NOTE` (the rest of the line is a comment for replays: LIMIT / OFFSET of the query, which the flows must ignore) -/
def parseBody (w : Nat) : Nat → List String → List (List (List (List Scalar))) →
    Option (List (List (List (List Scalar))) × List String)
  | 0, _, _ => none
  | _ + 1, [], acc => some (acc, [])
  | fuel + 1, tok :: rest, acc =>
    if tok == "NOTE" then some (acc, rest)
    else if tok == "P" then parseBody w fuel rest ([] :: acc)
    else if tok == "B" then
      match acc with
      | fl :: more => parseBody w fuel rest (([] :: fl) :: more)
      | [] => none
    else if tok == "R" then
      match takeCells w rest [] with
      | some (cells, rest') =>
        match acc with
        | (b :: bs) :: more => parseBody w fuel rest' (((cells :: b) :: bs) :: more)
        | _ => none
      | none => none
    else none

def fixOrder (acc : List (List (List (List Scalar)))) : List (List (List (List Scalar))) :=
  (acc.map fun fl => (fl.map fun b => b.reverse).reverse).reverse

def keyLe (a b : Key) : Bool :=
  match a.bucket, b.bucket with
  | none, some _ => true
  | some _, none => false
  | some x, some y => if x < y then true else if y < x then false else !(decide (b.groups < a.groups))
  | none, none => !(decide (b.groups < a.groups))

def hex16 (n : Nat) : String :=
  String.ofList ((List.range 16).reverse.map fun i => hexDigit ((n / 16 ^ i) % 16))

def showOut : Out → String
  | .int i => s!"i{i}"
  | .str s => "s" ++ hexOfStr s
  | .avg s c =>
    let f : Float := if c == 0 then 0.0 else Float.ofInt s / Float.ofInt c
    "a" ++ hex16 f.toBits.toNat
  | .null => "N"

def showRow (e : Key × List Out) : String :=
  let b := match e.1.bucket with | some b => toString b | none => "N"
  let g := if e.1.groups.isEmpty then "*" else ",".intercalate (e.1.groups.map hexOfStr)
  s!"{b}/{g}=" ++ ",".intercalate (e.2.map showOut)

def showTable (t : Option (List (Key × List Out))) : String :=
  match t with
  | none => "err"
  | some [] => "empty"
  | some rows => " ".intercalate ((rows.mergeSort fun a b => keyLe a.1 b.1).map showRow)

def runLine (p : Plan) (w : Nat) (flows : List (List (List (List Scalar)))) : String :=
  showTable (finalTable p (runFlows p (flows.map (tagFlow p w))))

def flowAnswer (toks : List String) : String :=
  match toks with
  | cal :: gran :: tf :: gb :: ms :: w :: body =>
    match parsePlan cal gran tf gb ms, w.toNat? with
    | some p, some w =>
      match parseBody w (body.length + 1) body [] with
      | some (acc, _) => runLine p w (fixOrder acc)
      | none => "bad-op"
    | _, _ => "bad-op"
  | _ => "bad-op"

def parseOptInt (s : String) : Option (Option Int) :=
  if s == "-" then some none else (parseInt s).map some
def parseOptStr (s : String) : Option (Option String) :=
  if s == "_" then some none else (strOfHex s).map some

/-- `c<int>` | `u<hex>,<hex>…` (`u` alone = empty set) | `s<int>` | `a<int>,<int>` |
`m<int|->,<hex|_>` | `x<int|->,<hex|_>` -/
def parseSt (tok : String) : Option St :=
  match tok.toList with
  | 'c' :: r => (parseInt (String.ofList r)).map .cnt
  | 's' :: r => (parseInt (String.ofList r)).map .sum
  | ['u'] => some (.uniq [])
  | 'u' :: r => (((String.ofList r).splitOn ",").mapM strOfHex).map .uniq
  | 'a' :: r =>
    match (String.ofList r).splitOn "," with
    | [s, c] => do some (.avg (← parseInt s) (← parseInt c))
    | _ => none
  | 'm' :: r =>
    match (String.ofList r).splitOn "," with
    | [n, s] => do some (.mn (← parseOptInt n) (← parseOptStr s))
    | _ => none
  | 'x' :: r =>
    match (String.ofList r).splitOn "," with
    | [n, s] => do some (.mx (← parseOptInt n) (← parseOptStr s))
    | _ => none
  | _ => none

def showOptInt : Option Int → String
  | some i => toString i
  | none => "-"
def showOptStr : Option String → String
  | some s => hexOfStr s
  | none => "_"

def showSt : St → String
  | .cnt n => s!"c{n}"
  | .sum s => s!"s{s}"
  | .uniq vs => "u" ++ ",".intercalate ((vs.mergeSort fun a b => !(decide (b < a))).map hexOfStr)
  | .avg s c => s!"a{s},{c}"
  | .mn n s => s!"m{showOptInt n},{showOptStr s}"
  | .mx n s => s!"x{showOptInt n},{showOptStr s}"

def stateAnswer (toks : List String) : String :=
  match toks with
  | m :: first :: rest =>
    match parseMetric m, parseSt first, rest.mapM parseSt with
    | some m, some s0, some more =>
      let s := more.foldl St.merge s0
      let o := match outOf m s with | some o => showOut o | none => "err"
      s!"{showSt s} {o}"
    | _, _, _ => "bad-op"
  | _ => "bad-op"

def showCell (c : Option Cell) : String :=
  match c with
  | none => "x"
  | some c => s!"{showOptInt c.num}:{showOptStr c.str}"

def convAnswer (toks : List String) : String :=
  match toks with
  | w :: body =>
    match w.toNat? with
    | some w =>
      match parseBody w (body.length + 1) ("P" :: body) [] with
      | some (acc, _) =>
        let batches := (fixOrder acc).flatten
        " | ".intercalate (batches.map fun b =>
          " ; ".intercalate ((convertBatch w b).map fun r => " ".intercalate (r.map showCell)))
      | none => "bad-op"
    | none => "bad-op"
  | _ => "bad-op"

def answer (line : String) : String :=
  match words line with
  | "flow" :: rest => flowAnswer rest
  | "state" :: rest => stateAnswer rest
  | ["bucket", mode, g, ts] =>
    match parseGran g, parseInt ts with
    | some (some g), some i =>
      if mode == "cal" then toString (bucketOf true g i)
      else if mode == "naive" then toString (bucketOf false g i)
      else "bad-op"
    | _, _ => "bad-op"
  | ["pi64", h] =>
    match strOfHex h with
    | some s => showOptInt (parseI64 s)
    | none => "bad-op"
  | "conv" :: rest => convAnswer rest
  | _ => "bad-op"

def main : IO Unit := serve answer
