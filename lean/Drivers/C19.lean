-- stub driver for C19: replaced when the property's model exists
def main : IO Unit := pure ()
