import Snel.Model.Proto
import Snel.Model.WalArchive
open Snel Snel.Proto Snel.WalArchive

/-! Line protocol of the C19 streams (see `harness/src/bin/c19.rs`):

```
clean <cons 0|1> <shard> <root d|m|f|b> <nNodes> {node} <nSteps> {step}
node   := <namehex> (D | L | J | A <shard> <logId> <start> <end> <count> <n> {entry})
entry  := <typehex> <ctxhex> <ts> <eid> <n> {<keyhex> <value>}
value  := n | t | f | i<int> | d<hex16> | T<int> | s<hex> | B<hex>
step   := <nFiles> {file} (C|P|M) <arg> <nWriteFaults> {logId}
          -- cleanup_up_to / archive_logs_up_to / archive_log; ids whose archive data write fails
file   := <namehex> (r|u) (d|k) <nLines> {line}
line   := b | g | e <rawentry>          -- rawentry = entry with jvalues
jvalue := n | t | f | i<int> | d<hex16> | s<hex> | c<hex>
reser <n> {entry}
aname <id> <start> <end>
```
-/

abbrev P := StateT (List String) Option

def tok : P String := do
  match (← get) with
  | [] => failure
  | t :: r => set r; pure t

def pNat : P Nat := do
  match (← tok).toNat? with
  | some n => pure n
  | none => failure

def rep {α : Type} (n : Nat) (p : P α) : P (List α) := (List.range n).mapM fun _ => p

def strOfHex (t : String) : Option String := do
  let bs ← unhex t
  String.fromUTF8? (ByteArray.mk bs.toArray)

def pStr : P String := do
  match strOfHex (← tok) with
  | some s => pure s
  | none => failure

def pName : P Name := do return (← pStr).toList

def hexNat (t : String) : Option Nat :=
  t.toList.foldlM (fun acc c => (hexVal c).map fun d => acc * 16 + d) 0

def pValue : P Value := do
  let t ← tok
  match t.toList with
  | ['n'] => pure .null
  | ['t'] => pure (.bool true)
  | ['f'] => pure (.bool false)
  | 'i' :: r => match (String.ofList r).toInt? with
    | some i => pure (.int i)
    | none => failure
  | 'T' :: r => match (String.ofList r).toInt? with
    | some i => pure (.ts i)
    | none => failure
  | 'd' :: r => match hexNat (String.ofList r) with
    | some b => if r.length = 16 then pure (.float b) else failure
    | none => failure
  | 's' :: r => match strOfHex (String.ofList r) with
    | some s => pure (.str s)
    | none => failure
  | 'B' :: r => match unhex (String.ofList r) with
    | some b => pure (.bin b)
    | none => failure
  | _ => failure

def pJVal : P JVal := do
  let t ← tok
  match t.toList with
  | ['n'] => pure .null
  | ['t'] => pure (.bool true)
  | ['f'] => pure (.bool false)
  | 'i' :: r => match (String.ofList r).toInt? with
    | some i => pure (.int i)
    | none => failure
  | 'd' :: r => match hexNat (String.ofList r) with
    | some b => if r.length = 16 then pure (.float b) else failure
    | none => failure
  | 's' :: r => match strOfHex (String.ofList r) with
    | some s => pure (.str s)
    | none => failure
  | 'c' :: r => match strOfHex (String.ofList r) with
    | some s => pure (.compound s)
    | none => failure
  | _ => failure

def pEntry : P Entry := do
  let ty ← pStr
  let ctx ← pStr
  let ts ← pNat
  let eid ← pNat
  let n ← pNat
  let payload ← rep n do
    let k ← pStr
    let v ← pValue
    pure (k, v)
  pure { eventType := ty, contextId := ctx, timestamp := ts, payload := payload, eventId := eid }

def pRaw : P RawEntry := do
  let ty ← pStr
  let ctx ← pStr
  let ts ← pNat
  let eid ← pNat
  let n ← pNat
  let payload ← rep n do
    let k ← pStr
    let v ← pJVal
    pure (k, v)
  pure { eventType := ty, contextId := ctx, timestamp := ts, payload := payload, eventId := eid }

/-- Lines as the driver receives them: already classified by the trusted parser. -/
inductive DLine
  | blank
  | garbage
  | entry (r : RawEntry)

def dparser : Parser DLine where
  blank := fun l => match l with
    | .blank => true
    | _ => false
  parseRaw := fun l => match l with
    | .entry r => some r
    | _ => none

def pLine : P DLine := do
  match (← tok) with
  | "b" => pure .blank
  | "g" => pure .garbage
  | "e" => return .entry (← pRaw)
  | _ => failure

def pFile : P (WalFile DLine) := do
  let name ← pName
  let rd ← tok
  let dl ← tok
  let readable ← (match rd with
    | "r" => pure true
    | "u" => pure false
    | _ => failure : P Bool)
  let deletable ← (match dl with
    | "d" => pure true
    | "k" => pure false
    | _ => failure : P Bool)
  let n ← pNat
  let lines ← rep n pLine
  pure { name := name, lines := lines, readable := readable, deletable := deletable }

def pNode : P (Name × Node) := do
  let name ← pName
  match (← tok) with
  | "D" => pure (name, .dir)
  | "L" => pure (name, .dangling)
  | "J" => pure (name, .junk)
  | "A" =>
    let shard ← pNat
    let id ← pNat
    let s ← pNat
    let e ← pNat
    let c ← pNat
    let n ← pNat
    let es ← rep n pEntry
    pure (name, .archive { header := { shard := shard, logId := id, startTs := s, endTs := e, count := c }, entries := es })
  | _ => failure

/-- `C` cleanup_up_to, `P` archive_logs_up_to, `M` archive_log -/
inductive OpKind | clean | pass | one

def pStep : P (Step DLine × OpKind × List Nat) := do
  let n ← pNat
  let files ← rep n pFile
  let k ← (do
    match (← tok) with
    | "C" => pure OpKind.clean
    | "P" => pure OpKind.pass
    | "M" => pure OpKind.one
    | _ => failure : P OpKind)
  let bound ← pNat
  let nf ← pNat
  let wf ← rep nf pNat
  pure ({ add := files, bound := bound }, k, wf)

/-! rendering -/

def hexStr (s : String) : String := hexOfBytes s.toUTF8.toList
def hexName (n : Name) : String := hexStr (String.ofList n)

def hex16 (n : Nat) : String :=
  String.ofList ((List.range 16).reverse.map fun i => hexDigit (n / 16 ^ i % 16))

def rValue : Value → String
  | .null => "n"
  | .bool true => "t"
  | .bool false => "f"
  | .int i => s!"i{i}"
  | .float b => "d" ++ hex16 b
  | .ts i => s!"T{i}"
  | .str s => "s" ++ hexStr s
  | .bin b => "B" ++ hexOfBytes b

def rEntry (e : Entry) : String :=
  " ".intercalate ([hexStr e.eventType, hexStr e.contextId, toString e.timestamp, toString e.eventId,
    toString e.payload.length] ++ e.payload.flatMap fun kv => [hexStr kv.1, rValue kv.2])

def rootChar : Root → String
  | .dir => "d" | .missing => "m" | .isFile => "f" | .blocked => "b"

def nodeKind : Node → String
  | .archive _ | .junk => "F"
  | .dir => "D"
  | .dangling => "L"

def rObs (wal : List (WalFile DLine)) (fs : ArchFs) : String :=
  let names := isort lexLe (wal.map (·.name))
  let arch : List (Name × Node) := match fs.root with
    | .dir => isort (fun (a b : Name × Node) => lexLe a.1 b.1) fs.nodes
    | _ => []
  let info := listInfo fs
  let rec_ := match recoverAll fs with
    | none => ["ERR"]
    | some es => toString es.length :: es.map rEntry
  " ".intercalate (["|", "W", toString names.length] ++ names.map hexName
    ++ ["root=" ++ rootChar fs.root, "A", toString arch.length] ++ arch.map (fun kv => hexName kv.1 ++ ":" ++ nodeKind kv.2)
    ++ ["I", toString info.length]
    ++ info.map (fun kh => s!"{hexName kh.1}:{kh.2.shard}:{kh.2.logId}:{kh.2.startTs}:{kh.2.endTs}:{kh.2.count}")
    ++ ["R"] ++ rec_)

def runClean : P String := do
  let cons ← pNat
  let shard ← pNat
  let root ← (do
    match (← tok) with
    | "d" => pure Root.dir
    | "m" => pure Root.missing
    | "f" => pure Root.isFile
    | "b" => pure Root.blocked
    | _ => failure : P Root)
  let nn ← pNat
  let nodes ← rep nn pNode
  let ns ← pNat
  let steps ← rep ns pStep
  if !(← get).isEmpty || cons > 1 then failure
  let init : List (WalFile DLine) × ArchFs := ([], { root := root, nodes := nodes })
  let (_, outs) := steps.foldl (fun (acc : (List (WalFile DLine) × ArchFs) × List String) sk =>
    let s := sk.1
    -- log ids whose archive data write fails in this step (file-size limit below the archive's size)
    let fails : Nat → Fault := fun id => if sk.2.2.contains id then Fault.write else Fault.none
    match sk.2.1 with
    | .clean =>
      let st := runStep (cons == 1) dparser fails shard acc.1 s
      (st, ("res=- " ++ rObs st.1 st.2) :: acc.2)
    | .pass =>
      let wal := addFiles acc.1.1 s.add
      let r := archivePass dparser fails shard s.bound wal wal acc.1.2
      let oks := (r.1.filter id).length
      ((wal, r.2), (s!"res={oks}:{r.1.length - oks} " ++ rObs wal r.2) :: acc.2)
    | .one =>
      let wal := addFiles acc.1.1 s.add
      let r := archiveLog dparser fails shard wal acc.1.2 s.bound
      ((wal, r.2), ((if r.1 then "res=ok " else "res=err ") ++ rObs wal r.2) :: acc.2)) (init, [])
  pure (" ".intercalate outs.reverse)

def runReser : P String := do
  let n ← pNat
  let es ← rep n pEntry
  if !(← get).isEmpty then failure
  let out := es.map Entry.reser
  pure (" ".intercalate (toString out.length :: out.map rEntry))

def runAname : P String := do
  let id ← pNat
  let s ← pNat
  let e ← pNat
  if !(← get).isEmpty then failure
  pure (hexName (archName id s e))

def answer (line : String) : String :=
  let r := match words line with
    | "clean" :: rest => (runClean.run rest).map Prod.fst
    | "reser" :: rest => (runReser.run rest).map Prod.fst
    | "aname" :: rest => (runAname.run rest).map Prod.fst
    | _ => none
  r.getD "bad-op"

def main : IO Unit := serve answer
