-- stub driver for C15: replaced when the property's model exists
def main : IO Unit := pure ()
