import Snel.Model.Proto
import Snel.Model.Sequence
open Snel Snel.Proto Snel.Sequence

/-! Driver for C15. One line = one sequence-matching case.

`match|prefilter F|P <timeField> <linkField> <tyA> <tyB> <limit|-> <n> <key>*n <where> <zonesA> <zonesB>`

* names / strings: hex (`-` = empty); keys: hex of `scalar_to_key` ("i64:5", "str:ab", "ts:7") in
  the iteration order of the group map observed by the harness;
* where: `W0` | `W1 <expr>`; expr: `c <field> <op> i<int>|s<hex>` | `I <field> <n> <int>*` |
  `S <field> <n> <hex>*` | `& e e` | `| e e` | `! e`;
* zones: `<nzones>` then per zone `<ncols>` then per column `<name> I|S <len> <cell>*`
  (I cells: `n` or decimal, S cells: hex).

Answer: `ok <n> z.r>z.r …` in emission order (first>second row of `matched_rows`); for the op
`matchset` the pair tokens sorted as strings (end-to-end answers: the order of link groups in the
response is not part of the property), for `matchcount` the count only (LIMIT cut the answer),
`skip` for the line `skip` (end-to-end cases whose answer is not determined),
`bad-order` if the given keys are not a permutation of the model's keys, `bad-op` otherwise. -/

abbrev P := StateT (List String) Option

def tok : P String := do
  match (← get) with
  | [] => failure
  | t :: ts => set ts; pure t

def pNat : P Nat := do let t ← tok; liftM (m := Option) t.toNat?
def pInt : P Int := do let t ← tok; liftM (m := Option) t.toInt?
def pStr : P Str := do
  let t ← tok
  match unhex t with
  | some bs => pure (bs.map UInt8.toNat)
  | none => failure

def rep {α} (p : P α) : Nat → P (List α)
  | 0 => pure []
  | n + 1 => do let x ← p; let xs ← rep p n; pure (x :: xs)

def pOp : P Op := do
  match (← tok) with
  | "eq" => pure .eq | "neq" => pure .neq | "gt" => pure .gt | "gte" => pure .gte
  | "lt" => pure .lt | "lte" => pure .lte
  | _ => failure

def pLit : P Lit := do
  let t ← tok
  match t.toList with
  | 'i' :: rest => match (String.ofList rest).toInt? with
    | some v => pure (.int v)
    | none => failure
  | 's' :: rest => match unhex (String.ofList rest) with
    | some bs => pure (.str (bs.map UInt8.toNat))
    | none => failure
  | _ => failure

def pExpr : Nat → P Expr
  | 0 => failure
  | fuel + 1 => do
    match (← tok) with
    | "c" => do let f ← pStr; let op ← pOp; let v ← pLit; pure (.cmp f op v)
    | "I" => do let f ← pStr; let n ← pNat; let vs ← rep pInt n; pure (.inI f vs)
    | "S" => do let f ← pStr; let n ← pNat; let vs ← rep pStr n; pure (.inS f vs)
    | "&" => do let l ← pExpr fuel; let r ← pExpr fuel; pure (.and l r)
    | "|" => do let l ← pExpr fuel; let r ← pExpr fuel; pure (.or l r)
    | "!" => do let e ← pExpr fuel; pure (.not e)
    | _ => failure

def pWhere : P (Option Expr) := do
  match (← tok) with
  | "W0" => pure none
  | "W1" => do let e ← pExpr 64; pure (some e)
  | _ => failure

def pCellI : P Cell := do
  let t ← tok
  if t == "n" then pure (.int none) else
  match t.toInt? with
  | some v => pure (.int (some v))
  | none => failure

def pCellS : P Cell := do let s ← pStr; pure (.str s)

def pColumn : P (Str × List Cell) := do
  let name ← pStr
  let kind ← tok
  let len ← pNat
  match kind with
  | "I" => do let cs ← rep pCellI len; pure (name, cs)
  | "S" => do let cs ← rep pCellS len; pure (name, cs)
  | _ => failure

def mkRows (zone : Nat) (cols : List (Str × List Cell)) : List Row :=
  let n := cols.foldl (fun m c => max m c.2.length) 0
  (List.range n).map fun i =>
    { zone := zone, idx := i, cells := cols.filterMap fun c => (c.2[i]?).map fun cell => (c.1, cell) }

def pZones : P (List Row) := do
  let nz ← pNat
  let zs ← rep (do let nc ← pNat; rep pColumn nc) nz
  pure ((zs.zipIdx).flatMap fun (cols, z) => mkRows z cols)

def keyString (k : Key) : List Nat :=
  match k with
  | .i64 v => ("i64:" ++ toString v).toUTF8.toList.map UInt8.toNat
  | .ts v => ("ts:" ++ toString v).toUTF8.toList.map UInt8.toNat
  | .str s => ("str:".toUTF8.toList.map UInt8.toNat) ++ s

structure Case where
  pre : Bool
  out : Nat   -- 0: pairs in emission order, 1: pairs as a sorted list (set), 2: count only
  cfg : Cfg
  limit : Option Nat
  order : List Str
  as : List Row
  bs : List Row

def pCase : P Case := do
  let kind ← tok
  let (pre, out) ← match kind with
    | "match" => pure (false, 0)
    | "prefilter" => pure (true, 0)
    | "matchset" => pure (false, 1)
    | "matchcount" => pure (false, 2)
    | _ => failure
  let link ← tok
  let preceded ← match link with
    | "F" => pure false
    | "P" => pure true
    | _ => failure
  let tf ← pStr
  let lf ← pStr
  let tyA ← pStr
  let tyB ← pStr
  let limTok ← tok
  let limit ← if limTok == "-" then pure none else
    match limTok.toNat? with
    | some n => pure (some n)
    | none => failure
  let n ← pNat
  let order ← rep pStr n
  let wh ← pWhere
  let as ← pZones
  let bs ← pZones
  if !(← get).isEmpty then failure
  pure { pre, out, cfg := { preceded, timeField := tf, linkField := lf, tyA, tyB, wh }, limit, order, as, bs }

def showPair (p : Pair) : String := s!"{p.1.zone}.{p.1.idx}>{p.2.zone}.{p.2.idx}"

def answer (line : String) : String :=
  if words line == ["skip"] then "skip" else
  match (pCase.run (words line)) with
  | none => "bad-op"
  | some (c, _) =>
    let as := if c.pre then prefilterA c.cfg c.as else c.as
    let bs := if c.pre then prefilterB c.cfg c.bs else c.bs
    let keys := keysOf c.cfg as bs
    -- map the observed key strings back to model keys
    let order := c.order.filterMap fun s => keys.find? fun k => keyString k = s
    if order.length ≠ c.order.length || order.length ≠ keys.length || !(keys.all order.contains) then "bad-order"
    else
      let res := matchSequences c.cfg c.limit as bs order
      let toks := res.map showPair
      let toks := match c.out with
        | 0 => toks
        | 1 => (toks.toArray.qsort (· < ·)).toList
        | _ => []
      " ".intercalate ("ok" :: toString res.length :: toks)

def main : IO Unit := serve answer
