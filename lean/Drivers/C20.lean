import Snel.Model.Proto
import Snel.Model.Response
open Snel Snel.Proto Snel.Response Snel.Gen.C20

/-! Driver for C20.

`table <writer> <limit|-> <offset|-> <batchMode> <ncols> (<name> <type>)* <nbatches> (<nrows> cell*)*`
  writer = `q` | `s:<materialized>:<watermark 0|1>`; names/types/strings in hex.
  cell = `n` | `b0` | `b1` | `i<dec>` | `t<dec>` | `f<16hex>/<display hex>` |
         `s<hex>/<parse f64: 16hex|->/<container canon hex|->` | `x<hex>`
  (the parts after `/` are the external-library answers for that value, see `Ext`).
`err <j|u|a> <code> <msghex>`
-/

structure Hints where
  pf : List (Bytes × Nat) := []
  fmt : List (Nat × Bytes) := []
  pc : List (Bytes × Bytes) := []

def Hints.ext (h : Hints) : Ext :=
  { parseF64 := fun s => (h.pf.find? (·.1 == s)).map (·.2)
    fmtF64 := fun b => ((h.fmt.find? (·.1 == b)).map (·.2)).getD []
    parseContainer := fun s => (h.pc.find? (·.1 == s)).map (·.2) }

def hexNat (s : String) : Option Nat :=
  if s.isEmpty then none else
  s.toList.foldl (fun acc c => do let a ← acc; let v ← hexVal c; pure (a * 16 + v)) (some 0)

def drop1 (s : String) : String := String.ofList (s.toList.drop 1)

/-- Parse one cell token, collecting hints. -/
def parseCell (tok : String) (h : Hints) : Option (Scalar × Hints) :=
  match tok.toList with
  | ['n'] => some (.null, h)
  | ['b', '0'] => some (.bool false, h)
  | ['b', '1'] => some (.bool true, h)
  | 'i' :: _ => (drop1 tok).toInt?.map fun i => (.int i, h)
  | 't' :: _ => (drop1 tok).toInt?.map fun i => (.ts i, h)
  | 'f' :: _ =>
    match (drop1 tok).splitOn "/" with
    | [bits, disp] => do
      let b ← hexNat bits
      let d ← unhex disp
      some (.float b, { h with fmt := (b, d) :: h.fmt })
    | _ => none
  | 's' :: _ =>
    match (drop1 tok).splitOn "/" with
    | [sx, pf, pc] => do
      let s ← unhex sx
      let h1 ← if pf == "-" then some h else (hexNat pf).map fun b => { h with pf := (s, b) :: h.pf }
      let h2 ← if pc == "-" then some h1 else (unhex pc).map fun c => { h1 with pc := (s, c) :: h1.pc }
      some (.utf8 s, h2)
    | _ => none
  | 'x' :: _ => (unhex (drop1 tok)).map fun b => (.binary b, h)
  | _ => none

def parseCells : Nat → List String → Hints → Option (List Scalar × List String × Hints)
  | 0, toks, h => some ([], toks, h)
  | n + 1, tok :: toks, h => do
    let (c, h1) ← parseCell tok h
    let (cs, rest, h2) ← parseCells n toks h1
    some (c :: cs, rest, h2)
  | _, [], _ => none

def parseRows (ncols : Nat) : Nat → List String → Hints → Option (List Row × List String × Hints)
  | 0, toks, h => some ([], toks, h)
  | n + 1, toks, h => do
    let (r, rest, h1) ← parseCells ncols toks h
    let (rs, rest2, h2) ← parseRows ncols n rest h1
    some (r :: rs, rest2, h2)

def parseBatches (ncols : Nat) : Nat → List String → Hints → Option (List Batch × List String × Hints)
  | 0, toks, h => some ([], toks, h)
  | n + 1, tok :: toks, h => do
    let nrows ← tok.toNat?
    let (b, rest, h1) ← parseRows ncols nrows toks h
    let (bs, rest2, h2) ← parseBatches ncols n rest h1
    some (b :: bs, rest2, h2)
  | _, [], _ => none

def parseCols : Nat → List String → Option (Schema × List String)
  | 0, toks => some ([], toks)
  | n + 1, a :: b :: toks => do
    let name ← unhex a
    let ty ← unhex b
    let (cs, rest) ← parseCols n toks
    some (⟨name, ty⟩ :: cs, rest)
  | _, _ => none

def parseOptNat (s : String) : Option (Option Nat) :=
  if s == "-" then some none else s.toNat?.map some

def parseWriter (s : String) : Option Writer :=
  if s == "q" then some .query else
  match s.splitOn ":" with
  | ["s", m, w] => do
    let m ← m.toNat?
    let w ← if w == "0" then some false else if w == "1" then some true else none
    some (.show m w)
  | _ => none

def hex16 (n : Nat) : String :=
  String.ofList ((List.range 16).map fun i => hexDigit (n / 16 ^ (15 - i) % 16))

def showCell : Cell → String
  | .null => "n"
  | .bool b => if b then "b1" else "b0"
  | .int i => s!"i{i}"
  | .float b => "d" ++ hex16 b
  | .str s => "s" ++ hexOfBytes s
  | .json c => "j" ++ hexOfBytes c

def showRow (r : List Cell) : String := "(" ++ ",".intercalate (r.map showCell) ++ ")"

def showFrame : JFrame → String
  | .batch rows => "B" ++ String.join (rows.map showRow)
  | .row cells => "R" ++ showRow cells

def showJ (tag : String) (s : JStream) : String :=
  tag ++ " cols=[" ++ ",".intercalate (s.cols.map fun c => hexOfBytes c.1 ++ ":" ++ hexOfBytes c.2)
    ++ "] frames=[" ++ ";".intercalate (s.frames.map showFrame) ++ s!"] end={s.endCount}"

def showBuilder : Builder → String
  | .int64 => "i64" | .float64 => "f64" | .bool => "bool" | .tsMillis => "tsms" | .utf8 => "lutf8"

def showA (s : AStream) : String :=
  "A cols=[" ++ ",".intercalate (s.cols.map fun c => hexOfBytes c.1 ++ ":" ++ showBuilder c.2)
    ++ "] batches=[" ++ ";".intercalate (s.batches.map fun b => String.join (b.map showRow)) ++ "]"

/-- A parsed `table` case: kept by the driver so that the following `+<encoding>` lines
(one per encoding of the same case) need not repeat it. -/
structure TCase where
  ext : Ext
  cfg : Settings
  w : Writer
  batchMode : Bool
  schema : Schema
  batches : List Batch

def parseTable (toks : List String) : Option TCase :=
  match toks with
  | w :: lim :: off :: bm :: nc :: rest => do
    let w ← parseWriter w
    let limit ← parseOptNat lim
    let offset ← parseOptNat off
    let batchMode ← if bm == "1" then some true else if bm == "0" then some false else none
    let ncols ← nc.toNat?
    let (schema, rest1) ← parseCols ncols rest
    match rest1 with
    | nb :: rest2 => do
      let nb ← nb.toNat?
      let (batches, rest3, h) ← parseBatches ncols nb rest2 {}
      if !rest3.isEmpty then none else
      some ⟨h.ext, ⟨limit, offset⟩, w, batchMode, schema, batches⟩
    | [] => none
  | _ => none

def showRows (tag : String) (rows : List (List Cell)) : String :=
  tag ++ " rows=" ++ String.join (rows.map showRow)

def showRendered (tag : String) (r : Rendered) : String :=
  let cnt := match r.count with | some c => toString c | none => "-"
  tag ++ s!" status={r.status} count={cnt} cols=["
    ++ ",".intercalate (r.cols.map fun c => hexOfBytes c.1 ++ ":" ++ hexOfBytes c.2)
    ++ "] rows=" ++ String.join (r.rows.map showRow)

/-- Answer for one encoding of a case, each from its own model function. -/
def answerEnc (c : TCase) (enc : String) : String :=
  let rows := emittedRows c.cfg c.w c.schema c.batches
  match enc with
  | "J" => showJ "J" (writeJson c.ext c.cfg c.w c.batchMode c.schema c.batches)
  | "U" => showJ "U" (writeUnix c.ext c.cfg c.w c.batchMode c.schema c.batches)
  | "A" => showA (writeArrow c.ext c.cfg c.w c.schema c.batches)
  -- the other frame kind of each renderer, called directly on the emitted rows
  | "JX" => showRows "JX" (if c.batchMode then rows.map (jsonRowFrame c.ext) else jsonBatchFrame c.ext rows)
  | "UX" => showRows "UX" (if c.batchMode then rows.map (unixRowFrame c.ext) else unixBatchFrame c.ext rows)
  | "RJ" => showRendered "RJ" (renderTableJson c.ext c.schema rows rows.length)
  | "RU" => showRendered "RU" (renderTableUnix c.ext c.schema rows rows.length)
  | "RA" => showRendered "RA" (renderTableArrow c.ext c.schema rows rows.length)
  | _ => "bad-op"

def answerErr (toks : List String) : Option String :=
  match toks with
  | [r, code, msg] => do
    let r ← if r == "j" then some Renderer.json else if r == "u" then some .unix
            else if r == "a" then some .arrow else none
    let code ← code.toNat?
    let msg ← unhex msg
    let out := errorBytes r code msg
    let body := match bodyCode r code msg with | some c => toString c | none => "-"
    some (hexOfBytes out ++ s!" body={body} http={httpStatus out (some code)}")
  | _ => none

/-- One line → (new remembered case, answer). `table …` answers with the JSON renderer's
stream and remembers the case; `+U`, `+A`, `+JX`, `+UX`, `+RJ`, `+RU`, `+RA` answer for the
remembered case. -/
def step (st : Option TCase) (line : String) : Option TCase × String :=
  match words line with
  | "table" :: rest =>
    match parseTable rest with
    | some c => (some c, answerEnc c "J")
    | none => (none, "bad-op")
  | [tok] =>
    if tok.startsWith "+" then
      match st with
      | some c => (st, answerEnc c (String.ofList (tok.toList.drop 1)))
      | none => (st, "bad-op")
    else (st, "bad-op")
  | "err" :: rest => (st, (answerErr rest).getD "bad-op")
  | _ => (st, "bad-op")

partial def loopSt (h : IO.FS.Stream) (out : IO.FS.Stream) (st : Option TCase) : IO Unit := do
  let line ← h.getLine
  if line.isEmpty then
    out.flush
    return ()
  let (st', ans) := step st line
  out.putStrLn ans
  loopSt h out st'

def main : IO Unit := do
  loopSt (← IO.getStdin) (← IO.getStdout) none
