-- stub driver for C20: replaced when the property's model exists
def main : IO Unit := pure ()
