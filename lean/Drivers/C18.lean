import Snel.Model.Proto
import Snel.Model.IdGen
open Snel Snel.Proto

/-- "v*k" → k copies of v -/
def parseRun (tok : String) : Option (Nat × Nat) :=
  match tok.splitOn "*" with
  | [v, k] => do some ((← v.toNat?), (← k.toNat?))
  | _ => none

def compact (ids : List Nat) : String :=
  match ids with
  | [] => "-"
  | first :: _ =>
    let deltas := (ids.zip ids.tail).map fun (a, b) => (b + 2^64 - a) % 2^64
    let rec rle (ds : List Nat) (cur : Option (Nat × Nat)) (acc : List String) (fuel : Nat) : List String :=
      match fuel, ds, cur with
      | 0, _, _ => acc.reverse
      | _, [], none => acc.reverse
      | _, [], some (d, k) => (s!"+{d}*{k}" :: acc).reverse
      | f+1, d :: rest, none => rle rest (some (d, 1)) acc f
      | f+1, d :: rest, some (d', k) =>
        if d = d' then rle rest (some (d', k + 1)) acc f
        else rle rest (some (d, 1)) (s!"+{d'}*{k}" :: acc) f
    " ".intercalate (toString first :: rle deltas none [] (deltas.length + 1))

def answer (line : String) : String :=
  match words line with
  | "idgen" :: shard :: calls :: runs =>
    match shard.toNat?, calls.toNat?, runs.mapM parseRun with
    | some shard, some calls, some runs =>
      let script := runs.flatMap fun (v, k) => List.replicate k v
      let last := script.getLast?.getD 0
      -- hook semantics: after the script every reading is `last + 1`
      let fallback := (List.range (2 * calls + 2)).map fun i => last + 1 + i
      compact (IdGen.run IdGen.Gen.init (script ++ fallback) shard calls)
    | _, _, _ => "bad-op"
  | _ => "bad-op"

def main : IO Unit := serve answer
