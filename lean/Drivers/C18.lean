import Snel.Model.Proto
import Snel.Model.IdGen
open Snel Snel.Proto

/-- "v*k" → k copies of v -/
def parseRun (tok : String) : Option (Nat × Nat) :=
  match tok.splitOn "*" with
  | [v, k] => do some ((← v.toNat?), (← k.toNat?))
  | _ => none

def compact (ids : List Nat) : String :=
  match ids with
  | [] => "-"
  | first :: _ =>
    let deltas := (ids.zip ids.tail).map fun (a, b) => (b + 2^64 - a) % 2^64
    let rec rle (ds : List Nat) (cur : Option (Nat × Nat)) (acc : List String) (fuel : Nat) : List String :=
      match fuel, ds, cur with
      | 0, _, _ => acc.reverse
      | _, [], none => acc.reverse
      | _, [], some (d, k) => (s!"+{d}*{k}" :: acc).reverse
      | f+1, d :: rest, none => rle rest (some (d, 1)) acc f
      | f+1, d :: rest, some (d', k) =>
        if d = d' then rle rest (some (d', k + 1)) acc f
        else rle rest (some (d, 1)) (s!"+{d'}*{k}" :: acc) f
    " ".intercalate (toString first :: rle deltas none [] (deltas.length + 1))

/-- `restart <shard> | L r1,r2,… | F | Q | L …`: each `L` is a process lifetime of one shard:
a fresh generator, one STORE per listed reading (after the script the hook returns last + 1).
`Q` prints the distinct ids a query returns: ids of all events stored so far (recovered events
keep their ids), de-duplicated. -/
def answerRestart (shard : Nat) (toks : List String) : String :=
  let step := fun (acc : List Nat × List String) (t : String) =>
    let (ids, obs) := acc
    match words t with
    | ["L", rs] =>
      match (rs.splitOn ",").mapM String.toNat? with
      | some readings =>
        let last := readings.getLast?.getD 0
        let fallback := (List.range (2 * readings.length + 2)).map fun i => last + 1 + i
        (ids ++ IdGen.run IdGen.Gen.init (readings ++ fallback) shard readings.length, obs)
      | none => (ids, "bad-op" :: obs)
    | ["F"] => (ids, obs)
    | ["C"] => (ids, obs)   -- a compaction round: ids are carried over unchanged
    | ["Q"] =>
      let d := Snel.IdGen.sortDedup ids
      (ids, (",".intercalate (d.map toString)) :: obs)
    | _ => (ids, "bad-op" :: obs)
  let (_, obs) := toks.foldl step ([], [])
  " ; ".intercalate obs.reverse

def answerIdgen (line : String) : String :=
  match words line with
  | "idgen" :: shard :: calls :: runs =>
    match shard.toNat?, calls.toNat?, runs.mapM parseRun with
    | some shard, some calls, some runs =>
      let script := runs.flatMap fun (v, k) => List.replicate k v
      let last := script.getLast?.getD 0
      -- hook semantics: after the script every reading is `last + 1`
      let fallback := (List.range (2 * calls + 2)).map fun i => last + 1 + i
      compact (IdGen.run IdGen.Gen.init (script ++ fallback) shard calls)
    | _, _, _ => "bad-op"
  | _ => "bad-op"

def answer (line : String) : String :=
  match line.splitOn " | " with
  | hd :: toks =>
    match words hd with
    | ["restart", sh] =>
      match sh.toNat? with
      | some sh => answerRestart sh toks
      | none => "bad-op"
    | _ => answerIdgen line
  | [] => "bad-op"

def main : IO Unit := serve answer
