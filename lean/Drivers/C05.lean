-- stub driver for C05: replaced when the property's model exists
def main : IO Unit := pure ()
