import Snel.Model.ShardProto
import Snel.Model.Compact
import Snel.Model.PlanProto
open Snel

def main : IO Unit := Proto.serve fun line =>
  match PlanProto.answer line with
  | some a => a
  | none => ShardProto.answerWith Shard.compactRound line
