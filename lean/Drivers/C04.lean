import Snel.Model.ReplayProto
open Snel

def main : IO Unit := Proto.serve ReplayProto.answer
