-- stub driver for C04: replaced when the property's model exists
def main : IO Unit := pure ()
