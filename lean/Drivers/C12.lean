import Snel.Model.Proto
import Snel.Model.Route
open Snel Snel.Proto Snel.Route

def hex16 (x : UInt64) : String :=
  String.ofList ((List.range 16).map fun i => hexDigit ((x.toNat >>> (4 * (15 - i))) % 16))

/-- Shard tag of an id: bits `[SEQ, SEQ+SHARD)` (same as `Snel.IdGen.tagOf` in the lemma file). -/
def tagBits (id : Nat) : Nat := (id / 2 ^ Snel.Gen.idSequenceBits) % 2 ^ Snel.Gen.idShardBits

def sortNat2 (l : List (Nat × Nat)) : List (Nat × Nat) :=
  (l.toArray.qsort fun a b => a.1 < b.1 || (a.1 == b.1 && a.2 < b.2)).toList

def showPairs (l : List (Nat × Nat)) : String :=
  "[" ++ ",".intercalate ((sortNat2 l).map fun (k, t) => s!"{k}@{t}") ++ "]"

/-- Where each event lives: (key, index of the shard whose store holds it). -/
def whereAll (s : System) : List (Nat × Nat) :=
  (s.shards.zipIdx).flatMap fun (sh, i) => sh.events.map fun e => (e.key, i)

structure SysSt where
  sys : System
  tick : Nat
  out : List String
  /-- scripted-clock mode: ids are determined, print them -/
  ids : Bool := false

def showIds (l : List Nat) : String :=
  "[" ++ ",".intercalate ((l.toArray.qsort (· < ·)).toList.map toString) ++ "]"

def showPlaced (s : System) : String :=
  let rows := (s.shards.zipIdx).flatMap fun (sh, i) => sh.events.map fun e => (e.key, i, e.id)
  let rows := (rows.toArray.qsort fun a b => a.1 < b.1 || (a.1 == b.1 && (a.2.1 < b.2.1 || (a.2.1 == b.2.1 && a.2.2 < b.2.2)))).toList
  "[" ++ ",".intercalate (rows.map fun (k, i, id) => s!"{k}@{i}#{id}") ++ "]"

def sysStep (st : SysSt) (tok : String) : Option SysSt :=
  match tok.splitOn ":" with
  | ["S", c, k] => do
    let ctx ← unhex c
    let key ← k.toNat?
    let s' := st.sys.store ctx key [Snel.Gen.idEpochMillis + 1 + st.tick]
    let ok := s'.applied.length != st.sys.applied.length
    some { sys := s', tick := st.tick + 1, out := (if ok then "S=ok" else "S=bad") :: st.out }
  | ["S", c, k, t] => do
    -- scripted clock: the hook serves the reading `t`, then `last + 1` for every further call
    let ctx ← unhex c
    let key ← k.toNat?
    let t ← t.toNat?
    let s' := st.sys.store ctx key ((List.range 8).map (t + ·))
    let ok := s'.applied.length != st.sys.applied.length
    some { st with sys := s', out := (if ok then "S=ok" else "S=bad") :: st.out }
  | ["R"] => some { st with sys := st.sys.restart, out := "R" :: st.out }
  -- FLUSH moves events between storage tiers of their shard; the shard's event list is unchanged
  | ["F"] => some { st with out := "F" :: st.out }
  | ["Q", c] => do
    let ctx ← unhex c
    let rows := st.sys.read (some ctx)
    if st.ids then some { st with out := ("Q=" ++ showIds (rows.map (·.id))) :: st.out } else
    some { st with out := ("Q=" ++ showPairs (rows.map fun e => (e.key, tagBits e.id))) :: st.out }
  | ["QA"] =>
    let rows := st.sys.read none
    if st.ids then some { st with out := ("QA=" ++ showIds (rows.map (·.id))) :: st.out } else
    some { st with out := ("QA=" ++ showPairs (rows.map fun e => (e.key, tagBits e.id))) :: st.out }
  | ["T", c, dir, lim, off] => do
    -- ORDER BY k [DESC] LIMIT lim OFFSET off, unscoped ("*") or FOR c: keys in answer order
    let q ← if c == "*" then some none else (unhex c).map some
    let asc ← if dir == "a" then some true else if dir == "d" then some false else none
    let lim ← lim.toNat?
    let off ← off.toNat?
    let rows := st.sys.readTop q asc lim off
    some { st with out := ("T=[" ++ ",".intercalate (rows.map fun e => toString e.key) ++ "]") :: st.out }
  | ["W"] =>
    if st.ids then some { st with out := ("W=" ++ showPlaced st.sys) :: st.out } else
    some { st with out := ("W=" ++ showPairs (whereAll st.sys)) :: st.out }
  | ["A"] => some { st with out := (s!"A={(st.sys.asked none).length}") :: st.out }
  | _ => none

def answer (line : String) : String :=
  match words line with
  | ["route", c] =>
    match unhex c with
    | some ctx =>
      let rs := (List.range 16).map fun i => toString (route ctx (i + 1))
      s!"h={hex16 (ctxHash ctx)} b={if blank ctx then 1 else 0} r={",".intercalate rs}"
    | none => "bad-op"
  | mode :: n :: ops =>
    if mode != "sys" && mode != "sysclk" then "bad-op" else
    match n.toNat? with
    | some n =>
      if n = 0 then "bad-op" else
      match ops.foldlM sysStep { sys := System.init n, tick := 0, out := [], ids := mode == "sysclk" } with
      | some st => " ".intercalate st.out.reverse
      | none => "bad-op"
    | none => "bad-op"
  | _ => "bad-op"

def main : IO Unit := serve answer
