-- stub driver for C12: replaced when the property's model exists
def main : IO Unit := pure ()
