-- stub driver for C02: replaced when the property's model exists
def main : IO Unit := pure ()
