import Snel.Model.Proto
import Snel.Model.Query
open Snel Snel.Proto Snel.Query

/-!
Line protocol of the C02 streams.

`q` line (stream `e2e`):
```
q <nf> <kind>*  <for: - | hex>  M <n> <row>*  S <nsegs> (G <nzones> (Z <id> <n> <row>*)*)*
  C <hascat> <mask>*nf  E <expr>  L <nleaves> (<f> <op> <lit> (<t> <e> <s> <z> <x>)*nsegs)*
```
kind: `i u f s b t` or `e<v1>,<v2>,…`; row: `<ctxhex> <val>*nf`; val: `n | i<int> | d<m>:<e>:<hex> |
s<hex> | b0 | b1`; lit: `i<int> | d<m>:<e>:<hex> | s<hex>`; op: `eq ne gt ge lt le`;
expr: `c <f> <op> <lit> | I <f> <n> <lit>* | A e e | O e e | N e`;
pruner outcome: `-` (None) or `z<id>,<id>…` (`z` = empty list);
mask bits: 1 ebm, 2 xf, 4 zxf, 8 surf.

`m` line (stream `lit`): `m <nf> <kind>* R <row> E <expr>` → `true | false | panic`
(`ConditionEvaluator::evaluate_event` on one memtable event).
-/

abbrev P (α : Type) := List String → Option (α × List String)

def strOfHex (h : String) : Option Str := do
  let bs ← unhex h
  let s ← String.fromUTF8? (ByteArray.mk bs.toArray)
  pure s.toList

def pNat : P Nat
  | t :: r => t.toNat?.map (·, r)
  | [] => none

def pTok (s : String) : P Unit
  | t :: r => if t = s then some ((), r) else none
  | [] => none

def pMany {α} (p : P α) : Nat → P (List α)
  | 0, ts => some ([], ts)
  | n + 1, ts => do
    let (x, ts) ← p ts
    let (xs, ts) ← pMany p n ts
    pure (x :: xs, ts)

def pKind : P Kind
  | t :: r =>
    match t with
    | "i" => some (.int, r)
    | "u" => some (.u64, r)
    | "f" => some (.float, r)
    | "s" => some (.str, r)
    | "b" => some (.bool, r)
    | "t" => some (.time, r)
    | _ =>
      if t.startsWith "e" then
        some (.enum (((t.drop 1).toString.splitOn ",").map String.toList), r)
      else none
  | [] => none

def pDy (body : String) : Option (Dy × Str) :=
  match body.splitOn ":" with
  | [m, e, h] => do
    let m ← m.toInt?
    let e ← e.toNat?
    let d ← strOfHex h
    pure (⟨m, e⟩, d)
  | _ => none

def pVal : P Val
  | t :: r =>
    if t = "n" then some (.null, r)
    else if t = "b0" then some (.bool false, r)
    else if t = "b1" then some (.bool true, r)
    else
      let body := (t.drop 1).toString
      match t.front with
      | 'i' => body.toInt?.map fun i => (.int i, r)
      | 'd' => (pDy body).map fun (d, s) => (.flt d s, r)
      | 's' => (strOfHex body).map fun s => (.str s, r)
      | _ => none
  | [] => none

def pLit : P Lit
  | t :: r =>
    let body := (t.drop 1).toString
    match t.front with
    | 'i' => body.toInt?.map fun i => (.int i, r)
    | 'd' => (pDy body).map fun (d, s) => (.flt d s, r)
    | 's' => (strOfHex body).map fun s => (.str s, r)
    | _ => none
  | [] => none

def pOp : P Op
  | t :: r =>
    match t with
    | "eq" => some (.eq, r) | "ne" => some (.neq, r) | "gt" => some (.gt, r)
    | "ge" => some (.gte, r) | "lt" => some (.lt, r) | "le" => some (.lte, r)
    | _ => none
  | [] => none

def pRow (nf : Nat) : P Row := fun ts => do
  match ts with
  | c :: ts =>
    let ctx ← strOfHex c
    let (vs, ts) ← pMany pVal nf ts
    pure (⟨ctx, vs⟩, ts)
  | [] => none

def pExpr : Nat → P Expr
  | 0, _ => none
  | fuel + 1, ts =>
    match ts with
    | "c" :: ts => do
      let (f, ts) ← pNat ts
      let (op, ts) ← pOp ts
      let (l, ts) ← pLit ts
      pure (.cmp f op l, ts)
    | "I" :: ts => do
      let (f, ts) ← pNat ts
      let (n, ts) ← pNat ts
      let (ls, ts) ← pMany pLit n ts
      pure (.inn f ls, ts)
    | "A" :: ts => do
      let (a, ts) ← pExpr fuel ts
      let (b, ts) ← pExpr fuel ts
      pure (.and a b, ts)
    | "O" :: ts => do
      let (a, ts) ← pExpr fuel ts
      let (b, ts) ← pExpr fuel ts
      pure (.or a b, ts)
    | "N" :: ts => do
      let (a, ts) ← pExpr fuel ts
      pure (.not a, ts)
    | _ => none

def pZone (nf : Nat) : P Zone := fun ts => do
  let (_, ts) ← pTok "Z" ts
  let (id, ts) ← pNat ts
  let (n, ts) ← pNat ts
  let (rows, ts) ← pMany (pRow nf) n ts
  pure (⟨id, rows⟩, ts)

def pSeg (nf : Nat) : P Seg := fun ts => do
  let (_, ts) ← pTok "G" ts
  let (n, ts) ← pNat ts
  let (zs, ts) ← pMany (pZone nf) n ts
  pure (⟨zs⟩, ts)

def pOutcome : P (Option (List Nat))
  | t :: r =>
    if t = "-" then some (none, r)
    else if t = "z" then some (some [], r)
    else if t.startsWith "z" then
      (((t.drop 1).toString.splitOn ",").mapM String.toNat?).map fun ids => (some ids, r)
    else none
  | [] => none

structure LeafEntry where
  f : Nat
  op : Op
  lit : Lit
  perSeg : List (List (Option (List Nat)))

def pLeaf (nsegs : Nat) : P LeafEntry := fun ts => do
  let (f, ts) ← pNat ts
  let (op, ts) ← pOp ts
  let (l, ts) ← pLit ts
  let (ps, ts) ← pMany (pMany pOutcome 5) nsegs ts
  pure (⟨f, op, l, ps⟩, ts)

def rawOf (leaves : List LeafEntry) (j f : Nat) (op : Op) (l : Lit) : RawSeg := fun p =>
  match leaves.find? fun e => e.f = f && e.op = op && e.lit = l with
  | none => none
  | some e =>
    match e.perSeg[j]? with
    | none => none
    | some os =>
      let i := match p with | .temporal => 0 | .ebm => 1 | .surf => 2 | .zxf => 3 | .xf => 4
      (os[i]?).getD none

def catOf (masks : List Nat) (f : Nat) : Cat :=
  let m := masks.getD f 0
  ⟨m % 2 = 1, (m / 2) % 2 = 1, (m / 4) % 2 = 1, (m / 8) % 2 = 1⟩

def parseQ (ts : List String) : Option (World × Expr) := do
  let (nf, ts) ← pNat ts
  let (sch, ts) ← pMany pKind nf ts
  let (forCtx, ts) ← match ts with
    | "-" :: r => some (none, r)
    | h :: r => (strOfHex h).map fun s => (some s, r)
    | [] => none
  let (_, ts) ← pTok "M" ts
  let (n, ts) ← pNat ts
  let (mem, ts) ← pMany (pRow nf) n ts
  let (_, ts) ← pTok "S" ts
  let (nsegs, ts) ← pNat ts
  let (segs, ts) ← pMany (pSeg nf) nsegs ts
  let (_, ts) ← pTok "C" ts
  let (hc, ts) ← pNat ts
  let (masks, ts) ← pMany pNat nf ts
  let (_, ts) ← pTok "E" ts
  let (e, ts) ← pExpr (ts.length + 1) ts
  let (_, ts) ← pTok "L" ts
  let (nl, ts) ← pNat ts
  let (leaves, ts) ← pMany (pLeaf nsegs) nl ts
  if !ts.isEmpty then none
  pure ({ sch := sch, mem := mem, segs := segs, hasCat := hc = 1, cat := catOf masks,
          raw := rawOf leaves, forCtx := forCtx }, e)

def parseM (ts : List String) : Option (Schema × Row × Expr) := do
  let (nf, ts) ← pNat ts
  let (sch, ts) ← pMany pKind nf ts
  let (_, ts) ← pTok "R" ts
  let (row, ts) ← pRow nf ts
  let (_, ts) ← pTok "E" ts
  let (e, ts) ← pExpr (ts.length + 1) ts
  if !ts.isEmpty then none
  pure (sch, row, e)

def showR : R → String
  | .absent => "absent"
  | .val true => "true"
  | .val false => "false"
  | .panic => "panic"

def answer (line : String) : String :=
  match words line with
  | "q" :: ts =>
    match parseQ ts with
    | some (w, e) => w.answer e
    | none => "bad-op"
  | "m" :: ts =>
    match parseM ts with
    | some (_, row, e) =>
      match evalMem e row with
      | .panic => "panic"
      | r => if r.accepts then "true" else "false"
    | none => "bad-op"
  | _ => "bad-op"

def main : IO Unit := serve answer
