import Snel.Model.Proto
import Snel.Model.Order
open Snel Snel.Proto Snel.Order

/-! Line-protocol driver for C10.

Value tokens: `n` | `b0` `b1` | `i<dec>` | `f<16 hex digits>` | `t<dec>` | `s<hex>` | `x<hex>`
(`s-` / `x-` = empty).

* `conv v`                      → `u=.. i=.. f=.. b=.. r=..`   (the five conversions)
* `cmp a b c`                   → nine letters L/E/G: ab ba bc cb ac ca aa bb cc
* `merge asc lim off S (F (R (key id)*)*)*` → ids in output order (two-level ordered query)
* `merge1 asc lim off F (R (key id)*)*`     → ids (one merger instance)
* `accept lim off N id*`        → indices of the accepted rows
* `handler ordered sequence lim off` → verdict
-/

def hexNat (s : String) : Option Nat :=
  s.toList.foldlM (fun acc c => (hexVal c).map (fun v => acc * 16 + v)) 0

def parseSV (tok : String) : Option SV :=
  match tok.toList with
  | ['n'] => some .null
  | ['b', '0'] => some (.bool false)
  | ['b', '1'] => some (.bool true)
  | 'i' :: r => (String.ofList r).toInt?.map .int
  | 't' :: r => (String.ofList r).toInt?.map .ts
  | 'f' :: r => if r.length = 16 then (hexNat (String.ofList r)).map .float else none
  | 's' :: r => (unhex (String.ofList r)).map fun bs => .utf8 (bs.map (·.toNat))
  | 'x' :: r => (unhex (String.ofList r)).map fun bs => .bin (bs.map (·.toNat))
  | _ => none

def hex16 (n : Nat) : String :=
  let ds := Nat.toDigits 16 n
  String.ofList (List.replicate (16 - ds.length) '0' ++ ds)

def hexOfNats (l : List Nat) : String := hexOfBytes (l.map UInt8.ofNat)

def optStr (o : Option String) : String := o.getD "-"

def ordLetter : Ordering → Char
  | .lt => 'L'
  | .eq => 'E'
  | .gt => 'G'

def optNat (s : String) : Option (Option Nat) :=
  if s == "-" then some none else s.toNat?.map some

abbrev Row := SV × Nat

def rowCmp (a b : Row) : Ordering := SV.compareScalarValues a.1 b.1

/-- parse `count` rows `(key id)` -/
def parseRows : Nat → List String → Option (List Row × List String)
  | 0, ts => some ([], ts)
  | k + 1, key :: id :: ts => do
    let v ← parseSV key
    let i ← id.toNat?
    let (rs, rest) ← parseRows k ts
    some ((v, i) :: rs, rest)
  | _, _ => none

def parseFlows : Nat → List String → Option (List (List Row) × List String)
  | 0, ts => some ([], ts)
  | k + 1, cnt :: ts => do
    let c ← cnt.toNat?
    let (rows, rest) ← parseRows c ts
    let (fs, rest') ← parseFlows k rest
    some (rows :: fs, rest')
  | _, _ => none

def parseShards : Nat → List String → Option (List (List (List Row)) × List String)
  | 0, ts => some ([], ts)
  | k + 1, cnt :: ts => do
    let c ← cnt.toNat?
    let (flows, rest) ← parseFlows c ts
    let (ss, rest') ← parseShards k rest
    some (flows :: ss, rest')
  | _, _ => none

def idsLine (rows : List Row) : String :=
  if rows.isEmpty then "-" else " ".intercalate (rows.map fun r => toString r.2)

def answer (line : String) : String :=
  match words line with
  | ["conv", v] =>
    match parseSV v with
    | some v =>
      s!"u={optStr (v.asU64.map toString)} i={optStr (v.asI64.map toString)} f={optStr (v.asF64.map hex16)} b={optStr (v.asBool.map fun b => if b then "1" else "0")} r={hexOfNats v.toStringRepr}"
    | none => "bad-op"
  | ["cmp", a, b, c] =>
    match parseSV a, parseSV b, parseSV c with
    | some a, some b, some c =>
      String.ofList ([SV.compare a b, SV.compare b a, SV.compare b c, SV.compare c b, SV.compare a c,
        SV.compare c a, SV.compare a a, SV.compare b b, SV.compare c c].map ordLetter)
    | _, _, _ => "bad-op"
  | "merge" :: asc :: lim :: off :: ns :: rest =>
    match asc.toNat?, optNat lim, optNat off, ns.toNat? with
    | some asc, some lim, some off, some ns =>
      match parseShards ns rest with
      | some (shards, []) =>
        idsLine (orderedQuery (heapPQ (itemCmp (asc != 0) rowCmp)) shards lim off)
      | _ => "bad-op"
    | _, _, _, _ => "bad-op"
  | "merge1" :: asc :: lim :: off :: nf :: rest =>
    match asc.toNat?, optNat lim, optNat off, nf.toNat? with
    | some asc, some lim, some off, some nf =>
      match parseFlows nf rest with
      | some (flows, []) =>
        idsLine (mergeRun (heapPQ (itemCmp (asc != 0) rowCmp)) flows (off.getD 0) lim)
      | _ => "bad-op"
    | _, _, _, _ => "bad-op"
  | "accept" :: lim :: off :: n :: ids =>
    match optNat lim, optNat off, n.toNat?, ids.mapM optNat with
    | some lim, some off, some n, some ids =>
      if ids.length ≠ n then "bad-op" else
      let rows := ids.zipIdx
      let out := acceptRows lim off {} rows
      if out.isEmpty then "-" else " ".intercalate (out.map fun r => toString r.2)
    | _, _, _, _ => "bad-op"
  | ["handler", ordered, sequence, lim, off] =>
    match ordered.toNat?, sequence.toNat?, optNat lim, optNat off with
    | some o, some s, some lim, some off =>
      match handlerLimits (o != 0) (s != 0) lim off with
      | .badRequestOffsetNeedsLimit => "bad-request offset-requires-limit"
      | .run l f => s!"run {optStr (l.map toString)} {optStr (f.map toString)}"
    | _, _, _, _ => "bad-op"
  | _ => "bad-op"

def main : IO Unit := serve answer
