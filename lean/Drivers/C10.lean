-- stub driver for C10: replaced when the property's model exists
def main : IO Unit := pure ()
