import Snel.Model.Proto
import Snel.Model.Order
import Snel.Model.Rlte
open Snel Snel.Proto Snel.Order Snel.Rlte

/-! Line-protocol driver for C10.

Value tokens: `n` | `b0` `b1` | `i<dec>` | `f<16 hex digits>` | `t<dec>` | `s<hex>` | `x<hex>`
(`s-` / `x-` = empty).

* `conv v`                      → `u=.. i=.. f=.. b=.. r=..`   (the five conversions)
* `cmp a b c`                   → nine letters L/E/G: ab ba bc cb ac ca aa bb cc
* `merge asc lim off S (F (R (key id)*)*)*` → ids in output order (two-level ordered query)
* `merge1 asc lim off F (R (key id)*)*`     → ids (one merger instance)
* `accept lim off N id*`        → indices of the accepted rows
* `handler ordered sequence lim off` → verdict
* `ladder v*`                   → the zone's ladder for these field values (hex entries)
* `rltel asc lim off zoneSize wk wv Z (shard seg zone L hex*)*` → `none` | `cutoff=.. kept=s:g:z,..`
  (`wk` ∈ - lt lte gt gte, `wv` the literal)
-/

def hexNat (s : String) : Option Nat :=
  s.toList.foldlM (fun acc c => (hexVal c).map (fun v => acc * 16 + v)) 0

def parseSV (tok : String) : Option SV :=
  match tok.toList with
  | ['n'] => some .null
  | ['b', '0'] => some (.bool false)
  | ['b', '1'] => some (.bool true)
  | 'i' :: r => (String.ofList r).toInt?.map .int
  | 't' :: r => (String.ofList r).toInt?.map .ts
  | 'f' :: r => if r.length = 16 then (hexNat (String.ofList r)).map .float else none
  | 's' :: r => (unhex (String.ofList r)).map fun bs => .utf8 (bs.map (·.toNat))
  | 'x' :: r => (unhex (String.ofList r)).map fun bs => .bin (bs.map (·.toNat))
  | _ => none

def hex16 (n : Nat) : String :=
  let ds := Nat.toDigits 16 n
  String.ofList (List.replicate (16 - ds.length) '0' ++ ds)

def hexOfNats (l : List Nat) : String := hexOfBytes (l.map UInt8.ofNat)

def optStr (o : Option String) : String := o.getD "-"

def ordLetter : Ordering → Char
  | .lt => 'L'
  | .eq => 'E'
  | .gt => 'G'

def optNat (s : String) : Option (Option Nat) :=
  if s == "-" then some none else s.toNat?.map some

abbrev Row := SV × Nat

def rowCmp (a b : Row) : Ordering := SV.compareScalarValues a.1 b.1

/-- parse `count` rows `(key id)` -/
def parseRows : Nat → List String → Option (List Row × List String)
  | 0, ts => some ([], ts)
  | k + 1, key :: id :: ts => do
    let v ← parseSV key
    let i ← id.toNat?
    let (rs, rest) ← parseRows k ts
    some ((v, i) :: rs, rest)
  | _, _ => none

def parseFlows : Nat → List String → Option (List (List Row) × List String)
  | 0, ts => some ([], ts)
  | k + 1, cnt :: ts => do
    let c ← cnt.toNat?
    let (rows, rest) ← parseRows c ts
    let (fs, rest') ← parseFlows k rest
    some (rows :: fs, rest')
  | _, _ => none

def parseShards : Nat → List String → Option (List (List (List Row)) × List String)
  | 0, ts => some ([], ts)
  | k + 1, cnt :: ts => do
    let c ← cnt.toNat?
    let (flows, rest) ← parseFlows c ts
    let (ss, rest') ← parseShards k rest
    some (flows :: ss, rest')
  | _, _ => none

def idsLine (rows : List Row) : String :=
  if rows.isEmpty then "-" else " ".intercalate (rows.map fun r => toString r.2)

def unhexNats (s : String) : Option (List Nat) := (unhex s).map fun bs => bs.map (·.toNat)

def parseLadder : Nat → List String → Option (List (List Nat) × List String)
  | 0, ts => some ([], ts)
  | k + 1, h :: ts => do
    let b ← unhexNats h
    let (r, rest) ← parseLadder k ts
    some (b :: r, rest)
  | _, _ => none

def parseZones : Nat → List String → Option (List Zone × List String)
  | 0, ts => some ([], ts)
  | k + 1, sh :: sg :: zn :: cnt :: ts => do
    let sh ← sh.toNat?
    let sg ← sg.toNat?
    let zn ← zn.toNat?
    let c ← cnt.toNat?
    let (lad, rest) ← parseLadder c ts
    let (zs, rest') ← parseZones k rest
    some (⟨sh, sg, zn, lad⟩ :: zs, rest')
  | _, _ => none

def parseWhere (wk wv : String) : Option (Option (WhereKind × Nat)) :=
  match wk with
  | "-" => some none
  | "lt" => wv.toNat?.map fun v => some (.lt, v)
  | "lte" => wv.toNat?.map fun v => some (.lte, v)
  | "gt" => wv.toNat?.map fun v => some (.gt, v)
  | "gte" => wv.toNat?.map fun v => some (.gte, v)
  | _ => none

def answer (line : String) : String :=
  match words line with
  | ["conv", v] =>
    match parseSV v with
    | some v =>
      s!"u={optStr (v.asU64.map toString)} i={optStr (v.asI64.map toString)} f={optStr (v.asF64.map hex16)} b={optStr (v.asBool.map fun b => if b then "1" else "0")} r={hexOfNats v.toStringRepr}"
    | none => "bad-op"
  | ["cmp", a, b, c] =>
    match parseSV a, parseSV b, parseSV c with
    | some a, some b, some c =>
      String.ofList ([SV.compare a b, SV.compare b a, SV.compare b c, SV.compare c b, SV.compare a c,
        SV.compare c a, SV.compare a a, SV.compare b b, SV.compare c c].map ordLetter)
    | _, _, _ => "bad-op"
  | "merge" :: asc :: lim :: off :: ns :: rest =>
    match asc.toNat?, optNat lim, optNat off, ns.toNat? with
    | some asc, some lim, some off, some ns =>
      match parseShards ns rest with
      | some (shards, []) =>
        idsLine (orderedQuery (heapPQ (itemCmp (asc != 0) rowCmp)) shards lim off)
      | _ => "bad-op"
    | _, _, _, _ => "bad-op"
  | "merge1" :: asc :: lim :: off :: nf :: rest =>
    match asc.toNat?, optNat lim, optNat off, nf.toNat? with
    | some asc, some lim, some off, some nf =>
      match parseFlows nf rest with
      | some (flows, []) =>
        idsLine (mergeRun (heapPQ (itemCmp (asc != 0) rowCmp)) flows (off.getD 0) lim)
      | _ => "bad-op"
    | _, _, _, _ => "bad-op"
  | "accept" :: lim :: off :: n :: ids =>
    match optNat lim, optNat off, n.toNat?, ids.mapM optNat with
    | some lim, some off, some n, some ids =>
      if ids.length ≠ n then "bad-op" else
      let rows := ids.zipIdx
      let out := acceptRows lim off {} rows
      if out.isEmpty then "-" else " ".intercalate (out.map fun r => toString r.2)
    | _, _, _, _ => "bad-op"
  | "ladder" :: vs =>
    match vs.mapM parseSV with
    | some svs =>
      match svs.mapM sortable with
      | some bs => " ".intercalate ((buildLadder bs).map hexOfNats)
      | none => "unsupported"
    | none => "bad-op"
  | "rltel" :: asc :: lim :: off :: zs :: wk :: wv :: nz :: rest =>
    match asc.toNat?, optNat lim, optNat off, zs.toNat?, parseWhere wk wv, nz.toNat? with
    | some asc, some lim, some off, some zs, some wb, some nz =>
      match parseZones nz rest with
      | some (zones, []) =>
        match planWithRlte zones (asc != 0) lim off zs wb with
        | none => "none"
        | some p =>
          let kept := ",".intercalate (p.kept.map fun z => s!"{z.shard}:{z.seg}:{z.zone}")
          s!"cutoff={hexOfNats p.cutoff} kept={kept}"
      | _ => "bad-op"
    | _, _, _, _, _, _ => "bad-op"
  | ["handler", ordered, sequence, lim, off] =>
    match ordered.toNat?, sequence.toNat?, optNat lim, optNat off with
    | some o, some s, some lim, some off =>
      match handlerLimits (o != 0) (s != 0) lim off with
      | .badRequestOffsetNeedsLimit => "bad-request offset-requires-limit"
      | .run l f => s!"run {optStr (l.map toString)} {optStr (f.map toString)}"
    | _, _, _, _ => "bad-op"
  | _ => "bad-op"

/-- `--interactive`: answer and flush line by line (the harness asks the model whether a failing
    response is the one the faithful model predicts). -/
partial def interactive (h out : IO.FS.Stream) : IO Unit := do
  let line ← h.getLine
  if line.isEmpty then return ()
  out.putStrLn (answer line)
  out.flush
  interactive h out

def main (args : List String) : IO Unit := do
  if args.contains "--interactive" then interactive (← IO.getStdin) (← IO.getStdout)
  else serve answer
