-- stub driver for C13: replaced when the property's model exists
def main : IO Unit := pure ()
