import Snel.Model.Proto
import Snel.Model.AuthRun
open Snel Snel.Proto Snel.Auth

/-! Driver for C13: one scenario per line (see `harness/src/bin/c13/main.rs` for the format). -/

def strOfHex (tok : String) : Option Str := do
  let bs ← unhex tok
  let s ← String.fromUTF8? (ByteArray.mk bs.toArray)
  some s.toList

def hexOfStr (s : Str) : String := hexOfBytes (String.ofList s).toUTF8.toList

/-- `_` = empty list, otherwise `+`-joined hex strings. -/
def listOfTok (tok : String) : Option (List Str) :=
  if tok == "_" then some [] else (tok.splitOn "+").mapM strOfHex

/-- Stand-in for `hex(HMAC-SHA256(key, msg))` shared with the harness: four FNV-1a lanes over
`key ‖ 0xff ‖ msg`, 64 lower-case hex digits. The harness renders the same request once with
real HMACs (for the real gate) and once with this function (for the model). -/
def toyMac (key msg : Str) : Str :=
  let bytes := (String.ofList key).toUTF8.toList ++ [0xff] ++ (String.ofList msg).toUTF8.toList
  let lane (i : Nat) : Nat :=
    bytes.foldl (fun h b => ((h ^^^ b.toNat) * 0x100000001b3) % 2^64)
      ((0xcbf29ce484222325 + i * 0x9e3779b97f4a7c15) % 2^64)
  let hex16 (n : Nat) : List Char := (List.range 16).map fun k => hexDigit ((n >>> (4 * (15 - k))) % 16)
  (List.range 4).flatMap fun i => hex16 (lane i)

/-- The n-th token minted in a scenario (the real ones are random; the harness substitutes). -/
def toyToken (n : Nat) : Str :=
  "abcdefabcdefabcd".toList ++ (List.range 48).map fun k => hexDigit ((n >>> (4 * (47 - k))) % 16)

/-- `char::is_alphanumeric` on the alphabet the generator draws from: ASCII, Latin-1 letters,
Greek and Cyrillic capitals/smalls. -/
def alnumU (c : Char) : Bool :=
  let n := c.toNat
  c.isAlphanum || (0xC0 ≤ n && n ≤ 0xFF && n != 0xD7 && n != 0xF7) ||
  (0x391 ≤ n && n ≤ 0x3A9 && n != 0x3A2) || (0x3B1 ≤ n && n ≤ 0x3C9) || (0x410 ≤ n && n ≤ 0x44F)

def parseCmd (tok : String) : Option (Option Cmd) :=
  match tok.splitOn "/" with
  | ["perr"] => some none
  | ["-"] => some none   -- the real gate rejected / answered AUTH: nothing was parsed
  | ["store", et, v] => do some (some (.store (← strOfHex et) (v == "1")))
  | ["query", h, t] => do some (some (.query (← strOfHex h) (← listOfTok t)))
  | ["compare", ets] => do some (some (.compare (← listOfTok ets)))
  | ["replay", "*"] => some (some (.replay none))
  | ["replay", et] => do some (some (.replay (some (← strOfHex et))))
  | ["remember", n, h, t] => do some (some (.remember (← strOfHex n) (← strOfHex h) (← listOfTok t)))
  | ["show", n] => do some (some (.show (← strOfHex n)))
  | ["flush"] => some (some .flush)
  | ["ping"] => some (some .ping)
  | ["batch"] => some (some .batch)
  | ["define", et] => do some (some (.define (← strOfHex et)))
  | ["mkuser", id, key, roles] => do some (some (.createUser (← strOfHex id) (← strOfHex key) (← listOfTok roles)))
  | ["revkey", id] => do some (some (.revokeKey (← strOfHex id)))
  | ["list"] => some (some .listUsers)
  | ["grant", ps, ets, u] => do some (some (.grant (← listOfTok ps) (← listOfTok ets) (← strOfHex u)))
  | ["revoke", ps, ets, u] => do some (some (.revoke (← listOfTok ps) (← listOfTok ets) (← strOfHex u)))
  | ["showperm", u] => do some (some (.showPermissions (← strOfHex u)))
  | _ => none

def parseStep (toks : List String) : Option Step :=
  match toks with
  | ["mk", id, key, roles] => do some (.mk (← strOfHex id) (← strOfHex key) (← listOfTok roles))
  | ["sp", id, et, rw] =>
    match rw.toList with
    | [r, w] => do
      if (r != '0' && r != '1') || (w != '0' && w != '1') then none
      some (.setPerm (← strOfHex id) (← strOfHex et) ⟨r == '1', w == '1'⟩)
    | _ => none
  | ["dp", id, et] => do some (.dropPerm (← strOfHex id) (← strOfHex et))
  | ["rk", id] => do some (.revKey (← strOfHex id))
  | ["conn", k] => do some (.conn (← k.toNat?))
  | ["req", k, line, d] => do some (.req (← k.toNat?) (← strOfHex line) (← parseCmd d))
  | ["tick", d] => do some (.tick (← d.toNat?))
  | ["restart"] => some .restart
  | ["dir", m, uid, d] => do
    if m != "0" && m != "1" then none
    let u ← if uid == "~" then some none else (strOfHex uid).map some
    match ← parseCmd d with
    | some c => some (.direct (m == "1") u c)
    | none => none
  | _ => none

def splitSteps (toks : List String) : List (List String) :=
  let rec go (rest : List String) (cur : List String) (acc : List (List String)) : List (List String) :=
    match rest with
    | [] => (if cur.isEmpty then acc else cur.reverse :: acc).reverse
    | ";" :: more => go more [] (if cur.isEmpty then acc else cur.reverse :: acc)
    | t :: more => go more (t :: cur) acc
  go toks [] []

def showStatus : Status → String
  | .s200 => "200" | .s400 => "400" | .s401 => "401" | .s403 => "403" | .s500 => "500" | .panic => "panic"

def showApi : ApiResult → String
  | .ok => "ok" | .exists_ => "exists" | .invalidId => "badid" | .idTooLong => "idlong"
  | .keyTooLong => "keylong" | .noUser => "nouser"

def showOut : Out → String
  | .api r => showApi r
  | .unit => "."
  | .rejected => "R"
  | .authOk u => s!"A.{hexOfStr u}"
  | .passed c u none => s!"P.{hexOfStr c}.{hexOfStr u}.perr"
  | .passed c u (some s) => s!"P.{hexOfStr c}.{hexOfStr u}.{showStatus s}"
  | .status s => showStatus s

def bit (s : String) : Option Bool := if s == "1" then some true else if s == "0" then some false else none

def answer (line : String) : String :=
  match words line with
  | "scn" :: b :: m :: x :: schemas :: rest =>
    match bit b, bit m, x.toNat?, listOfTok schemas, (splitSteps rest).mapM parseStep with
    | some b, some m, some x, some schemas, some steps =>
      let cfg : Cfg := ⟨b, m, x⟩
      let s0 : Sys := ⟨{ State.empty with schemas := schemas }, [], 1000, 0⟩
      " ".intercalate ((run toyMac alnumU toyToken cfg s0 steps).map showOut)
    | _, _, _, _, _ => "bad-op"
  | _ => "bad-op"

def main : IO Unit := serve answer
