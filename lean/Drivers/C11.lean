-- stub driver for C11: replaced when the property's model exists
def main : IO Unit := pure ()
