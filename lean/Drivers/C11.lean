import Snel.Model.ShardProto
import Snel.Model.Compact
open Snel

def main : IO Unit := Proto.serve (ShardProto.answerWith Shard.compactRound)
