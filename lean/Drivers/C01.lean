import Snel.Model.ShardProto
import Snel.Model.WalBufProto
open Snel

def main : IO Unit := Proto.serve fun line =>
  match WalBufProto.answer line with
  | some a => a
  | none => ShardProto.answerWith id line
