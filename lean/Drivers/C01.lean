-- stub driver for C01: replaced when the property's model exists
def main : IO Unit := pure ()
