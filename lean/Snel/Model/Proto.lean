/-! Line-protocol helpers shared by the drivers (no imports beyond core). -/
namespace Snel.Proto

def hexVal (c : Char) : Option Nat :=
  if '0' ≤ c ∧ c ≤ '9' then some (c.toNat - '0'.toNat)
  else if 'a' ≤ c ∧ c ≤ 'f' then some (c.toNat - 'a'.toNat + 10)
  else if 'A' ≤ c ∧ c ≤ 'F' then some (c.toNat - 'A'.toNat + 10)
  else none

/-- Decode a hex token into bytes; "-" is the empty string. -/
def unhex (s : String) : Option (List UInt8) :=
  if s == "-" then some [] else
  let rec go : List Char → List UInt8 → Option (List UInt8)
    | [], acc => some acc.reverse
    | [_], _ => none
    | a :: b :: rest, acc =>
      match hexVal a, hexVal b with
      | some x, some y => go rest (UInt8.ofNat (x * 16 + y) :: acc)
      | _, _ => none
  go s.toList []

def hexDigit (n : Nat) : Char :=
  if n < 10 then Char.ofNat (48 + n) else Char.ofNat (87 + n)

def hexOfBytes (bs : List UInt8) : String :=
  if bs.isEmpty then "-" else
  String.ofList (bs.flatMap fun b => [hexDigit (b.toNat / 16), hexDigit (b.toNat % 16)])

def words (line : String) : List String :=
  (line.trimAscii.toString.splitOn " ").filter (· ≠ "")

/-- Read stdin line by line, answer each with `f`. -/
partial def loop (h : IO.FS.Stream) (out : IO.FS.Stream) (f : String → String) : IO Unit := do
  let line ← h.getLine
  if line.isEmpty then
    out.flush
    return ()
  out.putStrLn (f line)
  loop h out f

def serve (f : String → String) : IO Unit := do
  loop (← IO.getStdin) (← IO.getStdout) f

end Snel.Proto
