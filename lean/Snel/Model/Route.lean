import Snel.Model.IdGen
import Snel.Gen.C12
/-!
Model of context routing and of the shard fan-out of reads (C12).

* `ShardManager::get_shard` (`src/engine/shard/manager.rs`): `DefaultHasher::new()` is
  `SipHasher13::new_with_keys(0, 0)`; `context_id.hash(&mut h)` is `h.write(bytes); h.write_u8(0xFF)`
  (`str`'s `Hash` framing); `finish() as usize % shards.len()`.
  `sipHash13` below is the streaming implementation of `core::hash::sip::Hasher<Sip13Rounds>`
  (8-byte little-endian words, a tail word, the total length in the top byte of the last word)
  on `UInt64` with wrapping addition, so it is executable and is what the `route` stream
  compares with the real `get_shard`. There is no per-process state anywhere in it.
* STORE (`src/command/handlers/store.rs`): a context that is empty after `trim()` is refused;
  otherwise the event goes to `get_shard(ctx)`; the shard worker (`worker.rs::on_store`)
  assigns `event_id_gen.next(self.id as u16)`.
* QUERY (`dispatch/streaming.rs`): **every** query — with or without `FOR` — is sent to all
  shards (`ctx.shard_manager.all_shards()`); each shard answers with its matching events; the
  handles are merged by fan-in in arrival order and the response writer
  (`streaming/response_writer.rs::try_accept_row`) drops a row whose `event_id` was already seen.

What is abstracted: the storage tiers inside one shard (memtable, passive buffers, segments, WAL
recovery) are one list of events in append order — that they neither lose nor duplicate events
is the subject of C01/C03/C05, not of C12.
-/
namespace Snel.Route
open Snel.IdGen

/-! ## SipHash-1-3 -/

structure SipState where
  v0 : UInt64
  v1 : UInt64
  v2 : UInt64
  v3 : UInt64
  deriving Repr, DecidableEq

@[inline] def rotl (x : UInt64) (k : UInt64) : UInt64 := (x <<< k) ||| (x >>> (64 - k))

/-- `compress!` of `core::hash::sip` (one SipRound). -/
def sipRound (s : SipState) : SipState :=
  let v0 := s.v0 + s.v1
  let v1 := rotl s.v1 13
  let v1 := v1 ^^^ v0
  let v0 := rotl v0 32
  let v2 := s.v2 + s.v3
  let v3 := rotl s.v3 16
  let v3 := v3 ^^^ v2
  let v0 := v0 + v3
  let v3 := rotl v3 21
  let v3 := v3 ^^^ v0
  let v2 := v2 + v1
  let v1 := rotl v1 17
  let v1 := v1 ^^^ v2
  let v2 := rotl v2 32
  ⟨v0, v1, v2, v3⟩

/-- `Hasher::reset` with `k0 = k1 = 0`. -/
def sipInit : SipState :=
  ⟨0x736f6d6570736575, 0x646f72616e646f6d, 0x6c7967656e657261, 0x7465646279746573⟩

/-- Streaming hasher: state, pending tail word, number of bytes in the tail, total length. -/
structure Hasher where
  st : SipState
  tail : UInt64
  ntail : Nat
  len : Nat
  deriving Repr

def Hasher.new : Hasher := ⟨sipInit, 0, 0, 0⟩

/-- One message word: `v3 ^= m; c_rounds (1 round); v0 ^= m`. -/
def absorb (s : SipState) (m : UInt64) : SipState :=
  let s := { s with v3 := s.v3 ^^^ m }
  let s := sipRound s
  { s with v0 := s.v0 ^^^ m }

/-- `write` of one byte (bytes fill the tail little-endian; a full tail is absorbed). -/
def Hasher.writeByte (h : Hasher) (b : UInt8) : Hasher :=
  let tail := h.tail ||| (b.toUInt64 <<< (8 * h.ntail).toUInt64)
  if h.ntail = 7 then ⟨absorb h.st tail, 0, 0, h.len + 1⟩
  else ⟨h.st, tail, h.ntail + 1, h.len + 1⟩

def Hasher.write (h : Hasher) (bs : List UInt8) : Hasher := bs.foldl Hasher.writeByte h

/-- `finish`: last word = length byte on top of the tail, then `v2 ^= 0xff` and 3 rounds. -/
def Hasher.finish (h : Hasher) : UInt64 :=
  let b : UInt64 := ((h.len % 256).toUInt64 <<< 56) ||| h.tail
  let s := absorb h.st b
  let s := { s with v2 := s.v2 ^^^ 0xff }
  let s := sipRound (sipRound (sipRound s))
  s.v0 ^^^ s.v1 ^^^ s.v2 ^^^ s.v3

/-- SipHash-1-3 with zero keys of a byte string. -/
def sipHash13 (msg : List UInt8) : UInt64 := (Hasher.new.write msg).finish

/-- A context id: the UTF-8 bytes of the Rust `String`. -/
abbrev Ctx := List UInt8

/-- `let mut h = DefaultHasher::new(); ctx.hash(&mut h); h.finish()`. -/
def ctxHash (ctx : Ctx) : UInt64 := ((Hasher.new.write ctx).writeByte 0xFF).finish

/-- `get_shard`: `(hash as usize) % shards.len()` (64-bit `usize`). -/
def route (ctx : Ctx) (n : Nat) : Nat := (ctxHash ctx).toNat % n

/-! ## `context_id.trim().is_empty()` on UTF-8 bytes

`str::trim` removes `char::is_whitespace` (Unicode `White_Space`): U+0009–U+000D, U+0020,
U+0085, U+00A0, U+1680, U+2000–U+200A, U+2028, U+2029, U+202F, U+205F, U+3000. -/

/-- Length in bytes of the white-space character at the head of `bs`, `0` if there is none. -/
def wsPrefix (bs : List UInt8) : Nat :=
  match bs with
  | [] => 0
  | b :: rest =>
    if (0x09 ≤ b && b ≤ 0x0D) || b == 0x20 then 1
    else if b == 0xC2 then
      match rest with
      | c :: _ => if c == 0x85 || c == 0xA0 then 2 else 0
      | _ => 0
    else if b == 0xE1 then
      match rest with
      | c :: d :: _ => if c == 0x9A && d == 0x80 then 3 else 0
      | _ => 0
    else if b == 0xE2 then
      match rest with
      | c :: d :: _ =>
        if c == 0x80 && ((0x80 ≤ d && d ≤ 0x8A) || d == 0xA8 || d == 0xA9 || d == 0xAF) then 3
        else if c == 0x81 && d == 0x9F then 3 else 0
      | _ => 0
    else if b == 0xE3 then
      match rest with
      | c :: d :: _ => if c == 0x80 && d == 0x80 then 3 else 0
      | _ => 0
    else 0

/-- All characters are white space (true for the empty string). Fuel = number of bytes. -/
def allWhiteFuel : Nat → List UInt8 → Bool
  | _, [] => true
  | 0, _ :: _ => false
  | fuel + 1, bs =>
    let k := wsPrefix bs
    if k = 0 then false else allWhiteFuel fuel (bs.drop k)

/-- `ctx.trim().is_empty()`. -/
def blank (ctx : Ctx) : Bool := allWhiteFuel ctx.length ctx

/-! ## The system of shards -/

/-- A stored event as far as C12 is concerned: context, assigned id, an opaque payload key. -/
structure Ev where
  ctx : Ctx
  id : Nat
  key : Nat
  deriving Repr, DecidableEq

/-- One shard: its id generator (volatile) and its events in append order (durable). -/
structure Shard where
  gen : Gen
  events : List Ev
  deriving Repr

/-- `shards` is `ShardManager::shards`; `applied` is a ghost log of the accepted STOREs in
acceptance order (with the ids they were given). -/
structure System where
  shards : List Shard
  applied : List Ev
  deriving Repr

def System.init (n : Nat) : System := ⟨List.replicate n ⟨Gen.init, []⟩, []⟩

def System.n (s : System) : Nat := s.shards.length

/-- The shard tag handed to the generator: `self.id as u16`. -/
def tagArg (i : Nat) : Nat := i % 2 ^ Snel.Gen.C12.shardTagCastBits

/-- STORE `key` for `ctx`; `clk` is what the system clock shows during the call (consumed by
`EventIdGenerator::next` of the target shard). A blank context is refused before routing; if
the clock script ends inside `wait_next_millis` the call has not returned and nothing is
stored. -/
def System.store (s : System) (ctx : Ctx) (key : Nat) (clk : List Nat) : System :=
  if blank ctx then s else
  let i := route ctx s.shards.length
  match s.shards[i]? with
  | none => s
  | some sh =>
    match step sh.gen clk (tagArg i) with
    | none => s
    | some (id, g, _) =>
      { shards := s.shards.set i ⟨g, sh.events ++ [⟨ctx, id, key⟩]⟩
        applied := s.applied ++ [⟨ctx, id, key⟩] }

/-- Restart on the same directories with the same shard count: events are kept, every
generator starts from `Default` again. -/
def System.restart (s : System) : System :=
  { s with shards := s.shards.map fun sh => ⟨Gen.init, sh.events⟩ }

inductive Op where
  | store (ctx : Ctx) (key : Nat) (clk : List Nat)
  | restart
  deriving Repr, DecidableEq

def System.apply (s : System) : Op → System
  | .store c k clk => s.store c k clk
  | .restart => s.restart

def System.run (s : System) (ops : List Op) : System := ops.foldl System.apply s

/-! ## Reads -/

/-- What one shard answers to a query with optional `FOR ctx` (event type and WHERE are not
part of C12; one event type). -/
def Shard.answer (q : Option Ctx) (sh : Shard) : List Ev :=
  match q with
  | none => sh.events
  | some c => sh.events.filter fun e => e.ctx == c

/-- The shards a query is sent to: all of them, whether or not `FOR` is present. -/
def System.asked (s : System) (_q : Option Ctx) : List Nat := List.range s.shards.length

/-- Rows reaching the response writer when shard answers arrive in shard order. The real
arrival order is any interleaving; the theorems quantify over every permutation of this. -/
def System.arrivals (s : System) (q : Option Ctx) : List Ev := s.shards.flatMap (Shard.answer q)

/-- `try_accept_row` without LIMIT/OFFSET: a row whose id was seen before is dropped. -/
def dedupIds : List Ev → List Nat → List Ev
  | [], _ => []
  | e :: es, seen => if e.id ∈ seen then dedupIds es seen else e :: dedupIds es (e.id :: seen)

/-- The response to rows arriving in order `arrived`. -/
def respond (arrived : List Ev) : List Ev := dedupIds arrived []

/-- Executable read (shard-order arrival). -/
def System.read (s : System) (q : Option Ctx) : List Ev := respond (s.arrivals q)

/-! ## Ordered reads (`ORDER BY k [DESC] LIMIT n OFFSET m`)

The order field of the `topk` stream is the payload key itself. Sorting, offset and limit are
C10's subject; here they are only composed with the fan-out, to say what an ordered read must
return when no shard is left out. -/

def insertByKey (asc : Bool) (e : Ev) : List Ev → List Ev
  | [] => [e]
  | x :: xs =>
    if (if asc then e.key ≤ x.key else x.key ≤ e.key) then e :: x :: xs
    else x :: insertByKey asc e xs

def sortByKey (asc : Bool) (l : List Ev) : List Ev := l.foldr (insertByKey asc) []

/-- The page an ordered read returns: all matching rows of all shards, sorted, sliced. -/
def System.readTop (s : System) (q : Option Ctx) (asc : Bool) (lim off : Nat) : List Ev :=
  ((sortByKey asc (s.read q)).drop off).take lim

/-! ## Storage tiers and per-shard zone maps

`ORDER BY` + `LIMIT` reads are planned by `RltePlanner` (`plan_with_rlte`): from the RLTE
ladders of the **flushed** segments it picks zones per shard, `PlanOutcome.picked_zones =
Some(map)`. `StreamingShardDispatcher::dispatch` still sends the query to every shard;
`ShardCommandBuilder::build_for_shard` gives a shard that is in the map its picked zones and a
shard that is absent from the map an *empty* zone list. Picked zones restrict the segment zones
a shard scans; its memtable and passive buffers are scanned regardless. -/

/-- A system together with a split of every shard's events into a flushed prefix (in segments)
and an in-memory suffix: `nflushed[i]` events of shard `i` are flushed. -/
structure Tiered where
  sys : System
  nflushed : List Nat

def Tiered.flushedOf (t : Tiered) (i : Nat) : Nat := t.nflushed.getD i 0

def Shard.segRows (sh : Shard) (f : Nat) : List Ev := sh.events.take f
def Shard.memRows (sh : Shard) (f : Nat) : List Ev := sh.events.drop f

/-- `PlanOutcome.picked_zones`: `none` = no zone map (every shard gets the base command);
`some m` = per-shard map, an entry says which flushed rows lie in the shard's picked zones. -/
abbrev ZoneMap := Option (List (Nat × (Ev → Bool)))

def qmatches (q : Option Ctx) (e : Ev) : Bool :=
  match q with
  | none => true
  | some c => e.ctx == c

/-- What shard `i` (with `f` flushed events) answers under the zone map. -/
def Shard.answerPlan (q : Option Ctx) (zm : ZoneMap) (i f : Nat) (sh : Shard) : List Ev :=
  match zm with
  | none => sh.events.filter (qmatches q)
  | some m =>
    match m.lookup i with
    | some allowed => ((sh.segRows f).filter allowed ++ sh.memRows f).filter (qmatches q)
    | none => (sh.memRows f).filter (qmatches q)

/-- The shards a planned query is sent to: all of them, whatever the zone map contains. -/
def Tiered.askedPlan (t : Tiered) (_q : Option Ctx) (_zm : ZoneMap) : List Nat :=
  List.range t.sys.shards.length

def Tiered.arrivalsPlan (t : Tiered) (q : Option Ctx) (zm : ZoneMap) : List Ev :=
  (t.askedPlan q zm).flatMap fun i =>
    match t.sys.shards[i]? with
    | some sh => sh.answerPlan q zm i (t.flushedOf i)
    | none => []

end Snel.Route
