import Snel.Model.ColumnBlock
/-!
`str::parse::<f64>` of Rust's standard library (`core::num::dec2flt`) re-modelled with exact
natural-number arithmetic: the grammar (`[+-]? (inf | infinity | nan | digits [. digits] [e[+-]digits])`,
case-insensitive keywords, at least one mantissa digit) and round-to-nearest, ties-to-even to
an IEEE-754 binary64 bit pattern. Tied to the real function by the `f64parse` correspondence
stream (so it is *validated*, not trusted); the theorems take the parser as a parameter and do
not depend on this file.
-/
namespace Snel.F64Parse
open Snel.ColumnBlock

def isDigit (b : UInt8) : Bool := 48 ≤ b.toNat && b.toNat ≤ 57

def spanDigits : Bytes → List Nat → List Nat × Bytes
  | [], acc => (acc.reverse, [])
  | b :: bs, acc => if isDigit b then spanDigits bs ((b.toNat - 48) :: acc) else (acc.reverse, b :: bs)

def digitsVal (ds : List Nat) : Nat := ds.foldl (fun a d => a * 10 + d) 0

def two52 : Nat := 4503599627370496
def two53 : Nat := 9007199254740992
def infBits : Nat := 0x7FF0000000000000
def nanBits : Nat := 0x7FF8000000000000
def signBit : Nat := 0x8000000000000000

/-- nearest binary64 (ties to even) of the positive rational `n / m`, as bits without sign -/
def roundRatio (n m : Nat) : Nat :=
  let e0 : Int := (n.log2 : Int) - (m.log2 : Int) - 52
  let quot (e : Int) : Nat × Nat × Nat :=
    let num := if e ≥ 0 then n else n * 2 ^ (-e).toNat
    let den := if e ≥ 0 then m * 2 ^ e.toNat else m
    (num / den, num % den, den)
  let e1 : Int := if (quot e0).1 < two52 then e0 - 1 else e0
  let e2 : Int := if e1 < -1074 then -1074 else e1
  let (q, r, den) := quot e2
  let q' := if 2 * r > den || (2 * r == den && q % 2 == 1) then q + 1 else q
  let (q'', e3) := if q' = two53 then (two52, e2 + 1) else (q', e2)
  if q'' < two52 then q''
  else
    let biased := e3 + 1075
    if biased ≥ 2047 then infBits else biased.toNat * two52 + (q'' - two52)

/-- value `d × 10^e10` for `d > 0` having `nd` significant decimal digits: far out of range
needs no big power -/
def decToBits (nd : Nat) (d : Unit → Nat) (e10 : Int) : Nat :=
  if (nd : Int) + e10 > 400 then infBits
  else if (nd : Int) + e10 < -400 then 0
  else if e10 ≥ 0 then roundRatio (d () * 10 ^ e10.toNat) 1
  else roundRatio (d ()) (10 ^ (-e10).toNat)

def parseF64 (s : Bytes) : Option Nat :=
  let (neg, body) : Bool × Bytes := match s with
    | 45 :: r => (true, r)
    | 43 :: r => (false, r)
    | _ => (false, s)
  let sgn := if neg then signBit else 0
  let lower := body.map lowerAscii
  if lower = [105, 110, 102] || lower = [105, 110, 102, 105, 110, 105, 116, 121] then some (sgn + infBits)
  else if lower = [110, 97, 110] then some (sgn + nanBits)
  else
    let (intDs, r1) := spanDigits body []
    let (fracDs, r2) : List Nat × Bytes := match r1 with
      | 46 :: r => spanDigits r []
      | _ => ([], r1)
    if intDs.isEmpty && fracDs.isEmpty then none
    else
      let exp? : Option Int := match r2 with
        | [] => some 0
        | c :: r =>
          if c == 101 || c == 69 then
            let (eneg, r') : Bool × Bytes := match r with
              | 45 :: t => (true, t)
              | 43 :: t => (false, t)
              | _ => (false, r)
            let (eds, tail) := spanDigits r' []
            if eds.isEmpty || !tail.isEmpty then none
            else some (if eneg then -(digitsVal eds : Int) else (digitsVal eds : Int))
          else none
      match exp? with
      | none => none
      | some e =>
        let sig := (intDs ++ fracDs).dropWhile (· == 0)
        if sig.isEmpty then some sgn
        else some (sgn + decToBits sig.length (fun _ => digitsVal sig) (e - (fracDs.length : Int)))

end Snel.F64Parse
