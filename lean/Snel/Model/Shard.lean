/-!
# The shard machine

One shard of SnelDB as an executable small-step machine (DESIGN §5). Steps are the hook-point
intervals of the real code (`/repo/src/verif.rs` points):

* `store`      — `on_store` + `insert_and_maybe_flush` (WAL append, memtable insert, rotation)
* `flushCmd`   — manual FLUSH: rotation even when the memtable is empty (`worker.rs::on_flush`)
* `flushStep`  — the flush worker advances its head job by one interval
                 (`flush_worker.rs` / `flusher.rs`): zones written → index saved → published →
                 passive cleared → WAL cleaned → finished
* `compact`    — one round of `CompactionWorker::run` (policy plan from the index, batches,
                 output written, hand-over, reclaim), taken atomically here; `Snel.Model.Compact`
                 refines it for crash points
* `crash`      — process kill: every volatile component is lost
* `restart`    — `ShardContext::new`: allocator from the numeric directory names, live list =
                 those of them the segment index names (all of them while no index file
                 exists), WAL writer position from the files, WAL replay of every log into
                 the memtable

Reads (`visible`, `count`) model what `scan` sees: active memtable, non-empty passive buffers,
and every segment in `live ∪ in-flight` whose files exist.

Events are identified by `k` (the harness gives every event a unique payload key; the real
event id plays the same role and is preserved by the WAL).
-/
namespace Snel.Shard

structure Ev where
  k : Nat
  ctx : Nat
  ty : Nat
  deriving DecidableEq, Repr, Inhabited

/-- A queued flush job; `step` counts completed hook intervals. -/
structure Job where
  seg : Nat
  evs : List Ev
  step : Nat
  deriving DecidableEq, Repr

structure Shard where
  cap : Nat
  kmerge : Nat
  -- volatile
  mem : List Ev
  passives : List (Nat × List Ev)
  jobs : List Job
  live : List Nat
  nextL0 : Nat
  walOpen : Nat
  walCount : Nat
  walOrphan : Bool
  /-- segment labels that have existed during this process lifetime (per-label caches) -/
  everSeg : List Nat := []
  /-- a compaction output reused a label of this lifetime: per-label caches may be stale
  (finding C05-stale-cache-on-segment-id-reuse); reads are not compared from then on -/
  tainted : Bool := false
  /-- a kill inside a segment write happened while no `segments.idx` existed: the incomplete
  directory is registered by the next index rebuild (`recover_from_disk` takes any directory with
  a `.zones` file); reads are not compared from then on (finding C01-kill-in-first-segment-write) -/
  poisoned : Bool := false
  -- durable
  segs : List (Nat × List Ev)
  index : List (Nat × List Nat)
  /-- `segments.idx` exists (it is created by the first save) -/
  indexExists : Bool := false
  wal : List (Nat × List Ev)
  deriving Repr

def levelSpan : Nat := 10000

def Shard.init (cap kmerge : Nat) : Shard :=
  { cap, kmerge, mem := [], passives := [], jobs := [], live := [], nextL0 := 0,
    walOpen := 0, walCount := 0, walOrphan := false, segs := [], index := [],
    -- a fresh shard writes its empty `segments.idx` at start (`ShardContext::published_segments`)
    indexExists := true,
    -- the WAL task creates `wal-00000.log` when it starts
    wal := [(0, [])] }

/-! ## WAL writer -/

def walPut (wal : List (Nat × List Ev)) (id : Nat) (e : Ev) : List (Nat × List Ev) :=
  if wal.any (·.1 == id) then wal.map fun (i, es) => if i == id then (i, es ++ [e]) else (i, es)
  else wal ++ [(id, [e])]

def walEnsure (wal : List (Nat × List Ev)) (id : Nat) : List (Nat × List Ev) :=
  if wal.any (·.1 == id) then wal else wal ++ [(id, [])]

/-- `append_immediate` then the rotation check of the WAL task. With an unlinked open file
(`walOrphan`) the entry goes to an inode no directory names. -/
def walAppend (s : Shard) (e : Ev) : Shard :=
  let s := if s.walOrphan then s else { s with wal := walPut s.wal s.walOpen e }
  let s := { s with walCount := s.walCount + 1 }
  if s.walCount ≥ s.cap then
    -- rotate: close, id + 1, create the new file, recount (the new file is the latest: 0)
    { s with walOpen := s.walOpen + 1, walCount := 0, walOrphan := false,
             wal := walEnsure s.wal (s.walOpen + 1) }
  else s

/-! ## Memtable rotation -/

def rotate (s : Shard) : Shard :=
  { s with passives := s.passives ++ [(s.nextL0, s.mem)],
           jobs := s.jobs ++ [⟨s.nextL0, s.mem, 0⟩],
           nextL0 := s.nextL0 + 1, mem := [] }

def store (s : Shard) (e : Ev) : Shard :=
  let s := walAppend s e
  let s := { s with mem := s.mem ++ [e] }
  if s.mem.length ≥ s.cap then rotate s else s

def flushCmd (s : Shard) : Shard := rotate s

/-! ## Flush worker -/

def insertSorted (x : Nat) : List Nat → List Nat
  | [] => [x]
  | y :: ys => if x ≤ y then x :: y :: ys else y :: insertSorted x ys

def sortNat (xs : List Nat) : List Nat := xs.foldr insertSorted []

def maxOpt (xs : List Nat) : Option Nat := xs.foldl (fun m x => match m with | none => some x | some y => some (max x y)) none


def typesOf (evs : List Ev) : List Nat :=
  (evs.map (·.ty)).eraseDups

/-- `WalCleaner::cleanup_up_to(bound)`: every `wal-<id>.log` with `id < bound` is unlinked; if
that includes the file the writer has open, later appends are orphaned. -/
def walClean (s : Shard) (bound : Nat) : Shard :=
  { s with wal := s.wal.filter (fun (i, _) => ¬ (i < bound)),
           walOrphan := s.walOrphan || (s.walOpen < bound && s.wal.any (·.1 == s.walOpen)) }

def clearPassive (ps : List (Nat × List Ev)) (seg : Nat) : List (Nat × List Ev) :=
  ps.map fun (i, es) => if i == seg then (i, []) else (i, es)

/-- `SegmentIndex::recover_from_disk`: one entry per 5-digit directory that holds at least one
`<uid>.zones` file, listing those uids. -/
def recoverIndex (segs : List (Nat × List Ev)) : List (Nat × List Nat) :=
  (sortNat ((segs.map (·.1)).eraseDups)).filterMap fun id =>
    let tys := typesOf ((segs.filter (·.1 == id)).flatMap (·.2))
    if id < 100000 && !tys.isEmpty then some (id, tys) else none

/-- `SegmentIndex::load`: when `segments.idx` is missing the index is rebuilt from the directory
listing and saved if anything was found. -/
def loadIndex (s : Shard) : Shard :=
  if s.indexExists then s
  else
    let r := recoverIndex s.segs
    if r.isEmpty then s else { s with index := r, indexExists := true }

/-- Advance the head job by one hook interval. An empty job finishes at once: it consumed a
segment id but creates no directory. -/
def flushStep (s : Shard) : Shard :=
  match s.jobs with
  | [] => s
  | j :: rest =>
    if j.evs.isEmpty then { s with jobs := rest }
    else match j.step with
      | 0 => { s with segs := s.segs ++ [(j.seg, j.evs)], everSeg := s.everSeg ++ [j.seg],
                      jobs := { j with step := 1 } :: rest }
      | 1 =>
        -- `SegmentIndexBuilder::add_segment_entry`: load, insert (replaces an entry of the same id), save
        { s with index := (loadIndex s).index.filter (fun ent => ent.1 != j.seg) ++ [(j.seg, typesOf j.evs)],
                 indexExists := true, jobs := { j with step := 2 } :: rest }
      | 2 => { s with live := if s.live.contains j.seg then s.live else s.live ++ [j.seg],
                      jobs := { j with step := 3 } :: rest }
      | 3 => { s with passives := clearPassive s.passives j.seg, jobs := { j with step := 4 } :: rest }
      | 4 => { walClean s (j.seg + 1) with jobs := { j with step := 5 } :: rest }
      | _ => { s with jobs := rest }

/-- Steps a non-empty job needs from queued to finished. -/
def jobSteps : Nat := 6

/-- Run the flush worker until no job is left (`fuel` ≥ 6 × jobs suffices). -/
def drain : Nat → Shard → Shard
  | 0, s => s
  | n + 1, s => if s.jobs.isEmpty then s else drain n (flushStep s)

def drainAll (s : Shard) : Shard := drain (jobSteps * s.jobs.length + 1) s

/-! ## Reads -/

def inflight (s : Shard) : List Nat := s.jobs.map (·.seg)

def segRows (s : Shard) (id : Nat) : List Ev :=
  (s.segs.filter (·.1 == id)).flatMap (·.2)

/-- Segment ids a read visits: the live list and the in-flight set (each once). -/
def readSegs (s : Shard) : List Nat :=
  (s.live ++ (inflight s).filter (fun i => ¬ s.live.contains i)).eraseDups

/-- Every row a scan produces, with multiplicity (what COUNT sees). -/
def scanRows (s : Shard) : List Ev :=
  s.mem ++ s.passives.flatMap (·.2) ++ (readSegs s).flatMap (segRows s)

def count (s : Shard) : Nat := (scanRows s).length

/-- `QUERY ev<ty> COUNT` as the code computes it: the aggregate plan does not apply the
event-type condition to memtable rows (active and passive), segment files are per type. -/
def countTy (s : Shard) (ty : Nat) : Nat :=
  s.mem.length + (s.passives.flatMap (·.2)).length
    + (((readSegs s).flatMap (segRows s)).filter (·.ty == ty)).length

/-- Sum of `QUERY ev<t> COUNT` over the `n` defined types (what the harness prints). -/
def countAllTypes (s : Shard) (n : Nat) : Nat :=
  ((List.range n).map (countTy s)).foldl (· + ·) 0

/-- Selection result: rows deduplicated by id (`try_accept_row`). -/
def visibleKeys (s : Shard) : List Nat := ((scanRows s).map (·.k)).eraseDups

/-! ## Crash and restart -/

def crash (s : Shard) : Shard :=
  { s with mem := [], passives := [], jobs := [], live := [] }

/-- Directories the restart serves: all of them while no `segments.idx` exists, otherwise those
the index names (`ShardContext::published_segments`). -/
def published (s : Shard) (dirs : List Nat) : List Nat :=
  if s.indexExists then dirs.filter (fun d => s.index.any (·.1 == d)) else dirs

/-- `ShardContext::new` on the durable state. -/
def restart (s : Shard) : Shard :=
  let dirs := sortNat ((s.segs.map (·.1)).eraseDups)
  let l0 := dirs.filter (· < levelSpan)
  let nextL0 := match maxOpt l0 with | none => 0 | some m => m + 1
  let walIds := sortNat (s.wal.map (·.1))
  let replay := walIds.flatMap fun i => (s.wal.filter (·.1 == i)).flatMap (·.2)
  -- find_next_wal_id / count_entries / start_next_log_file
  let last := (maxOpt walIds).getD 0
  let lastLen := ((s.wal.filter (·.1 == last)).flatMap (·.2)).length
  let openId := if last == 0 then 0 else if lastLen < s.cap then last else last + 1
  let wal := walEnsure s.wal openId
  let openLen := ((wal.filter (·.1 == openId)).flatMap (·.2)).length
  -- no index file and no directory: the empty index is written now
  let fresh := !s.indexExists && dirs.isEmpty
  { s with mem := replay, passives := [], jobs := [], live := published s dirs, nextL0 := nextL0,
           index := if fresh then [] else s.index, indexExists := s.indexExists || fresh,
           everSeg := dirs, tainted := false,
           walOpen := openId, walCount := openLen, walOrphan := false, wal := wal }

/-- The head job's directory exists with incomplete files — no readable row — and nothing else of
the job has happened. -/
def midWrite (s : Shard) (j : Job) : Shard :=
  { s with segs := s.segs ++ [(j.seg, [])], poisoned := s.poisoned || !s.indexExists }

/-- Process kill INSIDE the segment write of the head job (`zonewriter.*` points), then restart.
No job parked at its start: nothing happens. -/
def crashMid (s : Shard) : Shard :=
  match s.jobs with
  | j :: _ => if j.step == 0 && !j.evs.isEmpty then restart (crash (midWrite s j)) else s
  | [] => s

/-- The head job cannot create its segment directory (`Flusher::flush` answers an error at
`create_dir_all`): the job is over, its passive buffer is RETAINED (the flush worker clears it only
after verification; the rows are still in the WAL), the in-flight marker is dropped, no WAL
cleanup runs. Applies to a job parked at its start whose directory id is not on disk; an empty job
ends the same way (it never creates a directory). Otherwise nothing happens. -/
def failHead (s : Shard) : Shard :=
  match s.jobs with
  | j :: rest => if j.step == 0 && !s.segs.any (·.1 == j.seg) then { s with jobs := rest } else s
  | [] => s

/-- Clean shutdown as the harness performs it: `flush_all` (manual flush, waits), then WAL
shutdown. -/
def shutdown (s : Shard) : Shard := drainAll (flushCmd (drainAll s))

/-! ## Operations -/

inductive Op where
  | store (e : Ev)
  | flushCmd
  | flushStep
  | drain
  | crash      -- kill + restart
  | shutdown   -- clean stop + restart
  deriving Repr

def step (s : Shard) : Op → Shard
  | .store e => store s e
  | .flushCmd => drainAll (flushCmd s)     -- FLUSH waits for its own job (FIFO: all earlier too)
  | .flushStep => flushStep s
  | .drain => drainAll s
  | .crash => restart (crash s)
  | .shutdown => restart (crash (shutdown s))

def runOps (s : Shard) (ops : List Op) : Shard := ops.foldl step s

end Snel.Shard
