/-!
# The WAL writer at byte level

`InnerWalWriter::append_immediate` on top of `std::io::BufWriter` (`inner_wal_writer.rs`):
an entry is serialised to one JSON line and handed to the buffered writer; a process kill loses
whatever is still in the buffer; the next lifetime opens the same file in append mode.

`BufWriter::write_all(data)` (std, `bufwriter.rs`): if the data does not fit in the free space the
buffer is flushed first; data at least as large as the capacity is written through, anything else
is copied into the buffer. With `wal.buffered = false` the capacity is 0 (every write goes
through), with `flush_each_write` the buffer is flushed after every entry.

Bytes are `Nat`s; `nl` is the newline. An entry is the list of bytes of its JSON text (which
contains no newline: `serde_json::to_string` escapes control characters).
-/
namespace Snel.WalBuf

def nl : Nat := 10

structure W where
  cap : Nat
  /-- bytes of the open log file on disk -/
  disk : List Nat
  /-- bytes held by the `BufWriter` -/
  buf : List Nat
  deriving Repr, DecidableEq

/-- `BufWriter::write_all`. -/
def write (w : W) (data : List Nat) : W :=
  let w := if w.buf.length + data.length > w.cap then { w with disk := w.disk ++ w.buf, buf := [] } else w
  if data.length ≥ w.cap then { w with disk := w.disk ++ data } else { w with buf := w.buf ++ data }

def flush (w : W) : W := { w with disk := w.disk ++ w.buf, buf := [] }

/-- `append_immediate` as the code has it since the repair: one write per entry. -/
def append (flushEach : Bool) (w : W) (json : List Nat) : W :=
  let w := write w (json ++ [nl])
  if flushEach then flush w else w

/-- `append_immediate` as it was: the JSON and the newline in two writes. -/
def appendTwo (flushEach : Bool) (w : W) (json : List Nat) : W :=
  let w := write (write w json) [nl]
  if flushEach then flush w else w

/-- Process kill: the buffer is gone. The next lifetime appends to the same file. -/
def kill (w : W) : W := { w with buf := [] }

/-- Clean stop: `flush_and_close`. -/
def close (w : W) : W := flush w

/-- Split at newlines, the way `BufRead::lines` does: a trailing unterminated piece is a line
too, a trailing newline does not open an empty one. -/
def linesAux : List Nat → List Nat → List (List Nat)
  | cur, [] => if cur.isEmpty then [] else [cur]
  | cur, b :: rest => if b = nl then cur :: linesAux [] rest else linesAux (cur ++ [b]) rest

def lines (bytes : List Nat) : List (List Nat) := linesAux [] bytes

/-- One lifetime: entries appended in order, then killed. -/
def lifetime (flushEach : Bool) (w : W) (entries : List (List Nat)) : W :=
  kill (entries.foldl (append flushEach) w)

def lifetimeTwo (flushEach : Bool) (w : W) (entries : List (List Nat)) : W :=
  kill (entries.foldl (appendTwo flushEach) w)

end Snel.WalBuf
