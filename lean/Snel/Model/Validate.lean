import Snel.Gen.C06
/-!
Model of STORE / DEFINE admission (property C06).

Rust sources modelled, bug for bug:

* `src/engine/schema/types.rs`      `FieldType`, `from_primitive_str`, `from_spec_with_nullable`
* `src/engine/schema/registry.rs`   `From<CommandMiniSchema> for MiniSchema`, `define` / `define_async`
* `src/command/handlers/store.rs`   `type_allows_value`, `validate_payload`, decision order of `handle`
* `src/engine/schema/normalization.rs`  `PayloadTimeNormalizer::normalize`
* `src/shared/time.rs`              `normalize_json_value`, `parse_str_to_epoch_seconds`,
                                    `normalize_integer_epoch`, `num_digits_u128`
* `src/engine/core/memory/memtable.rs`  the two `trim().is_empty()` checks of `insert`
* `src/command/handlers/define.rs`  answer of `handle` (ok / error, registry untouched on error)

External library behaviour that is a *parameter* of the model (`TimeLib.cal`): what chrono's
`DateTime::parse_from_rfc3339` followed by `NaiveDate::parse_from_str(_, "%Y-%m-%d")` answers
for a (trimmed) string. Everything around those two calls (trim, order of attempts, numeric
fallback, digit bands, float floor, i64 conversion) is modelled.

JSON values are serde_json's data model without `arbitrary_precision`:
`Number = PosInt(u64) | NegInt(i64) | Float(f64)`; an `f64` is its bit pattern.
`HashMap` / `serde_json::Map` become association lists; every theorem quantifies over all
lists, i.e. over every iteration order.
-/
namespace Snel.Validate
open Snel.Gen.C06

/-! ## JSON -/

/-- `serde_json::Number` (`N::PosInt(u64) | N::NegInt(i64) | N::Float(f64)`). -/
inductive Num where
  | pos (n : UInt64)
  /-- `NegInt` always holds a negative value (serde_json stores non-negative integers as
  `PosInt`); the subtype keeps that invariant in the type. -/
  | neg (i : { i : Int64 // i < 0 })
  | flt (bits : UInt64)
  deriving DecidableEq

/-- `serde_json::Value`. -/
inductive Json where
  | null
  | bool (b : Bool)
  | num (n : Num)
  | str (s : String)
  | arr (xs : List Json)
  | obj (kvs : List (String × Json))

def Json.isString : Json → Bool
  | .str _ => true
  | _ => false

def Json.isNumber : Json → Bool
  | .num _ => true
  | _ => false

def Json.isBoolean : Json → Bool
  | .bool _ => true
  | _ => false

def Json.isNull : Json → Bool
  | .null => true
  | _ => false

def i64Max : Nat := 9223372036854775807

/-- `Value::as_u64().is_some()`: only `PosInt`. -/
def Json.asU64IsSome : Json → Bool
  | .num (.pos _) => true
  | _ => false

/-- `Value::as_i64().is_some()`: `PosInt(n)` with `n ≤ i64::MAX`, or any `NegInt`. -/
def Json.asI64IsSome : Json → Bool
  | .num (.pos n) => decide (n.toNat ≤ i64Max)
  | .num (.neg _) => true
  | _ => false

/-- `Value::as_f64().is_some()`: every number (integers are converted). -/
def Json.asF64IsSome : Json → Bool
  | .num _ => true
  | _ => false

/-! ## Characters and strings (`str::trim`, `eq_ignore_ascii_case`, `to_ascii_lowercase`) -/

/-- Unicode `White_Space` (what `char::is_whitespace` / `str::trim` use). -/
def isWs (c : Char) : Bool :=
  let n := c.toNat
  (9 ≤ n && n ≤ 13) || n == 32 || n == 0x85 || n == 0xA0 || n == 0x1680 ||
  (0x2000 ≤ n && n ≤ 0x200A) || n == 0x2028 || n == 0x2029 || n == 0x202F ||
  n == 0x205F || n == 0x3000

def trimStart (cs : List Char) : List Char := cs.dropWhile isWs
def trimEnd (cs : List Char) : List Char := (cs.reverse.dropWhile isWs).reverse
/-- `str::trim` on the character list. -/
def trimChars (cs : List Char) : List Char := trimEnd (trimStart cs)

/-- `s.trim().is_empty()`. -/
def blank (s : String) : Bool := (trimChars s.toList).isEmpty

def lowerChar (c : Char) : Char :=
  if 'A' ≤ c ∧ c ≤ 'Z' then Char.ofNat (c.toNat + 32) else c

/-- `str::to_ascii_lowercase`. -/
def asciiLower (cs : List Char) : List Char := cs.map lowerChar

/-- `a.eq_ignore_ascii_case(b)`. -/
def eqIgnoreAsciiCase (a b : List Char) : Bool := asciiLower a == asciiLower b

/-- `s.split(sep)`: always at least one part. -/
def splitSep (sep : Char) : List Char → List (List Char)
  | [] => [[]]
  | c :: cs =>
    if c = sep then [] :: splitSep sep cs
    else match splitSep sep cs with
      | [] => [[c]]          -- unreachable: splitSep never returns []
      | p :: ps => (c :: p) :: ps

/-! ## Field types and DEFINE -/

/-- `engine::schema::types::FieldType`. -/
inductive FieldType where
  | string | u64 | i64 | f64 | bool
  | timestamp | date
  | optional (inner : FieldType)
  | enum (variants : List String)
  deriving DecidableEq, Repr

def primToField : Prim → FieldType
  | .string => .string
  | .u64 => .u64
  | .i64 => .i64
  | .f64 => .f64
  | .bool => .bool
  | .timestamp => .timestamp
  | .date => .date

/-- `FieldType::from_primitive_str`: lower-case, then the alias table (generated from the
source). -/
def fromPrimitiveChars (cs : List Char) : Option FieldType :=
  (primAliases.lookup (String.ofList (asciiLower cs))).map primToField

def isNullKw (p : List Char) : Bool := eqIgnoreAsciiCase p nullKeyword.toList

/-- `FieldType::from_spec_with_nullable`. With a `|` in the text: parts are trimmed, the
*first* part that is not `null` decides the base type (further parts are ignored), the result
is `Optional` iff some part is `null`; if that first non-null part is not an alias (e.g. it
is empty) the answer is `None`. -/
def fromSpecChars (cs : List Char) : Option FieldType :=
  if cs.contains unionSeparator then
    let parts := (splitSep unionSeparator cs).map trimChars
    let hasNull := parts.any isNullKw
    match parts.find? (fun p => !isNullKw p) with
    | some nn =>
      match fromPrimitiveChars nn with
      | some base => some (if hasNull then .optional base else base)
      | none => none
    | none => none
  else fromPrimitiveChars cs

/-- `command::types::FieldSpec`. -/
inductive FieldSpec where
  | prim (s : String)
  | enum (variants : List String)
  deriving DecidableEq, Repr

/-- One entry of `impl From<CommandMiniSchema> for MiniSchema`: unknown primitive spellings
silently become `String`. -/
def fieldOfSpec : FieldSpec → FieldType
  | .prim s => (fromSpecChars s.toList).getD .string
  | .enum vs => .enum vs

/-- `MiniSchema.fields` as the list of entries in iteration order. -/
abbrev Schema := List (String × FieldType)

def schemaOfSpecs (specs : List (String × FieldSpec)) : Schema :=
  specs.map fun (k, s) => (k, fieldOfSpec s)

/-! ## `type_allows_value` / `validate_payload` -/

/-- `type_allows_value`. -/
def typeAllows : FieldType → Json → Bool
  | .string, v => v.isString
  | .u64, v => v.asU64IsSome
  | .i64, v => v.asI64IsSome
  | .f64, v => v.asF64IsSome
  | .bool, v => v.isBoolean
  | .timestamp, v => v.isString || v.isNumber
  | .date, v => v.isString || v.isNumber
  | .optional inner, v => v.isNull || typeAllows inner v
  | .enum vs, v =>
    match v with
    | .str s => vs.any (· == s)
    | _ => false

def FieldType.isOptional : FieldType → Bool
  | .optional _ => true
  | _ => false

inductive VErr where
  | notObject
  | mismatch (field : String)
  | missing (field : String)
  | extra (keys : List String)
  deriving DecidableEq, Repr

/-- The `for (field, field_type) in &schema.fields` loop: first failing entry wins. -/
def checkFields (kvs : List (String × Json)) : Schema → Option VErr
  | [] => none
  | (f, ty) :: rest =>
    match kvs.lookup f with
    | some v => if typeAllows ty v then checkFields kvs rest else some (.mismatch f)
    | none => if ty.isOptional then checkFields kvs rest else some (.missing f)

/-- `actual_keys.difference(&allowed_keys)` (as a list, in payload order). -/
def extraKeys (schema : Schema) (kvs : List (String × Json)) : List String :=
  (kvs.map Prod.fst).filter fun k => !(schema.map Prod.fst).contains k

/-- `validate_payload`: `none` = `Ok(())`. -/
def validatePayload (schema : Schema) : Json → Option VErr
  | .obj kvs =>
    match checkFields kvs schema with
    | some e => some e
    | none =>
      let ex := extraKeys schema kvs
      if ex.isEmpty then none else some (.extra ex)
  | _ => some .notObject

/-! ## Time normalisation -/

/-- chrono, as a parameter: epoch seconds that `parse_from_rfc3339`, else
`NaiveDate::parse_from_str(_, "%Y-%m-%d")` at midnight UTC, give for the trimmed text. -/
structure TimeLib where
  /-- chrono's `timestamp()` is an `i64`. -/
  cal : String → Option Int64

/-- `num_digits_u128`. -/
def numDigits (x : Nat) : Nat :=
  if x < 10 then 1 else 1 + numDigits (x / 10)
decreasing_by omega

def i64Min : Int := -9223372036854775808

def inI64 (z : Int) : Bool := decide (i64Min ≤ z) && decide (z ≤ (i64Max : Int))

/-- Divisor and rounding of the digit band `digits` falls in (`None` above the last band). -/
def bandDivisor (digits : Nat) : List (Nat × Nat × Nat × DivMode) → Option (Nat × DivMode)
  | [] => none
  | (lo, hi, d, m) :: rest =>
    if lo ≤ digits ∧ digits ≤ hi then some (d, m) else bandDivisor digits rest

/-- The arm's expression, as spelled in the source (generated `DivMode`): `n`, `n / d`
(`i128` division truncates toward zero) or `n.div_euclid(d)` (Euclidean; floor for `d > 0`). -/
def applyDiv : DivMode → Int → Nat → Int
  | .ident, n, _ => n
  | .trunc, n, d => Int.tdiv n d
  | .floor, n, d => Int.ediv n d

/-- `TimeParser::normalize_integer_epoch`. -/
def normalizeIntegerEpoch (n : Int) : Option Int :=
  match bandDivisor (numDigits n.natAbs) epochBands with
  | none => none
  | some (d, mode) =>
    let secs := applyDiv mode n d
    if inI64 secs then some secs else none

def isDigit (c : Char) : Bool := '0' ≤ c && c ≤ '9'

def digitsValue (cs : List Char) : Nat :=
  cs.foldl (fun acc c => acc * 10 + (c.toNat - '0'.toNat)) 0

def i128Max : Int := 170141183460469231731687303715884105727

/-- `str::parse::<i128>()`: optional single sign, at least one ASCII digit, in range. -/
def parseI128 (cs : List Char) : Option Int :=
  let (negative, ds) :=
    match cs with
    | '-' :: r => (true, r)
    | '+' :: r => (false, r)
    | r => (false, r)
  if ds.isEmpty || !ds.all isDigit then none
  else
    let v : Int := digitsValue ds
    let z := if negative then -v else v
    if -i128Max - 1 ≤ z ∧ z ≤ i128Max then some z else none

/-- `TimeParser::parse_str_to_epoch_seconds` (both `TimeKind`s run the same code). -/
def parseTimeStr (lib : TimeLib) (s : String) : Option Int :=
  let t := trimChars s.toList
  match lib.cal (String.ofList t) with
  | some z => some z.toInt
  | none =>
    match parseI128 t with
    | some n => normalizeIntegerEpoch n
    | none => none

/-- Saturating `as i64`. -/
def clampI64 (z : Int) : Int :=
  if z < i64Min then i64Min else if (i64Max : Int) < z then i64Max else z

/-- `f.floor() as i64` on the bit pattern (saturating cast, NaN ↦ 0). -/
def floorToI64 (bits : UInt64) : Int :=
  let b := bits.toNat
  let negative := b / 2 ^ 63 = 1
  let e := (b / 2 ^ 52) % 2048
  let m := b % 2 ^ 52
  if e = 2047 then
    if m = 0 then (if negative then i64Min else i64Max) else 0
  else if e = 0 then
    if m = 0 then 0 else if negative then -1 else 0
  else
    let mant : Int := (m + 2 ^ 52 : Nat)
    let signed : Int := if negative then -mant else mant
    if 1075 ≤ e then clampI64 (signed * (2 ^ (e - 1075) : Nat))
    else clampI64 (Int.fdiv signed ((2 ^ (1075 - e) : Nat) : Int))

/-- `serde_json::Number::from(i64)`. -/
def numOfI64 (z : Int) : Num :=
  if h : Int64.ofInt z < 0 then .neg ⟨Int64.ofInt z, h⟩ else .pos (UInt64.ofNat z.toNat)

inductive TErr where
  | magnitude     -- "Unrecognized integer time magnitude: …"
  | badString     -- "Invalid time string: '…'"
  | badKind       -- "Time field must be a number or string"
  deriving DecidableEq, Repr

/-- `TimeParser::normalize_json_value`. -/
def normalizeJsonValue (lib : TimeLib) : Json → Except TErr Json
  | .num (.pos n) =>
    match normalizeIntegerEpoch (n.toNat : Int) with
    | some z => .ok (.num (numOfI64 z))
    | none => .error .magnitude
  | .num (.neg i) =>
    match normalizeIntegerEpoch i.val.toInt with
    | some z => .ok (.num (numOfI64 z))
    | none => .error .magnitude
  | .num (.flt b) => .ok (.num (numOfI64 (floorToI64 b)))
  | .str s =>
    match parseTimeStr lib s with
    | some z => .ok (.num (numOfI64 z))
    | none => .error .badString
  | _ => .error .badKind

/-- `*obj.get_mut(field) = v` on the first entry with that key. -/
def setKey (k : String) (v : Json) : List (String × Json) → List (String × Json)
  | [] => []
  | (k', v') :: rest => if k' == k then (k', v) :: rest else (k', v') :: setKey k v rest

/-- Which entries `PayloadTimeNormalizer::normalize` touches: `Timestamp`, `Date`, and
`Optional(inner)` with `inner` *directly* one of those two. -/
def normalizesField : FieldType → Bool
  | .timestamp | .date => true
  | .optional .timestamp | .optional .date => true
  | _ => false

/-- One iteration of the loop of `PayloadTimeNormalizer::normalize`. -/
def normalizeEntry (lib : TimeLib) (f : String) (ty : FieldType)
    (kvs : List (String × Json)) : Except TErr (List (String × Json)) :=
  if normalizesField ty then
    match kvs.lookup f with
    | none => .ok kvs
    | some v =>
      if ty.isOptional && v.isNull then .ok kvs
      else
        match normalizeJsonValue lib v with
        | .ok v' => .ok (setKey f v' kvs)
        | .error e => .error e
  else .ok kvs

def normalizeFields (lib : TimeLib) : Schema → List (String × Json) →
    Except TErr (List (String × Json))
  | [], kvs => .ok kvs
  | (f, ty) :: rest, kvs =>
    match normalizeEntry lib f ty kvs with
    | .ok kvs' => normalizeFields lib rest kvs'
    | .error e => .error e

/-! ## The handlers -/

inductive Err where
  | emptyType | emptyContext | noSchema
  | invalid (e : VErr)
  | time (e : TErr)
  | alreadyDefined | emptySchema
  deriving DecidableEq, Repr

/-- What reaches the shard: `Event { event_type, context_id, payload }` with the normalised
payload (id and wall-clock stamp are not part of this property). -/
structure Event where
  eventType : String
  contextId : String
  payload : List (String × Json)

/-- Registry (append-only list, first match = `HashMap::get`) and the log of enqueued events. -/
structure St where
  schemas : List (String × Schema)
  events : List Event

def St.empty : St := ⟨[], []⟩

/-- Payload admission as the handler does it: `validate_payload`, then the normaliser.
`.ok kvs'` carries the payload that is stored. -/
def admit (lib : TimeLib) (schema : Schema) (payload : Json) : Except Err (List (String × Json)) :=
  match validatePayload schema payload with
  | some e => .error (.invalid e)
  | none =>
    match payload with
    | .obj kvs =>
      match normalizeFields lib schema kvs with
      | .ok kvs' => .ok kvs'
      | .error e => .error (.time e)
    | _ => .error (.invalid .notObject)   -- unreachable after validate ("Payload must be a JSON object")

/-- `store::handle` without the permission check (C13) and without channel failures:
empty type → empty context → schema lookup → validate → normalise → enqueue. -/
def store (lib : TimeLib) (st : St) (eventType contextId : String) (payload : Json) :
    Except Err Unit × St :=
  if blank eventType then (.error .emptyType, st)
  else if blank contextId then (.error .emptyContext, st)
  else
    match st.schemas.lookup eventType with
    | none => (.error .noSchema, st)
    | some schema =>
      match admit lib schema payload with
      | .error e => (.error e, st)
      | .ok kvs' => (.ok (), { st with events := st.events ++ [⟨eventType, contextId, kvs'⟩] })

/-- `SchemaRegistry::define_async` behind `define::handle`: exists → `AlreadyDefined`,
no fields → `EmptySchema`, else registered. -/
def define (st : St) (eventType : String) (specs : List (String × FieldSpec)) :
    Except Err Unit × St :=
  if (st.schemas.lookup eventType).isSome then (.error .alreadyDefined, st)
  else if specs.isEmpty then (.error .emptySchema, st)
  else (.ok (), { st with schemas := st.schemas ++ [(eventType, schemaOfSpecs specs)] })

/-- `MemTable::insert`'s own admission test (runs in the shard worker after the OK). -/
def memtableAccepts (e : Event) : Bool := !blank e.contextId && !blank e.eventType

/-- A later read of the model: the events of a type (optionally of one context). -/
def query (st : St) (eventType : String) (ctx : Option String) : List Event :=
  st.events.filter fun e => e.eventType == eventType && (match ctx with | none => true | some c => e.contextId == c)

/-! ## The STORE grammar's JSON block (`src/command/parser/commands/store.rs`)

`balanced_braces = "{" (balanced_braces / (!"}" [_]))* "}"` — a PEG: ordered choice, greedy
repetition, no backtracking into an alternative that succeeded. Braces are counted without
regard to JSON string quoting. `fuel` bounds the recursion (each call consumes input or fails). -/

mutual
/-- One `balanced_braces` group at the head of the input; the rest after it. -/
def pegBalanced : Nat → List Char → Option (List Char)
  | fuel + 1, '{' :: rest => pegBody fuel rest
  | _, _ => none
/-- The `( … )* "}"` part. -/
def pegBody : Nat → List Char → Option (List Char)
  | 0, _ => none
  | fuel + 1, cs =>
    match pegBalanced fuel cs with
    | some rest => pegBody fuel rest          -- a nested group was consumed
    | none =>
      match cs with
      | '}' :: rest => some rest              -- repetition ends, closing brace
      | _ :: rest => pegBody fuel rest        -- `!"}" [_]`
      | [] => none
end

def isPegSpace (c : Char) : Bool := c == ' ' || c == '\t' || c == '\n' || c == '\r'

/-- `json_block() _` up to end of input: does the grammar take exactly this text as the payload? -/
def jsonBlockAccepts (text : List Char) : Bool :=
  match pegBalanced (2 * text.length + 4) (text.dropWhile isPegSpace) with
  | some rest => rest.all isPegSpace
  | none => false

end Snel.Validate
