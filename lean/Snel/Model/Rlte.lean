import Snel.Model.Order
import Snel.Gen.C10
/-!
Model of the top-k zone pre-selection for ORDER BY queries ("RLTE").

Sources (relative to `/repo/src`):
* `engine/core/event/event.rs` — `Event::scalar_to_sortable` (only the integer, unsigned, string,
  boolean and null branches; the float branch `{:+025.10e}` is not modelled: `sortable` answers
  `none` and the streams do not generate such values for this component).
* `engine/core/zone/rlte_index.rs` — `build_from_zones` / `build_ladder`: per zone and field the
  values in their sortable form, sorted descending bytewise, sampled at ranks 1, 2, 4, 8, ….
* `engine/query/rlte_planner.rs` — `plan_with_rlte`: sizing `k = FACTOR·(LIMIT+OFFSET)`,
  `greedy_cutoff_numeric`, `greedy_cutoff_string`, `lb_ub_one_numeric` (with its f64 estimate),
  `lb_ub_one_string`, the `WhereBound` refinement, and the selection "keep zones with ub > 0".
* `command/handlers/rlte_coordinator.rs`, `shard_command_builder.rs`, `engine/core/zone/
  zone_filter.rs` — what a plan means for a shard: a shard reads exactly the zones listed for it
  (none if it is not listed); without a plan every zone is read.  Memtable rows are never pruned.

`FACTOR`, the `LIMIT + OFFSET` shape of the sizing, the ladder ranks and the width of the integer
encoding are generated from the Rust sources (`Snel.Gen.C10`).
-/
namespace Snel.Rlte
open Snel.Order Snel.Gen.C10

abbrev Bytes := List Nat

/-! ## Sortable encoding and ladders -/

def padLeft (width : Nat) (ds : Bytes) : Bytes := List.replicate (width - ds.length) 48 ++ ds

/-- `Event::scalar_to_sortable` (float branch not modelled → `none`). -/
def sortable (v : SV) : Option Bytes :=
  match v.asI64 with
  | some i => some (padLeft sortableIntWidth (natDec (i + 2 ^ 63).toNat))
  | none =>
  match v.asU64 with
  | some u => some (padLeft sortableIntWidth (natDec u))
  | none =>
  match v.asF64 with
  | some _ => none
  | none =>
  match v.asStr with
  | some s => some s
  | none =>
  match v.asBool with
  | some b => some (if b then [116, 114, 117, 101] else [102, 97, 108, 115, 101])
  | none =>
  match v with
  | .null => some [110, 117, 108, 108]
  | _ => none

def bytesLe (a b : Bytes) : Bool := cmpBytes a b != .gt

/-- `build_ladder`: ranks 1, 2, 4, … of the descending list. -/
def ladderRanks : Nat → Nat → List Bytes → List Bytes
  | 0, _, _ => []
  | f + 1, r, l =>
    if r ≤ l.length ∧ 0 < r then
      match l[r - 1]? with
      | some x => x :: ladderRanks f (r * ladderRankBase) l
      | none => []
    else []

/-- Ladder of one zone for one field, from the sortable forms of the zone's values. -/
def buildLadder (vals : List Bytes) : List Bytes :=
  let desc := isort (fun a b => bytesLe b a) vals
  ladderRanks (desc.length + 1) 1 desc

/-! ## f64 arithmetic of the estimate `((pos / len) * zone_size) as usize` -/

def fDecode (b : Nat) : Nat × Int :=
  let frac : Nat := b % 2 ^ 52
  let ef : Nat := (b / 2 ^ 52) % 2048
  if ef == 0 then (frac, -1074) else (frac + 2 ^ 52, (ef : Int) - 1075)

def fDivNat (a b : Nat) : Nat := if a = 0 ∨ b = 0 then 0 else roundPos a b

def fMulNat (x n : Nat) : Nat :=
  let d := fDecode x
  if d.1 * n = 0 then 0 else
  if d.2 ≥ 0 then roundPos (d.1 * n * 2 ^ d.2.toNat) 1 else roundPos (d.1 * n) (2 ^ (-d.2).toNat)

def fToUsize (x : Nat) : Nat :=
  let d := fDecode x
  if d.2 ≥ 0 then d.1 * 2 ^ d.2.toNat else d.1 / 2 ^ (-d.2).toNat

def estimate (cnt len zoneSize : Nat) : Nat :=
  min (fToUsize (fMulNat (fDivNat cnt len) zoneSize)) zoneSize

/-! ## Per-zone bounds -/

/-- `ladder_as_numbers`: the entries that parse as u64, ascending. -/
def ladderNums (ladder : List Bytes) : List Nat :=
  isort (fun a b => decide (a ≤ b)) (ladder.filterMap parseU64)

def minMaxNumeric (ladder : List Bytes) : Option (Nat × Nat) :=
  let nums := ladderNums ladder
  match nums.head?, nums.getLast? with
  | some mn, some mx => some (mn, mx)
  | _, _ => none

/-- `lb_ub_one_numeric`. -/
def lbUbNumeric (ladder : List Bytes) (t : Nat) (asc : Bool) (zoneSize : Nat) : Nat × Nat :=
  let nums := ladderNums ladder
  match nums.head?, nums.getLast? with
  | some mn, some mx =>
    if asc then
      if mn > t then (0, 0)
      else if mx ≤ t then (zoneSize, zoneSize)
      else
        let pos := (nums.filter (· ≤ t)).length
        let e := estimate pos nums.length zoneSize
        (e, e)
    else
      if mx < t then (0, 0)
      else if mn ≥ t then (zoneSize, zoneSize)
      else
        let cnt := (nums.filter (· ≥ t)).length
        let e := estimate cnt nums.length zoneSize
        (e, e)
  | _, _ => (0, 0)

/-- The loop of `lb_ub_one_string`: returns `(lb, ub, r)`. -/
def lbUbStringLoop (t : Bytes) (asc : Bool) : List Bytes → Nat → Nat → Nat × Nat × Nat
  | [], r, lb => (lb, 0, r)
  | v :: vs, r, lb =>
    let ord := if asc then cmpBytes t v else cmpBytes v t
    if ord == .lt then (lb, r - 1, r) else lbUbStringLoop t asc vs (r * 2) r

/-- `lb_ub_one_string`. -/
def lbUbString (ladder : List Bytes) (t : Bytes) (asc : Bool) (zoneSize : Nat) : Nat × Nat :=
  let p := lbUbStringLoop t asc ladder 1 0
  let ub := if p.2.1 = 0 then p.2.2 - 1 else p.2.1
  (min p.1 zoneSize, min ub zoneSize)

/-! ## The planner -/

structure Zone where
  shard : Nat
  seg : Nat
  zone : Nat
  ladder : List Bytes
  deriving Repr, DecidableEq

inductive WhereKind where
  | lt | lte | gt | gte
  deriving Repr, DecidableEq

/-- `WhereBound::keep_zone`. -/
def keepZone (k : WhereKind) (value mn mx : Nat) : Bool :=
  match k with
  | .lt => mn < value
  | .lte => mn ≤ value
  | .gt => mx > value
  | .gte => mx ≥ value

/-- `k = FACTOR · (LIMIT + OFFSET)`; both default to 0. -/
def rlteK (limit offset : Option Nat) : Nat := rlteKFactor * (limit.getD 0 + offset.getD 0)

/-- The greedy accumulation shared by both paths: `envs` in frontier order, each with the
    upper bound it contributes at its own frontier value; returns the frontier value at which
    the cumulated bound reaches `k`. -/
def greedy {τ : Type} (k : Nat) : List (τ × Nat) → Nat → Option τ
  | [], _ => none
  | (t, ub) :: rest, cum => if cum + ub ≥ k then some t else greedy k rest (cum + ub)

/-- `greedy_cutoff_numeric`: the cutoff `t*`, if the envelopes can cover `k`. -/
def cutoffNumeric (zones : List Zone) (asc : Bool) (k zoneSize : Nat) : Option Nat :=
  let envs := zones.filterMap fun z => (minMaxNumeric z.ladder).map fun mm => (mm.1, mm.2, z.ladder)
  let le : (Nat × Nat × List Bytes) → (Nat × Nat × List Bytes) → Bool :=
    if asc then fun a b => decide (a.1 < b.1 ∨ (a.1 = b.1 ∧ a.2.1 ≤ b.2.1))
    else fun a b => decide (a.2.1 > b.2.1 ∨ (a.2.1 = b.2.1 ∧ a.1 ≥ b.1))
  let sorted := isort le envs
  greedy k (sorted.map fun e =>
    let t := if asc then e.1 else e.2.1
    (t, (lbUbNumeric e.2.2 t asc zoneSize).2)) 0

/-- `greedy_cutoff_string`. -/
def cutoffString (zones : List Zone) (asc : Bool) (k zoneSize : Nat) : Option Bytes :=
  let envs := zones.filterMap fun z =>
    let s := isort bytesLe z.ladder
    match s.head?, s.getLast? with
    | some mn, some mx => some (mn, mx, z.ladder)
    | _, _ => none
  let le : (Bytes × Bytes × List Bytes) → (Bytes × Bytes × List Bytes) → Bool :=
    if asc then fun a b => cmpBytes a.1 b.1 == .lt || (cmpBytes a.1 b.1 == .eq && cmpBytes a.2.1 b.2.1 != .gt)
    else fun a b => cmpBytes a.2.1 b.2.1 == .gt || (cmpBytes a.2.1 b.2.1 == .eq && cmpBytes a.1 b.1 != .lt)
  let sorted := isort le envs
  greedy k (sorted.map fun e =>
    let t := if asc then e.2.1 else e.1
    (t, (lbUbString e.2.2 t asc zoneSize).2)) 0

structure Plan where
  cutoff : Bytes
  numeric : Bool
  kept : List Zone
  deriving Repr

/-- `plan_with_rlte` (+ `RlteCoordinator::plan`): `zones` are all zones that carry a ladder for
    the ORDER BY field, over all shards and segments. `none` = no plan = every zone is read. -/
def planWithRlte (zones : List Zone) (asc : Bool) (limit offset : Option Nat) (zoneSize : Nat)
    (wb : Option (WhereKind × Nat)) : Option Plan :=
  let k := rlteK limit offset
  if k = 0 then none else
  if zones.isEmpty then none else
  let base : Option Plan :=
    match cutoffNumeric zones asc k zoneSize with
    | some t => some ⟨natDec t, true, zones.filter fun z => (lbUbNumeric z.ladder t asc zoneSize).2 > 0⟩
    | none =>
      match cutoffString zones asc k zoneSize with
      | some t => some ⟨t, false, zones.filter fun z => (lbUbString z.ladder t asc zoneSize).2 > 0⟩
      | none => none
  match base with
  | none => none
  | some p =>
    match wb with
    | none => if p.kept.isEmpty then none else some p
    | some (kind, value) =>
      let kept := p.kept.filter fun z =>
        match minMaxNumeric z.ladder with
        | some (mn, mx) => keepZone kind value mn mx
        | none => true
      if kept.isEmpty then none else some { p with kept := kept }

/-- Is the zone read by its shard under the (optional) plan? -/
def zoneRead (plan : Option Plan) (shard seg zone : Nat) : Bool :=
  match plan with
  | none => true
  | some p => p.kept.any fun z => z.shard == shard && z.seg == seg && z.zone == zone

end Snel.Rlte
