import Snel.Gen.C16
/-!
Model of SnelDB's time handling (property C16).

Sources (all under `/repo/src`):
* `shared/time.rs` — `TimeParser::parse_str_to_epoch_seconds`, `normalize_json_value`,
  `normalize_integer_epoch`, `num_digits_u128`;
* chrono 0.4.40 as *used* by that file: `DateTime::parse_from_rfc3339` (`format/parse.rs`
  `parse_rfc3339`, `format/scan.rs` `number`/`nanosecond`/`timezone_offset`, `Parsed::set_*`,
  `to_naive_date`, `to_naive_time`, `to_datetime`) and `NaiveDate::parse_from_str(_, "%Y-%m-%d")`
  (`parse_internal` for `Numeric(Year|Month|Day)` and `Literal("-")`). chrono is an external
  library: it is re-implemented here and *tied* by the `parse` correspondence stream;
* `engine/schema/normalization.rs`, `engine/core/filter/filter_group_builder.rs`
  (`normalize_temporal_literals`), `engine/core/filter/condition_evaluator_builder.rs`
  (`add_where_clause`, `add_special_fields`), `engine/core/zone/selector/pruner/temporal_pruner.rs`,
  `engine/types/mod.rs` (`ScalarValue::from(Json)`, `as_i64`);
* `shared/datetime/time_bucketing.rs`.

Strings are `List Char` (Rust `&str` is valid UTF-8; every byte-indexed step of chrono's scanner
happens right after an ASCII match, so a char-level reading is exact; every kind of parse error
collapses to `none`, exactly as `.ok()` / `if let Ok` do in `shared/time.rs`).
-/
namespace Snel.Time
open Snel.Gen.C16

/-! ## Proleptic Gregorian calendar (what chrono's `NaiveDate` implements) -/

def isLeap (y : Int) : Bool := (y % 4 == 0 && y % 100 != 0) || y % 400 == 0

def daysInMonth (y : Int) (m : Nat) : Nat :=
  if m = 2 then (if isLeap y then 29 else 28)
  else if m = 4 ∨ m = 6 ∨ m = 9 ∨ m = 11 then 30
  else 31

/-- Days since 1970-01-01 of the civil date `y-m-d` (`1 ≤ m ≤ 12`). Integer `/` is floor
division (divisors are positive literals). -/
def daysFromCivil (y : Int) (m d : Nat) : Int :=
  let y' : Int := if m ≤ 2 then y - 1 else y
  let era := y' / 400
  let yoe := y' - era * 400
  let mp : Int := if m ≤ 2 then (m : Int) + 9 else (m : Int) - 3
  let doy := (153 * mp + 2) / 5 + (d : Int) - 1
  let doe := yoe * 365 + yoe / 4 - yoe / 100 + doy
  era * 146097 + doe - 719468

/-- Inverse of `daysFromCivil`: civil date of day number `z`. Years are counted from March 1
inside a 400-year era (146097 days): century `c` (36524 days, the fourth one day longer),
four-year cycle `q` (1461 days), year in cycle `yy` (365 days, the fourth one day longer). -/
def civilFromDays (z : Int) : Int × Nat × Nat :=
  let z' := z + 719468
  let era := z' / 146097
  let doe := z' - era * 146097
  let c := if doe / 36524 < 3 then doe / 36524 else 3
  let doc := doe - c * 36524
  let q := doc / 1461
  let doq := doc - q * 1461
  let yy := if doq / 365 < 3 then doq / 365 else 3
  let doy := doq - yy * 365
  let yoe := c * 100 + q * 4 + yy
  let mp := (5 * doy + 2) / 153
  let d := doy - (153 * mp + 2) / 5 + 1
  let m := if mp < 10 then mp + 3 else mp - 9
  let y := yoe + era * 400 + (if m ≤ 2 then 1 else 0)
  (y, m.toNat, d.toNat)

/-- `NaiveDate::from_ymd_opt`: chrono's year range is `MIN_YEAR..=MAX_YEAR`. -/
def minYear : Int := -262143
def maxYear : Int := 262142

def validYmd (y : Int) (m d : Nat) : Bool :=
  decide (minYear ≤ y) && decide (y ≤ maxYear) && decide (1 ≤ m) && decide (m ≤ 12)
    && decide (1 ≤ d) && decide (d ≤ daysInMonth y m)

/-! ## Character classes and scanners -/

/-- Unicode `White_Space` — what Rust's `str::trim`, `trim_start` and `char::is_whitespace` use. -/
def isWs (c : Char) : Bool :=
  let n := c.toNat
  (decide (9 ≤ n) && decide (n ≤ 13)) || n == 32 || n == 0x85 || n == 0xA0 || n == 0x1680
    || (decide (0x2000 ≤ n) && decide (n ≤ 0x200A)) || n == 0x2028 || n == 0x2029 || n == 0x202F
    || n == 0x205F || n == 0x3000

def trimStart : List Char → List Char
  | [] => []
  | c :: cs => if isWs c then trimStart cs else c :: cs

def trimEnd (s : List Char) : List Char := (trimStart s.reverse).reverse

/-- `str::trim`. -/
def trim (s : List Char) : List Char := trimEnd (trimStart s)

def isDigit (c : Char) : Bool := decide (48 ≤ c.toNat) && decide (c.toNat ≤ 57)
def digitVal (c : Char) : Nat := c.toNat - 48

/-- `scan::number(s, 2, 2)`. -/
def num2 : List Char → Option (Nat × List Char)
  | a :: b :: r => if isDigit a && isDigit b then some (digitVal a * 10 + digitVal b, r) else none
  | _ => none

/-- `scan::number(s, 4, 4)`. -/
def num4 : List Char → Option (Nat × List Char)
  | a :: b :: c :: d :: r =>
    if isDigit a && isDigit b && isDigit c && isDigit d then
      some (digitVal a * 1000 + digitVal b * 100 + digitVal c * 10 + digitVal d, r)
    else none
  | _ => none

/-- Leading ASCII digits, at most `max` of them: (how many, value, rest). -/
def takeDigits : Nat → List Char → Nat → Nat → Nat × Nat × List Char
  | 0, s, cnt, acc => (cnt, acc, s)
  | _ + 1, [], cnt, acc => (cnt, acc, [])
  | max + 1, c :: r, cnt, acc =>
    if isDigit c then takeDigits max r (cnt + 1) (acc * 10 + digitVal c) else (cnt, acc, c :: r)

def i64Max : Int := 9223372036854775807
def i64Min : Int := -9223372036854775808

/-- `scan::number(s, 1, max)`: at least one digit, at most `max` consumed, value must fit `i64`. -/
def scanNum (max : Nat) (s : List Char) : Option (Nat × List Char) :=
  match takeDigits max s 0 0 with
  | (0, _, _) => none
  | (_, v, r) => if (v : Int) ≤ i64Max then some (v, r) else none

def dropDigits : List Char → List Char
  | [] => []
  | c :: r => if isDigit c then dropDigits r else c :: r

def expect (c : Char) : List Char → Option (List Char)
  | x :: r => if x == c then some r else none
  | [] => none

/-- `scan::timezone_offset(s, char ':', allow_zulu, ¬missing minutes, allow U+2212)` followed by the
`±23:59` range check of `parse_rfc3339`. Result in seconds east of UTC. -/
def parseOffset : List Char → Option (Int × List Char)
  | [] => none
  | c :: r =>
    if c == 'Z' || c == 'z' then some (0, r)
    else if c == '+' || c == '-' || c == '−' then
      match r with
      | h1 :: h2 :: r2 =>
        if isDigit h1 && isDigit h2 then
          match r2 with
          | col :: m1 :: m2 :: r3 =>
            if col == ':' && isDigit m1 && isDigit m2 && decide (digitVal m1 ≤ 5) then
              let secs : Int := ((digitVal h1 * 10 + digitVal h2) * 3600 + (digitVal m1 * 10 + digitVal m2) * 60 : Nat)
              if secs ≤ 86340 then some (if c == '+' then secs else -secs, r3) else none
            else none
          | _ => none
        else none
      | _ => none
    else none

/-- Optional `.` + one or more digits (chrono keeps nine, skips the rest; only whole seconds
are observable through `timestamp()`). -/
def skipFraction : List Char → Option (List Char)
  | '.' :: r =>
    match r with
    | d :: r' => if isDigit d then some (dropDigits r') else none
    | [] => none
  | s => some s

/-- `DateTime::parse_from_rfc3339(s).map(|dt| dt.with_timezone(&Utc).timestamp())`.
Separator `T`, `t` or a space; second `60` is accepted anywhere and reads as second 59 with
a nanosecond field ≥ 10⁹, which `timestamp()` does not show. -/
def parseRfc3339 (s : List Char) : Option Int :=
  match num4 s with
  | none => none
  | some (y, s) =>
  match expect '-' s with
  | none => none
  | some s =>
  match num2 s with
  | none => none
  | some (mo, s) =>
  match expect '-' s with
  | none => none
  | some s =>
  match num2 s with
  | none => none
  | some (d, s) =>
  match s with
  | [] => none
  | sep :: s =>
  if !(sep == 'T' || sep == 't' || sep == ' ') then none else
  match num2 s with
  | none => none
  | some (hh, s) =>
  match expect ':' s with
  | none => none
  | some s =>
  match num2 s with
  | none => none
  | some (mi, s) =>
  match expect ':' s with
  | none => none
  | some s =>
  match num2 s with
  | none => none
  | some (ss, s) =>
  match skipFraction s with
  | none => none
  | some s =>
  match parseOffset s with
  | none => none
  | some (off, s) =>
  if !s.isEmpty then none
  else if !(validYmd y mo d && decide (hh ≤ 23) && decide (mi ≤ 59) && decide (ss ≤ 60)) then none
  else
    some (daysFromCivil y mo d * 86400 + ((hh * 3600 + mi * 60 + min ss 59 : Nat) : Int) - off)

/-- The `Numeric(Year)` item of `%Y`: leading whitespace skipped, explicit sign lifts the
four-digit limit. -/
def scanYear (s : List Char) : Option (Int × List Char) :=
  match trimStart s with
  | '-' :: r => (scanNum r.length r).map fun (v, r') => (-(v : Int), r')
  | '+' :: r => (scanNum r.length r).map fun (v, r') => ((v : Int), r')
  | s' => (scanNum 4 s').map fun (v, r') => ((v : Int), r')

/-- `NaiveDate::parse_from_str(s, "%Y-%m-%d")` then midnight UTC. Month and day take one or
two digits, each numeric item skips leading whitespace. -/
def parseDateOnly (s : List Char) : Option Int :=
  match scanYear s with
  | none => none
  | some (y, s) =>
  match expect '-' s with
  | none => none
  | some s =>
  match scanNum 2 (trimStart s) with
  | none => none
  | some (mo, s) =>
  match expect '-' s with
  | none => none
  | some s =>
  match scanNum 2 (trimStart s) with
  | none => none
  | some (d, s) =>
  if !s.isEmpty then none
  else if !validYmd y mo d then none
  else some (daysFromCivil y mo d * 86400)

def digitsValue (ds : List Char) : Nat := ds.foldl (fun a c => a * 10 + digitVal c) 0

/-- Rust `str::parse` for signed integers of the given range: optional single `+`/`-`, one
or more ASCII digits, no whitespace, value in range. -/
def parseSigned (lo hi : Int) (s : List Char) : Option Int :=
  let (neg, ds) := match s with
    | '-' :: r => (true, r)
    | '+' :: r => (false, r)
    | _ => (false, s)
  if ds.isEmpty || !ds.all isDigit then none
  else
    let v : Int := digitsValue ds
    let n := if neg then -v else v
    if lo ≤ n ∧ n ≤ hi then some n else none

def parseI128 : List Char → Option Int := parseSigned (-(2 ^ 127)) (2 ^ 127 - 1)
def parseI64 : List Char → Option Int := parseSigned i64Min i64Max

/-- `s.parse::<u64>()`: optional `+`, digits. -/
def parseU64 (s : List Char) : Option Nat :=
  let ds := match s with
    | '+' :: r => r
    | _ => s
  if ds.isEmpty || !ds.all isDigit then none
  else if digitsValue ds < 2 ^ 64 then some (digitsValue ds) else none

/-! ## Integer epochs: the digit-count heuristic -/

def numDigitsAux : Nat → Nat → Nat
  | 0, _ => 1
  | f + 1, x => if x < 10 then 1 else 1 + numDigitsAux f (x / 10)

/-- `num_digits_u128` (`0` has one digit); 40 rounds cover every `u128`. -/
def numDigits (x : Nat) : Nat := numDigitsAux 40 x

def lookupUnit (digits : Nat) : List (Nat × Nat × Nat) → Option Nat
  | [] => none
  | (lo, hi, dv) :: rest => if lo ≤ digits ∧ digits ≤ hi then some dv else lookupUnit digits rest

/-- How an arm of `normalize_integer_epoch` divides: `n.div_euclid(d)` (floor; Lean's `Int./`
with a positive divisor) or `n / d` on `i128` (truncation) — which one is read from the source. -/
def divUnit (n : Int) (dv : Nat) : Int := if unitDivFloors then n / (dv : Int) else Int.tdiv n dv

/-- `normalize_integer_epoch`: the table and the rounding mode are generated from the Rust source. -/
def normalizeIntegerEpoch (n : Int) : Option Int :=
  match lookupUnit (numDigits n.natAbs) unitTable with
  | none => none
  | some dv =>
    let secs := divUnit n dv
    if i64Min ≤ secs ∧ secs ≤ i64Max then some secs else none

/-- `TimeParser::parse_str_to_epoch_seconds` (the `kind` argument does not influence the
result: both arms of its `match` are identical). -/
def parseStr (input : List Char) : Option Int :=
  let s := trim input
  match parseRfc3339 s with
  | some t => some t
  | none =>
    match parseDateOnly s with
    | some t => some t
    | none =>
      match parseI128 s with
      | some n => normalizeIntegerEpoch n
      | none => none

/-! ## JSON numbers -/

/-- `f.floor() as i64` on the IEEE-754 double with the given bit pattern (`as` saturates,
NaN ↦ 0). -/
def f64FloorToI64 (bits : Nat) : Int :=
  let sign : Nat := bits / 2 ^ 63 % 2
  let e : Nat := bits / 2 ^ 52 % 2048
  let m : Nat := bits % 2 ^ 52
  if e = 2047 then
    if m ≠ 0 then 0 else if sign = 1 then i64Min else i64Max
  else
    let mant : Nat := if e = 0 then m else m + 2 ^ 52
    let sh : Int := if e = 0 then -1074 else (e : Int) - 1075
    let mag : Int :=
      if 0 ≤ sh then ((mant * 2 ^ sh.toNat : Nat) : Int)
      else if sign = 0 then ((mant / 2 ^ (-sh).toNat : Nat) : Int)
      else (((mant + 2 ^ (-sh).toNat - 1) / 2 ^ (-sh).toNat : Nat) : Int)
    let v := if sign = 0 then mag else -mag
    if v < i64Min then i64Min else if i64Max < v then i64Max else v

/-- `serde_json::Value` as far as the time code distinguishes it. `uint` is a `u64` above
`i64::MAX`; `compound` carries serde_json's serialisation of an array/object (external). -/
inductive JV where
  | null
  | bool (b : Bool)
  | int (i : Int)
  | uint (u : Nat)
  | float (bits : Nat)
  | str (s : List Char)
  | compound (text : List Char)
  deriving Repr, DecidableEq

inductive NormErr where
  | magnitude | badString | badType
  deriving Repr, DecidableEq

/-- `Result<i64, String>` of `normalize_json_value`, error messages reduced to their kind. -/
inductive NormRes where
  | ok (t : Int)
  | error (e : NormErr)
  deriving Repr, DecidableEq

/-- `TimeParser::normalize_json_value`: site 1, used by `PayloadTimeNormalizer` on STORE. -/
def normalizeJson : JV → NormRes
  | .int i => match normalizeIntegerEpoch i with
    | some t => .ok t
    | none => .error .magnitude
  | .uint u => match normalizeIntegerEpoch u with
    | some t => .ok t
    | none => .error .magnitude
  | .float b => .ok (f64FloorToI64 b)
  | .str s => match parseStr s with
    | some t => .ok t
    | none => .error .badString
  | _ => .error .badType

/-! ## The query-side sites -/

/-- `ScalarValue` (`engine/types/mod.rs`). -/
inductive SV where
  | null
  | bool (b : Bool)
  | int (i : Int)
  | float (bits : Nat)
  | ts (i : Int)
  | utf8 (s : List Char)
  deriving Repr, DecidableEq

/-- `impl From<JsonValue> for ScalarValue`. -/
def SV.ofJson : JV → SV
  | .null => .null
  | .bool b => .bool b
  | .int i => .int i
  | .uint u => .utf8 (Nat.repr u).toList
  | .float b => .float b
  | .str s => .utf8 s
  | .compound t => .utf8 t

/-- Site 2: `FilterGroupBuilder::normalize_temporal_literals` on one `Compare` literal of a
datetime/date field: only literals that become `Utf8` are touched. -/
def rewriteLiteral (v : JV) : JV :=
  match SV.ofJson v with
  | .utf8 s => match parseStr s with
    | some t => .int t
    | none => v
  | _ => v

/-- What `add_where_clause` turns one comparison literal into. -/
inductive Cond where
  | num (t : Int)
  | str (s : List Char)
  | dropped
  deriving Repr, DecidableEq

def SV.asI64 : SV → Option Int
  | .int i => some i
  | .ts i => some i
  | .utf8 s => parseI64 s
  | _ => none

/-- Site 3: `ConditionEvaluatorBuilder::add_where_clause`, `Expr::Compare` arm. -/
def rowCondition (v : JV) : Cond :=
  let sv := SV.ofJson v
  let parsed := match sv with
    | .utf8 s => parseStr s
    | _ => none
  match parsed with
  | some t => .num t
  | none =>
    match sv.asI64 with
    | some n => .num n
    | none =>
      match sv with
      | .utf8 s => .str s
      | _ => .dropped

/-- Site 3b: `add_special_fields`, the SINCE literal (always a string). `none` = ignored. -/
def sinceCondition (s : List Char) : Option Int :=
  match parseStr s with
  | some t => some t
  | none => parseI64 s

/-- Site 4: `TemporalPruner::apply_temporal_only`, literal → `u64`. -/
def prunerTsU64 : SV → Nat
  | .int i => (max i 0).toNat
  | .ts i => (max i 0).toNat
  | .utf8 s => match parseStr s with
    | some t => (max t 0).toNat
    | none => (parseU64 s).getD 0
  | _ => 0

/-- `ts as i64`. -/
def u64AsI64 (u : Nat) : Int := if u < 2 ^ 63 then u else (u : Int) - 2 ^ 64

def prunerTs (sv : SV) : Int := u64AsI64 (prunerTsU64 sv)

inductive Op where
  | eq | neq | gt | gte | lt | lte
  deriving Repr, DecidableEq

/-- `NumericCondition::evaluate_scalar`. -/
def Op.eval (op : Op) (lhs rhs : Int) : Bool :=
  match op with
  | .eq => lhs == rhs
  | .neq => lhs != rhs
  | .gt => decide (lhs > rhs)
  | .gte => decide (lhs ≥ rhs)
  | .lt => decide (lhs < rhs)
  | .lte => decide (lhs ≤ rhs)

def listMin : List Int → Int
  | [] => 0
  | x :: xs => xs.foldl min x
def listMax : List Int → Int
  | [] => 0
  | x :: xs => xs.foldl max x

/-- The per-zone decision of the pruner on a zone holding the instants `zone` (the
`ZoneTemporalIndex` is built with stride 1, so `contains_ts` is membership; `min_ts`/`max_ts`
are the extremes). `none`: the pruner does not handle the operator. -/
def zoneKept (op : Op) (ts : Int) (zone : List Int) : Option Bool :=
  match op with
  | .eq => some (zone.contains ts)
  | .gt => some (decide (listMax zone > ts))
  | .gte => some (decide (listMax zone ≥ ts))
  | .lt => some (decide (listMin zone < ts))
  | .lte => some (decide (listMin zone ≤ ts))
  | .neq => none

/-! ### `ZoneTemporalIndex` (`engine/core/time/zone_temporal_index.rs`) -/

/-- The fields `contains_ts` and the range tests read. `keys` stands for the sorted,
de-duplicated `Vec<u64>`; `binary_search(..).is_ok()` on it is read as list membership (the
order and multiplicity of a sorted vector do not matter for that answer). -/
structure ZTI where
  minTs : Int
  maxTs : Int
  stride : Int
  keys : List Nat
  deriving Repr, DecidableEq

/-- `((t - min_ts) / stride).max(0) as u64` (`t ≥ min_ts`, `stride ≥ 1`: `/` does not round). -/
def ztiKey (minTs stride t : Int) : Nat := (max ((t - minTs) / stride) 0).toNat

/-- `ZoneTemporalIndex::from_timestamps(vals, stride, _)`: minimum, maximum (0 for no values),
one key per value. Fences play no role in the answers modelled here. -/
def ztiBuild (vals : List Int) (stride : Int) : ZTI :=
  { minTs := listMin vals, maxTs := listMax vals, stride := stride,
    keys := vals.map (ztiKey (listMin vals) stride) }

/-- `contains_ts`. -/
def ZTI.contains (z : ZTI) (ts : Int) : Bool :=
  if ts < z.minTs ∨ ts > z.maxTs then false
  else if z.stride > 1 ∧ (ts - z.minTs) % z.stride ≠ 0 then false
  else z.keys.contains (ztiKey z.minTs z.stride ts)

/-- The per-zone test of `TemporalPruner` on a loaded index. -/
def ztiKeeps (op : Op) (ts : Int) (z : ZTI) : Option Bool :=
  match op with
  | .eq => some (z.contains ts)
  | .gt => some (decide (z.maxTs > ts))
  | .gte => some (decide (z.maxTs ≥ ts))
  | .lt => some (decide (z.minTs < ts))
  | .lte => some (decide (z.minTs ≤ ts))
  | .neq => none

/-! ### The calendar in front of the per-zone index (`TemporalCalendarIndex`), one zone -/

/-- `bucket_id`: start of the naive bucket of width `w`, truncated to `u32`. -/
def calBucketId (w ts : Nat) : Nat := ts / w * w % 2 ^ 32

/-- Bucket ids `add_zone_range` inserts for the inclusive range `[mn, mx]`. -/
def calIds (w mn mx : Nat) : List Nat :=
  (List.range (mx / w - mn / w + 1)).map fun k => calBucketId w ((mn / w + k) * w)

/-- `zones_intersecting(op, v)` restricted to one zone that was registered with `[mn, mx]`. -/
def calCandidate (op : Op) (v : Int) (mn mx : Nat) : Bool :=
  if v < 0 then false else
  let ts := v.toNat
  let days := calIds naiveDay mn mx
  match op with
  | .eq => (calIds naiveHour mn mx).contains (calBucketId naiveHour ts) || days.contains (calBucketId naiveDay ts)
  | .gt | .gte => days.any fun b => decide (b ≥ calBucketId naiveDay ts)
  | .lt | .lte => days.any fun b => decide (b ≤ calBucketId naiveDay ts)
  | .neq => true

/-- `TemporalPruner::apply_temporal_only` on a segment with a single zone holding `zone`
(non-empty). `inCalendar`: `TemporalIndexBuilder` registers a zone in the calendar only when its
minimum and maximum are both ≥ 0. `some true` = the zone stays a candidate. -/
def prunerDecision (op : Op) (lit : SV) (inCalendar : Bool) (zone : List Int) : Option Bool :=
  let ts := prunerTs lit
  match ztiKeeps op ts (ztiBuild zone ztiStrideField) with
  | none => none
  | some k =>
    let cand := inCalendar && calCandidate op ts (listMin zone).toNat (listMax zone).toNat
    some (cand && k)

/-! ### A whole segment: `TemporalIndexBuilder` + `TemporalPruner` -/

/-- `zones_intersecting(op, v)` over the zones `(id, min, max)` that were registered.
`Eq` prefers the hour map: when *any* zone has the literal's hour bucket, only the zones with
that hour bucket are returned; otherwise the zones with its day bucket. Ranges: union over the
day buckets on the right side. Result in ascending zone id (roaring bitmap order), given the
zones are listed in ascending id. -/
def calZones (op : Op) (v : Int) (zs : List (Nat × Nat × Nat)) : List Nat :=
  if v < 0 then [] else
  let ts := v.toNat
  let hb := calBucketId naiveHour ts
  let db := calBucketId naiveDay ts
  let sel (p : Nat × Nat × Nat → Bool) := (zs.filter p).map (·.1)
  match op with
  | .eq =>
    if zs.any (fun z => (calIds naiveHour z.2.1 z.2.2).contains hb) then
      sel fun z => (calIds naiveHour z.2.1 z.2.2).contains hb
    else sel fun z => (calIds naiveDay z.2.1 z.2.2).contains db
  | .gt | .gte => sel fun z => (calIds naiveDay z.2.1 z.2.2).any fun b => decide (b ≥ db)
  | .lt | .lte => sel fun z => (calIds naiveDay z.2.1 z.2.2).any fun b => decide (b ≤ db)
  | .neq => []

/-- One segment written by `TemporalIndexBuilder::build_for_zone_plans` for one time field and
then asked through `TemporalPruner::apply_temporal_only`. `zones`: zone id (ascending) and the
instants of the field in that zone; a zone without a value gets neither index nor calendar
entry; a zone is entered into the calendar only if its minimum and maximum are ≥ 0.
`stride`: what the builder passes for this field (generated: `ztiStrideField`,
`ztiStrideTimestamp`). `fixedTs`: the column is the fixed `timestamp`. `none` = the pruner gives
no answer: operator not handled, or — for a payload field — no calendar file exists because no
zone was registered (the fixed `timestamp` column answers "no zones" in that case). -/
def segPrune (op : Op) (lit : SV) (stride : Nat) (fixedTs : Bool) (zones : List (Nat × List Int)) :
    Option (List Nat) :=
  if op = .neq then none else
  let ts := prunerTs lit
  let present := zones.filter fun z => !z.2.isEmpty
  let registered := (present.filter fun z => decide (listMin z.2 ≥ 0) && decide (listMax z.2 ≥ 0)).map
    fun z => (z.1, (listMin z.2).toNat, (listMax z.2).toNat)
  let cands := calZones op ts registered
  if registered.isEmpty && !fixedTs then none else
  some (cands.filter fun zid =>
    match present.find? (fun z => z.1 == zid) with
    | some z => (ztiKeeps op ts (ztiBuild z.2 stride)).getD false
    | none => false)

/-! ## Calendar bucketing (`CalendarTimeBucketer`) for UTC and fixed offsets -/

inductive Gran where
  | hour | day | week | month | year
  deriving Repr, DecidableEq

/-- Bucket start of the *local* second count `l` (seconds since 1970-01-01T00:00 local).
`weekStart` = `num_days_from_monday()` of the configured first day of the week.
1970-01-01 was a Thursday (3 days from Monday). -/
def bucketLocal (g : Gran) (weekStart : Nat) (l : Int) : Int :=
  let day := l / 86400
  match g with
  | .hour => l / 3600 * 3600
  | .day => day * 86400
  | .week =>
    let wd := (day + 3) % 7
    let since := (wd + (7 - (weekStart : Int))) % 7
    (day - since) * 86400
  | .month => daysFromCivil (civilFromDays day).1 (civilFromDays day).2.1 1 * 86400
  | .year => daysFromCivil (civilFromDays day).1 1 1 * 86400

/-- `DateTime::from_timestamp(secs, 0)` succeeds iff the day fits chrono's `NaiveDate`. -/
def chronoMinTs : Int := daysFromCivil minYear 1 1 * 86400
def chronoMaxTs : Int := daysFromCivil maxYear 12 31 * 86400 + 86399

/-- The bucket start as an instant: bucket in local time (`t + off`), back to UTC. -/
def bucketInstant (off : Int) (weekStart : Nat) (g : Gran) (t : Int) : Int :=
  bucketLocal g weekStart (t + off) - off

/-- `CalendarTimeBucketer::bucket_of` for UTC (`off = 0`) or a zone with constant offset `off`
seconds east: `ts as i64`, fall back to the epoch when chrono cannot represent it, bucket in
local time, back to UTC, `as u64`. `none` = the call panics. -/
def bucketOf (off : Int) (weekStart : Nat) (g : Gran) (ts : Nat) : Option Nat :=
  let t := u64AsI64 (ts % 2 ^ 64)
  let t := if chronoMinTs ≤ t ∧ t ≤ chronoMaxTs then t else 0
  let b := bucketInstant off weekStart g t
  -- `date_naive() - Duration::days(n)` panics when the week start precedes `NaiveDate::MIN`
  if g = .week ∧ b + off < chronoMinTs then none
  else some (b % 2 ^ 64).toNat

/-- `naive_bucket_of`. -/
def naiveBucketOf (g : Gran) (ts : Nat) : Nat :=
  let w := match g with
    | .hour => naiveHour | .day => naiveDay | .week => naiveWeek
    | .month => naiveMonth | .year => naiveYear
  ts / w * w

/-! ## Formatting (only used to state the round-trip theorem) -/

def digitChar (d : Nat) : Char := Char.ofNat (48 + d % 10)
def pad2 (n : Nat) : List Char := [digitChar (n / 10), digitChar n]
def pad4 (n : Nat) : List Char := [digitChar (n / 1000), digitChar (n / 100), digitChar (n / 10), digitChar n]

/-- Spelling choices RFC 3339 (as read by chrono) leaves open. -/
structure Style where
  sep : Char
  /-- digits after the `.`; empty = no fraction -/
  frac : List Char
  /-- how a zero offset is written: `some 'Z'`, `some 'z'` or numerically -/
  zulu : Option Char
  /-- sign character for negative offsets: `-` or U+2212 -/
  minus : Char
  /-- a zero offset written numerically as `-00:00` instead of `+00:00` -/
  negZero : Bool

def Style.ok (st : Style) : Bool :=
  (st.sep == 'T' || st.sep == 't' || st.sep == ' ') && st.frac.all isDigit
    && (st.zulu == none || st.zulu == some 'Z' || st.zulu == some 'z')
    && (st.minus == '-' || st.minus == '−')

def fmtOffset (offMin : Int) (st : Style) : List Char :=
  if offMin = 0 then
    match st.zulu with
    | some z => [z]
    | none => (if st.negZero then st.minus else '+') :: (pad2 0 ++ ':' :: pad2 0)
  else
    let a := offMin.natAbs
    (if offMin < 0 then st.minus else '+') :: (pad2 (a / 60) ++ ':' :: pad2 (a % 60))

/-- Date, time and fraction of the instant `t` as seen at UTC offset `offMin` minutes. -/
def formatBody (t : Int) (offMin : Int) (st : Style) : List Char :=
  let l := t + offMin * 60
  let day := l / 86400
  let sod := (l % 86400).toNat
  let cv := civilFromDays day
  pad4 cv.1.toNat ++ '-' :: (pad2 cv.2.1 ++ '-' :: (pad2 cv.2.2 ++ st.sep :: (pad2 (sod / 3600) ++ ':' ::
    (pad2 (sod / 60 % 60) ++ ':' :: (pad2 (sod % 60)
      ++ (if st.frac.isEmpty then [] else '.' :: st.frac))))))

/-- The instant `t` (epoch seconds) written at UTC offset `offMin` minutes. -/
def format (t : Int) (offMin : Int) (st : Style) : List Char :=
  formatBody t offMin st ++ fmtOffset offMin st

end Snel.Time
