import Snel.Model.Time
/-!
Model of SnelDB's WHERE pipeline (property C02): from the parsed `Expr` to the set of returned
events, stage by stage, bug for bug.

Sources (all under `/repo/src`):
* `command/parser/commands/query.rs` — the WHERE grammar: literals are JSON integers (no `.`),
  JSON floats (with `.`, also `2.0`), strings (quoted, or a bare identifier such as `true`);
* `engine/core/filter/condition_evaluator_builder.rs` `add_where_clause` — literal typing:
  temporal-looking string → numeric, `as_i64` (integers and integer-looking strings) → numeric,
  string → string condition, **anything else (a float literal) adds no condition**; `AND`/`OR`
  wrap the conditions of both sides in one `LogicalCondition`, `NOT` wraps the conditions of its
  operand and evaluates `conditions[0]` (index panic when the operand added none);
* `engine/core/filter/condition.rs` — `NumericCondition`, `StringCondition` (only `=`/`!=`),
  `InNumericCondition`, `InStringCondition`, `LogicalCondition`, on a memtable event
  (`evaluate_event_direct`, `direct_event_accessor.rs`) and on a hydrated zone (`evaluate_at`,
  `PreparedAccessor`, `column_values.rs`);
* `engine/core/filter/condition_evaluator.rs` — `evaluate_event`, `evaluate_zones_with_limit`:
  a `NumericCondition` that is itself an element of the evaluator's list goes through
  `evaluate_numeric_simd`, whose i64 branch answers for *every* existing column (all rows invalid
  for a non-i64 one), so the f64 branch is dead;
* `engine/core/write/column_writer.rs` — physical column type per schema type;
* `engine/core/filter/filter_group_builder.rs`, `in_expansion.rs` — `IN` → OR of `=` leaves;
* `engine/core/read/index_planner.rs` `choose` — strategy per leaf from the schema and the index
  catalog of one representative segment;
* `engine/core/zone/selector/field_selector.rs` — per-strategy zone outcome incl. every
  `return Vec::new()`;
* `engine/core/zone/zone_group_collector.rs`, `zone_combiner.rs` — AND = ∩, OR = ∪,
  NOT(leaf) = complement of the leaf's candidate set, De Morgan for NOT over AND/OR.

Abstractions (each stated where it is made):
* fields are numbered (index into the schema); field 0 is the unique key `k`;
* strings are `List Char` (UTF-8 byte order = code-point order);
* a float is a dyadic rational `m · 2^-e` (every finite `f64` is one) plus its display text;
  `i64 as f64` is taken to be exact (literals within ±2^53);
* `ZoneHydrator` loads column values into every candidate zone, with or without uid
  (`CandidateZone::uid` is set by the metadata enumeration, not by the pruners; since /repo fix
  4f45061 the uid-less ones are loaded with the plan's event-type uid);
* the leaf pruners (SuRF, zone XOR, field XOR, enum bitmap, calendar + per-zone temporal index)
  are an abstract function `Raw` — what `RangePruner::apply_surf_only`,
  `XorPruner::apply_zone_index_only` / `apply_presence_only`, `EnumPruner::apply`,
  `TemporalPruner::apply_temporal_only` return for the leaf on a segment. Their contract is C08's
  subject; the gates around them (operator, known variant) and the fallbacks are modelled here;
* the n-ary `FilterGroup::Or/And` lists and their flattening are modelled by the binary tree of
  the `Expr` (the zone *sets* are equal; only sets are observable);
* a panic inside a read task is the observation `panic` (the real response is an empty or
  partial row set with status 200).
-/
namespace Snel.Query

/-! ## values -/

/-- Dyadic rational `m · 2^-e`. -/
structure Dy where
  m : Int
  e : Nat
  deriving Repr, DecidableEq

def Dy.ofInt (i : Int) : Dy := ⟨i, 0⟩
def Dy.lt (a b : Dy) : Bool := decide (a.m * 2 ^ b.e < b.m * 2 ^ a.e)
def Dy.eq (a b : Dy) : Bool := decide (a.m * 2 ^ b.e = b.m * 2 ^ a.e)
/-- `some n` iff the value is the integer `n`. -/
def Dy.toInt? (a : Dy) : Option Int :=
  if a.m % 2 ^ a.e = 0 then some (a.m / 2 ^ a.e) else none

abbrev Str := List Char

/-- Code-point lexicographic `<` (= byte order of the UTF-8 encodings). -/
def lexLt : Str → Str → Bool
  | _, [] => false
  | [], _ :: _ => true
  | a :: as, b :: bs => if a.toNat < b.toNat then true else if a.toNat = b.toNat then lexLt as bs else false

inductive Op where
  | eq | neq | gt | gte | lt | lte
  deriving Repr, DecidableEq

/-- Result of `lhs op rhs` from `lhs < rhs` and `lhs = rhs` (total orders only). -/
def Op.holds (op : Op) (lt eq : Bool) : Bool :=
  match op with
  | .eq => eq
  | .neq => !eq
  | .lt => lt
  | .lte => lt || eq
  | .gt => !(lt || eq)
  | .gte => !lt

def Op.onInt (op : Op) (a b : Int) : Bool := op.holds (decide (a < b)) (decide (a = b))
def Op.onDy (op : Op) (a b : Dy) : Bool := op.holds (a.lt b) (a.eq b)
def Op.onStr (op : Op) (a b : Str) : Bool := op.holds (lexLt a b) (decide (a = b))

/-- A WHERE literal as the PEG grammar delivers it (`serde_json::Value`). `flt` carries the text
`serde_json` prints for the number (only used by the string form of `IN`). -/
inductive Lit where
  | int (i : Int)
  | flt (d : Dy) (disp : Str)
  | str (s : Str)
  deriving Repr, DecidableEq

inductive Expr where
  | cmp (f : Nat) (op : Op) (v : Lit)
  | inn (f : Nat) (vs : List Lit)
  | and (a b : Expr)
  | or (a b : Expr)
  | not (a : Expr)
  deriving Repr

inductive Kind where
  | int | u64 | float | str | bool | time
  | enum (variants : List Str)
  deriving Repr, DecidableEq

abbrev Schema := List Kind

/-- A payload value as the memtable holds it (`ScalarValue`): JSON integers are `int` whatever the
field's type, JSON numbers with a fraction or exponent are `flt` (with `f64::to_string()`). -/
inductive Val where
  | null
  | int (i : Int)
  | flt (d : Dy) (disp : Str)
  | str (s : Str)
  | bool (b : Bool)
  deriving Repr, DecidableEq

structure Row where
  ctx : Str
  vals : List Val
  deriving Repr, DecidableEq

def Row.get (r : Row) (f : Nat) : Option Val := r.vals[f]?
/-- The unique payload key `k` (field 0). -/
def Row.key (r : Row) : Int := match r.get 0 with | some (.int i) => i | _ => 0

/-! ## the reference evaluator (what the property asks for) -/

def Val.num? : Val → Option Dy
  | .int i => some (Dy.ofInt i)
  | .flt d _ => some d
  | _ => none

def Lit.num? : Lit → Option Dy
  | .int i => some (Dy.ofInt i)
  | .flt d _ => some d
  | .str _ => none

def boolOfStr (s : Str) : Option Bool :=
  if s = "true".toList then some true else if s = "false".toList then some false else none

/-- Typed meaning of one comparison. `none` = ill-typed for the field's kind (such predicates
are outside the property's quantifier). A null / missing cell satisfies no comparison. -/
def specLeaf (k : Kind) (v : Option Val) (op : Op) (l : Lit) : Option Bool :=
  match k with
  | .int | .u64 | .float =>
    match l.num? with
    | none => none
    | some ln => some (match v.bind Val.num? with | some vn => op.onDy vn ln | none => false)
  | .time =>
    let lt : Option Dy := match l with
      | .str s => (Snel.Time.parseStr s).map Dy.ofInt
      | _ => l.num?
    match lt with
    | none => none
    | some ln => some (match v.bind Val.num? with | some vn => op.onDy vn ln | none => false)
  | .str =>
    match l with
    | .str s => some (match v with | some (.str x) => op.onStr x s | _ => false)
    | _ => none
  | .bool =>
    match l with
    | .str s =>
      match boolOfStr s, op with
      | some b, .eq => some (match v with | some (.bool x) => x == b | _ => false)
      | some b, .neq => some (match v with | some (.bool x) => x != b | _ => false)
      | _, _ => none
    | _ => none
  | .enum _ =>
    match l, op with
    | .str s, .eq => some (match v with | some (.str x) => decide (x = s) | _ => false)
    | .str s, .neq => some (match v with | some (.str x) => decide (x ≠ s) | _ => false)
    | _, _ => none

def leafSpec (sch : Schema) (f : Nat) (op : Op) (l : Lit) (r : Row) : Bool :=
  match sch[f]? with
  | some k => (specLeaf k (r.get f) op l).getD false
  | none => false

/-- Reference evaluator: typed comparison at the leaves (numeric order on numbers, byte order on
strings, enums and booleans by value, time by instant), two-valued connectives. -/
def specEval (sch : Schema) : Expr → Row → Bool
  | .cmp f op l, r => leafSpec sch f op l r
  | .inn f vs, r => vs.any fun l => leafSpec sch f .eq l r
  | .and a b, r => specEval sch a r && specEval sch b r
  | .or a b, r => specEval sch a r || specEval sch b r
  | .not a, r => !specEval sch a r

def leafTyped (sch : Schema) (f : Nat) (op : Op) (l : Lit) : Bool :=
  match sch[f]? with
  | some k => (specLeaf k none op l).isSome
  | none => false

def wellTyped (sch : Schema) : Expr → Bool
  | .cmp f op l => leafTyped sch f op l
  | .inn f vs => !vs.isEmpty && vs.all fun l => leafTyped sch f .eq l
  | .and a b => wellTyped sch a && wellTyped sch b
  | .or a b => wellTyped sch a && wellTyped sch b
  | .not a => wellTyped sch a

/-! ## stage 1: literal typing (`add_where_clause`) -/

/-- `ScalarValue::as_i64` of the literal. -/
def Lit.asI64 : Lit → Option Int
  | .int i => some i
  | .str s => Snel.Time.parseI64 s
  | .flt _ _ => none

/-- `TimeParser::parse_str_to_epoch_seconds(s, DateTime).or_else(|| …(s, Date))` — both kinds run
the same code (see `Snel.Time.parseStr`). Only string literals are tried. -/
def Lit.temporal : Lit → Option Int
  | .str s => Snel.Time.parseStr s
  | _ => none

/-- The condition one leaf becomes. -/
inductive LC where
  | num (op : Op) (v : Int)
  | str (op : Op) (s : Str)
  | inNum (vs : List Int)
  | inStr (ss : List Str)
  | dropped
  deriving Repr, DecidableEq

def Lit.numeric (l : Lit) : Option Int :=
  match l.temporal with
  | some t => some t
  | none => l.asI64

def cmpCond (op : Op) (l : Lit) : LC :=
  match l.numeric with
  | some n => .num op n
  | none =>
    match l with
    | .str s => .str op s
    | _ => .dropped

def intText (i : Int) : Str := (toString i).toList

/-- `as_str()` else `serde_json::Value::to_string()`. -/
def Lit.inText : Lit → Str
  | .str s => s
  | .int i => intText i
  | .flt _ d => d

/-- The loop over the `IN` values: every value numeric, else give up at the first that is not. -/
def numerics : List Lit → Option (List Int)
  | [] => some []
  | l :: ls =>
    match l.numeric, numerics ls with
    | some n, some ns => some (n :: ns)
    | _, _ => none

/-- All values numeric (and at least one) → numeric set, else string set. -/
def inCond (vs : List Lit) : LC :=
  match numerics vs with
  | some ns => if ns.isEmpty then .inStr (vs.map Lit.inText) else .inNum ns
  | none => .inStr (vs.map Lit.inText)

/-- Leaves of an expression as the planner sees them (`IN` values are `=` leaves). -/
def Expr.leaves : Expr → List (Nat × Op × Lit)
  | .cmp f op l => [(f, op, l)]
  | .inn f vs => vs.map fun l => (f, .eq, l)
  | .and a b => a.leaves ++ b.leaves
  | .or a b => a.leaves ++ b.leaves
  | .not a => a.leaves

def Expr.notFree : Expr → Bool
  | .cmp .. => true
  | .inn .. => true
  | .and a b => a.notFree && b.notFree
  | .or a b => a.notFree && b.notFree
  | .not _ => false

/-! ## stage 2a: row evaluation on a memtable event (`evaluate_event_direct`) -/

/-- `DirectEventAccessor::get_field_as_i64` on `payload.get(field)`. -/
def memAsI64 : Option Val → Option Int
  | some (.int i) => some i
  | some (.str s) => Snel.Time.parseI64 s
  | _ => none

/-- `Event::get_field_value`: missing → `""`, `Null` → `"null"`. -/
def memText : Option Val → Str
  | none => []
  | some .null => "null".toList
  | some (.int i) => intText i
  | some (.flt _ d) => d
  | some (.str s) => s
  | some (.bool b) => if b then "true".toList else "false".toList

def strOp (op : Op) (a b : Str) : Bool :=
  match op with
  | .eq => decide (a = b)
  | .neq => decide (a ≠ b)
  | _ => false

def memLeaf (c : LC) (v : Option Val) : Bool :=
  match c with
  | .num op n => match memAsI64 v with | some x => op.onInt x n | none => false
  | .str op s => strOp op (memText v) s
  | .inNum ns => match memAsI64 v with | some x => ns.contains x | none => false
  | .inStr ss => ss.contains (memText v)
  | .dropped => true

/-- What evaluating the conditions built from a sub-expression yields: `absent` — the
sub-expression added no condition; `panic` — `LogicalCondition::Not` indexed an empty list. -/
inductive R where
  | absent
  | val (b : Bool)
  | panic
  deriving Repr, DecidableEq

/-- `LogicalCondition::And` over `conds(a) ++ conds(b)` with `Iterator::all`'s short circuit. -/
def R.and (ra : R) (rb : Unit → R) : R :=
  match ra with
  | .panic => .panic
  | .val false => .val false
  | _ => match rb () with
    | .panic => .panic
    | .val false => .val false
    | _ => .val true

def R.or (ra : R) (rb : Unit → R) : R :=
  match ra with
  | .panic => .panic
  | .val true => .val true
  | _ => match rb () with
    | .panic => .panic
    | .val true => .val true
    | _ => .val false

def R.not : R → R
  | .absent => .panic
  | .panic => .panic
  | .val b => .val (!b)

def leafR (c : LC) (b : Bool) : R := if c = .dropped then .absent else .val b

def evalMem : Expr → Row → R
  | .cmp f op l, r => let c := cmpCond op l; leafR c (memLeaf c (r.get f))
  | .inn f vs, r => let c := inCond vs; leafR c (memLeaf c (r.get f))
  | .and a b, r => (evalMem a r).and fun _ => evalMem b r
  | .or a b, r => (evalMem a r).or fun _ => evalMem b r
  | .not a, r => (evalMem a r).not

/-- `ConditionEvaluator::evaluate_event` restricted to the WHERE conditions: an expression that
added no condition accepts every row. -/
def R.accepts : R → Bool
  | .absent => true
  | .val b => b
  | .panic => false

/-! ## stage 2b: row evaluation on a flushed zone -/

/-- A cell of a flushed column (`column_writer.rs`: I64 for int / datetime / date, U64, F64, Bool,
VarBytes for strings and enums; values are written as text and re-parsed, a text that does not
parse sets the null bit; `Null` is written as `""`). -/
inductive Cell where
  | i64 (v : Option Int)
  | u64 (v : Option Nat)
  | f64 (v : Option Dy)
  | bool (v : Option Bool)
  | bytes (s : Str)
  deriving Repr, DecidableEq

def valText : Val → Str
  | .null => []
  | .int i => intText i
  | .flt _ d => d
  | .str s => s
  | .bool b => if b then "true".toList else "false".toList

def cellOf (k : Kind) (v : Val) : Cell :=
  match k with
  | .int | .time =>
    .i64 (match v with
      | .int i => some i
      | .flt d _ => d.toInt?
      | .str s => Snel.Time.parseI64 s
      | _ => none)
  | .u64 =>
    .u64 (match v with
      | .int i => if 0 ≤ i then some i.toNat else none
      | .flt d _ => (d.toInt?).bind fun i => if 0 ≤ i then some i.toNat else none
      | _ => none)
  | .float =>
    .f64 (match v with
      | .int i => some (Dy.ofInt i)
      | .flt d _ => some d
      | _ => none)
  | .bool => .bool (match v with | .bool b => some b | _ => none)
  | .str | .enum _ => .bytes (valText v)

def Cell.u64? : Option Cell → Option Nat
  | some (.u64 v) => v
  | _ => none

/-- `get_i64_at`: typed I64 cell, or `fast_parse_i64` of a VarBytes cell; nothing for the other
typed columns. -/
def Cell.i64? : Option Cell → Option Int
  | some (.i64 v) => v
  | some (.bytes s) => Snel.Time.parseI64 s
  | _ => none

def Cell.f64? : Option Cell → Option Dy
  | some (.f64 v) => v
  | _ => none

/-- `get_str_at`: only VarBytes columns have a string view. -/
def Cell.str? : Option Cell → Option Str
  | some (.bytes s) => some s
  | _ => none

/-- `NumericCondition::evaluate_at`: u64, then i64, then f64. -/
def numAt (op : Op) (n : Int) (c : Option Cell) : Bool :=
  match Cell.u64? c with
  | some u => if n < 0 then false else op.onInt (u : Int) n
  | none =>
    match Cell.i64? c with
    | some x => op.onInt x n
    | none =>
      match Cell.f64? c with
      | some d => op.onDy d (Dy.ofInt n)
      | none => false

/-- `evaluate_numeric_simd` for a `NumericCondition` in the evaluator's own list: the u64 branch
when the zone's column has a valid u64, else the i64 branch — which exists for every column and
marks every row of a non-i64 column invalid. -/
def numSimd (op : Op) (n : Int) (c : Option Cell) : Bool :=
  match c with
  | none => false
  | some _ =>
    match Cell.u64? c with
    | some u => if n < 0 then false else op.onInt (u : Int) n
    | none =>
      match Cell.i64? c with
      | some x => op.onInt x n
      | none => false

def inNumAt (ns : List Int) (c : Option Cell) : Bool :=
  match Cell.u64? c with
  | some u => ns.contains (u : Int)
  | none =>
    match Cell.i64? c with
    | some x => ns.contains x
    | none =>
      match Cell.f64? c with
      | some d => (match d.toInt? with | some i => ns.contains i | none => false)
      | none => false

def zoneLeaf (top : Bool) (c : LC) (cell : Option Cell) : Bool :=
  match c with
  | .num op n => if top then numSimd op n cell else numAt op n cell
  | .str op s => match Cell.str? cell with | some x => strOp op x s | none => false
  | .inNum ns => inNumAt ns cell
  | .inStr ss => match Cell.str? cell with | some x => ss.contains x | none => false
  | .dropped => true

def cellAt (sch : Schema) (r : Row) (f : Nat) : Option Cell :=
  match sch[f]?, r.get f with
  | some k, some v => some (cellOf k v)
  | _, _ => none

def evalZoneIn (sch : Schema) : Expr → Row → R
  | .cmp f op l, r => let c := cmpCond op l; leafR c (zoneLeaf false c (cellAt sch r f))
  | .inn f vs, r => let c := inCond vs; leafR c (zoneLeaf false c (cellAt sch r f))
  | .and a b, r => (evalZoneIn sch a r).and fun _ => evalZoneIn sch b r
  | .or a b, r => (evalZoneIn sch a r).or fun _ => evalZoneIn sch b r
  | .not a, r => (evalZoneIn sch a r).not

/-- Only a root comparison is an element of the evaluator's own condition list. -/
def evalZone (sch : Schema) (e : Expr) (r : Row) : R :=
  match e with
  | .cmp f op l => let c := cmpCond op l; leafR c (zoneLeaf true c (cellAt sch r f))
  | _ => evalZoneIn sch e r

/-! ## stage 3: strategy per leaf (`IndexPlanner::choose`) -/

inductive Strategy where
  | temporalEq | temporalRange | enumBitmap | surf | zxf | xf | full
  deriving Repr, DecidableEq

/-- Index kinds the representative segment's catalog lists for a field. -/
structure Cat where
  ebm : Bool
  xf : Bool
  zxf : Bool
  surf : Bool
  deriving Repr, DecidableEq

def Op.isRange : Op → Bool
  | .gt | .gte | .lt | .lte => true
  | _ => false

/-- `hasCat`: the representative segment has a catalog. Leaves never carry `CompareOp::In`
(`IN` is expanded to `=` leaves before planning). -/
def choose (hasCat : Bool) (k : Option Kind) (cat : Cat) (op : Op) : Strategy :=
  if !hasCat then .full
  else match k with
    | some .time => if op = .eq then .temporalEq else .temporalRange
    | some (.enum _) =>
      if cat.ebm then .enumBitmap
      else if op.isRange && cat.surf then .surf
      else if cat.zxf then .zxf else if cat.xf then .xf else .full
    | _ =>
      if op.isRange && cat.surf then .surf
      else if cat.zxf then .zxf else if cat.xf then .xf else .full

/-! ## stage 4: zones per leaf (`FieldSelector::select_for_segment`) -/

inductive Pruner where
  | temporal | ebm | surf | zxf | xf
  deriving Repr, DecidableEq

/-- What the pruner returned for this leaf on this segment (`None` / zone ids). -/
abbrev RawSeg := Pruner → Option (List Nat)

def variantKnown (k : Option Kind) (l : Lit) : Bool :=
  match k, l with
  | some (.enum vs), .str s => vs.contains s
  | _, _ => false

/-- Per-strategy outcome with every `return Vec::new()`; `all` = the zone ids of the segment
(`create_all_zones_for_segment_from_meta`). The flag says whether the returned `CandidateZone`s
carry the event type's uid: zones enumerated from the `.zones` metadata do (`set_uid`), zones
built by a pruner with `CandidateZone::new` do not. -/
def leafSelU (st : Strategy) (k : Option Kind) (op : Op) (l : Lit) (raw : RawSeg) (all : List Nat) :
    List Nat × Bool :=
  match st with
  | .temporalEq | .temporalRange => (if op = .neq then [] else (raw .temporal).getD [], false)
  | .enumBitmap =>
    (if (op = .eq || op = .neq) && variantKnown k l then (raw .ebm).getD [] else [], false)
  | .surf =>
    if op.isRange then
      match raw .surf with
      | some z => (z, false)
      | none => (all, true)
    else (all, true)
  | .zxf => (if op = .eq then (raw .zxf).getD [] else [], false)
  | .xf => (if op = .eq then (raw .xf).getD [] else [], true)
  | .full => (all, true)

def leafSel (st : Strategy) (k : Option Kind) (op : Op) (l : Lit) (raw : RawSeg) (all : List Nat) : List Nat :=
  (leafSelU st k op l raw all).1

/-! ## stage 5: combination (`ZoneGroupCollector`) -/

/-- Is zone `z` (of the segment whose zone ids are `all`) in the candidate set of `e`?
`neg = true` is `handle_not`: complement at a leaf, De Morgan above. `sel f op l` is the leaf's
zone list on this segment. -/
def inCand (sel : Nat → Op → Lit → List Nat) (z : Nat) : Bool → Expr → Bool
  | false, .cmp f op l => (sel f op l).contains z
  | true, .cmp f op l => !(sel f op l).contains z
  | false, .inn f vs => vs.any fun l => (sel f .eq l).contains z
  | true, .inn f vs => vs.all fun l => !(sel f .eq l).contains z
  | false, .and a b => inCand sel z false a && inCand sel z false b
  | true, .and a b => inCand sel z true a || inCand sel z true b
  | false, .or a b => inCand sel z false a || inCand sel z false b
  | true, .or a b => inCand sel z true a && inCand sel z true b
  | neg, .not a => inCand sel z (!neg) a

/-- The same walk, also tracking which copy of the zone survives (`some uid?`): `ZoneCombiner`
keeps the first child's copies for AND (`base = maps[0]`, `retain`), lets later children
overwrite earlier ones for OR (`HashMap::extend`); a complement is taken from the metadata
enumeration (uid set). -/
def candU (sel : Nat → Op → Lit → List Nat) (uid : Nat → Op → Lit → Bool) (z : Nat) : Bool → Expr → Option Bool
  | false, .cmp f op l => if (sel f op l).contains z then some (uid f op l) else none
  | true, .cmp f op l => if (sel f op l).contains z then none else some true
  | false, .inn f vs =>
    vs.foldl (fun acc l => if (sel f .eq l).contains z then some (uid f .eq l) else acc) none
  | true, .inn f vs => if vs.all (fun l => !(sel f .eq l).contains z) then some true else none
  | false, .and a b =>
    match candU sel uid z false a, candU sel uid z false b with
    | some u, some _ => some u
    | _, _ => none
  | true, .and a b =>
    match candU sel uid z true b with
    | some u => some u
    | none => candU sel uid z true a
  | false, .or a b =>
    match candU sel uid z false b with
    | some u => some u
    | none => candU sel uid z false a
  | true, .or a b =>
    match candU sel uid z true a, candU sel uid z true b with
    | some u, some _ => some u
    | _, _ => none
  | neg, .not a => candU sel uid z (!neg) a

/-! ## the whole read -/

structure Zone where
  id : Nat
  rows : List Row
  deriving Repr, DecidableEq

structure Seg where
  zones : List Zone
  deriving Repr, DecidableEq

/-- Everything a query sees. `raw j f op l` is the pruners' answer for leaf `(f, op, l)` on
segment number `j`. `forCtx`: the `FOR` clause. -/
structure World where
  sch : Schema
  mem : List Row
  segs : List Seg
  hasCat : Bool
  cat : Nat → Cat
  raw : Nat → Nat → Op → Lit → RawSeg
  forCtx : Option Str

def World.strategy (w : World) (f : Nat) (op : Op) : Strategy :=
  choose w.hasCat w.sch[f]? (w.cat f) op

def World.selU (w : World) (j : Nat) (s : Seg) (f : Nat) (op : Op) (l : Lit) : List Nat × Bool :=
  leafSelU (w.strategy f op) w.sch[f]? op l (w.raw j f op l) (s.zones.map (·.id))

def World.sel (w : World) (j : Nat) (s : Seg) (f : Nat) (op : Op) (l : Lit) : List Nat :=
  (w.selU j s f op l).1

def World.ctxOk (w : World) (r : Row) : Bool :=
  match w.forCtx with
  | none => true
  | some c => decide (r.ctx = c)

/-- Candidate zones of one segment (what `ZoneCollector::collect_zones` returns for it). -/
def World.candZones (w : World) (e : Expr) (j : Nat) (s : Seg) : List Zone :=
  s.zones.filter fun z => inCand (w.sel j s) z.id false e

def enumFrom {α} : Nat → List α → List (Nat × α)
  | _, [] => []
  | i, x :: xs => (i, x) :: enumFrom (i + 1) xs

/-- Candidate zones of all segments with their uid flag. -/
def World.candFlagged (w : World) (e : Expr) : List (Zone × Bool) :=
  (enumFrom 0 w.segs).flatMap fun (j, s) =>
    s.zones.filterMap fun z =>
      (candU (w.sel j s) (fun f op l => (w.selU j s f op l).2) z.id false e).map fun u => (z, u)

/-- `ZoneHydrator::hydrate` (after /repo fix 4f45061): column values are loaded into **every**
candidate zone — zones that carry a uid through the per-uid loaders, zones without one through a
loader for the plan's event-type uid (before the fix the latter stayed empty as soon as any
candidate carried a uid, and `evaluate_zones_with_limit` skipped them). The uid flag is still
tracked by `candU` / `candFlagged` (it is what the code computes) but no longer influences the
answer. -/
def World.hydrated (w : World) (e : Expr) : List Zone := (w.candFlagged e).map (·.1)

/-- Rows of the candidate zones that are actually evaluated. -/
def World.candRows (w : World) (e : Expr) : List Row := (w.hydrated e).flatMap (·.rows)

def World.memHits (w : World) (e : Expr) : List Row :=
  w.mem.filter fun r => (evalMem e r).accepts && w.ctxOk r

def World.zoneHits (w : World) (e : Expr) : List Row :=
  (w.candRows e).filter fun r => (evalZone w.sch e r).accepts && w.ctxOk r

/-- A read task panics when the evaluation of some row it scans reaches the empty `NOT`. -/
def World.panics (w : World) (e : Expr) : Bool :=
  w.mem.any (fun r => evalMem e r = .panic) || (w.candRows e).any (fun r => evalZone w.sch e r = .panic)

/-- Returned events (memtable rows first; the response de-duplicates on the event id). -/
def World.hits (w : World) (e : Expr) : List Row := w.memHits e ++ w.zoneHits e

def World.stored (w : World) : List Row :=
  w.mem ++ w.segs.flatMap fun s => s.zones.flatMap (·.rows)

/-! ## canonical output of the driver -/

def insSorted (x : Int) : List Int → List Int
  | [] => [x]
  | y :: ys => if x < y then x :: y :: ys else if x = y then y :: ys else y :: insSorted x ys

def sortKeys (l : List Int) : List Int := l.foldr insSorted []

def World.answer (w : World) (e : Expr) : String :=
  if w.panics e then "panic"
  else
    let ks := sortKeys ((w.hits e).map Row.key)
    if ks.isEmpty then "keys=-" else "keys=" ++ ",".intercalate (ks.map toString)

end Snel.Query
