import Snel.Model.Validate
/-!
Declarative reading of property C06: what it *means* for a payload to conform to a schema.
Nothing here follows the control flow of `validate_payload`; it is two universally quantified
clauses over the schema's entries and the payload's keys, and a per-type meaning of "value of
the declared type".

Choices the property text leaves open, fixed here (each is one line below):

* F64: every JSON number is a value of a float field, integer literals included (`{"f": 3}`).
* I64 / U64: only *integer literals* in range are values of an integer field; a float literal
  with an integral value (`3.0`) is not, and a `u64` above `i64::MAX` is not an `i64`.
* Bool: only `true` / `false` (no `0` / `1`, no `"true"`).
* Time (`datetime` / `timestamp` / `date`): a string that the time parser accepts; an integer
  literal of at most 19 decimal digits (the parser's unit bands: s / ms / µs / ns); any float
  literal (taken as seconds, floor, clamped to `i64` — out-of-range floats are *not* rejected).
  `date` fields take the same inputs as `datetime` fields.
* Enum: exactly one of the declared variants, case-sensitive.
* Optional: absent, `null`, or a value of the inner type.
* "Flat": follows — no clause above admits an array or an object.
-/
namespace Snel.Validate

/-- The integer denoted by an integer literal (`PosInt` / `NegInt`); a float literal denotes
no integer, whatever its value. -/
def Json.intValue? : Json → Option Int
  | .num (.pos n) => some (n.toNat : Int)
  | .num (.neg i) => some i.val.toInt
  | _ => none

/-- A parseable time. -/
def IsTime (lib : TimeLib) : Json → Prop
  | .str s => ∃ z, parseTimeStr lib s = some z
  | .num (.pos n) => n.toNat < 10 ^ 19
  | .num (.neg _) => True
  | .num (.flt _) => True
  | _ => False

/-- `v` is a value of the declared type `ty`. -/
def HasType (lib : TimeLib) : FieldType → Json → Prop
  | .string, v => ∃ s, v = .str s
  | .u64, v => ∃ z, v.intValue? = some z ∧ 0 ≤ z ∧ z < 2 ^ 64
  | .i64, v => ∃ z, v.intValue? = some z ∧ -(2 ^ 63) ≤ z ∧ z < 2 ^ 63
  | .f64, v => ∃ n, v = .num n
  | .bool, v => ∃ b, v = .bool b
  | .timestamp, v => IsTime lib v
  | .date, v => IsTime lib v
  | .optional t, v => v = .null ∨ HasType lib t v
  | .enum vs, v => ∃ s, v = .str s ∧ s ∈ vs

/-- The payload is a JSON object whose keys are exactly the schema's fields (optional fields
may be absent), each value of the declared type. -/
def Conforms (lib : TimeLib) (schema : Schema) (payload : Json) : Prop :=
  ∃ kvs, payload = .obj kvs ∧
    (∀ f ty, (f, ty) ∈ schema →
      match kvs.lookup f with
      | some v => HasType lib ty v
      | none => ∃ t, ty = .optional t) ∧
    (∀ k v, (k, v) ∈ kvs → ∃ ty, (k, ty) ∈ schema)

/-- Scalars: what a flat payload may hold. -/
def Json.isScalar : Json → Bool
  | .arr _ => false
  | .obj _ => false
  | _ => true

/-- Does a time type sit under zero or more `Optional`s? -/
def timeUnder : FieldType → Bool
  | .timestamp => true
  | .date => true
  | .optional t => timeUnder t
  | _ => false

/-- Every time type of the schema is one the normaliser's one-level match sees (`T`, `Optional(T)`).
All types DEFINE can produce satisfy this (`noDeepTime_fieldOfSpec`). -/
def NoDeepTime (ty : FieldType) : Prop := timeUnder ty = true → normalizesField ty = true

def SchemaNoDeepTime (schema : Schema) : Prop := ∀ f ty, (f, ty) ∈ schema → NoDeepTime ty

end Snel.Validate
