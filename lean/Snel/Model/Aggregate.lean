import Snel.Gen.C09
/-!
Model of sneldb's aggregate path as the streaming executor runs it (bug for bug):

* `ColumnConverter::create_column_values` (`flow/operators/agg/column_converter.rs`): a batch
  column becomes a *typed i64* column iff every value of the batch is `Int64`/`Null`, else a
  *string* column of the values' display strings (`Null` ↦ `""`).
* `ColumnValues::get_i64_at` / `get_str_at` on those two kinds (`column/column_values.rs`) —
  a `Cell` is the pair of their answers. `get_u64_at`/`get_f64_at`/`get_bool_at` are always
  `None` for the columns the converter builds, so they do not appear.
* per-row update of every aggregator, column path (`aggregate/ops.rs`, `update`; the SIMD
  `update_column` of CountAll/Sum/Avg computes the same wrapping sums).
* `AggregateSink` grouping (`sink/aggregate/{sink,group_key,columnar}.rs`): key = (bucket,
  group values); the un-grouped columnar fast path uses a key with `prehash: 0` that is `==`
  to, but hashes differently from, the key of the row path (`zero` flag below).
* `into_partial` (merging on equal partial keys) + `snapshot_aggregator` (`sink/aggregate/finalization.rs`,
  `aggregate/partial.rs`), the wire form of `PartialConverter::build_row`, the coordinator's
  `parse_aggregate_row` / `AggState::merge` / `emit_merged_groups` / `agg_state_to_scalar`
  (`command/handlers/query/merge/aggregate_stream.rs`).
* `bucket_of` (`sink/aggregate/time_bucketing.rs`, `shared/datetime/time_bucketing.rs`):
  naive widths (generated constants) and the calendar variant for UTC with Monday week start.

Not modelled (never used by the executor): `update_from_event`/`on_event`, the sink's
`group_limit`, `AggregatorImpl::merge`, `into_events`. External: Rust's `f64` `Display` (a float
value arrives as its display string), `serde_json` round trip of the COUNT UNIQUE string array,
the final `sum as f64 / count as f64` (kept as the pair, rendered by the driver).
-/
namespace Snel.Agg

/-! ### i64 / u64 casts -/

/-- wrapping i64 arithmetic (`overflow-checks` off: release builds and the harness build). -/
def wrap (x : Int) : Int := (x + 9223372036854775808) % 18446744073709551616 - 9223372036854775808
/-- `x as u64` -/
def toU64 (x : Int) : Nat := (x % 18446744073709551616).toNat
/-- `b as i64` -/
def ofU64 (b : Nat) : Int := wrap (b : Int)

/-! ### values, columns, cells -/

/-- `ScalarValue`; a `Float64` is carried as Rust's `f.to_string()`. -/
inductive Scalar where
  | null
  | bool (b : Bool)
  | int (i : Int)
  | float (disp : String)
  | ts (i : Int)
  | str (s : String)
  | bin
  deriving DecidableEq, Repr

def digitVal (c : Char) : Option Nat :=
  if '0' ≤ c ∧ c ≤ '9' then some (c.toNat - 48) else none

/-- value of a non-empty all-digit string -/
def digitsVal : List Char → Option Nat
  | [] => none
  | cs => cs.foldl (fun acc c => match acc, digitVal c with
      | some a, some d => some (a * 10 + d)
      | _, _ => none) (some 0)

/-- Rust `str::parse::<i64>()` (what `fast_parse_i64` computes): optional sign, ≥ 1 ASCII digit,
in range. -/
def parseI64 (s : String) : Option Int :=
  match s.toList with
  | [] => none
  | '-' :: ds =>
    match digitsVal ds with
    | some n => if n ≤ 9223372036854775808 then some (-(n : Int)) else none
    | none => none
  | '+' :: ds =>
    match digitsVal ds with
    | some n => if n < 9223372036854775808 then some (n : Int) else none
    | none => none
  | ds =>
    match digitsVal ds with
    | some n => if n < 9223372036854775808 then some (n : Int) else none
    | none => none

/-- the string `create_string_column` stores for a value -/
def strRepr : Scalar → String
  | .str s => s
  | .int i => toString i
  | .float d => d
  | .bool b => if b then "true" else "false"
  | .ts i => toString i
  | .bin => ""
  | .null => ""

def Scalar.intOrNull : Scalar → Bool
  | .int _ => true
  | .null => true
  | _ => false

/-- What the aggregators can see of one value: `get_i64_at`, `get_str_at`. -/
structure Cell where
  num : Option Int
  str : Option String
  deriving DecidableEq, Repr

def toCell (typed : Bool) (v : Scalar) : Cell :=
  if typed then
    match v with
    | .int i => ⟨some i, none⟩
    | _ => ⟨none, none⟩
  else ⟨parseI64 (strRepr v), some (strRepr v)⟩

/-- A row as the sink sees it; `none` = the batch has no such column. -/
abbrev Row := List (Option Cell)

def cellAt (r : Row) (f : Nat) : Option Cell := r.getD f none
def numAt (r : Row) (f : Nat) : Option Int := (cellAt r f).bind (·.num)

/-- per column: is the batch column typed i64? -/
def typedCols (width : Nat) (batch : List (List Scalar)) : List Bool :=
  (List.range width).map fun j => batch.all fun r => (r.getD j .null).intOrNull

def convertRow (tys : List Bool) (r : List Scalar) : Row :=
  (List.range tys.length).map fun j => some (toCell (tys.getD j false) (r.getD j .null))

/-- `ColumnConverter::convert` for one batch of `width` columns. -/
def convertBatch (width : Nat) (batch : List (List Scalar)) : List Row :=
  batch.map (convertRow (typedCols width batch))

/-! ### plan -/

inductive Gran where
  | hour | day | week | month | year
  deriving DecidableEq, Repr

inductive Metric where
  | countAll
  | countField (f : Nat)
  | countUnique (f : Nat)
  | total (f : Nat)
  | avg (f : Nat)
  | min (f : Nat)
  | max (f : Nat)
  deriving DecidableEq, Repr

structure Plan where
  metrics : List Metric
  groupBy : Option (List Nat)
  bucket : Option Gran
  timeField : Nat
  /-- `[time] use_calendar_bucketing` (timezone UTC, week starts Monday) -/
  calendar : Bool
  deriving Repr

def Plan.hasGrouping (p : Plan) : Bool := p.groupBy.isSome || p.bucket.isSome

/-! ### time buckets -/

/-- days since 1970-01-01 → (year, month, day), proleptic Gregorian -/
def civilFromDays (d : Int) : Int × Int × Int :=
  let z := d + 719468
  let era := z / 146097
  let doe := z - era * 146097
  let yoe := (doe - doe / 1460 + doe / 36524 - doe / 146096) / 365
  let y := yoe + era * 400
  let doy := doe - (365 * yoe + yoe / 4 - yoe / 100)
  let mp := (5 * doy + 2) / 153
  let day := doy - (153 * mp + 2) / 5 + 1
  let m := if mp < 10 then mp + 3 else mp - 9
  (if m ≤ 2 then y + 1 else y, m, day)

def daysFromCivil (y m d : Int) : Int :=
  let y := if m ≤ 2 then y - 1 else y
  let era := y / 400
  let yoe := y - era * 400
  let doy := (153 * (if m > 2 then m - 3 else m + 9) + 2) / 5 + d - 1
  let doe := yoe * 365 + yoe / 4 - yoe / 100 + doy
  era * 146097 + doe - 719468

/-- chrono's `NaiveDate` range; outside it `DateTime::from_timestamp` is `None` and the code
falls back to the epoch. -/
def chronoMinDay : Int := daysFromCivil (-262143) 1 1
def chronoMaxDay : Int := daysFromCivil 262142 12 31

/-- `CalendarTimeBucketer::bucket_of` for UTC / Monday, on the i64 view of the timestamp. -/
def calBucket (g : Gran) (i0 : Int) : Int :=
  let i := if chronoMinDay ≤ i0 / 86400 ∧ i0 / 86400 ≤ chronoMaxDay then i0 else 0
  let d := i / 86400
  match g with
  | .hour => (i / 3600) * 3600
  | .day => d * 86400
  | .week => (d - (d + 3) % 7) * 86400
  | .month => let c := civilFromDays d; daysFromCivil c.1 c.2.1 1 * 86400
  | .year => let c := civilFromDays d; daysFromCivil c.1 1 1 * 86400

def naiveWidth : Gran → Nat
  | .hour => Snel.Gen.C09.naiveHour
  | .day => Snel.Gen.C09.naiveDay
  | .week => Snel.Gen.C09.naiveWeek
  | .month => Snel.Gen.C09.naiveMonth
  | .year => Snel.Gen.C09.naiveYear

def naiveBucket (g : Gran) (ts : Nat) : Nat := (ts / naiveWidth g) * naiveWidth g

/-- `bucket_of(ts as u64, gran)` where `ts : i64` came from `get_i64_at`. -/
def bucketOf (calendar : Bool) (g : Gran) (i : Int) : Nat :=
  if calendar then toU64 (calBucket g i) else naiveBucket g (toU64 i)

/-! ### aggregator states -/

/-- `AggState` (and, with the same shape, the sink's `AggregatorImpl`). -/
inductive St where
  | cnt (n : Int)
  | uniq (vs : List String)
  | sum (s : Int)
  | avg (s c : Int)
  | mn (n : Option Int) (s : Option String)
  | mx (n : Option Int) (s : Option String)
  deriving DecidableEq, Repr

def init : Metric → St
  | .countAll => .cnt 0
  | .countField _ => .cnt 0
  | .countUnique _ => .uniq []
  | .total _ => .sum 0
  | .avg _ => .avg 0 0
  | .min _ => .mn none none
  | .max _ => .mx none none

/-- keep `cur` unless the candidate wins (`lt v cur`) -/
def pick {α : Type} (lt : α → α → Bool) (cur v : α) : α := if lt v cur then v else cur

def opick {α : Type} (lt : α → α → Bool) : Option α → Option α → Option α
  | some x, some y => some (pick lt x y)
  | none, b => b
  | a, none => a

def ltI (a b : Int) : Bool := decide (a < b)
def gtI (a b : Int) : Bool := decide (b < a)
def ltS (a b : String) : Bool := decide (a < b)
def gtS (a b : String) : Bool := decide (b < a)

/-- `HashSet::insert` on a duplicate-free list -/
def insertU (v : String) (vs : List String) : List String := if v ∈ vs then vs else vs ++ [v]

/-- the string COUNT UNIQUE inserts for a row (`""` for a missing column, a null, or any value of
a typed i64 column — `get_str_at` answers `None` there) -/
def uval (r : Row) (f : Nat) : String :=
  match cellAt r f with
  | some c => c.str.getD ""
  | none => ""

/-- `CountField::update`: typed column → `get_i64_at(..).is_some()`, else `get_str_at(..).is_some()` -/
def nonNull (r : Row) (f : Nat) : Bool :=
  match cellAt r f with
  | some c => c.num.isSome || c.str.isSome
  | none => false

/-- `AggregatorImpl::update(row_idx, columns)` -/
def update (m : Metric) (r : Row) (st : St) : St :=
  match m, st with
  | .countAll, .cnt n => .cnt (wrap (n + 1))
  | .countField f, .cnt n => if nonNull r f then .cnt (wrap (n + 1)) else .cnt n
  | .countUnique f, .uniq vs => .uniq (insertU (uval r f) vs)
  | .total f, .sum s =>
    match numAt r f with
    | some v => .sum (wrap (s + v))
    | none => .sum s
  | .avg f, .avg s c =>
    match numAt r f with
    | some v => .avg (wrap (s + v)) (wrap (c + 1))
    | none => .avg s c
  | .min f, .mn n s =>
    match cellAt r f with
    | some c =>
      match c.num with
      | some v => .mn (opick ltI n (some v)) s
      | none =>
        match c.str with
        | some x => .mn n (opick ltS s (some x))
        | none => .mn n s
    | none => .mn n s
  | .max f, .mx n s =>
    match cellAt r f with
    | some c =>
      match c.num with
      | some v => .mx (opick gtI n (some v)) s
      | none =>
        match c.str with
        | some x => .mx n (opick gtS s (some x))
        | none => .mx n s
    | none => .mx n s
  | _, st => st

/-- `AggState::merge` -/
def St.merge : St → St → St
  | .cnt a, .cnt b => .cnt (wrap (a + b))
  | .uniq a, .uniq b => .uniq (b.foldl (fun acc v => insertU v acc) a)
  | .sum a, .sum b => .sum (wrap (a + b))
  | .avg s1 c1, .avg s2 c2 => .avg (wrap (s1 + s2)) (wrap (c1 + c2))
  | .mn a sa, .mn b sb => .mn (opick ltI a b) (opick ltS sa sb)
  | .mx a sa, .mx b sb => .mx (opick gtI a b) (opick gtS sa sb)
  | a, _ => a

/-- `snapshot_aggregator`: MIN/MAX go through `finalize()`'s string and `parse::<i64>()`. -/
def snapshot : St → St
  | .mn n s =>
    match n with
    | some v => .mn (some v) none
    | none =>
      match parseI64 (s.getD "") with
      | some v => .mn (some v) none
      | none => .mn none (some (s.getD ""))
  | .mx n s =>
    match n with
    | some v => .mx (some v) none
    | none =>
      match parseI64 (s.getD "") with
      | some v => .mx (some v) none
      | none => .mx none (some (s.getD ""))
  | st => st

/-! ### group keys and tables -/

/-- `partial::GroupKey` (also the coordinator's key) -/
structure Key where
  bucket : Option Nat
  groups : List String
  deriving DecidableEq, Repr

/-- the sink's `GroupKey`: `zero` = built by the un-grouped columnar path (`prehash: 0`), which is
`==` to the row path's key but lives in a different hash bucket, so both can be present. -/
structure SinkKey where
  zero : Bool
  key : Key
  deriving DecidableEq, Repr

/-- insertion-ordered association list standing in for the `HashMap`s -/
abbrev AList (κ : Type) := List (κ × List St)

def AList.get {κ : Type} [DecidableEq κ] : AList κ → κ → Option (List St)
  | [], _ => none
  | (k', v) :: rest, k => if k' = k then some v else AList.get rest k

/-- `entry(k)`: replace the value by `f (current)` or append `(k, f none)` -/
def AList.upsert {κ : Type} [DecidableEq κ] : AList κ → κ → (Option (List St) → List St) → AList κ
  | [], k, f => [(k, f none)]
  | (k', v) :: rest, k, f =>
    if k' = k then (k', f (some v)) :: rest else (k', v) :: AList.upsert rest k f

def AList.keys {κ : Type} (t : AList κ) : List κ := t.map (·.1)

/-- group value of a field: `Int(i)` when `get_i64_at` answers, else the string, else `""`;
stringified (`groups_str`). -/
def gval (r : Row) (f : Nat) : String :=
  match cellAt r f with
  | some c =>
    match c.num with
    | some i => toString i
    | none => c.str.getD ""
  | none => ""

/-- `GroupKey::from_row_with_indices` (bucket and group values) -/
def rowKey (p : Plan) (r : Row) : Key :=
  { bucket := match p.bucket with
      | some g => (numAt r p.timeField).map (bucketOf p.calendar g)
      | none => none
    groups := match p.groupBy with
      | some fs => fs.map (gval r)
      | none => [] }

/-- `supports_columnar_aggregators`: only COUNT / TOTAL f / AVG f with `f` a typed i64 column -/
def columnarOK (p : Plan) (tys : List Bool) : Bool :=
  p.metrics.all fun m =>
    match m with
    | .countAll => true
    | .total f => tys.getD f false
    | .avg f => tys.getD f false
    | _ => false

/-- A row together with "its batch took the columnar path". -/
abbrev TRow := Bool × Row

def sinkKey (p : Plan) (tr : TRow) : SinkKey :=
  if tr.1 && !p.hasGrouping then ⟨true, ⟨none, []⟩⟩ else ⟨false, rowKey p tr.2⟩

def updateAll (ms : List Metric) (r : Row) (sts : List St) : List St :=
  List.zipWith (fun m s => update m r s) ms sts

/-- one row into the sink (`on_row`; for a columnar slice the per-range `update_column` calls add
up to the same per-row updates) -/
def sinkStep (p : Plan) (t : AList SinkKey) (tr : TRow) : AList SinkKey :=
  t.upsert (sinkKey p tr) fun o => updateAll p.metrics tr.2 (o.getD (p.metrics.map init))

def sinkAgg (p : Plan) (rows : List TRow) : AList SinkKey := rows.foldl (sinkStep p) []

/-- tag the rows of a batch with the path `on_column_slice` takes for it -/
def tagBatch (p : Plan) (width : Nat) (batch : List (List Scalar)) : List TRow :=
  let tys := typedCols width batch
  (convertBatch width batch).map fun r => (columnarOK p tys, r)

/-- all batches of one flow, in arrival order (empty batches are skipped by `AggregateOp::run`,
which changes nothing here) -/
def tagFlow (p : Plan) (width : Nat) (batches : List (List (List Scalar))) : List TRow :=
  batches.flatMap (tagBatch p width)

def mergeVec (a b : List St) : List St :=
  if a.length = b.length then List.zipWith St.merge a b else a

/-- merge `v` into the current value of a map entry, or insert it -/
def mergeOpt (o : Option (List St)) (v : List St) : List St :=
  match o with
  | none => v
  | some cur => mergeVec cur v

/-- `into_partial` (since repo commit 829ebe3): per `(bucket, groups)` the snapshotted states of a
sink group are inserted, or *merged* with `AggState::merge` into the entry that is already there.
Two sink groups meet here exactly when a flow took both sink paths (`zero` true and false). -/
def intoPartial (t : AList SinkKey) : AList Key :=
  t.foldl (fun acc e => acc.upsert e.1.key fun o => mergeOpt o (e.2.map snapshot)) []

/-- wire form of the key (`build_row` → `parse_aggregate_row`): `None` bucket ↦ `0`; a bucket
whose i64 view is negative ↦ `None`; no PER clause ↦ `None`. -/
def wireKey (p : Plan) (k : Key) : Key :=
  { bucket := if p.bucket.isSome then
        (let b := k.bucket.getD 0
         if b < 9223372036854775808 then some b else none)
      else none
    groups := k.groups }

/-- `merge_batch_into_groups` for one wire row -/
def mergeInto (p : Plan) (t : AList Key) (e : Key × List St) : AList Key :=
  t.upsert (wireKey p e.1) fun o => mergeOpt o e.2

/-- the coordinator's table after all partial rows of all flows arrived (flow by flow) -/
def coordinate (p : Plan) (partials : List (AList Key)) : AList Key :=
  partials.foldl (fun t part => part.foldl (mergeInto p) t) []

/-- final cell values (`agg_state_to_scalar`); AVG stays the pair (sum, count) -/
inductive Out where
  | int (i : Int)
  | str (s : String)
  | avg (s c : Int)
  | null
  deriving DecidableEq, Repr

def outOf : Metric → St → Option Out
  | .countAll, .cnt n => some (.int n)
  | .countField _, .cnt n => some (.int n)
  | .countUnique _, .uniq vs => some (.int vs.length)
  | .total _, .sum s => some (.int s)
  | .avg _, .avg s c => some (.avg s c)
  | .min _, .mn n s =>
    match n with
    | some v => some (.int v)
    | none => some (.str (s.getD ""))
  | .max _, .mx n s =>
    match n with
    | some v => some (.int v)
    | none => some (.str (s.getD ""))
  | _, _ => none

/-- `emit_merged_groups`: with BY, groups that have an empty group value are dropped -/
def retained (p : Plan) (k : Key) : Bool :=
  match p.groupBy with
  | some _ => !k.groups.isEmpty && !k.groups.any (· == "")
  | none => true

def outRow (p : Plan) (sts : List St) : Option (List Out) :=
  (List.zipWith outOf p.metrics sts).mapM id

/-- final table before ORDER/OFFSET/LIMIT: `none` when `agg_state_to_scalar` errs -/
def finalTable (p : Plan) (t : AList Key) : Option (List (Key × List Out)) :=
  (t.filter fun e => retained p e.1).mapM fun e => (outRow p e.2).map fun o => (e.1, o)

/-- LIMIT / OFFSET on the (sorted) list of groups -/
def limitRows {α : Type} (offset limit : Option Nat) (rows : List α) : List α :=
  let r := match offset with
    | some o => rows.drop o
    | none => rows
  match limit with
  | some l => r.take l
  | none => r

/-- The whole pipeline for a list of flows (shard × {memtable, segments}), each a list of tagged
rows. -/
def runFlows (p : Plan) (flows : List (List TRow)) : AList Key :=
  coordinate p (flows.map fun fl => intoPartial (sinkAgg p fl))

/-! ### the reference fold (specification) on the rows of one group -/

/-- integer readings of field `f` -/
def numsOf (f : Nat) (rs : List Row) : List Int := rs.filterMap (numAt · f)

/-- strings of the cells of `f` that have no integer reading -/
def strsOf (f : Nat) (rs : List Row) : List String :=
  rs.filterMap fun r =>
    match cellAt r f with
    | some c => if c.num.isNone then c.str else none
    | none => none

/-- the winner of a list under `pick lt` (minimum for `lt = <`, maximum for `lt = >`) -/
def bestOf {α : Type} (lt : α → α → Bool) (xs : List α) : Option α :=
  xs.foldl (fun acc x => opick lt acc (some x)) none

/-- the distinct values of a list, first occurrences in order -/
def distinct (xs : List String) : List String := xs.foldl (fun acc v => insertU v acc) []

/-- What each metric reports for the rows `rs` of a group, as a plain fold (sums are i64
wrapping sums; MIN/MAX prefer integer readings over strings; COUNT UNIQUE counts the distinct
`uval`s). -/
def spec (m : Metric) (rs : List Row) : Out :=
  match m with
  | .countAll => .int (wrap rs.length)
  | .countField f => .int (wrap (rs.countP (nonNull · f)))
  | .countUnique f => .int (distinct (rs.map (uval · f))).length
  | .total f => .int (wrap (numsOf f rs).sum)
  | .avg f => .avg (wrap (numsOf f rs).sum) (wrap (numsOf f rs).length)
  | .min f =>
    match bestOf ltI (numsOf f rs) with
    | some v => .int v
    | none => .str ((bestOf ltS (strsOf f rs)).getD "")
  | .max f =>
    match bestOf gtI (numsOf f rs) with
    | some v => .int v
    | none => .str ((bestOf gtS (strsOf f rs)).getD "")

/-- the aggregator of metric `m` after the rows `rs`, in order -/
def fstate (m : Metric) (rs : List Row) : St := rs.foldl (fun s r => update m r s) (init m)

/-- A cell as `toCell` builds it: a string column's integer reading is the parse of its string. -/
def Cell.WF (c : Cell) : Prop := ∀ s, c.str = some s → c.num = parseI64 s

def RowWF (r : Row) : Prop := ∀ f c, cellAt r f = some c → c.WF

/-- fields of MIN / MAX metrics -/
def Metric.minMaxField : Metric → Option Nat
  | .min f => some f
  | .max f => some f
  | _ => none

/-- the final key a row ends up under -/
def finalKey (p : Plan) (r : Row) : Key := wireKey p (rowKey p r)

/-! ### which rows are fed to the aggregator (FOR / SINCE / type in aggregate mode)

`ConditionEvaluatorBuilder::build_from_plan` adds the special-field conditions (event type,
context, SINCE) only when the plan has no aggregate; `QueryPlan::new` also removes the SINCE
zone filter for aggregates. A memtable (it holds every type and context of the shard) is
therefore scanned with the WHERE clause only. -/

structure Ev where
  etype : Nat
  ctx : Nat
  ts : Int
  row : Row
  deriving Repr

structure Sel where
  etype : Nat
  ctx : Option Nat
  since : Option Int
  wh : Row → Bool

/-- row evaluator of a plain selection -/
def Sel.selects (q : Sel) (e : Ev) : Bool :=
  q.wh e.row && e.etype == q.etype &&
    (match q.ctx with | some c => e.ctx == c | none => true) &&
    (match q.since with | some s => decide (s ≤ e.ts) | none => true)

/-- row evaluator of the same query with an aggregate clause -/
def Sel.feeds (q : Sel) (e : Ev) : Bool := q.wh e.row

end Snel.Agg
