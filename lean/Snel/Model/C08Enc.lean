/-!
Model of `src/engine/core/filter/surf_encoding.rs` (C08, SuRF key encoding).

Conventions
* a byte is a `Nat` (< 256), a key is a `List Nat`, compared lexicographically (`lexLt`), which is
  what Rust's `<` on `[u8]` / `Vec<u8>` does (`values.sort()`, `k.as_slice() > lower`);
* an `i64` / `u64` / `f64` is its 64-bit pattern as a `Nat < 2^64` (`i64Val` gives the signed
  reading). A float is *only* its bit pattern; the order on floats is the IEEE total order
  defined on bits (`f64Key`), which coincides with Rust's `<` on non-NaN values except that it
  separates `-0.0` from `+0.0` (tied to `f64::total_cmp` / `partial_cmp` by the `raw` stream).
* `x ^ 0x8000_0000_0000_0000` is written arithmetically (`flipSign`: add or subtract `2^63`),
  `!bits` as `2^64 - 1 - bits`; `Snel.Lemmas.C08Enc.flipSign_eq_xor` shows the first is the xor.
* `str::parse::<f64>` is an external function: its result is a field of `SV.utf8`.
  `str::parse::<i64>` / `<u64>` are modelled (`parseI64`, `parseU64`).
-/
namespace Snel.C08

/-- Lexicographic `<` on byte strings (`Ord for [u8]`). -/
def lexLt : List Nat → List Nat → Bool
  | _, [] => false
  | [], _ :: _ => true
  | a :: as, b :: bs => if a < b then true else if a = b then lexLt as bs else false

def lexLe (a b : List Nat) : Bool := !lexLt b a

/-- `k` big-endian bytes of `n` (`to_be_bytes` for `k = 8`). -/
def be : Nat → Nat → List Nat
  | 0, _ => []
  | k + 1, n => (n / 256 ^ k) % 256 :: be k (n % 256 ^ k)

def two63 : Nat := 2 ^ 63
def two64 : Nat := 2 ^ 64

/-- `x ^ (1 << 63)` on a u64. -/
def flipSign (x : Nat) : Nat := if x < two63 then x + two63 else x - two63

/-- Signed reading of a 64-bit pattern. -/
def i64Val (x : Nat) : Int := if x < two63 then (x : Int) else (x : Int) - (two64 : Int)

/-- Two's-complement pattern of an integer in `[-2^63, 2^63)`. -/
def i64Pat (v : Int) : Nat := (v % (two64 : Int)).toNat

/-- `encode_u64`. -/
def encU64 (u : Nat) : List Nat := be 8 u

/-- `encode_i64`: flip the sign bit, big-endian. -/
def encI64 (x : Nat) : List Nat := be 8 (flipSign x)

/-- `encode_f64`: negative → all bits inverted, non-negative → sign bit set. -/
def encF64 (b : Nat) : List Nat :=
  be 8 (if two63 ≤ b then two64 - 1 - b else b + two63)

/-- IEEE total order key of a float bit pattern (`f64::total_cmp`). -/
def f64Key (b : Nat) : Int :=
  if b < two63 then (b : Int) else - ((b - two63 : Nat) : Int) - 1

def f64Lt (a b : Nat) : Prop := f64Key a < f64Key b
instance (a b : Nat) : Decidable (f64Lt a b) := by unfold f64Lt; infer_instance

def f64Exp (b : Nat) : Nat := (b / 2 ^ 52) % 2048
def f64Man (b : Nat) : Nat := b % 2 ^ 52
def f64IsNeg (b : Nat) : Bool := decide (two63 ≤ b)
def f64IsNaN (b : Nat) : Bool := f64Exp b == 2047 && f64Man b != 0

/-- `some v` iff the float is finite and `f - f.trunc() == 0`, `v` its exact integer value
(`-0.0 ↦ 0`). Exact integer arithmetic on exponent and mantissa. -/
def f64IntVal (b : Nat) : Option Int :=
  let e := f64Exp b
  let m := f64Man b
  let sgn : Int := if f64IsNeg b then -1 else 1
  if e = 2047 then none
  else if e = 0 then (if m = 0 then some 0 else none)
  else
    let M := 2 ^ 52 + m
    if 1075 ≤ e then some (sgn * ((M * 2 ^ (e - 1075) : Nat) : Int))
    else
      let sh := 1075 - e
      if sh ≤ 52 ∧ M % 2 ^ sh = 0 then some (sgn * ((M / 2 ^ sh : Nat) : Int)) else none

/-- The float arm shared by `ScalarValue::Float64` and number-looking strings: integral values
go to the i64 lane when `i64::MIN as f64 <= t <= i64::MAX as f64` (the upper bound is `2^63`
as a float, so `2^63` itself passes and `t as i64` saturates to `i64::MAX`), otherwise to the
u64 lane when non-negative (`t as u64` saturates at `u64::MAX`), otherwise — and for every
non-integral or non-finite value — to the f64 lane. -/
def encFloatNorm (b : Nat) : List Nat :=
  match f64IntVal b with
  | some v =>
    if -(two63 : Int) ≤ v ∧ v ≤ (two63 : Int) then
      encI64 (i64Pat (if v = (two63 : Int) then (two63 : Int) - 1 else v))
    else if 0 ≤ v then encU64 (if (two64 : Int) ≤ v then two64 - 1 else v.toNat)
    else encF64 b
  | none => encF64 b

def isDigit (c : Nat) : Bool := 48 ≤ c && c ≤ 57

def digitsVal : List Nat → Nat → Nat
  | [], acc => acc
  | c :: cs, acc => digitsVal cs (acc * 10 + (c - 48))

/-- Strip one leading `+`. -/
def stripPlus : List Nat → List Nat
  | 43 :: rest => rest
  | s => s

/-- At least one ASCII digit, only digits, value below `limit`. -/
def parseDigits (ds : List Nat) (limit : Nat) : Option Nat :=
  if ds.isEmpty || !ds.all isDigit then none
  else if digitsVal ds 0 < limit then some (digitsVal ds 0) else none

/-- `str::parse::<u64>()`: optional `+`, at least one ASCII digit, no overflow. -/
def parseU64 (s : List Nat) : Option Nat := parseDigits (stripPlus s) two64

/-- `str::parse::<i64>()` as a 64-bit pattern: optional `+`/`-`, digits, range check. -/
def parseI64 (s : List Nat) : Option Nat :=
  match s with
  | 45 :: ds => (parseDigits ds (two63 + 1)).map fun v => i64Pat (-(v : Int))
  | _ => parseDigits (stripPlus s) two63

/-- `ScalarValue`. `utf8 s pf`: `pf` is what `s.parse::<f64>()` returns (bit pattern), supplied
by the caller because the decimal-to-binary conversion of std is not modelled. -/
inductive SV where
  | null
  | bool (b : Bool)
  | int64 (x : Nat)
  | f64 (b : Nat)
  | ts (x : Nat)
  | utf8 (s : List Nat) (pf : Option Nat)
  | binary
  deriving Repr, DecidableEq

/-- `encode_value`. -/
def encodeValue : SV → Option (List Nat)
  | .utf8 s pf =>
    match parseI64 s with
    | some x => some (encI64 x)
    | none =>
      match parseU64 s with
      | some u => some (encU64 u)
      | none =>
        match pf with
        | some b => some (encFloatNorm b)
        | none => some s
  | .int64 x => some (encI64 x)
  | .ts x => some (encI64 x)
  | .f64 b => some (encFloatNorm b)
  | .bool b => some (if b then [1] else [0])
  | _ => none

/-- The three numeric "lanes" of the encoding. -/
inductive Lane where
  | I | U | F
  deriving Repr, DecidableEq

/-- Lane and order key of a float that `encFloatNorm` maps *injectively*: integral values
strictly inside the i64 range, integral values strictly between `2^63` and `2^64`, and
everything that stays on the f64 lane. `none` for the saturating cases (`= 2^63`, `≥ 2^64`). -/
def floatLane (b : Nat) : Option (Lane × Int) :=
  match f64IntVal b with
  | some v =>
    if -(two63 : Int) ≤ v ∧ v < (two63 : Int) then some (.I, v)
    else if (two63 : Int) < v ∧ v < (two64 : Int) then some (.U, v)
    else if v < -(two63 : Int) then some (.F, f64Key b)
    else none
  | none => some (.F, f64Key b)

/-- Lane and order key of a value: on the I and U lanes the key is the exact integer the value
denotes, on the F lane the IEEE total-order key of the float. -/
def laneOf : SV → Option (Lane × Int)
  | .int64 x => some (.I, i64Val x)
  | .ts x => some (.I, i64Val x)
  | .f64 b => floatLane b
  | .utf8 s pf =>
    match parseI64 s with
    | some x => some (.I, i64Val x)
    | none =>
      match parseU64 s with
      | some u => some (.U, (u : Int))
      | none =>
        match pf with
        | some b => floatLane b
        | none => none
  | _ => none

end Snel.C08
