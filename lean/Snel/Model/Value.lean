import Snel.Model.ColumnBlock
/-!
Model of the value path of one payload field.

* `ofJson` / `toJson`: `impl From<serde_json::Value> for ScalarValue` and
  `ScalarValue::to_json` (`src/engine/types/mod.rs`).
* `serdeJson`: `impl Serialize for ScalarValue`; the WAL line is that value's JSON text and
  recovery is `Deserialize` = `ofJson ∘ parse` (`wal_entry.rs`).
* `colString`: the string `ColumnGroupBuilder::add` pushes for a scalar; `physOf`: the physical
  type `ColumnWriter::write_all` derives from the schema.
* `cellToScalar`: `ColumnBlockSnapshot::values_to_scalar` (compaction path);
  `cellToBuilt`: the row materialisation of `ConditionEvaluator::evaluate_zones_with_limit`
  through `EventBuilder::add_field_*` / `add_field` → `add_payload_field` (query path).

External functions are parameters, bundled in `Ext`:
* `parseF64` — Rust `str::parse::<f64>` (string ↦ bit pattern), `fmtF64` — `f64::to_string`;
* `jsonParse` — the verdict of `serde_json::from_str::<Value>` on a string, reduced to what
  `to_json` looks at;
* `walFloat` — what a finite `f64` is after `serde_json::to_string` (ryu, shortest digits) and
  `serde_json::from_str` (the crate is built without its `float_roundtrip` feature, and its
  default number parser is not correctly rounded — the check observes last-bit differences).

An `f64` is its 64-bit pattern (a `Nat`). A Rust `String` is its UTF-8 byte list (`Bytes`);
`std::str::from_utf8` is `validUtf8`. A JSON array/object is opaque: it is identified by the
text `serde_json::to_string` gives it (`Json.nested`). `ScalarValue::Binary` is not modelled
(no ingest path produces it).
-/
namespace Snel.Value
open Snel.ColumnBlock

def i64Max : Nat := 9223372036854775807

/-- `serde_json::Number` without `arbitrary_precision`: `PosInt(u64)`, `NegInt(i64 < 0)`,
`Float(finite f64)`. `neg m` is the integer `-m`. -/
inductive JNum
  | pos (u : Nat)
  | neg (m : Nat)
  | flt (bits : Nat)
  deriving DecidableEq, Repr

inductive Json
  | null
  | bool (b : Bool)
  | num (n : JNum)
  | str (s : Bytes)
  | nested (text : Bytes)
  deriving DecidableEq, Repr

inductive Scalar
  | null
  | bool (b : Bool)
  | int (i : Int)
  | float (bits : Nat)
  | ts (i : Int)
  | utf8 (s : Bytes)
  deriving DecidableEq, Repr

/-- What `to_json` learns from `serde_json::from_str::<Value>(s)`. -/
inductive Verdict
  | container (text : Bytes)    -- parsed to an object or array; `text` = its `to_string`
  | number (n : JNum)
  | other                       -- parsed to a string, boolean or null
  | invalid                     -- parse error
  deriving DecidableEq, Repr

structure Ext where
  parseF64 : Bytes → Option Nat
  fmtF64 : Nat → Bytes
  jsonParse : Bytes → Verdict
  walFloat : Nat → Nat

def digitByte (d : Nat) : UInt8 := UInt8.ofNat (48 + d)

/-- decimal digits of `n`, least significant first (`fuel` digits at most) -/
def digitsRev : Nat → Nat → Bytes
  | 0, _ => []
  | f + 1, n => if n < 10 then [digitByte n] else digitByte (n % 10) :: digitsRev f (n / 10)

/-- `u64::to_string` / the digits of `i64::to_string` (values below `10^20`) -/
def natDec (n : Nat) : Bytes := (digitsRev 20 n).reverse

/-- `i64::to_string` -/
def intDec (i : Int) : Bytes := if i < 0 then 45 :: natDec (-i).toNat else natDec i.toNat

def isFinite (bits : Nat) : Bool := (bits / 4503599627370496) % 2048 != 2047

def intJson (i : Int) : Json :=
  if i < 0 then .num (.neg (-i).toNat) else .num (.pos i.toNat)

/-- `ScalarValue::from(JsonValue)` -/
def ofJson : Json → Scalar
  | .null => .null
  | .bool b => .bool b
  | .num (.pos u) => if u ≤ i64Max then .int u else .utf8 (natDec u)
  | .num (.neg m) => .int (-(m : Int))
  | .num (.flt b) => .float b
  | .str s => .utf8 s
  | .nested t => .utf8 t

/-- `ScalarValue::to_json` -/
def toJson (x : Ext) : Scalar → Json
  | .null => .null
  | .bool b => .bool b
  | .int i => intJson i
  | .float b => if isFinite b then .num (.flt b) else .null
  | .ts i => intJson i
  | .utf8 s =>
    match x.jsonParse s with
    | .container t => .nested t
    | .number (.pos u) => if u > i64Max then .num (.pos u) else .str s
    | _ => .str s

/-- `impl Serialize for ScalarValue` into the serde data model, read back as a JSON value
(serde_json writes a non-finite `f64` as `null`). -/
def serdeJson : Scalar → Json
  | .null => .null
  | .bool b => .bool b
  | .int i => intJson i
  | .float b => if isFinite b then .num (.flt b) else .null
  | .ts i => intJson i
  | .utf8 s => .str s

/-- The JSON text of the WAL line read back by `serde_json::from_str`: identity on the data
model except for the float text round trip, which is `x.walFloat`. -/
def jsonText (x : Ext) : Json → Json
  | .num (.flt b) => .num (.flt (x.walFloat b))
  | j => j

/-- WAL append + recovery of one payload value. -/
def walRoundtrip (x : Ext) (v : Scalar) : Scalar := ofJson (jsonText x (serdeJson v))

/-! ### schema types -/

inductive FieldType
  | string | u64 | i64 | f64 | bool | timestamp | date
  | optional (inner : FieldType)
  | enum (variants : List Bytes)
  deriving Repr

/-- `ColumnWriter::write_all`: schema type → physical type (payload fields). -/
def physOf : FieldType → Phys
  | .i64 | .timestamp | .date => .i64
  | .u64 => .u64
  | .f64 => .f64
  | .bool => .bool
  | .optional (.i64) | .optional (.timestamp) | .optional (.date) => .i64
  | .optional (.u64) => .u64
  | .optional (.f64) => .f64
  | .optional (.bool) => .bool
  | _ => .varBytes

/-- `type_allows_value` (`command/handlers/store.rs`) on the payload **after** time
normalisation, where a `datetime` / `date` value is an integer number of seconds. -/
def conforms : FieldType → Json → Bool
  | .string, .str _ => true
  | .u64, .num (.pos u) => u < 18446744073709551616
  | .i64, .num (.pos u) => u ≤ i64Max
  | .i64, .num (.neg m) => 1 ≤ m && m ≤ i64Max + 1
  | .f64, .num (.pos u) => u < 18446744073709551616
  | .f64, .num (.neg m) => 1 ≤ m && m ≤ i64Max + 1
  | .f64, .num (.flt b) => isFinite b && b < 18446744073709551616
  | .bool, .bool _ => true
  | .timestamp, .num (.pos u) => u ≤ i64Max
  | .timestamp, .num (.neg m) => 1 ≤ m && m ≤ i64Max + 1
  | .date, .num (.pos u) => u ≤ i64Max
  | .date, .num (.neg m) => 1 ≤ m && m ≤ i64Max + 1
  | .optional _, .null => true
  | .optional inner, v => conforms inner v
  | .enum vs, .str s => vs.contains s
  | _, _ => false

/-! ### write side: scalar → column string -/

/-- `ColumnGroupBuilder::add` for a payload field (the `event_id` special case is a core
field). -/
def colString (x : Ext) : Scalar → Bytes
  | .utf8 s => s
  | .int i => intDec i
  | .ts i => intDec i
  | .float b => x.fmtF64 b
  | .bool b => if b then [116, 114, 117, 101] else [102, 97, 108, 115, 101]
  | .null => []

/-! ### read side -/

/-- `std::str::from_utf8(bytes).is_ok()`: well-formed UTF-8 (no overlong forms, no
surrogates, nothing above U+10FFFF). -/
def validUtf8 : Bytes → Bool
  | [] => true
  | b0 :: rest =>
    let n0 := b0.toNat
    let cont (b : UInt8) : Bool := 128 ≤ b.toNat && b.toNat ≤ 191
    if n0 < 128 then validUtf8 rest
    else if 194 ≤ n0 && n0 ≤ 223 then
      match rest with
      | b1 :: r => cont b1 && validUtf8 r
      | _ => false
    else if 224 ≤ n0 && n0 ≤ 239 then
      match rest with
      | b1 :: b2 :: r =>
        let lo := if n0 = 224 then 160 else 128
        let hi := if n0 = 237 then 159 else 191
        lo ≤ b1.toNat && b1.toNat ≤ hi && cont b2 && validUtf8 r
      | _ => false
    else if 240 ≤ n0 && n0 ≤ 244 then
      match rest with
      | b1 :: b2 :: b3 :: r =>
        let lo := if n0 = 240 then 144 else 128
        let hi := if n0 = 244 then 143 else 191
        lo ≤ b1.toNat && b1.toNat ≤ hi && cont b2 && cont b3 && validUtf8 r
      | _ => false
    else false

/-- `ColumnBlockSnapshot::values_to_scalar` (used by `ZoneCursorLoader`, i.e. compaction). -/
def cellToScalar : Cell → Scalar
  | .null => .null
  | .i64 v => .int v
  | .u64 v => if v ≤ i64Max then .int v else .utf8 (natDec v)
  | .f64 b => .float b
  | .bool b => .bool b
  | .bytes b => if validUtf8 b then .utf8 b else .null

/-- One leading Unicode `White_Space` character (Rust `char::is_whitespace`) in UTF-8:
U+0009–000D, U+0020, U+0085, U+00A0, U+1680, U+2000–200A, U+2028, U+2029, U+202F, U+205F,
U+3000. Returns the rest. -/
def stripWsPrefix : Bytes → Option Bytes
  | 194 :: 133 :: r => some r
  | 194 :: 160 :: r => some r
  | 225 :: 154 :: 128 :: r => some r
  | 226 :: 128 :: b :: r =>
    if (128 ≤ b.toNat && b.toNat ≤ 138) || b.toNat == 168 || b.toNat == 169 || b.toNat == 175 then some r
    else none
  | 226 :: 129 :: 159 :: r => some r
  | 227 :: 128 :: 128 :: r => some r
  | b :: r => if (9 ≤ b.toNat && b.toNat ≤ 13) || b.toNat == 32 then some r else none
  | [] => none

/-- The same for one trailing character of the reversed string (bytes reversed). -/
def stripWsSuffixRev : Bytes → Option Bytes
  | 133 :: 194 :: r => some r
  | 160 :: 194 :: r => some r
  | 128 :: 154 :: 225 :: r => some r
  | 159 :: 129 :: 226 :: r => some r
  | 128 :: 128 :: 227 :: r => some r
  | b :: r =>
    let ascii := if (9 ≤ b.toNat && b.toNat ≤ 13) || b.toNat == 32 then some r else none
    match r with
    | 128 :: 226 :: r' =>
      if (128 ≤ b.toNat && b.toNat ≤ 138) || b.toNat == 168 || b.toNat == 169 || b.toNat == 175 then some r'
      else ascii
    | _ => ascii
  | [] => none

def trimStart : Nat → Bytes → Bytes
  | 0, s => s
  | f + 1, s => match stripWsPrefix s with | some r => trimStart f r | none => s

def trimEndRev : Nat → Bytes → Bytes
  | 0, s => s
  | f + 1, s => match stripWsSuffixRev s with | some r => trimEndRev f r | none => s

/-- `str::trim` -/
def trim (s : Bytes) : Bytes :=
  let a := trimStart s.length s
  (trimEndRev a.length a.reverse).reverse

/-- `EventBuilder::add_payload_field`: a string cell of a flushed column is re-typed. -/
def addPayloadField (x : Ext) (value : Bytes) : Scalar :=
  let t := trim value
  if t = [116, 114, 117, 101] then .bool true
  else if t = [102, 97, 108, 115, 101] then .bool false
  else if t = [110, 117, 108, 108] then .null
  else
    let asInt : Option Scalar :=
      if t.head? = some 45 then (parseI64 t).map .int
      else match parseU64 t with
        | some u => some (if u ≤ i64Max then .int u else .utf8 (natDec u))
        | none => (parseI64 t).map .int
    match asInt with
    | some r => r
    | none =>
      match x.parseF64 t with
      | some b => if isFinite b then .float b else .utf8 value
      | none => .utf8 value

/-- Row materialisation of the query path (`condition_evaluator.rs`): the getter is chosen
by the column's physical type, then `add_field_u64 / _i64 / _f64 / _bool / add_field`. -/
def cellToBuilt (x : Ext) : Cell → Scalar
  | .null => .null
  | .i64 v => .int v
  | .u64 v => if v ≤ i64Max then .int v else .utf8 (natDec v)
  | .f64 b => if isFinite b then .float b else .null
  | .bool b => .bool b
  | .bytes b => if validUtf8 b then addPayloadField x b else .null

/-! ### tiers -/

/-- Memtable: the scalar itself. -/
def memTier (v : Scalar) : Scalar := v

/-- WAL-recovered memtable. -/
def walTier (x : Ext) (v : Scalar) : Scalar := walRoundtrip x v

/-- The cell a scalar occupies in a flushed column of physical type `phys`. -/
def flushedCell (x : Ext) (phys : Phys) (v : Scalar) : Cell :=
  canonCell x.parseF64 phys (colString x v)

/-- Flushed segment read by a query. -/
def flushedTier (x : Ext) (phys : Phys) (v : Scalar) : Scalar :=
  cellToBuilt x (flushedCell x phys v)

/-- One compaction pass over a cell: read as scalar, written again under the same type. -/
def compactCell (x : Ext) (phys : Phys) (c : Cell) : Cell :=
  canonCell x.parseF64 phys (colString x (cellToScalar c))

/-- Compacted segment read by a query. -/
def compactedTier (x : Ext) (phys : Phys) (v : Scalar) : Scalar :=
  cellToBuilt x (compactCell x phys (flushedCell x phys v))

/-! ### the comparison the property asks for -/

/-- Exact integer value of a finite float, if it has one. -/
def fltInt? (bits : Nat) : Option Int :=
  let sign := bits / 9223372036854775808 % 2
  let e := bits / 4503599627370496 % 2048
  let frac := bits % 4503599627370496
  if e = 2047 then none
  else
    let m := if e = 0 then frac else frac + 4503599627370496
    let ex : Int := (if e = 0 then 1 else (e : Int)) - 1075
    let mag : Option Nat :=
      if m = 0 then some 0
      else if ex ≥ 0 then some (m * 2 ^ ex.toNat)
      else if m % 2 ^ (-ex).toNat = 0 then some (m / 2 ^ (-ex).toNat) else none
    mag.map fun a => if sign = 1 then -(a : Int) else (a : Int)

def JNum.int? : JNum → Option Int
  | .pos u => some u
  | .neg m => some (-(m : Int))
  | .flt b => fltInt? b

/-- Numbers are numerically equal (an integer equals a float iff the float is that integer;
two floats iff same bits or both zero), strings byte-identical, null is null. -/
def jsonSame : Json → Json → Bool
  | .null, .null => true
  | .bool a, .bool b => a == b
  | .str a, .str b => a == b
  | .nested a, .nested b => a == b
  | .num (.flt a), .num (.flt b) => a == b || (a % 9223372036854775808 == 0 && b % 9223372036854775808 == 0)
  | .num a, .num b => a.int?.isSome && a.int? == b.int?
  | _, _ => false

end Snel.Value
