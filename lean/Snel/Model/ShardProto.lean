import Snel.Model.Proto
import Snel.Model.Shard
/-! Line protocol for shard-machine histories (shared by the C01/C03/C04/C05/C11 drivers):
`sys cap=<n> k=<n> t=<ntypes> | S k ctx ty | F | ADV | RUN | R | X | XM | FF | D | C | LS`; the answer is the
`;`-joined list of observations (`R` and `LS`). -/
namespace Snel.ShardProto
open Snel.Shard Snel.Proto

inductive Tok where
  | op (o : Op)
  | read
  | ls
  | compact
  | killMid
  | flushFail
  deriving Repr

def parseTok (t : String) : Option Tok :=
  match words t with
  | ["S", k, c, ty] => do some (.op (.store ⟨← k.toNat?, ← c.toNat?, ← ty.toNat?⟩))
  | ["F"] => some (.op .flushCmd)
  | ["ADV"] => some (.op .flushStep)
  | ["RUN"] => some (.op .drain)
  | ["X"] => some (.op .crash)
  | ["XM"] => some .killMid
  | ["FF"] => some .flushFail
  | ["D"] => some (.op .shutdown)
  | ["R"] => some .read
  | ["LS"] => some .ls
  | ["C"] => some .compact
  | _ => none

def joinNat (xs : List Nat) : String :=
  if xs.isEmpty then "-" else ",".intercalate (xs.map toString)

/-- Before the repair 4f45061 reads were scheduling-dependent while an in-flight segment had no
files next to segment directories on disk (finding C03-inflight-hides-published, fixed) and such
reads were excluded from the comparison on both sides. They are compared now: no state is racy. -/
def racy (_s : Shard) (_ntypes : Nat) : Bool := false

/-- With several event types the planner's output ids depend on hash-map iteration order; from the
second round on that changes which labels are chunked together, hence which directories are only
partially drained (COUNT) and how many output directories exist. After the first round such
histories are compared on the selection and the WAL only. -/
def showReadKeys (s : Shard) : String :=
  if s.poisoned then "poisoned" else s!"keys={joinNat (sortNat (visibleKeys s))}"

def showRead (s : Shard) (ntypes : Nat) : String :=
  if s.poisoned then "poisoned" else
  if racy s ntypes then "racy" else
  -- with several event types the label a batch output gets depends on hash-map iteration order in
  -- the engine's planner, so whether a label was reused is not determined: `any` matches anything
  if s.tainted then (if ntypes ≤ 1 then "stale" else "any") else
  s!"keys={joinNat (sortNat (visibleKeys s))} count={countAllTypes s ntypes}"

def showLs (s : Shard) (ntypes : Nat) : String :=
  let ids := sortNat (s.wal.map (·.1))
  let wal := ids.map fun i => s!"{i}:{((s.wal.filter (·.1 == i)).flatMap (·.2)).length}"
  let segs := sortNat ((s.segs.map (·.1)).eraseDups)
  -- with several event types the numeric ids of compaction outputs depend on hash-map
  -- iteration order in the planner: only the number of directories per level is compared
  let shown := if ntypes ≤ 1 then joinNat segs
    else joinNat (((List.range 6).map fun lvl => (segs.filter (· / levelSpan == lvl)).length))
  s!"wal={if wal.isEmpty then "-" else ",".intercalate wal} segs={shown}"

def showLsWal (s : Shard) : String :=
  let ids := sortNat (s.wal.map (·.1))
  let wal := ids.map fun i => s!"{i}:{((s.wal.filter (·.1 == i)).flatMap (·.2)).length}"
  s!"wal={if wal.isEmpty then "-" else ",".intercalate wal}"

def parseKV (key : String) (t : String) : Option Nat :=
  match t.splitOn "=" with
  | [k, v] => if k == key then v.toNat? else none
  | _ => none

/-- `compactFn` is supplied by drivers that model compaction; others pass `id`. -/
def answerWith (compactFn : Shard → Shard) (line : String) : String :=
  match line.splitOn " | " with
  | [] => "bad-op"
  | hd :: toks =>
    match words hd with
    | ["sys", c, k, t] =>
      match parseKV "cap" c, parseKV "k" k, parseKV "t" t, toks.mapM parseTok with
      | some cap, some km, some nt, some toks =>
        let (_, _, obs) := toks.foldl (fun (acc : Shard × Bool × List String) t =>
          let (s, loose, obs) := acc
          match t with
          | .op o => (step s o, loose, obs)
          | .read => (s, loose, (if loose then showReadKeys s else showRead s nt) :: obs)
          | .ls => (s, loose, (if loose then showLsWal s else showLs s nt) :: obs)
          | .killMid => (crashMid s, loose, obs)
          | .flushFail => (failHead s, loose, obs)
          | .compact => (compactFn (drainAll s), loose || decide (1 < nt), obs)) (Shard.init cap km, false, [])
        " ; ".intercalate obs.reverse
      | _, _, _, _ => "bad-op"
    | _ => "bad-op"

end Snel.ShardProto
