import Snel.Model.Parser
/-!
# Model of the parser — part 2: the QUERY / FIND grammar (`commands/query.rs`), the REPLAY
grammar (`commands/replay.rs`) and the STORE grammar (`commands/store.rs`).
-/
namespace Snel.Parser
open P

inductive Agg where
  | count (unique : Option Str)
  | countField (f : Str)
  | total (f : Str)
  | avg (f : Str)
  | min (f : Str)
  | max (f : Str)
deriving DecidableEq, Repr

inductive Gran where
  | hour | day | week | month | year
deriving DecidableEq, Repr

inductive Link where
  | followedBy | precededBy
deriving DecidableEq, Repr

/-- `Command::Query` (without `picked_zones`, which the parser always leaves `None`). -/
structure Query where
  eventType : Str
  contextId : Option Str := none
  since : Option Str := none
  timeField : Option Str := none
  seqTimeField : Option Str := none
  whereClause : Option Expr := none
  limit : Option Nat := none
  offset : Option Nat := none
  orderBy : Option (Str × Bool) := none
  returnFields : Option (List Str) := none
  linkField : Option Str := none
  aggs : Option (List Agg) := none
  timeBucket : Option Gran := none
  groupBy : Option (List Str) := none
  /-- head event and links; `none` when there are no links -/
  eventSequence : Option (Str × List (Link × Str)) := none
deriving DecidableEq, Repr

inductive Clause where
  | for_ (v : Str)
  | since (v : Str)
  | ret (v : List Str)
  | link (v : Str)
  | where_ (e : Expr)
  | using (f : Str)
  | usingTime (f : Str)
  | aggs (a : List Agg)
  | time (g : Gran) (u : Option Str)
  | group (g : List Str) (u : Option Str)
  | limit (n : Nat)
  | offset (n : Nat)
  | order (f : Str) (desc : Bool)
deriving DecidableEq, Repr

def K (s : String) : P Unit := kw s.toList

/-! ### clauses, in the order of `rule clause()` -/
def forC : P Clause := do
  K "FOR"; ws
  let v ← ident <|> stringLit
  return .for_ v

def sinceC : P Clause := do
  K "SINCE"; ws
  let v ← stringLit
  return .since v

def returnItem : P Str := field <|> stringLit

def returnC (n : Nat) : P Clause := do
  K "RETURN"; ws; lit ['[']; ws
  let fs ← opt (sepBy returnItem commaSep n)
  ws; lit [']']
  return .ret (fs.getD [])

def linkedC : P Clause := do
  K "LINKED"; ws; K "BY"; ws
  let v ← ident
  return .link v

def whereC (S : Sites) (n : Nat) : P Clause := do
  K "WHERE"; ws
  let e ← exprF S n
  return .where_ e

def usingTimeC : P Clause := do
  K "USING"; ws; K "TIME"; ws
  let f ← field
  return .usingTime f

def usingC : P Clause := do
  K "USING"; ws
  let f ← field
  return .using f

/-- `clause_start()` -/
def clauseStartTable : List (List String) :=
  [["PER"], ["BY"], ["USING"], ["SINCE"], ["LIMIT"], ["OFFSET"], ["ORDER", "BY"], ["RETURN"], ["LINKED"],
   ["WHERE"], ["FOR"], ["FOLLOWED"], ["PRECEDED"]]

def kwSeq : List String → P Unit
  | [] => P.pure ()
  | [k] => K k
  | k :: rest => do K k; ws; kwSeq rest

def firstOf : List (P α) → P α
  | [] => failP
  | p :: rest => p <|> firstOf rest

def clauseStart : P Unit := firstOf (clauseStartTable.map kwSeq)

def aggField : P Str := do neg clauseStart; field

def aggSpec : P Agg :=
  (do K "COUNT"; ws; K "UNIQUE"; ws; let f ← aggField; return Agg.count (some f))
  <|> (do K "COUNT"; ws; let f ← aggField; return Agg.countField f)
  <|> (do K "COUNT"; return Agg.count none)
  <|> (do K "TOTAL"; ws; let f ← aggField; return Agg.total f)
  <|> (do K "AVG"; ws; let f ← aggField; return Agg.avg f)
  <|> (do K "MIN"; ws; let f ← aggField; return Agg.min f)
  <|> (do K "MAX"; ws; let f ← aggField; return Agg.max f)

def aggC (n : Nat) : P Clause := do
  let specs ← sepBy1 aggSpec commaSep n
  return .aggs specs

def granTable : List (String × Gran) :=
  [("HOUR", .hour), ("DAY", .day), ("WEEK", .week), ("MONTH", .month), ("YEAR", .year)]

def Gran.name : Gran → String
  | .hour => "Hour" | .day => "Day" | .week => "Week" | .month => "Month" | .year => "Year"

def firstKw : List (String × α) → P α
  | [] => failP
  | (k, a) :: rest => (do K k; return a) <|> firstKw rest

def usingOpt : P (Option Str) := opt (do K "USING"; ws; field)

def timeC : P Clause := do
  K "PER"; ws
  let g ← firstKw granTable
  ws
  let u ← usingOpt
  return .time g u

def groupC (n : Nat) : P Clause := do
  K "BY"; ws
  let first ← field
  let rest ← many (do ws; lit [',']; ws; field) n
  let u ← usingOpt
  return .group (first :: rest) u

def limitC (S : Sites) : P Clause := do
  K "LIMIT"; ws
  let (ng, ds) ← integerTok
  match convU32 ng ds with
  | some v => return .limit v
  | none => badConv S.limit

def offsetC (S : Sites) : P Clause := do
  K "OFFSET"; ws
  let (ng, ds) ← integerTok
  match convU32 ng ds with
  | some v => return .offset v
  | none => badConv S.offset

def orderC : P Clause := do
  K "ORDER"; ws; K "BY"; ws
  let f ← field
  ws
  let d ← opt (capture (K "ASC" <|> K "DESC"))
  return .order f (match d with | some t => eqCi t "DESC".toList | none => false)

def clauseP (S : Sites) (n : Nat) : P Clause :=
  forC <|> sinceC <|> returnC n <|> linkedC <|> whereC S n <|> usingTimeC <|> usingC <|> aggC n
  <|> timeC <|> groupC n <|> limitC S <|> offsetC S <|> orderC

def seqLink : P Link :=
  (do K "FOLLOWED"; ws; K "BY"; return Link.followedBy)
  <|> (do K "PRECEDED"; ws; K "BY"; return Link.precededBy)

def eventSeq (n : Nat) : P (Str × List (Link × Str)) := do
  let head ← ident
  let tail ← many (do ws; let l ← seqLink; ws; let t ← ident; return (l, t)) n
  return (head, tail)

/-- `QueryParts::apply_clause` -/
def applyClause (q : Query) : Clause → Query
  | .for_ v => { q with contextId := some v }
  | .since v => { q with since := some v }
  | .ret v => { q with returnFields := some v }
  | .link v => { q with linkField := some v }
  | .where_ e => { q with whereClause := some e }
  | .using f => { q with timeField := some f }
  | .usingTime f => { q with seqTimeField := some f }
  | .aggs a => { q with aggs := some a }
  | .time g u => match u with
    | some f => { q with timeBucket := some g, timeField := some f }
    | none => { q with timeBucket := some g }
  | .group g u => match u with
    | some f => { q with groupBy := some g, timeField := some f }
    | none => { q with groupBy := some g }
  | .limit n => { q with limit := some n }
  | .offset n => { q with offset := some n }
  | .order f d => { q with orderBy := some (f, d) }

/-- `build_command` -/
def buildQuery (head : Str × List (Link × Str)) (cs : List Clause) : Query :=
  cs.foldl applyClause
    { eventType := head.1, eventSequence := if head.2.isEmpty then none else some head }

/-- `pub rule query()` (the whole input must be consumed) -/
def queryP (S : Sites) (n : Nat) : P Query := do
  ws; (K "QUERY" <|> K "FIND"); ws
  let head ← eventSeq n
  ws
  let cs ← many (do ws; clauseP S n) n
  ws; eof
  return buildQuery head cs

/-! ### REPLAY -/
structure Replay where
  eventType : Option Str
  contextId : Str
  since : Option Str := none
  timeField : Option Str := none
  returnFields : Option (List Str) := none
deriving DecidableEq, Repr

inductive RClause where
  | since (v : Str) | ret (v : List Str) | using (f : Str)
deriving DecidableEq, Repr

def rClauseP (n : Nat) : P RClause :=
  (do K "SINCE"; ws; let v ← stringLit; return RClause.since v)
  <|> (do K "RETURN"; ws; lit ['[']; ws
          let fs ← opt (sepBy (identR <|> stringLit) commaSep n)
          ws; lit [']']; return RClause.ret (fs.getD []))
  <|> (do K "USING"; ws; let f ← identR; return RClause.using f)

def applyR (r : Replay) : RClause → Replay
  | .since v => { r with since := some v }
  | .ret v => { r with returnFields := some v }
  | .using f => { r with timeField := some f }

def replayP (n : Nat) : P Replay := do
  ws; K "REPLAY"; ws
  let et ← (do neg (K "FOR"); let i ← identR; ws; return some i) <|> P.pure none
  K "FOR"; ws
  let ctx ← stringLit <|> identR
  let cs ← many (do ws; rClauseP n) n
  ws; eof
  return cs.foldl applyR { eventType := et, contextId := ctx }

/-! ### STORE (the JSON block is an abstract balanced-brace slice; `sonic_rs::from_str` on it
is outside the model) -/
def anyExcept (x : Char) : P Unit := fun s =>
  match s with
  | c :: r => if c == x then .fail else .ok () r
  | [] => .fail

/-- `"{" (balanced_braces() / (!"}" [_]))* "}"` -/
def balanced : Nat → P Unit
  | 0 => oofP
  | n + 1 => do
    lit ['{']
    let _ ← many ((do let _ ← capture (balanced n); return ()) <|> anyExcept '}') (n + 1)
    lit ['}']

structure Store where
  eventType : Str
  contextId : Str
  json : Str
deriving DecidableEq, Repr

def storeP (n : Nat) : P Store := do
  ws; K "STORE"; ws
  let et ← ident
  ws; K "FOR"; ws
  let ctx ← ident <|> stringLit
  ws; K "PAYLOAD"; ws
  ws
  let js ← capture (balanced n)
  ws; eof
  return { eventType := et, contextId := ctx, json := js }

end Snel.Parser
