import Snel.Model.Value
/-!
Model of the row materialisation of the memtable source
(`MemTableSource::push_rows_from_memtable`, `src/engine/core/read/flow/operators/memtable_source.rs`)
on top of `Event::get_field_scalar` (`src/engine/core/event/event.rs`): for every event that
passes the filter, one row with one cell per column of the batch schema; a column the event
does not carry is `Null`.

The scan order (active memtable, then the passive ones, each in context-id order) and the
filter verdict are inputs: `evs` is the list of events in scan order, `keep` the filter.
-/
namespace Snel.MemRows
open Snel.ColumnBlock Snel.Value

structure Ev where
  ctx : Bytes
  ty : Bytes
  ts : Nat
  id : Nat
  payload : List (Bytes × Scalar)
  deriving Repr

/-- `Event::get_field_scalar`: the four core fields, else the payload entry (if any). The
`as i64` casts of `timestamp` and `event_id` are two's complement. -/
def fieldScalar (e : Ev) (name : Bytes) : Option Scalar :=
  if name = [99, 111, 110, 116, 101, 120, 116, 95, 105, 100] then some (.utf8 e.ctx)
  else if name = [101, 118, 101, 110, 116, 95, 116, 121, 112, 101] then some (.utf8 e.ty)
  else if name = [116, 105, 109, 101, 115, 116, 97, 109, 112] then some (.ts (ofWord (e.ts % 18446744073709551616)))
  else if name = [101, 118, 101, 110, 116, 95, 105, 100] then some (.int (ofWord (e.id % 18446744073709551616)))
  else e.payload.lookup name

/-- one output row: `get_field_scalar(column).unwrap_or(Null)` per column -/
def memRow (cols : List Bytes) (e : Ev) : List Scalar :=
  cols.map fun c => (fieldScalar e c).getD .null

/-- the rows the unordered path emits, in scan order -/
def memRows (cols : List Bytes) (keep : Ev → Bool) (evs : List Ev) : List (List Scalar) :=
  (evs.filter keep).map (memRow cols)

end Snel.MemRows
