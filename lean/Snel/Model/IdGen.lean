import Snel.Gen.Consts
/-!
Model of `EventIdGenerator` (`src/engine/core/event/event_id.rs`).

The system clock is an input: the list of millisecond readings that successive calls of
`current_millis()` return. Readings may repeat or go backwards. `wait_next_millis` consumes
readings until one exceeds `last`; when the list runs out the run stops (the real code would
keep spinning), so every theorem below talks about all ids produced before that point.
-/
namespace Snel.IdGen
open Snel.Gen

/-- `EventIdGenerator { last_millis, sequence }`; `Default` is all zero. -/
structure Gen where
  last : Nat
  seq : Nat
  deriving Repr, DecidableEq

def Gen.init : Gen := ⟨0, 0⟩

def seqMod : Nat := 2 ^ idSequenceBits
def shardMod : Nat := 2 ^ idShardBits
def tsMod : Nat := 2 ^ idTimestampBits

/-- `(ts << (SHARD+SEQ)) | (shard << SEQ) | seq` with
`ts = millis.saturating_sub(EPOCH) & (2^TS - 1)`, `shard = shard_id & SHARD_MASK`.
Nat subtraction is saturating; `&` with a low mask is `%`. -/
def compose (millis shard seq : Nat) : Nat :=
  (((millis - idEpochMillis) % tsMod) <<< (idShardBits + idSequenceBits))
    ||| ((shard % shardMod) <<< idSequenceBits) ||| seq

/-- `wait_next_millis(last)`: first later reading strictly above `last`. -/
def waitNext : List Nat → Nat → Option (Nat × List Nat)
  | [], _ => none
  | r :: rs, last => if last < r then some (r, rs) else waitNext rs last

/-- One call of `next(shard_id)`: id, new generator state, remaining clock readings. -/
def step (g : Gen) (clk : List Nat) (shard : Nat) : Option (Nat × Gen × List Nat) :=
  match clk with
  | [] => none
  | now :: rest =>
    let millis := if now < g.last then g.last else now
    if millis = g.last then
      -- `sequence.wrapping_add(1) & SEQUENCE_MASK` on a u16
      let seq := ((g.seq + 1) % 65536) % seqMod
      if seq = 0 then
        match waitNext rest g.last with
        | none => none
        | some (m, rest') => some (compose m shard 0, ⟨m, 0⟩, rest')
      else some (compose millis shard seq, ⟨millis, seq⟩, rest)
    else some (compose millis shard 0, ⟨millis, 0⟩, rest)

/-- `n` successive calls (fewer if the clock script runs out inside a wait). -/
def run (g : Gen) (clk : List Nat) (shard : Nat) : Nat → List Nat
  | 0 => []
  | n + 1 =>
    match step g clk shard with
    | none => []
    | some (id, g', clk') => id :: run g' clk' shard n

/-- Final generator state after `n` calls (for lifetimes chained by a restart). -/
def runState (g : Gen) (clk : List Nat) (shard : Nat) : Nat → Gen
  | 0 => g
  | n + 1 =>
    match step g clk shard with
    | none => g
    | some (_, g', clk') => runState g' clk' shard n

/-- Sorted list of the distinct elements (what an id-deduplicating read returns, as a set). -/
def insertUnique (x : Nat) : List Nat → List Nat
  | [] => [x]
  | y :: ys => if x < y then x :: y :: ys else if x = y then y :: ys else y :: insertUnique x ys

def sortDedup (xs : List Nat) : List Nat := xs.foldr insertUnique []

end Snel.IdGen
