import Snel.Gen.C08
/-!
Models of the remaining per-zone pruning structures (C08):

* `EnumBitmapBuilder::add_zone_values` + `EnumZonePruner::prune` (`enum_bitmap_index.rs`,
  `enum_zone_pruner.rs`);
* `ZoneTemporalIndex::from_timestamps`, `contains_ts`, `may_match`, `may_match_range`
  (`zone_temporal_index.rs`);
* `TemporalCalendarIndex::add_zone_range`, `zones_intersecting`, `zones_intersecting_range`
  (`temporal_calendar_index.rs`; `calendar_dir.rs` has the same bucket code) and the
  registration rule of `TemporalIndexBuilder` (`temporal_builder.rs`);
* `ZoneXorFilterIndex::build_for_field`, `zones_maybe_containing`, `value_to_string`
  (`zone_xor_index.rs`, same `value_to_string` in `field_xor_filter.rs`) with `BinaryFuse8` and
  `stable_hash64` as parameters.

Hash maps / roaring bitmaps are modelled by what they contain: a bitmap is the sorted list of
its members, a map from bucket to bitmap is given by the list of registrations it was built
from (`bucket ↦ zones registered for it`). Loops that fill them are written as comprehensions
with the same result; the `ebm`, `zti` and `cal` streams compare the results with the real
structures for equality.
-/
namespace Snel.C08
open Snel.Gen.C08

/-! ## sorted, duplicate-free lists (`sort_unstable(); dedup()`, roaring iteration order) -/

def insU (x : Int) : List Int → List Int
  | [] => [x]
  | y :: ys => if x < y then x :: y :: ys else if x = y then y :: ys else y :: insU x ys

def sortDedup (l : List Int) : List Int := l.foldr insU []

def insUN (x : Nat) : List Nat → List Nat
  | [] => [x]
  | y :: ys => if x < y then x :: y :: ys else if x = y then y :: ys else y :: insUN x ys

def sortDedupN (l : List Nat) : List Nat := l.foldr insUN []

/-! ## enum bitmaps -/

inductive Op where
  | eq | neq | gt | gte | lt | lte
  deriving Repr, DecidableEq

/-- `variants.iter().position(|v| v == val)`. -/
def pos {α} [DecidableEq α] : List α → α → Option Nat
  | [], _ => none
  | v :: vs, x => if v = x then some 0 else (pos vs x).map (· + 1)

/-- Row indices `i ≥ start` with `values[i - start]` = variant number `vid` (the loop
`for (i, val) in values.iter().enumerate()` seen from one variant's bitmap). -/
def rowsFrom {α} [DecidableEq α] (variants : List α) (vid : Nat) : Nat → List α → List Nat
  | _, [] => []
  | i, v :: vs =>
    if pos variants v = some vid then i :: rowsFrom variants vid (i + 1) vs
    else rowsFrom variants vid (i + 1) vs

/-- Bit capacity of one bitmap: `(rows_per_zone + 7) / 8` bytes. -/
def ebmCapacity (rowsPerZone : Nat) : Nat := 8 * ((rowsPerZone + 7) / 8)

/-- Some known variant sits at a row index past the bitmap (`bytes[byte]` panics). -/
def overflowFrom {α} [DecidableEq α] (variants : List α) (cap : Nat) : Nat → List α → Bool
  | _, [] => false
  | i, v :: vs => ((pos variants v).isSome && decide (cap ≤ i)) || overflowFrom variants cap (i + 1) vs

/-- `add_zone_values`: per variant the set rows. `none` = `set_bit` indexes past the bitmap and
the builder panics (a zone longer than the byte-rounded `rows_per_zone`). -/
def addZoneValues {α} [DecidableEq α] (variants : List α) (rowsPerZone : Nat) (values : List α) :
    Option (List (List Nat)) :=
  if overflowFrom variants (ebmCapacity rowsPerZone) 0 values then none
  else some ((List.range variants.length).map fun vid => rowsFrom variants vid 0 values)

/-- `bytes.iter().any(|b| *b != 0)` on the bitmap of one variant. -/
def hasAny (bitsets : List (List Nat)) (vid : Nat) : Bool :=
  match bitsets[vid]? with
  | some rows => !rows.isEmpty
  | none => false

/-- The `include` decision of `EnumZonePruner::prune` for one zone. -/
def ebmInclude (bitsets : List (List Nat)) (op : Op) (vid : Nat) : Bool :=
  match op with
  | .eq => hasAny bitsets vid
  | .neq => (List.range bitsets.length).any fun i => i != vid && hasAny bitsets i
  | _ => false

/-- `prune`: zone ids (canonical order: as given). -/
def ebmPrune (zones : List (Nat × List (List Nat))) (op : Op) (vid : Nat) : List Nat :=
  (zones.filter fun z => ebmInclude z.2 op vid).map (·.1)

/-- Whole index from per-zone value lists; `none` if any zone panics. -/
def ebmBuild {α} [DecidableEq α] (variants : List α) (rowsPerZone : Nat) :
    List (Nat × List α) → Option (List (Nat × List (List Nat)))
  | [] => some []
  | (z, vals) :: rest =>
    match addZoneValues variants rowsPerZone vals, ebmBuild variants rowsPerZone rest with
    | some b, some r => some ((z, b) :: r)
    | _, _ => none

/-! ## per-zone temporal index -/

def wrapI64 (x : Int) : Int := (x + 2 ^ 63) % 2 ^ 64 - 2 ^ 63

structure Zti where
  minTs : Int
  maxTs : Int
  stride : Int
  keys : List Nat
  deriving Repr, DecidableEq

/-- `((t - min_ts) / stride).max(0) as u64` (wrapping subtraction, truncating division). -/
def ztiKey (minTs stride t : Int) : Nat := (max (Int.tdiv (wrapI64 (t - minTs)) stride) 0).toNat

/-- `from_timestamps` (fences are not used by any probe and are left out). -/
def Zti.ofTimestamps (ts : List Int) (stride : Int) : Zti :=
  let s := sortDedup ts
  let mn := s.head?.getD 0
  let mx := s.getLast?.getD 0
  { minTs := mn, maxTs := mx, stride := stride, keys := s.map (ztiKey mn stride) }

/-- Loop of `slice::binary_search_by` (std of the pinned toolchain): no early exit, `base`
moves to `mid` unless the element there is greater than the key. -/
def bsLoop (keys : Array Nat) (key : Nat) : Nat → Nat → Nat → Nat
  | 0, base, _ => base
  | fuel + 1, base, size =>
    if size > 1 then
      let half := size / 2
      let mid := base + half
      bsLoop keys key fuel (if keys.getD mid 0 > key then base else mid) (size - half)
    else base

/-- `keys.binary_search(&key).is_ok()`. On a sorted vector this is membership; the key vector is
sorted unless `t - min_ts` wrapped (instants more than `2^63` apart in one zone), and then the
answer is whatever the loop happens to reach — modelled step by step for that reason. -/
def bsearchOk (keys : List Nat) (key : Nat) : Bool :=
  if keys.isEmpty then false
  else
    let a := keys.toArray
    a.getD (bsLoop a key keys.length 0 keys.length) 0 == key

/-- `contains_ts`. -/
def Zti.containsTs (z : Zti) (ts : Int) : Bool :=
  if ts < z.minTs || ts > z.maxTs then false
  else
    let off := wrapI64 (ts - z.minTs)
    if z.stride > 1 && Int.tmod off z.stride != 0 then false
    else bsearchOk z.keys (max (Int.tdiv off z.stride) 0).toNat

/-- `may_match`. -/
def Zti.mayMatch (z : Zti) (op : Op) (v : Int) : Bool :=
  match op with
  | .eq => z.containsTs v
  | .neq => if z.minTs > z.maxTs then false else if z.minTs = z.maxTs then z.minTs != v else true
  | .gt => decide (v < z.maxTs)
  | .gte => decide (v ≤ z.maxTs)
  | .lt => decide (v > z.minTs)
  | .lte => decide (v ≥ z.minTs)

/-- `may_match_range`. -/
def Zti.mayMatchRange (z : Zti) (lo hi : Int) : Bool :=
  if hi < lo then false else !(decide (hi < z.minTs) || decide (lo > z.maxTs))

/-- Does a stored instant satisfy the probe? (the executable spec) -/
def opHolds (op : Op) (t v : Int) : Prop :=
  match op with
  | .eq => t = v
  | .neq => t ≠ v
  | .gt => t > v
  | .gte => t ≥ v
  | .lt => t < v
  | .lte => t ≤ v

instance (op : Op) (t v : Int) : Decidable (opHolds op t v) := by
  unfold opHolds; cases op <;> infer_instance

/-! ## calendar -/

def hourOf (ts : Nat) : Nat := ts / hourSecs * hourSecs
def dayOf (ts : Nat) : Nat := ts / daySecs * daySecs

/-- `bucket_id`: the bucket start truncated to 32 bits. -/
def bucketId (start : Nat) : Nat := start % 2 ^ bucketIdBits

/-- Bucket ids `add_zone_range` registers for one zone: from the bucket of `min` in steps of
`step` while `t <= bucket(max)`. -/
def bucketsOf (step mn mx : Nat) : List Nat :=
  let a := mn / step * step
  let b := mx / step * step
  if a ≤ b then (List.range ((b - a) / step + 1)).map fun i => bucketId (a + i * step) else []

/-- One `add_zone_range(zone, min, max)` call. -/
structure Reg where
  zone : Nat
  mn : Nat
  mx : Nat
  deriving Repr, DecidableEq

/-- Members of the bitmap stored under hour bucket `b` (empty = no map entry). -/
def hourZones (regs : List Reg) (b : Nat) : List Nat :=
  sortDedupN ((regs.filter fun r => (bucketsOf hourSecs r.mn r.mx).contains b).map (·.zone))

def dayZones (regs : List Reg) (b : Nat) : List Nat :=
  sortDedupN ((regs.filter fun r => (bucketsOf daySecs r.mn r.mx).contains b).map (·.zone))

/-- Union of the day bitmaps whose bucket id satisfies `p`. -/
def dayUnion (regs : List Reg) (p : Nat → Bool) : List Nat :=
  sortDedupN ((regs.filter fun r => (bucketsOf daySecs r.mn r.mx).any p).map (·.zone))

/-- `zones_for_ts`: hour bitmap if the hour bucket exists, else day bitmap, else empty. -/
def zonesForTs (regs : List Reg) (ts : Nat) : List Nat :=
  let h := hourZones regs (bucketId (hourOf ts))
  if !h.isEmpty then h else dayZones regs (bucketId (dayOf ts))

def zonesForGe (regs : List Reg) (ts : Nat) : List Nat :=
  dayUnion regs fun b => decide (bucketId (dayOf ts) ≤ b)

def zonesForLe (regs : List Reg) (ts : Nat) : List Nat :=
  dayUnion regs fun b => decide (b ≤ bucketId (dayOf ts))

def zonesForRange (regs : List Reg) (lo hi : Nat) : List Nat :=
  if hi < lo then []
  else dayUnion regs fun b => decide (bucketId (dayOf lo) ≤ b) && decide (b ≤ bucketId (dayOf hi))

/-- `zones_intersecting(op, v)` (`v` is an `i64`). -/
def zonesIntersecting (regs : List Reg) (op : Op) (v : Int) : List Nat :=
  match op with
  | .eq => if v < 0 then [] else zonesForTs regs v.toNat
  | .gt | .gte => if v < 0 then [] else zonesForGe regs v.toNat
  | .lt | .lte => if v < 0 then [] else zonesForLe regs v.toNat
  | .neq =>
    let all := dayUnion regs fun _ => true
    let eq := if v < 0 then [] else zonesForTs regs v.toNat
    all.filter fun z => !eq.contains z

/-- `zones_intersecting_range(min, max)`. -/
def zonesIntersectingRange (regs : List Reg) (lo hi : Int) : List Nat :=
  if hi < lo then [] else zonesForRange regs (if lo < 0 then 0 else lo.toNat) (if hi < 0 then 0 else hi.toNat)

/-- `TemporalIndexBuilder`: a zone is entered into the field's calendar only when both its
minimum and maximum instant are non-negative. -/
def calRegs (zones : List (Nat × List Int)) : List Reg :=
  zones.filterMap fun (z, ts) =>
    let s := sortDedup ts
    match s.head?, s.getLast? with
    | some mn, some mx => if 0 ≤ mn ∧ 0 ≤ mx then some ⟨z, mn.toNat, mx.toNat⟩ else none
    | _, _ => none

/-- `TemporalPruner::apply_temporal_only` on the structures of one segment: literal clamped at
0, calendar candidates refined by the per-zone index; `none` for `!=` (the caller then selects
no zone). -/
def temporalPrune (zones : List (Nat × List Int)) (op : Op) (lit : Int) : Option (List Nat) :=
  let ts : Int := max lit 0
  let regs := calRegs zones
  let zti (z : Nat) : Option Zti := (zones.find? (·.1 = z)).map fun p => Zti.ofTimestamps p.2 1
  match op with
  | .neq => none
  | .eq =>
    some ((zonesIntersecting regs .eq ts).filter fun z =>
      match zti z with | some i => i.containsTs ts | none => false)
  | _ =>
    some ((zonesIntersecting regs op ts).filter fun z =>
      match zti z with
      | some i =>
        (match op with
          | .gt => decide (i.maxTs > ts) | .gte => decide (i.maxTs ≥ ts)
          | .lt => decide (i.minTs < ts) | .lte => decide (i.minTs ≤ ts) | _ => false)
      | none => false)

/-! ## per-zone XOR (binary fuse) index -/

/-- What `value_to_string` sees. `f64 disp`: `disp` is `f64::to_string()` (std's shortest
round-trip formatting is not modelled; it is an input). -/
inductive XV where
  | utf8 (s : String)
  | int64 (i : Int)
  | ts (i : Int)
  | f64 (disp : String)
  | bool (b : Bool)
  | other
  deriving Repr, DecidableEq

def valueToString : XV → Option String
  | .utf8 s => some s
  | .int64 i => some (toString i)
  | .ts i => some (toString i)
  | .f64 d => some d
  | .bool b => some (if b then "true" else "false")
  | .other => none

/-- `BinaryFuse8` as a black box. -/
structure FuseOps (F : Type) where
  build : List Nat → Option F
  contains : F → Nat → Bool

/-- The assumed property of `xorf::BinaryFuse8`: no false negatives for the keys a filter was
successfully built from. -/
def FuseOps.NoFalseNeg {F} (ops : FuseOps F) : Prop :=
  ∀ ks f, ops.build ks = some f → ∀ k ∈ ks, ops.contains f k = true

/-- Hashes a zone contributes (`value_to_string`, sort, dedup, hash, dedup). -/
def zoneHashes (hash : String → Nat) (vals : List XV) : List Nat :=
  ((vals.filterMap valueToString).map hash).eraseDups

/-- `build_for_field`: zones without values are skipped, and so is — silently — a zone whose
filter construction fails. -/
def xorBuild {F} (ops : FuseOps F) (hash : String → Nat) (zones : List (Nat × List XV)) : List (Nat × F) :=
  zones.filterMap fun (z, vals) =>
    if (vals.filterMap valueToString).isEmpty then none
    else (ops.build (zoneHashes hash vals)).map fun f => (z, f)

/-- `zones_maybe_containing`. -/
def xorZones {F} (ops : FuseOps F) (hash : String → Nat) (idx : List (Nat × F)) (probe : XV) : List Nat :=
  match valueToString probe with
  | none => []
  | some s => (idx.filter fun e => ops.contains e.2 (hash s)).map (·.1)

end Snel.C08
