/-!
Model of the ORDER BY / LIMIT / OFFSET machinery of sneldb (property C10).

Sources (paths relative to `/repo/src`):

* `engine/types/mod.rs` — `ScalarValue`, its `as_u64 / as_i64 / as_f64 / as_bool / as_str /
  to_string_repr` conversions and `ScalarValue::compare` (the u64 → i64 → f64 → bool → str →
  repr cascade), modelled *as coded*.
* `engine/core/read/flow/ordered_merger.rs` — `HeapItem::cmp`, the k-way merge loop with
  `skipped / emitted / limit`, and (library) `std::collections::BinaryHeap`.
* `engine/query/streaming/merger.rs`, `command/handlers/query/merge/streaming.rs` — the same
  merger instantiated per shard (offset 0, limit n+m) and at the coordinator (offset m, limit n).
* `command/handlers/query/streaming/response_writer.rs` — `try_accept_row`.
* `command/handlers/query/handler.rs` — "OFFSET requires LIMIT".

Conventions.  Strings are lists of bytes (`List Nat`, every element < 256); Rust compares `str`
bytewise.  An `f64` is its 64-bit pattern as a `Nat`; the IEEE comparison is *defined* on bits
(`fPartialCmp`) and tied to Rust's `partial_cmp` by the `cmp`/`conv` correspondence streams.
`str::parse::<u64/i64/f64>`, `i64 as f64` and `f64::to_string` are std-library functions; they
are re-modelled here with exact big-number arithmetic (correctly rounded) and are *tied* by the
`conv` stream, not trusted.  The only deliberate deviation: Rust caps the decimal exponent
accumulator of `parse::<f64>` at 65536, which differs from the exact value only for inputs with
more than 65 000 mantissa digits.
-/
namespace Snel.Order

/-! ## Byte strings -/

/-- `str::cmp`: lexicographic on bytes. -/
def cmpBytes : List Nat → List Nat → Ordering
  | [], [] => .eq
  | [], _ :: _ => .lt
  | _ :: _, [] => .gt
  | a :: as, b :: bs =>
    if a < b then .lt else if b < a then .gt else cmpBytes as bs

def isDigit (c : Nat) : Bool := 48 ≤ c && c ≤ 57

def digitsVal (s : List Nat) : Nat := s.foldl (fun acc c => acc * 10 + (c - 48)) 0

/-- One or more ASCII digits. -/
def parseDigits (s : List Nat) : Option Nat :=
  if s.isEmpty then none else if s.all isDigit then some (digitsVal s) else none

/-- `str::parse::<u64>()`: optional `+`, at least one digit, no overflow. -/
def parseU64 (s : List Nat) : Option Nat :=
  let body := match s with
    | 43 :: r => r
    | _ => s
  match parseDigits body with
  | some v => if v < 2 ^ 64 then some v else none
  | none => none

/-- `str::parse::<i64>()`: optional sign, at least one digit, no overflow. -/
def parseI64 (s : List Nat) : Option Int :=
  match s with
  | 43 :: r =>
    match parseDigits r with
    | some v => if v < 2 ^ 63 then some (v : Int) else none
    | none => none
  | 45 :: r =>
    match parseDigits r with
    | some v => if v ≤ 2 ^ 63 then some (-(v : Int)) else none
    | none => none
  | _ =>
    match parseDigits s with
    | some v => if v < 2 ^ 63 then some (v : Int) else none
    | none => none

def lower (c : Nat) : Nat := if 65 ≤ c && c ≤ 90 then c + 32 else c

/-! ## f64 as a 64-bit pattern -/

def fSignBit : Nat := 2 ^ 63
def fInf : Nat := 0x7FF0000000000000
def fNaNq : Nat := 0x7FF8000000000000

def fIsNaN (b : Nat) : Bool := (b / 2 ^ 52) % 2048 == 2047 && b % 2 ^ 52 != 0

/-- Monotone key of a non-NaN pattern: sign-magnitude read as an integer (`-0` and `+0` ↦ 0). -/
def fKey (b : Nat) : Int :=
  if (b / 2 ^ 63) % 2 == 1 then -((b % 2 ^ 63 : Nat) : Int) else ((b % 2 ^ 63 : Nat) : Int)

/-- `f64::partial_cmp` on bit patterns. -/
def fPartialCmp (a b : Nat) : Option Ordering :=
  if fIsNaN a || fIsNaN b then none else some (compare (fKey a) (fKey b))

/-- ⌊log₂(num/den)⌋ for positive `num`, `den`. -/
def ilog2Ratio (num den : Nat) : Int :=
  let l : Int := (Nat.log2 num : Int) - (Nat.log2 den : Int)
  let ge : Bool := if l ≥ 0 then decide (num ≥ den * 2 ^ l.toNat) else decide (num * 2 ^ (-l).toNat ≥ den)
  if ge then l else l - 1

/-- Nearest f64 (ties to even) of the positive rational `num/den`; overflow gives `+inf`. -/
def roundPos (num den : Nat) : Nat :=
  let est := ilog2Ratio num den
  let e : Int := if est - 52 < -1074 then -1074 else est - 52
  let n' := if e ≥ 0 then num else num * 2 ^ (-e).toNat
  let d' := if e ≥ 0 then den * 2 ^ e.toNat else den
  let q := n' / d'
  let r := n' % d'
  let q' := if 2 * r > d' then q + 1 else if 2 * r = d' then (if q % 2 = 1 then q + 1 else q) else q
  let bits := (e + 1074).toNat * 2 ^ 52 + q'
  if bits ≥ fInf then fInf else bits

/-- `i64 as f64`. -/
def i64ToF64 (i : Int) : Nat :=
  if i = 0 then 0 else if i < 0 then fSignBit + roundPos i.natAbs 1 else roundPos i.natAbs 1

/-- Decimal significand `digits` × 10^`e10` → f64 bits (magnitude). -/
def decToF64 (digits : List Nat) (e10 : Int) : Nat :=
  let ds := digits.dropWhile (· == 48)
  if ds.isEmpty then 0 else
  let d := digitsVal ds
  let mag : Int := (ds.length : Int) + e10
  if mag > 400 then fInf else if mag < -400 then 0 else
  if e10 ≥ 0 then roundPos (d * 10 ^ e10.toNat) 1 else roundPos d (10 ^ (-e10).toNat)

/-- Exponent part after `e`/`E`: optional sign, at least one digit. -/
def parseExp (s : List Nat) : Option Int :=
  match s with
  | 43 :: r => (parseDigits r).map (fun v => (v : Int))
  | 45 :: r => (parseDigits r).map (fun v => -(v : Int))
  | _ => (parseDigits s).map (fun v => (v : Int))

/-- `dec2flt::parse::parse_number` (whole input): significand digits and decimal exponent. -/
def parseNumber (s : List Nat) : Option (List Nat × Int) :=
  let ip := (s.span isDigit).1
  let r1 := (s.span isDigit).2
  let fp := match r1 with
    | 46 :: r => (r.span isDigit).1
    | _ => []
  let r2 := match r1 with
    | 46 :: r => (r.span isDigit).2
    | _ => r1
  if ip.isEmpty && fp.isEmpty then none else
  match r2 with
  | [] => some (ip ++ fp, -(fp.length : Int))
  | c :: r =>
    if c == 101 || c == 69 then (parseExp r).map (fun e => (ip ++ fp, e - (fp.length : Int)))
    else none

/-- `nan`, `inf`, `infinity`, case-insensitive. -/
def parseInfNan (s : List Nat) : Option Nat :=
  let l := s.map lower
  if l == [110, 97, 110] then some fNaNq
  else if l == [105, 110, 102] || l == [105, 110, 102, 105, 110, 105, 116, 121] then some fInf
  else none

/-- `str::parse::<f64>()`. -/
def parseF64 (s : List Nat) : Option Nat :=
  match s with
  | [] => none
  | c :: r =>
    let body := if c == 45 || c == 43 then r else s
    if body.isEmpty then none else
    let mag := match parseNumber body with
      | some (ds, e) => some (decToF64 ds e)
      | none => parseInfNan body
    mag.map (fun b => if c == 45 then fSignBit + b else b)

/-! ## Decimal output -/

def natDecAux : Nat → Nat → List Nat → List Nat
  | 0, _, acc => acc
  | f + 1, n, acc => if n < 10 then (48 + n) :: acc else natDecAux f (n / 10) ((48 + n % 10) :: acc)

/-- Decimal digits of a natural number (`u64::to_string`). -/
def natDec (n : Nat) : List Nat := natDecAux (Nat.log2 n + 2) n []

/-- `i64::to_string`. -/
def intDec (i : Int) : List Nat := if i < 0 then 45 :: natDec i.natAbs else natDec i.toNat

/-- `core::num::flt2dec::decoder::Decoded`. -/
structure Decoded where
  mant : Nat
  minus : Nat
  plus : Nat
  exp : Int
  inclusive : Bool

/-- `flt2dec::decode` for a finite non-zero pattern. -/
def decodeF64 (b : Nat) : Decoded :=
  let frac : Nat := b % 2 ^ 52
  let ef : Nat := (b / 2 ^ 52) % 2048
  if ef == 0 then
    -- subnormal: integer_decode yields (frac << 1, -1075); `even` is computed from that
    ⟨frac * 2, 1, 1, -1075, true⟩
  else
    let mant := frac + 2 ^ 52
    let exp : Int := (ef : Int) - 1075
    let even := mant % 2 == 0
    if frac == 0 then ⟨mant * 4, 1, 2, exp - 2, even⟩ else ⟨mant * 2, 1, 1, exp - 1, even⟩

/-- Is `10^k` a valid scale, i.e. `high < 10^k` (inclusive bounds) / `high ≤ 10^k`? -/
def scaleFits (incl : Bool) (hi scale0 : Nat) (k : Int) : Bool :=
  let s := if k ≥ 0 then scale0 * 10 ^ k.toNat else scale0
  let h := if k ≥ 0 then hi else hi * 10 ^ (-k).toNat
  if incl then decide (s > h) else decide (s ≥ h)

def scaleDown (incl : Bool) (hi scale0 : Nat) : Nat → Int → Int
  | 0, k => k
  | f + 1, k => if scaleFits incl hi scale0 (k - 1) then scaleDown incl hi scale0 f (k - 1) else k

def scaleUp (incl : Bool) (hi scale0 : Nat) : Nat → Int → Int
  | 0, k => k
  | f + 1, k => if scaleFits incl hi scale0 k then k else scaleUp incl hi scale0 f (k + 1)

/-- Digit generation of `strategy::dragon::format_shortest` (digits most significant first,
    reversed accumulator; the flag says "round the last digit up"). -/
def digitLoop (incl : Bool) (scale : Nat) : Nat → Nat → Nat → Nat → List Nat → List Nat × Bool
  | 0, _, _, _, acc => (acc, false)
  | f + 1, mant, minus, plus, acc =>
    let d := mant / scale
    let mant := mant % scale
    let down := if incl then decide (mant ≤ minus) else decide (mant < minus)
    let up := if incl then decide (scale ≤ mant + plus) else decide (scale < mant + plus)
    if down || up then (d :: acc, up && (!down || decide (2 * mant ≥ scale)))
    else digitLoop incl scale f (mant * 10) (minus * 10) (plus * 10) (d :: acc)

/-- `round_up` on a reversed digit list: returns the new reversed list and whether all digits
    were 9 (then the result is 1 0 … 0 with one more digit). -/
def roundUpRev : List Nat → List Nat × Bool
  | [] => ([], true)
  | d :: ds => if d < 9 then ((d + 1) :: ds, false) else
      let p := roundUpRev ds
      (0 :: p.1, p.2)

/-- Shortest digits and decimal exponent `k` (value = 0.d₁d₂… × 10^k). -/
def fmtShortest (d : Decoded) : List Nat × Int :=
  let sh := if d.exp < 0 then 0 else d.exp.toNat
  let mant0 := d.mant * 2 ^ sh
  let minus0 := d.minus * 2 ^ sh
  let plus0 := d.plus * 2 ^ sh
  let scale0 := if d.exp < 0 then 2 ^ (-d.exp).toNat else 1
  let hi := mant0 + plus0
  let est : Int := (((Nat.log2 hi : Int) - (Nat.log2 scale0 : Int)) * 1233) / 4096
  let k := scaleUp d.inclusive hi scale0 16 (scaleDown d.inclusive hi scale0 16 est)
  let scale := if k ≥ 0 then scale0 * 10 ^ k.toNat else scale0
  let mul := if k ≥ 0 then 1 else 10 ^ (-k).toNat
  let r := digitLoop d.inclusive scale 40 (mant0 * mul * 10) (minus0 * mul * 10) (plus0 * mul * 10) []
  if r.2 then
    let p := roundUpRev r.1
    if p.2 then ((1 :: p.1.reverse.drop 1) ++ [0], k + 1) else (p.1.reverse, k)
  else (r.1.reverse, k)

/-- `flt2dec::digits_to_dec_str` with `frac_digits = 0`. -/
def digitsToDec (digits : List Nat) (k : Int) : List Nat :=
  let ds := digits.map (· + 48)
  if k ≤ 0 then [48, 46] ++ List.replicate (-k).toNat 48 ++ ds
  else if k.toNat < ds.length then ds.take k.toNat ++ [46] ++ ds.drop k.toNat
  else ds ++ List.replicate (k.toNat - ds.length) 48

/-- `f64::to_string()` (`Display`, shortest round-trip digits, never an exponent). -/
def f64ToString (b : Nat) : List Nat :=
  if fIsNaN b then [78, 97, 78] else
  let neg := (b / 2 ^ 63) % 2 == 1
  let m := b % 2 ^ 63
  let body :=
    if m == fInf then [105, 110, 102]
    else if m == 0 then [48]
    else
      let r := fmtShortest (decodeF64 m)
      digitsToDec r.1 r.2
  if neg then 45 :: body else body

def b64c (n : Nat) : Nat :=
  if n < 26 then 65 + n else if n < 52 then 97 + (n - 26) else if n < 62 then 48 + (n - 52)
  else if n = 62 then 43 else 47

/-- `base64::engine::general_purpose::STANDARD.encode`. -/
def base64 : List Nat → List Nat
  | a :: b :: c :: r =>
    let n := a * 65536 + b * 256 + c
    b64c (n / 262144) :: b64c (n / 4096 % 64) :: b64c (n / 64 % 64) :: b64c (n % 64) :: base64 r
  | [a, b] =>
    let n := a * 65536 + b * 256
    [b64c (n / 262144), b64c (n / 4096 % 64), b64c (n / 64 % 64), 61]
  | [a] =>
    let n := a * 65536
    [b64c (n / 262144), b64c (n / 4096 % 64), 61, 61]
  | [] => []

/-! ## `ScalarValue` -/

/-- `engine::types::ScalarValue`. `int`/`ts` hold an i64, `float` a 64-bit pattern. -/
inductive SV where
  | null
  | bool (b : Bool)
  | int (i : Int)
  | float (bits : Nat)
  | ts (i : Int)
  | utf8 (s : List Nat)
  | bin (b : List Nat)
  deriving Repr, DecidableEq, Inhabited

namespace SV

def asStr : SV → Option (List Nat)
  | utf8 s => some s
  | _ => none

def asI64 : SV → Option Int
  | int i => some i
  | ts t => some t
  | utf8 s => parseI64 s
  | _ => none

def asU64 : SV → Option Nat
  | int i => if i ≥ 0 then some i.toNat else none
  | ts t => if t ≥ 0 then some t.toNat else none
  | utf8 s => parseU64 s
  | _ => none

def asF64 : SV → Option Nat
  | float f => some f
  | int i => some (i64ToF64 i)
  | ts t => some (i64ToF64 t)
  | utf8 s => parseF64 s
  | _ => none

def strBool (s : List Nat) : Option Bool :=
  let l := s.map lower
  if l == [116, 114, 117, 101] || l == [49] then some true
  else if l == [102, 97, 108, 115, 101] || l == [48] then some false
  else none

def asBool : SV → Option Bool
  | bool b => some b
  | utf8 s => strBool s
  | int i => some (i != 0)
  | _ => none

def toStringRepr : SV → List Nat
  | null => []
  | bool true => [116, 114, 117, 101]
  | bool false => [102, 97, 108, 115, 101]
  | int i => intDec i
  | float f => f64ToString f
  | ts t => intDec t
  | utf8 s => s
  | bin b => base64 b

/-- `ScalarValue::compare`, branch for branch. -/
def compare (a b : SV) : Ordering :=
  match a.asU64, b.asU64 with
  | some x, some y => Ord.compare x y
  | _, _ =>
  match a.asI64, b.asI64 with
  | some x, some y => Ord.compare x y
  | _, _ =>
  match a.asF64, b.asF64 with
  | some x, some y => (fPartialCmp x y).getD .eq
  | _, _ =>
  match a.asBool, b.asBool with
  | some x, some y => Ord.compare x y
  | _, _ =>
  match a.asStr, b.asStr with
  | some x, some y => cmpBytes x y
  | _, _ => cmpBytes a.toStringRepr b.toStringRepr

/-- `compare_scalar_values` of `ordered_merger.rs`, `segment_query_runner.rs` and
    `memtable_source.rs`: "try u64 first", then `compare` (which tries u64 first again). -/
def compareScalarValues (a b : SV) : Ordering :=
  match a.asU64, b.asU64 with
  | some x, some y => Ord.compare x y
  | _, _ => compare a b

end SV

/-! ## The ordered k-way merger -/

/-- A heap entry: stream index, current row, and the not yet consumed rest of that stream
    (the Rust code keeps the rest in `streams[shard_idx]`; carrying it in the entry is the same
    state, since at most one entry per stream is in the heap). -/
structure Item (α : Type) where
  idx : Nat
  row : α
  rest : List α

/-- `HeapItem::cmp`: key comparison, then `other.shard_idx.cmp(&self.shard_idx)`, the whole
    thing reversed when ascending (`BinaryHeap` is a max-heap). -/
def itemCmp (asc : Bool) (cmp : α → α → Ordering) (a b : Item α) : Ordering :=
  let ord := (cmp a.row b.row).then (Ord.compare b.idx a.idx)
  if asc then ord.swap else ord

/-- A priority queue of heap entries. `items` is the abstraction function used to state what a
    correct queue is (`PQ.Correct` in `Snel.Lemmas.Order`); it plays no role in execution. -/
structure PQ (ι : Type) where
  Q : Type
  empty : Q
  push : Q → ι → Q
  pop : Q → Option (ι × Q)
  items : Q → List ι

/-- Selection of the greatest entry by a linear scan (first of the greatest if several). -/
def pickMax (c : ι → ι → Ordering) : ι → List ι → ι × List ι
  | best, [] => (best, [])
  | best, y :: ys =>
    if c best y = .lt then
      let p := pickMax c y ys
      (p.1, best :: p.2)
    else
      let p := pickMax c best ys
      (p.1, y :: p.2)

/-- Reference priority queue: an unordered list, `pop` selects the maximum. -/
def selPQ (c : ι → ι → Ordering) : PQ ι where
  Q := List ι
  empty := []
  push q x := x :: q
  pop q := match q with
    | [] => none
    | x :: xs => some (pickMax c x xs)
  items q := q

/-! ### `std::collections::BinaryHeap`, as implemented (array, sift-up / sift-down-to-bottom) -/

def swapA (h : Array ι) (i j : Nat) : Array ι :=
  match h[i]?, h[j]? with
  | some x, some y => (h.set! i y).set! j x
  | _, _ => h

/-- `a <= b` through `Ord`. -/
def leBy (c : ι → ι → Ordering) (a b : ι) : Bool := c a b != .gt

/-- `sift_up(0, pos)`. -/
def siftUp (c : ι → ι → Ordering) : Nat → Array ι → Nat → Array ι
  | 0, h, _ => h
  | f + 1, h, pos =>
    if pos = 0 then h else
    let parent := (pos - 1) / 2
    match h[pos]?, h[parent]? with
    | some x, some p => if leBy c x p then h else siftUp c f (swapA h pos parent) parent
    | _, _ => h

/-- The loop of `sift_down_to_bottom(0)`: returns the array and the final hole position. -/
def siftDownLoop (c : ι → ι → Ordering) : Nat → Array ι → Nat → Array ι × Nat
  | 0, h, pos => (h, pos)
  | f + 1, h, pos =>
    let endd := h.size
    let child := 2 * pos + 1
    if child ≤ endd - 2 ∧ 2 ≤ endd then
      match h[child]?, h[child + 1]? with
      | some l, some r =>
        let ch := if leBy c l r then child + 1 else child
        siftDownLoop c f (swapA h pos ch) ch
      | _, _ => (h, pos)
    else if child = endd - 1 ∧ 1 ≤ endd then (swapA h pos child, child)
    else (h, pos)

def heapPush (c : ι → ι → Ordering) (h : Array ι) (x : ι) : Array ι :=
  let h' := h.push x
  siftUp c h'.size h' (h'.size - 1)

def heapPop (c : ι → ι → Ordering) (h : Array ι) : Option (ι × Array ι) :=
  match h.back? with
  | none => none
  | some last =>
    let h1 := h.pop
    match h1[0]? with
    | none => some (last, h1)
    | some root =>
      let h2 := h1.set! 0 last
      let p := siftDownLoop c h2.size h2 0
      some (root, siftUp c p.1.size p.1 p.2)

/-- The queue the Rust code uses. -/
def heapPQ (c : ι → ι → Ordering) : PQ ι where
  Q := Array ι
  empty := #[]
  push := heapPush c
  pop := heapPop c
  items h := h.toList

/-- Initial heap: the first row of every non-empty stream, pushed in stream order. -/
def initHeap (pq : PQ (Item α)) : Nat → List (List α) → pq.Q → pq.Q
  | _, [], q => q
  | i, [] :: ss, q => initHeap pq (i + 1) ss q
  | i, (r :: rs) :: ss, q => initHeap pq (i + 1) ss (pq.push q ⟨i, r, rs⟩)

/-- `if let Some(row) = streams[item.shard_idx].next_row() { item.row = row; heap.push(item) }` -/
def pushRest (pq : PQ (Item α)) (q : pq.Q) (it : Item α) : pq.Q :=
  match it.rest with
  | [] => q
  | r :: rs => pq.push q ⟨it.idx, r, rs⟩

/-- The `while let Some(item) = heap.pop()` loop of `MergerState::run`.
    `limit = none` is `usize::MAX`. -/
def mergeLoop (pq : PQ (Item α)) (limit : Option Nat) : Nat → pq.Q → Nat → Nat → List α
  | 0, _, _, _ => []
  | f + 1, q, skipped, emitted =>
    match pq.pop q with
    | none => []
    | some (it, q') =>
      if limit.any (fun l => emitted ≥ l) then [] else
      let emit := skipped == 0
      let skipped' := skipped - 1
      let emitted' := if emit then emitted + 1 else emitted
      let out := if emit then [it.row] else []
      if limit.any (fun l => emitted' ≥ l) then out else
      out ++ mergeLoop pq limit f (pushRest pq q' it) skipped' emitted'

def totalLen (streams : List (List α)) : Nat := (streams.map List.length).sum

/-- `OrderedStreamMerger::spawn(.., receivers, order_index, ascending, offset, limit, ..)`
    run to completion on the given input streams. -/
def mergeRun (pq : PQ (Item α)) (streams : List (List α)) (offset : Nat) (limit : Option Nat) : List α :=
  mergeLoop pq limit (totalLen streams + 1) (initHeap pq 0 streams pq.empty) offset 0

/-- Two-level execution of an ordered query: per shard the flows are merged with offset 0 and
    limit `n + m` (`effective_limit`), the coordinator merges the shard streams with offset `m`
    and limit `n`. Without LIMIT both limits are absent (and OFFSET is rejected before). -/
def orderedQuery (pq : PQ (Item α)) (shards : List (List (List α))) (limit offset : Option Nat) : List α :=
  let eff := limit.map (· + offset.getD 0)
  mergeRun pq (shards.map fun flows => mergeRun pq flows 0 eff) (offset.getD 0) limit

/-- Stable insertion sort, the reference for "a flow is sorted" (`sort_unstable_by` in the
    code is a library sort; any sorted permutation is allowed in the theorems). -/
def insertBy (le : α → α → Bool) (x : α) : List α → List α
  | [] => [x]
  | y :: ys => if le x y then x :: y :: ys else y :: insertBy le x ys

def isort (le : α → α → Bool) : List α → List α
  | [] => []
  | x :: xs => insertBy le x (isort le xs)

/-- "a may come before b" in the output of a query ordered by `cmp`. -/
def outLe (asc : Bool) (cmp : α → α → Ordering) (a b : α) : Bool :=
  if asc then cmp a b != .gt else cmp a b != .lt

/-! ## Response writer: `try_accept_row` -/

structure Accept where
  seen : List Nat := []
  skipped : Nat := 0
  emitted : Nat := 0
  limitReached : Bool := false
  deriving Repr, DecidableEq

/-- The part of `try_accept_row` after the duplicate check: offset, then limit. -/
def acceptTail (limit offset : Option Nat) (st : Accept) : Accept × Bool :=
  if offset.any (fun off => st.skipped < off) then ({ st with skipped := st.skipped + 1 }, false)
  else if limit.any (fun l => st.emitted ≥ l) then ({ st with limitReached := true }, false)
  else ({ st with emitted := st.emitted + 1 }, true)

/-- `try_accept_row(event_id)`: dedup by id → offset → limit. -/
def tryAccept (limit offset : Option Nat) (st : Accept) (id : Option Nat) : Accept × Bool :=
  match id with
  | some i =>
    if st.seen.contains i then (st, false)
    else acceptTail limit offset { st with seen := i :: st.seen }
  | none => acceptTail limit offset st

/-- The row loop of `write_json` / `write_arrow`: rows are offered in arrival order until
    `limit_reached`; a row is `(event id if it reads as u64, payload)`. -/
def acceptRows (limit offset : Option Nat) : Accept → List (Option Nat × β) → List (Option Nat × β)
  | _, [] => []
  | st, r :: rs =>
    if st.limitReached then [] else
    let p := tryAccept limit offset st r.1
    if p.2 then r :: acceptRows limit offset p.1 rs else acceptRows limit offset p.1 rs

/-- Specification side: keep the first row of every id; rows without id are always kept. -/
def dedupById : List Nat → List (Option Nat × β) → List (Option Nat × β)
  | _, [] => []
  | seen, r :: rs =>
    match r.1 with
    | some i => if seen.contains i then dedupById seen rs else r :: dedupById (i :: seen) rs
    | none => r :: dedupById seen rs

def takeOpt (l : Option Nat) (xs : List γ) : List γ :=
  match l with
  | some n => xs.take n
  | none => xs

/-! ## Memtable source -/

/-- Ordered branch of `MemTableSource::run` (`flow/operators/memtable_source.rs`): matching rows
    of the active memtable, then of every passive memtable, are collected — `collect_rows_from_memtable`
    and the guard in front of the passive loop stop once `lim` rows are collected —, sorted with
    `compare_scalar_values`, and cut to `lim`.  For ORDER BY queries `determine_limit` defers the
    limit (`lim = none`), so nothing stops the collection and nothing is cut. -/
def memtableSourceOrdered (le : α → α → Bool) (lim : Option Nat) (active : List α) (passives : List (List α)) : List α :=
  takeOpt lim (isort le (takeOpt lim (active ++ passives.flatten)))

/-! ## Handler -/

inductive HandlerVerdict where
  | badRequestOffsetNeedsLimit
  | run (responseLimit responseOffset : Option Nat)
  deriving Repr, DecidableEq

/-- `QueryCommandHandler::handle`, the part that concerns LIMIT/OFFSET: OFFSET without LIMIT is
    a bad request; ordered (and sequence) queries hand `(None, None)` to the response writer
    because the merger has applied both already; unordered queries hand `(limit, offset)`. -/
def handlerLimits (ordered sequence : Bool) (limit offset : Option Nat) : HandlerVerdict :=
  if offset.isSome && limit.isNone then .badRequestOffsetNeedsLimit
  else if sequence then .run none none
  else if ordered then .run none none
  else .run limit offset

end Snel.Order
