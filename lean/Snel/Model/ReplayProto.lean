import Snel.Model.Proto
import Snel.Model.ShardProto
import Snel.Model.ReplayOrder
/-! Line protocol of the C04 driver.

* `hist cap=<n> k=<n> t=<ntypes> z=<event_per_zone> | tok | tok …` with the shard-machine tokens
  `S k ctx ty | F | ADV | RUN | X | D | C | LS` and the C04 observations
  `P ctx` (REPLAY FOR c<ctx>), `PT ctx ty` (REPLAY ev<ty> FOR c<ctx>), `LAY` (on-disk layout),
  and `T secs` (scripted store clock for the following STOREs; ignored by the model).
* `heap <max_rows> | <cursor> | <cursor> …`, a cursor being `ctx:k ctx:k …` or `-`.
-/
namespace Snel.ReplayProto
open Snel.Shard Snel.Proto Snel.Replay Snel.ShardProto

inductive RTok where
  | op (o : Op)
  | compact
  | ls
  | replay (q : Sel)
  | lay
  /-- `T <secs>`: the store clock reading stamped on the following events. Timestamps play no
  role in where a row is stored or in which order it is replayed (append order), so the model
  ignores the token; the histories move the clock backwards to check exactly that. -/
  | clock

def parseRTok (t : String) : Option RTok :=
  match words t with
  | ["S", k, c, ty] => do some (.op (.store ⟨← k.toNat?, ← c.toNat?, ← ty.toNat?⟩))
  | ["F"] => some (.op .flushCmd)
  | ["ADV"] => some (.op .flushStep)
  | ["RUN"] => some (.op .drain)
  | ["X"] => some (.op .crash)
  | ["D"] => some (.op .shutdown)
  | ["C"] => some .compact
  | ["LS"] => some .ls
  | ["LAY"] => some .lay
  | ["T", t] => do let _ ← t.toNat?; some .clock
  | ["P", c] => do some (.replay ⟨← c.toNat?, none⟩)
  | ["PT", c, ty] => do some (.replay ⟨← c.toNat?, some (← ty.toNat?)⟩)
  | _ => none

def joinK (es : List Ev) : String := ",".intercalate (es.map fun e => toString e.k)

/-- A flush job between "files written" and "passive buffer released": its rows are readable
from the passive buffer and from the segment (the response deduplicates by id, so the answer is
not a plain interleaving of the two flows). -/
def window (s : Shard) : Bool := s.jobs.any fun j => 1 ≤ j.step && j.step ≤ 3

/-- `wmem`: keys the last restart replayed from the WAL (cleared by a manual FLUSH). If one of
them is also in a readable segment the answer is deduplicated as well. -/
def showReplay (s : Shard) (wmem : List Nat) (nt : Nat) (q : Sel) : String :=
  if racy s nt then "racy" else
  if s.tainted then "stale" else
  let seg := segFlow s q nt
  if window s || seg.any (fun e => wmem.contains e.k) then "dup" else
  -- a row present in several directories (a WAL replay flushed a second time) is answered from
  -- the first one: deduplication by id inside each flow is deterministic
  s!"ilv:{joinK (dedupK [] (memFlow s q))}|{joinK (dedupK [] seg)}"

/-- With several event types the numeric label of a compaction output depends on hash-map order
in the planner: directories above level 0 are then shown as `level * 10000 + rank in the level`. -/
def shownLabel (labels : List Nat) (nt id : Nat) : Nat :=
  if nt ≤ 1 || id < levelSpan then id
  else (id / levelSpan) * levelSpan + (labels.filter fun l => l / levelSpan == id / levelSpan && l < id).length

def showLay (z : Nat) (s : Shard) (nt : Nat) : String :=
  let labels := sortNat ((s.segs.map (·.1)).eraseDups)
  let shown := labels.filter fun id => (List.range nt).any fun ty => !(segZones z s id ty).isEmpty
  let parts := labels.flatMap fun id => (List.range nt).filterMap fun ty =>
    let zs := segZones z s id ty
    if zs.isEmpty then none else some s!"{shownLabel shown nt id}.{ty}={"/".intercalate (zs.map joinK)}"
  if parts.isEmpty then "lay:-" else "lay:" ++ " ".intercalate parts

structure St where
  s : Shard
  wmem : List Nat
  obs : List String
  loose : Bool := false

def answerHist (hd : List String) (toks : List String) : String :=
  match hd with
  | [c, k, t, z] =>
    match parseKV "cap" c, parseKV "k" k, parseKV "t" t, parseKV "z" z, toks.mapM parseRTok with
    | some cap, some km, some nt, some z, some toks =>
      let st := toks.foldl (fun (st : St) t =>
        match t with
        | .op o =>
          let s' := step st.s o
          let wmem := match o with
            | .crash => s'.mem.map (·.k)
            | .shutdown => s'.mem.map (·.k)
            | .flushCmd => []
            | _ => st.wmem
          { st with s := s', wmem := wmem }
        -- with several event types the shared executor compares only the WAL part of listings after
        -- a round (`loose`, see `Snel.ShardProto.answerWith`)
        | .compact => { st with s := compactRoundR z (drainAll st.s), loose := st.loose || decide (1 < nt) }
        | .ls => { st with obs := (if st.loose then showLsWal st.s else showLs st.s nt) :: st.obs }
        | .lay => { st with obs := showLay z st.s nt :: st.obs }
        | .clock => st
        | .replay q => { st with obs := showReplay st.s st.wmem nt q :: st.obs })
        ⟨Shard.init cap km, [], [], false⟩
      " ; ".intercalate st.obs.reverse
    | _, _, _, _, _ => "bad-op"
  | _ => "bad-op"

def parseRow (t : String) : Option Ev :=
  match t.splitOn ":" with
  | [c, k] => do some ⟨← k.toNat?, ← c.toNat?, 0⟩
  | _ => none

def parseCursor (t : String) : Option (List Ev) :=
  match words t with
  | ["-"] => some []
  | ws => ws.mapM parseRow

def answerHeap (hd : List String) (toks : List String) : String :=
  match hd with
  | [m] =>
    match m.toNat?, toks.mapM parseCursor with
    | some maxRows, some cs =>
      let zs := zonesOfRows maxRows (mergeCursors cs)
      if zs.isEmpty then "-" else "/".intercalate (zs.map joinK)
    | _, _ => "bad-op"
  | _ => "bad-op"

def answer (line : String) : String :=
  match line.splitOn " | " with
  | [] => "bad-op"
  | hd :: toks =>
    match words hd with
    | "hist" :: rest => answerHist rest toks
    | "heap" :: rest => answerHeap rest toks
    | _ => "bad-op"

end Snel.ReplayProto
