import Snel.Model.Proto
import Snel.Model.ShardProto
import Snel.Model.WalBuf
/-! Line protocol for the byte-level WAL writer (C01 `walbuf` stream):
`walbuf cap=<bytes> fe=<0|1> | A <len> | … | K | A <len> | … | K` — `A` appends an entry whose JSON
is `<len>` bytes long, `K` kills the process. The answer lists, for every `K`, the lengths of the
lines the file holds at that moment (as `BufRead::lines` splits them). -/
namespace Snel.WalBufProto
open Snel.WalBuf Snel.Proto Snel.ShardProto

inductive Tok where
  | app (len : Nat)
  | kill

def parseTok (t : String) : Option Tok :=
  match words t with
  | ["A", n] => n.toNat?.map .app
  | ["K"] => some .kill
  | _ => none

def answer (line : String) : Option String :=
  match line.splitOn " | " with
  | [] => none
  | hd :: toks =>
    match words hd with
    | ["walbuf", c, fe] =>
      match parseKV "cap" c, parseKV "fe" fe, toks.mapM parseTok with
      | some cap, some fe, some toks =>
        let (_, obs) := toks.foldl (fun (acc : W × List String) t =>
          let (w, obs) := acc
          match t with
          | .app len => (append (fe != 0) w (List.replicate len 1), obs)
          | .kill =>
            let w := kill w
            (w, joinNat ((lines w.disk).map (·.length)) :: obs)) (⟨cap, [], []⟩, [])
        some (" ; ".intercalate obs.reverse)
      | _, _, _ => none
    | _ => none

end Snel.WalBufProto
