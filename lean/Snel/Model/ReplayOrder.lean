import Snel.Model.Shard
import Snel.Model.Compact
import Snel.Model.Order
import Snel.Gen.C04
/-!
# Row ORDER on the shard machine (property C04)

`Snel.Model.Shard` keeps *which* rows each source holds; this file adds *in which order* they
are stored and delivered. Sources (paths relative to `/repo/src`):

* `engine/core/memory/memtable.rs` — `BTreeMap<String, Vec<Event>>`: one bucket per context id,
  `push` at the end of the bucket, iteration in key (byte-string) order.
* `engine/core/write/flusher.rs` — buckets drained in key order, regrouped per event type
  (one set of zone files per type); `zone/zone_plan.rs::build_all`: consecutive chunks of
  `event_per_zone` rows.
* `engine/core/zone/zone_cursor_loader.rs` — one cursor per (input segment in label order,
  zone in id order); `zone/zone_merger.rs` — `BinaryHeap<Reverse<HeapItem>>`, `HeapItem`
  ordered by (context id, cursor index) since fix 32904ff (by the context id only before);
  `compaction/multi_uid_compactor.rs` — output zones of
  `ZoneBatchSizer::target_rows(level) = event_per_zone * (level + 1)` rows.
* read side: `command/types.rs::to_query_command` (REPLAY = unordered QUERY FOR ctx),
  `engine/query/streaming/scan.rs` (memtable flow, segment flow), `merger.rs` (fan-in: one
  forwarding task per flow into one channel), `flow/operators/memtable_source.rs` (active
  table, then the passive buffers oldest first), `read/segment_query_runner.rs::stream_into` +
  `zone/zone_combiner.rs` (candidate zones sorted by (segment label, zone id)),
  `handlers/query/streaming/response_writer.rs` (rows deduplicated by event id).

Representation on top of `Shard.segs : List (label × rows)`: an entry with a level-0 label
(`< levelSpan`) was written by the flusher from the rotated buffer, which the shared machine
keeps in arrival order — its on-disk order is `flushRows` of that list. An entry with a higher
label was written by a compaction round; `compactRoundR` below (a refinement of
`Snel.Shard.compactRound` that differs only in the ORDER of `outRows`) stores those rows in the
order `ZoneMerger` emits them, so they are on-disk order already.

Context ids are `c<n>`; the key order is the byte order of the decimal numerals (`c10 < c2`).
-/
namespace Snel.Replay
open Snel.Shard

/-! ## Memtable and flusher -/

/-- Decimal digits (ASCII codes), most significant first; `fuel > number of digits`. -/
def decDigits : Nat → Nat → List Nat → List Nat
  | 0, _, acc => acc
  | f + 1, n, acc => if n < 10 then (48 + n) :: acc else decDigits f (n / 10) ((48 + n % 10) :: acc)

/-- The numeral in the context id `c<n>`. -/
def ctxDigits (n : Nat) : List Nat := decDigits (n + 1) n []

/-- `String::cmp` on `c<a>` / `c<b>`. -/
def ctxCmp (a b : Nat) : Ordering := Snel.Order.cmpBytes (ctxDigits a) (ctxDigits b)

def ctxLt (a b : Nat) : Bool := ctxCmp a b == .lt

/-- Position of a new key among the existing keys of the `BTreeMap`. -/
def insertKeySorted (c : Nat) : List Nat → List Nat
  | [] => [c]
  | d :: ds => if ctxLt c d then c :: d :: ds else d :: insertKeySorted c ds

/-- `entry(ctx).or_default()`: an existing key keeps its place. -/
def insertKey (c : Nat) (ks : List Nat) : List Nat :=
  if ks.contains c then ks else insertKeySorted c ks

/-- Keys of the memtable after inserting `evs` one by one. -/
def ctxKeys (evs : List Ev) : List Nat := evs.foldl (fun ks e => insertKey e.ctx ks) []

/-- `MemTable::iter()`: buckets in key order, each bucket in push order. -/
def memOrder (evs : List Ev) : List Ev := (ctxKeys evs).flatMap fun c => evs.filter (·.ctx == c)

/-- `Vec::chunks(n)` (consecutive zones). -/
def chunks (n : Nat) : Nat → List Ev → List (List Ev)
  | 0, _ => []
  | _, [] => []
  | fuel + 1, xs => if n = 0 then [xs] else xs.take n :: chunks n fuel (xs.drop n)

def zonesOfRows (n : Nat) (rows : List Ev) : List (List Ev) := chunks n (rows.length + 1) rows

/-- Rows of one flushed segment as the zone files of type `ty` list them: `Flusher::flush`
pushes every event of the drained memtable (context buckets in key order, bucket order inside) to
the bucket of its type — a stable partition by type. That nothing else touches the order between
`memtable.take()` and the zone writer is checked on the source text
(`tools/consts/C04.py` → `Snel.Gen.C04.flusherReorderingCalls`, `zonePlanReorderingCalls`). -/
def flushRows (evs : List Ev) (ty : Nat) : List Ev := (memOrder evs).filter (·.ty == ty)

/-- On-disk row order of one `segs` entry for type `ty`. -/
def entryRows (p : Nat × List Ev) (ty : Nat) : List Ev :=
  if p.1 < levelSpan then flushRows p.2 ty else p.2.filter (·.ty == ty)

/-- `ZoneBatchSizer::target_rows(level)` with `z = event_per_zone`. -/
def targetRows (z label : Nat) : Nat := z * (label / levelSpan + Snel.Gen.C04.targetRowsLevelOffset)

/-- Zones (in id order) of type `ty` in directory `id`. -/
def segZones (z : Nat) (s : Shard) (id ty : Nat) : List (List Ev) :=
  (s.segs.filter (·.1 == id)).flatMap fun p => zonesOfRows (targetRows z id) (entryRows p ty)

/-- All rows of type `ty` in directory `id`, in (zone, row) order. -/
def segRowsOrd (s : Shard) (id ty : Nat) : List Ev :=
  (s.segs.filter (·.1 == id)).flatMap fun p => entryRows p ty

/-! ## `ZoneMerger`

`BinaryHeap<Reverse<HeapItem>>`; since fix 32904ff `HeapItem` is ordered by
(context id, cursor index). The merger is `Snel.Order.mergeRun` (initial push of every non-empty
cursor's head in cursor order; pop, emit, push the cursor's next row) over an arbitrary priority
queue; the engine's queue is `heapPQ` (std's array heap, push/pop modelled exactly) with the
reversed comparison. Rows are decorated with their position in the concatenation of all cursors
(`seq`) so that "input order" can be stated; the engine's comparison never looks at it. -/

/-- A cursor row together with its global input position. -/
structure DRow where
  seq : Nat
  ev : Ev
  deriving DecidableEq, Repr

def enumFrom : Nat → List Ev → List DRow
  | _, [] => []
  | off, e :: es => ⟨off, e⟩ :: enumFrom (off + 1) es

def decorateFrom : Nat → List (List Ev) → List (List DRow)
  | _, [] => []
  | off, c :: cs => enumFrom off c :: decorateFrom (off + c.length) cs

/-- `Ord for Reverse<HeapItem>`: context id, then cursor index, reversed (`BinaryHeap` is a
max-heap). `Item.idx` is the cursor index (`enumerate()` over all cursors, empty ones included). -/
def hcmp (a b : Snel.Order.Item DRow) : Ordering :=
  (ctxCmp b.row.ev.ctx a.row.ev.ctx).then (compare b.idx a.idx)

/-- The merged row stream of a cursor set, for a given priority queue. -/
def mergeCursorsPQ (pq : Snel.Order.PQ (Snel.Order.Item DRow)) (cs : List (List Ev)) : List Ev :=
  (Snel.Order.mergeRun pq (decorateFrom 0 cs) 0 none).map (·.ev)

/-- … with the queue the engine uses. -/
def mergeCursors (cs : List (List Ev)) : List Ev := mergeCursorsPQ (Snel.Order.heapPQ hcmp) cs

/-! ## Compaction round with the merger's row order -/

/-- `ZoneCursorLoader::load_all`: input segments in label order, zones in id order. -/
def cursorsOf (z : Nat) (s : Shard) (inputs : List Nat) (ty : Nat) : List (List Ev) :=
  inputs.flatMap fun id => segZones z s id ty

/-- `Snel.Shard.runBatch` with `outRows` in the order `ZoneMerger` produces. -/
def runBatchR (z : Nat) (s : Shard) (b : Batch) : Shard × List Nat :=
  let outRows := b.tys.flatMap fun ty => mergeCursors (cursorsOf z s b.inputs ty)
  let s := { s with segs := s.segs ++ [(b.out, outRows)],
                    tainted := s.tainted || s.everSeg.contains b.out,
                    everSeg := s.everSeg ++ [b.out] }
  let index := s.index.map fun (id, uids) =>
    if b.inputs.contains id then (id, uids.filter (fun u => !b.tys.contains u)) else (id, uids)
  let drained := (index.filter (fun e => b.inputs.contains e.1 && e.2.isEmpty)).map (·.1)
  let index := index.filter (fun e => !(b.inputs.contains e.1 && e.2.isEmpty))
  let index := index ++ [(b.out, b.tys)]
  let live := sortNat ((s.live.filter (fun l => !drained.contains l)) ++ [b.out])
  ({ s with index := index, live := live }, drained)

def compactRoundR (z : Nat) (s : Shard) : Shard :=
  let s := loadIndex s
  let plans := planAll s.kmerge s.index
  let (s, drained) := (groupPlans plans).foldl (fun (acc : Shard × List Nat) b =>
    let (s', d) := runBatchR z acc.1 b
    (s', acc.2 ++ d)) (s, [])
  { s with segs := s.segs.filter (fun p => !drained.contains p.1) }

/-! ## The read side -/

/-- What REPLAY selects: the context, optionally one event type. -/
structure Sel where
  ctx : Nat
  ty : Option Nat

def Sel.ok (q : Sel) (e : Ev) : Bool :=
  e.ctx == q.ctx && (match q.ty with | none => true | some t => e.ty == t)

/-- The memtable flow: active table, then the passive buffers oldest first; each in
`MemTable::iter()` order. -/
def memFlow (s : Shard) (q : Sel) : List Ev :=
  ((memOrder s.mem) ++ s.passives.flatMap (fun p => memOrder p.2)).filter q.ok

/-- Types whose zone files a typed / single-type read visits. -/
def selTypes (q : Sel) (ntypes : Nat) : List Nat :=
  match q.ty with
  | some t => [t]
  | none => List.range ntypes

/-- The segment flow: directories in label order, zones in id order, rows in zone order.
(For an untyped REPLAY over several event types the engine's zone list is keyed by
(zone id, label) only — see `Props.C04`; the drivers use typed selections there.) -/
def segFlow (s : Shard) (q : Sel) (ntypes : Nat) : List Ev :=
  ((sortNat (readSegs s)).flatMap fun id =>
    (selTypes q ntypes).flatMap fun ty => segRowsOrd s id ty).filter q.ok

/-- `l` is a fan-in of `a` and `b`: both keep their own order, nothing else is fixed. -/
inductive Interleaving {α : Type} : List α → List α → List α → Prop
  | nil : Interleaving [] [] []
  | left {x a b l} : Interleaving a b l → Interleaving (x :: a) b (x :: l)
  | right {x a b l} : Interleaving a b l → Interleaving a (x :: b) (x :: l)

/-- `try_accept_row`: the first row with a given id is kept. -/
def dedupK : List Nat → List Ev → List Ev
  | _, [] => []
  | seen, e :: es => if seen.contains e.k then dedupK seen es else e :: dedupK (e.k :: seen) es

/-- `r` is a possible answer to REPLAY in state `s`. -/
def IsReplay (s : Shard) (q : Sel) (ntypes : Nat) (r : List Ev) : Prop :=
  ∃ l, Interleaving (memFlow s q) (segFlow s q ntypes) l ∧ r = dedupK [] l

/-- The two scheduling extremes, for evaluation. -/
def replayMemFirst (s : Shard) (q : Sel) (ntypes : Nat) : List Ev :=
  dedupK [] (memFlow s q ++ segFlow s q ntypes)

def replaySegFirst (s : Shard) (q : Sel) (ntypes : Nat) : List Ev :=
  dedupK [] (segFlow s q ntypes ++ memFlow s q)

/-! ## Histories with compaction rounds -/

inductive ROp where
  | op (o : Op)
  | compact
  deriving Repr

/-- `C`: the harness lets the flush worker finish, then runs one round. -/
def rstep (z : Nat) (s : Shard) : ROp → Shard
  | .op o => step s o
  | .compact => compactRoundR z (drainAll s)

def runR (z : Nat) (s : Shard) (ops : List ROp) : Shard := ops.foldl (rstep z) s

end Snel.Replay
