import Snel.Model.Shard
import Snel.Gen.C05
/-!
# Compaction round on the shard machine

`KWayCountPolicy::plan` (per level, per uid, sorted labels, chunks of k, forced leftovers),
`SegmentBatch::group_plans` (identical input sets share the first plan's output id),
`MultiUidCompactor` + `CompactionHandover::commit_batch` (retire uid from inputs, drop drained
entries, insert the output entry, update the live list), reclaim of drained directories.

The Rust code iterates uids and batches in `HashMap` order; here types are processed in
ascending order. That choice changes which numeric id a batch output gets, never which rows end
up together (the harness compares ids only for single-type histories).
-/
namespace Snel.Shard

structure Plan where
  level : Nat
  ty : Nat
  inputs : List Nat      -- sorted labels
  out : Nat
  deriving Repr, DecidableEq

def chunksOf (k : Nat) : Nat → List Nat → List (List Nat)
  | 0, _ => []
  | _, [] => []
  | fuel + 1, xs => if k = 0 then [] else xs.take k :: chunksOf k fuel (xs.drop k)

/-- Allocator seeded from the index labels: per level, next offset = max offset + 1. -/
def nextOffset (labels : List Nat) (level : Nat) : Nat :=
  match maxOpt ((labels.filter (fun l => l / levelSpan == level)).map (· % levelSpan)) with
  | none => 0
  | some m => m + 1

structure PlanAcc where
  plans : List Plan
  /-- per level, how many ids the allocator has handed out in this planning pass -/
  used : List (Nat × Nat)

def PlanAcc.usedAt (a : PlanAcc) (level : Nat) : Nat :=
  ((a.used.filter (·.1 == level)).map (·.2)).foldl (· + ·) 0

def PlanAcc.alloc (a : PlanAcc) (labels : List Nat) (level : Nat) : Nat × PlanAcc :=
  let id := level * levelSpan + nextOffset labels level + a.usedAt level
  (id, { a with used := a.used ++ [(level, 1)] })

/-- Plans for one uid at one level. -/
def planUid (k thr : Nat) (labels : List Nat) (level ty : Nat) (segsOfUid : List Nat) (a : PlanAcc) : PlanAcc :=
  let ls := sortNat segsOfUid
  if ls.length < thr then a
  else if ls.length < k then
    let (out, a) := a.alloc labels (level + 1)
    { a with plans := a.plans ++ [⟨level, ty, ls, out⟩] }
  else
    (chunksOf k (ls.length + 1) ls).foldl (fun a chunk =>
      if chunk.length < k then a
      else
        let (out, a) := a.alloc labels (level + 1)
        { a with plans := a.plans ++ [⟨level, ty, chunk, out⟩] }) a

def allTypes (index : List (Nat × List Nat)) : List Nat := sortNat ((index.flatMap (·.2)).eraseDups)

/-- `KWayCountPolicy::plan`. -/
def planAll (k : Nat) (index : List (Nat × List Nat)) : List Plan :=
  let thr := max ((k * Snel.Gen.C05.leftoverNum) / Snel.Gen.C05.leftoverDen) Snel.Gen.C05.leftoverMin
  let labels := index.map (·.1)
  let maxLevel := (maxOpt (labels.map (· / levelSpan))).getD 0
  let acc := (List.range (maxLevel + 1)).foldl (fun a level =>
    (allTypes index).foldl (fun a ty =>
      let segsOfUid := (index.filter (fun e => e.1 / levelSpan == level && e.2.contains ty)).map (·.1)
      if segsOfUid.isEmpty then a else planUid k thr labels level ty segsOfUid a) a) ⟨[], []⟩
  acc.plans

structure Batch where
  inputs : List Nat
  tys : List Nat
  out : Nat
  deriving Repr

/-- Group plans by identical input set; the batch writes every uid into the first plan's id. -/
def groupPlans (plans : List Plan) : List Batch :=
  plans.foldl (fun bs p =>
    if bs.any (·.inputs == p.inputs) then
      bs.map fun b => if b.inputs == p.inputs then { b with tys := b.tys ++ [p.ty] } else b
    else bs ++ [⟨p.inputs, [p.ty], p.out⟩]) []

/-- Rows of type `ty` held by directory `id`. -/
def rowsOf (s : Shard) (id ty : Nat) : List Ev := (segRows s id).filter (·.ty == ty)

/-- One batch: write the output directory, hand over (index + live list). Returns the state
and the labels drained by this batch. -/
def runBatch (s : Shard) (b : Batch) : Shard × List Nat :=
  let outRows := b.tys.flatMap fun ty => b.inputs.flatMap fun id => rowsOf s id ty
  let s := { s with segs := s.segs ++ [(b.out, outRows)],
                    tainted := s.tainted || s.everSeg.contains b.out,
                    everSeg := s.everSeg ++ [b.out] }
  -- retire the batch's uids from the input entries; entries left without uids are drained
  let index := s.index.map fun (id, uids) =>
    if b.inputs.contains id then (id, uids.filter (fun u => !b.tys.contains u)) else (id, uids)
  let drained := (index.filter (fun e => b.inputs.contains e.1 && e.2.isEmpty)).map (·.1)
  let index := index.filter (fun e => !(b.inputs.contains e.1 && e.2.isEmpty))
  let index := index ++ [(b.out, b.tys)]
  let live := sortNat ((s.live.filter (fun l => !drained.contains l)) ++ [b.out])
  ({ s with index := index, live := live }, drained)

/-- `CompactionWorker::run`: plan from the index, run the batches, reclaim drained directories. -/
def compactRound (s : Shard) : Shard :=
  let s := loadIndex s
  let plans := planAll s.kmerge s.index
  let (s, drained) := (groupPlans plans).foldl (fun (acc : Shard × List Nat) b =>
    let (s', d) := runBatch acc.1 b
    (s', acc.2 ++ d)) (s, [])
  { s with segs := s.segs.filter (fun p => !drained.contains p.1) }

end Snel.Shard
