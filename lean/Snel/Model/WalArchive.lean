import Snel.Gen.C19
/-!
Model of WAL archiving and cleanup:
`src/engine/core/wal/{wal_cleaner,wal_archiver,wal_archive,wal_archive_recovery,wal_entry}.rs`
and the `From<JsonValue>` / `Serialize` / `Deserialize` impls of `ScalarValue`
(`src/engine/types/mod.rs`) as far as the archive round trip needs them.

What is modelled, bug for bug:

* a WAL directory = list of files (name, lines, readable?, deletable?), in `read_dir` order
  (any order: every theorem quantifies over the list);
* which names are eligible (`strip_prefix("wal-")`, `strip_suffix(".log")`,
  `str::parse::<u64>` incl. the optional leading `+` and overflow) and that `archive_log(id)`
  re-derives the path `wal-{:05}.log` from the *parsed id* instead of using the entry's name;
* `from_wal_file`: an I/O error while reading (a line that is not UTF-8, a directory) fails the
  archive; blank lines and lines `serde_json` rejects are skipped; header counts, min / max
  timestamps, `start = 0` when empty;
* the archive file name `wal-{:05}-{start}-{end}.wal.zst`, `create_dir_all`, `File::create`
  (truncates an existing file of that name; fails on a directory or a dangling symlink);
* `cleanup_up_to`: conservative mode archives all eligible logs first and returns before the
  deletion pass when any result is `Err`; otherwise / afterwards every eligible name is removed;
* `recover_all` / `list_archive_info`: `*.zst` names in byte order, undecodable ones skipped.

Trusted, i.e. parameters or identities here: the text → `serde_json::Value` parser
(`Parser.parseRaw`: a line either yields the five fields with the payload as JSON values, keys
in `BTreeMap` order, or is rejected), `serde_json::to_string` of nested values (`JVal.compound`
carries that text), and the MessagePack + zstd byte formats: writing and reading an archive is
modelled at the level of serde's data model by `Value.reser` (what `Serialize for ScalarValue`
emits and what `JsonValue::deserialize` + `ScalarValue::from` make of it). `created_at`,
`version`, `compression*` of the header are not modelled (never read by the code paths here).
A data write that fails after `File::create` is the `Fault.write` outcome of the fault oracle
(result `Err`, an undecodable file stays behind). Not modelled: files appearing between the archive pass and the deletion pass (concurrency with the WAL writer).
-/
namespace Snel.WalArchive

/-- File names are compared bytewise by the code (`PathBuf: Ord`); UTF-8 keeps code-point
order, so a name is its list of characters. -/
abbrev Name := List Char

/-! ## Values and entries -/

/-- `ScalarValue`. `float` carries the IEEE-754 bit pattern. -/
inductive Value
  | null
  | bool (b : Bool)
  | int (i : Int)
  | float (bits : Nat)
  | ts (i : Int)
  | str (s : String)
  | bin (b : List UInt8)
  deriving DecidableEq, Repr

/-- What `serde_json` hands to `ScalarValue::from`: `int` covers `[-2^63, 2^64)`;
`compound` is an array / object, represented by its `serde_json::to_string` text. -/
inductive JVal
  | null
  | bool (b : Bool)
  | int (i : Int)
  | float (bits : Nat)
  | str (s : String)
  | compound (text : String)
  deriving DecidableEq, Repr

def i64Max : Int := 9223372036854775807

/-- exponent field ≠ all ones -/
def finiteBits (b : Nat) : Bool := (b / 4503599627370496) % 2048 != 2047

/-- `impl From<JsonValue> for ScalarValue`. -/
def Value.ofJson : JVal → Value
  | .null => .null
  | .bool b => .bool b
  | .int i => if i ≤ i64Max then .int i else .str (toString i.toNat)
  | .float b => .float b
  | .str s => .str s
  | .compound t => .str t

def b64Alphabet : List Char :=
  "ABCDEFGHIJKLMNOPQRSTUVWXYZabcdefghijklmnopqrstuvwxyz0123456789+/".toList

def b64Char (n : Nat) : Char := b64Alphabet.getD n '?'

/-- `BASE64_STANDARD.encode` (with padding). -/
def base64 : List UInt8 → List Char
  | a :: b :: c :: rest =>
    let n := a.toNat * 65536 + b.toNat * 256 + c.toNat
    b64Char (n / 262144) :: b64Char (n / 4096 % 64) :: b64Char (n / 64 % 64) :: b64Char (n % 64)
      :: base64 rest
  | [a, b] =>
    let n := a.toNat * 65536 + b.toNat * 256
    [b64Char (n / 262144), b64Char (n / 4096 % 64), b64Char (n / 64 % 64), '=']
  | [a] =>
    let n := a.toNat * 65536
    [b64Char (n / 262144), b64Char (n / 4096 % 64), '=', '=']
  | [] => []

/-- `Serialize for ScalarValue` into serde's data model (unit / bool / i64 / f64 / str), the
MessagePack round trip (trusted: identity on that data model), then `Deserialize for
ScalarValue` = `JsonValue::deserialize` (a non-finite `f64` becomes `Value::Null`) followed by
`ScalarValue::from`. -/
def Value.reser : Value → Value
  | .null => .null
  | .bool b => .bool b
  | .int i => .int i
  | .float b => if finiteBits b then .float b else .null
  | .ts i => .int i
  | .str s => .str s
  | .bin b => .str (String.ofList (base64 b))

/-- The variants `ScalarValue::from(JsonValue)` can produce from a finite JSON number. -/
def Value.JsonBorn : Value → Prop
  | .null | .bool _ | .int _ | .str _ => True
  | .float b => finiteBits b = true
  | .ts _ | .bin _ => False

/-- `WalEntry`. `payload` is the `BTreeMap` in key order. -/
structure Entry where
  eventType : String
  contextId : String
  timestamp : Nat
  payload : List (String × Value)
  eventId : Nat
  deriving DecidableEq, Repr

/-- The five fields as `serde_json` found them on a line (payload still JSON values). -/
structure RawEntry where
  eventType : String
  contextId : String
  timestamp : Nat
  payload : List (String × JVal)
  eventId : Nat
  deriving DecidableEq, Repr

def Entry.ofRaw (r : RawEntry) : Entry :=
  { eventType := r.eventType, contextId := r.contextId, timestamp := r.timestamp,
    payload := r.payload.map fun kv => (kv.1, Value.ofJson kv.2), eventId := r.eventId }

/-- An entry written into an archive and read back. -/
def Entry.reser (e : Entry) : Entry :=
  { e with payload := e.payload.map fun kv => (kv.1, kv.2.reser) }

def Entry.JsonBorn (e : Entry) : Prop := ∀ kv ∈ e.payload, kv.2.JsonBorn

/-- The line parser (trusted `serde_json`). `blank l` is `line.trim().is_empty()`. -/
structure Parser (L : Type) where
  blank : L → Bool
  parseRaw : L → Option RawEntry

def Parser.parse {L : Type} (p : Parser L) (l : L) : Option Entry := (p.parseRaw l).map Entry.ofRaw

/-- `serde_json::Number` is never NaN / ±inf. -/
def Parser.FiniteFloats {L : Type} (p : Parser L) : Prop :=
  ∀ l r, p.parseRaw l = some r → ∀ kv ∈ r.payload, ∀ b, kv.2 = JVal.float b → finiteBits b = true

/-! ## Names -/

def u64Max : Nat := 18446744073709551615

def digitsVal (cs : List Char) : Nat := cs.foldl (fun a c => a * 10 + (c.toNat - 48)) 0

/-- `str::parse::<u64>`: optional single `+`, then one or more ASCII digits, no overflow. -/
def parseU64 (s : List Char) : Option Nat :=
  let ds := match s with
    | '+' :: r => r
    | _ => s
  if ds.isEmpty || !ds.all Char.isDigit then none
  else if digitsVal ds ≤ u64Max then some (digitsVal ds) else none

def stripPrefix (p s : List Char) : Option (List Char) :=
  if p.isPrefixOf s then some (s.drop p.length) else none

def stripSuffix (suf s : List Char) : Option (List Char) :=
  if suf.isSuffixOf s then some (s.take (s.length - suf.length)) else none

/-! The literal pieces of the names come from the Rust sources (`Snel.Gen.C19`, regenerated by
`tools/consts/C19.py` on every check). -/

/-- prefix / suffix of `format!("wal-{:05}.log", log_id)` in `archive_log` -/
def walPrefix : List Char := Snel.Gen.C19.logPrefix.toList
def logSuffix : List Char := Snel.Gen.C19.logSuffix.toList
/-- `strip_prefix(..)` / `strip_suffix(..)` of the two directory loops -/
def filterPrefix : List Char := Snel.Gen.C19.cleanerFilterPrefix.toList
def filterSuffix : List Char := Snel.Gen.C19.cleanerFilterSuffix.toList

/-- The model has one name filter: the cleaner's deletion loop and the archiver's loop must use
the same literals, and both paddings must be the five digits `pad5` implements. -/
example : Snel.Gen.C19.archiverFilterPrefix = Snel.Gen.C19.cleanerFilterPrefix
    ∧ Snel.Gen.C19.archiverFilterSuffix = Snel.Gen.C19.cleanerFilterSuffix
    ∧ Snel.Gen.C19.logPadWidth = 5 ∧ Snel.Gen.C19.archivePadWidth = 5 := by decide

/-- The id the cleaner and the archiver read out of a directory entry's name. -/
def logId? (name : Name) : Option Nat :=
  match stripPrefix filterPrefix name with
  | none => none
  | some s =>
    match stripSuffix filterSuffix s with
    | none => none
    | some num => parseU64 num

def dec (n : Nat) : List Char := Nat.toDigits 10 n

/-- `{:05}`. -/
def pad5 (n : Nat) : List Char :=
  if n < 100000 then
    [Nat.digitChar (n / 10000), Nat.digitChar (n / 1000 % 10), Nat.digitChar (n / 100 % 10),
     Nat.digitChar (n / 10 % 10), Nat.digitChar (n % 10)]
  else dec n

/-- `format!("wal-{:05}.log", log_id)` -/
def walName (id : Nat) : Name := walPrefix ++ pad5 id ++ logSuffix

/-- `id < keep_from_log_id` for a name that parses. -/
def eligible (bound : Nat) (name : Name) : Option Nat :=
  match logId? name with
  | some id => if id < bound then some id else none
  | none => none

/-! ## Archives -/

structure Header where
  shard : Nat
  logId : Nat
  startTs : Nat
  endTs : Nat
  count : Nat
  deriving DecidableEq, Repr

structure Archive where
  header : Header
  entries : List Entry
  deriving DecidableEq, Repr

/-- The entries `from_wal_file` collects: non-blank lines that parse, in file order. -/
def parsedEntries {L : Type} (p : Parser L) (ls : List L) : List Entry :=
  (ls.filter fun l => !p.blank l).filterMap p.parse

def minTs (es : List Entry) : Nat := es.foldl (fun m e => min m e.timestamp) u64Max
def maxTs (es : List Entry) : Nat := es.foldl (fun m e => max m e.timestamp) 0

/-- `WalArchive::from_wal_file` for a readable file. -/
def mkArchive {L : Type} (p : Parser L) (shard id : Nat) (ls : List L) : Archive :=
  let es := parsedEntries p ls
  { header := { shard := shard, logId := id,
                startTs := if es.length = 0 then 0 else minTs es,
                endTs := maxTs es, count := es.length },
    entries := es }

def archPrefix : List Char := Snel.Gen.C19.archivePrefix.toList
def zstSuffix : List Char := Snel.Gen.C19.archiveSuffix.toList
def sep1 : Char := Snel.Gen.C19.archiveSep1
def sep2 : Char := Snel.Gen.C19.archiveSep2

/-- `generate_filename` -/
def archName (id start stop : Nat) : Name :=
  archPrefix ++ pad5 id ++ sep1 :: dec start ++ sep2 :: dec stop ++ zstSuffix

def Archive.fileName (a : Archive) : Name := archName a.header.logId a.header.startTs a.header.endTs

/-! ## The two directories -/

structure WalFile (L : Type) where
  name : Name
  lines : List L
  /-- false: reading fails (`BufRead::lines` meets invalid UTF-8, or the entry is a directory) -/
  readable : Bool
  /-- false: `remove_file` fails (the entry is a directory) -/
  deletable : Bool
  deriving DecidableEq, Repr

/-- An entry of the shard's archive directory. -/
inductive Node
  /-- regular file that decodes; holds the archive as it was handed to the writer -/
  | archive (a : Archive)
  /-- regular file that does not decode (foreign or corrupt bytes) -/
  | junk
  /-- a directory -/
  | dir
  /-- symlink whose target cannot be created -/
  | dangling
  deriving DecidableEq, Repr

/-- State of `<archive_dir>/shard-N` itself. `blocked`: the path is a dangling symlink (or below
a regular file): `exists()` is false and `create_dir_all` fails. -/
inductive Root
  | dir | missing | isFile | blocked
  deriving DecidableEq, Repr

structure ArchFs where
  root : Root
  nodes : List (Name × Node)
  deriving DecidableEq, Repr

def lookup (n : Name) : List (Name × Node) → Option Node
  | [] => none
  | (m, v) :: rest => if m = n then some v else lookup n rest

/-- create or truncate-and-rewrite -/
def put (n : Name) (v : Node) (nodes : List (Name × Node)) : List (Name × Node) :=
  (nodes.filter fun kv => kv.1 ≠ n) ++ [(n, v)]

/-- `File::create` would fail on this name. -/
def squatted (nodes : List (Name × Node)) (n : Name) : Bool :=
  match lookup n nodes with
  | some .dir | some .dangling => true
  | _ => false

/-- Outcome of the I/O that is not modelled structurally, per log id: no fault; `File::create`
fails (EACCES, EROFS, …: nothing is created); or the *data* write fails after the file has been
created / truncated (ENOSPC, EDQUOT, EFBIG, EIO — possibly after part of the bytes): the name
then holds an incomplete file that does not decode. -/
inductive Fault
  | none | create | write
  deriving DecidableEq, Repr

def Fault.bites : Fault → Bool
  | .none => false
  | _ => true

/-- `WalArchive::write_to_file`. `fails` is the fault oracle, keyed by log id. -/
def writeToFile (fails : Nat → Fault) (fs : ArchFs) (a : Archive) : Bool × ArchFs :=
  match fs.root with
  | .isFile | .blocked => (false, fs)
  | _ =>
    let nodes := fs.nodes
    if fails a.header.logId == .create || squatted nodes a.fileName then
      (false, { root := .dir, nodes := nodes })
    else if fails a.header.logId == .write then
      -- `File::create` succeeded (an earlier file of that name is gone), `write_all` / `sync_all`
      -- returned `Err`: an empty or truncated file stays behind
      (false, { root := .dir, nodes := put a.fileName .junk nodes })
    else (true, { root := .dir, nodes := put a.fileName (.archive a) nodes })

def findFile {L : Type} (wal : List (WalFile L)) (n : Name) : Option (WalFile L) :=
  wal.find? fun f => f.name = n

/-- `WalArchiver::archive_log(log_id)`: `true` = `Ok`. -/
def archiveLog {L : Type} (p : Parser L) (fails : Nat → Fault) (shard : Nat) (wal : List (WalFile L))
    (fs : ArchFs) (id : Nat) : Bool × ArchFs :=
  match findFile wal (walName id) with
  | none => (false, fs)
  | some f =>
    if f.readable then writeToFile fails fs (mkArchive p shard id f.lines) else (false, fs)

/-- `archive_logs_up_to`: one result per eligible directory entry, in directory order. -/
def archivePass {L : Type} (p : Parser L) (fails : Nat → Fault) (shard bound : Nat)
    (wal : List (WalFile L)) : List (WalFile L) → ArchFs → List Bool × ArchFs
  | [], fs => ([], fs)
  | f :: rest, fs =>
    match eligible bound f.name with
    | none => archivePass p fails shard bound wal rest fs
    | some id =>
      let r := archiveLog p fails shard wal fs id
      let rs := archivePass p fails shard bound wal rest r.2
      (r.1 :: rs.1, rs.2)

/-- the deletion loop of `cleanup_up_to` -/
def deletePass {L : Type} (bound : Nat) (wal : List (WalFile L)) : List (WalFile L) :=
  wal.filter fun f => !((eligible bound f.name).isSome && f.deletable)

/-- `WalCleaner::cleanup_up_to(keep_from_log_id)` -/
def cleanup {L : Type} (conservative : Bool) (p : Parser L) (fails : Nat → Fault) (shard bound : Nat)
    (wal : List (WalFile L)) (fs : ArchFs) : List (WalFile L) × ArchFs :=
  if conservative then
    let r := archivePass p fails shard bound wal wal fs
    if r.1.any (fun ok => !ok) then (wal, r.2) else (deletePass bound wal, r.2)
  else (deletePass bound wal, fs)

/-! ## Recovery -/

/-- bytewise `≤` on names -/
def lexLe : List Char → List Char → Bool
  | [], _ => true
  | _ :: _, [] => false
  | a :: as, b :: bs => if a = b then lexLe as bs else decide (a.toNat < b.toNat)

def insertBy {α : Type} (le : α → α → Bool) (x : α) : List α → List α
  | [] => [x]
  | y :: ys => if le x y then x :: y :: ys else y :: insertBy le x ys

def isort {α : Type} (le : α → α → Bool) : List α → List α
  | [] => []
  | x :: xs => insertBy le x (isort le xs)

def dotZst : List Char := '.' :: Snel.Gen.C19.archiveExt.toList

/-- `path.extension() == Some("zst")` -/
def hasZstExt (n : Name) : Bool := dotZst.isSuffixOf n && n.length > dotZst.length

/-- `list_archives` on an existing directory -/
def listArchives (nodes : List (Name × Node)) : List (Name × Node) :=
  isort (fun a b => lexLe a.1 b.1) (nodes.filter fun kv => hasZstExt kv.1)

/-- `recover_from_archive` (`none` = `Err`, skipped by `recover_all`) -/
def readNode : Node → Option Archive
  | .archive a => some { a with entries := a.entries.map Entry.reser }
  | _ => none

/-- `recover_all`: `none` = `Err` (the archive path exists but is not a directory). -/
def recoverAll (fs : ArchFs) : Option (List Entry) :=
  match fs.root with
  | .isFile => none
  | .missing | .blocked => some []
  | .dir => some ((listArchives fs.nodes).flatMap fun kv =>
      match readNode kv.2 with
      | some a => a.entries
      | none => [])

/-- `list_archive_info`: name and header of every readable archive, in name order. -/
def listInfo (fs : ArchFs) : List (Name × Header) :=
  match fs.root with
  | .dir => (listArchives fs.nodes).filterMap fun kv => (readNode kv.2).map fun a => (kv.1, a.header)
  | _ => []

/-! ## Histories: files appear, the cleaner runs -/

structure Step (L : Type) where
  add : List (WalFile L)
  bound : Nat

/-- new files replace same-named ones (the harness never does that; total anyway) -/
def addFiles {L : Type} (wal add : List (WalFile L)) : List (WalFile L) :=
  (wal.filter fun f => !add.any fun g => g.name = f.name) ++ add

def runStep {L : Type} (conservative : Bool) (p : Parser L) (fails : Nat → Fault) (shard : Nat)
    (st : List (WalFile L) × ArchFs) (s : Step L) : List (WalFile L) × ArchFs :=
  cleanup conservative p fails shard s.bound (addFiles st.1 s.add) st.2

def runSteps {L : Type} (conservative : Bool) (p : Parser L) (fails : Nat → Fault) (shard : Nat)
    (st : List (WalFile L) × ArchFs) (steps : List (Step L)) : List (WalFile L) × ArchFs :=
  steps.foldl (runStep conservative p fails shard) st

end Snel.WalArchive
