import Snel.Gen.C20
/-!
Model of the response encodings (`src/shared/response/{json,unix,arrow}.rs`,
`src/engine/types/mod.rs` `ScalarValue::{to_json,to_string_repr,as_u64}`,
`src/engine/core/read/flow/batch.rs` `to_record_batch`) and of the two streaming writers
(`command/handlers/query/streaming/response_writer.rs`,
`command/handlers/show/streaming/response_writer.rs`).

A result is a schema (column name, declared logical type) and a list of batches; a batch is a
list of rows; a row is a list of scalars (the Rust side stores columns, `ColumnBatch::new`
checks that all columns have the batch's length, so rows × columns is the same information).

What each encoder emits is modelled at the level of the *decoded* cell (`Cell`): the value an
independent reader (a JSON reader for the frames, arrow's IPC stream reader) sees.

External library functions are parameters (`Ext`): Rust's `str::parse::<f64>`, Rust's
`Display` for `f64`, and "`serde_json::from_str` yields an object or array" (with the compact
re-serialisation of that value).  Everything else is modelled exactly, bug for bug:

* `to_json`: non-finite floats become `null`; strings that parse as a JSON container are
  emitted as that container; strings that parse as an unsigned number above `i64::MAX` are
  emitted as a number.
* Arrow has **two** cell encoders: a batch of which every row is emitted goes through
  `ColumnBatch::to_record_batch` (`arrowWhole`), a batch of which some row was dropped
  (dedup / offset / limit) goes through `build_record_batch(.., Some(indices))`
  (`arrowIndexed`).  They coerce differently.
-/
namespace Snel.Response
open Snel.Gen.C20

abbrev Bytes := List UInt8

/-- `ScalarValue`. Floats are their 64-bit pattern. `int`/`ts` carry an `i64`. -/
inductive Scalar
  | null
  | bool (b : Bool)
  | int (i : Int)
  | float (bits : Nat)
  | ts (i : Int)
  | utf8 (s : Bytes)
  | binary (b : Bytes)
  deriving DecidableEq, Repr

/-- What a reader decodes from one cell of an encoding. `json` = a JSON array/object, as its
compact text. -/
inductive Cell
  | null
  | bool (b : Bool)
  | int (i : Int)
  | float (bits : Nat)
  | str (s : Bytes)
  | json (canon : Bytes)
  deriving DecidableEq, Repr

/-- External library behaviour the model is parameterised over. -/
structure Ext where
  /-- Rust `str::parse::<f64>()`: bit pattern of the result. -/
  parseF64 : Bytes → Option Nat
  /-- Rust `f64::to_string()`. -/
  fmtF64 : Nat → Bytes
  /-- `serde_json::from_str::<Value>(s)` is `Ok(Object|Array)`: its compact serialisation. -/
  parseContainer : Bytes → Option Bytes

/-! ## Byte-string helpers (exact models of the Rust std functions used) -/

def isDigit (b : UInt8) : Bool := 48 ≤ b && b ≤ 57

/-- Non-empty all-digit string → its value. -/
def digitsVal (s : Bytes) : Option Nat :=
  if s.isEmpty then none
  else if s.all isDigit then some (s.foldl (fun a b => a * 10 + (b.toNat - 48)) 0) else none

def i64Max : Nat := 2 ^ 63 - 1
def u64Max : Nat := 2 ^ 64 - 1

/-- `str::parse::<i64>()`: optional `+`/`-`, at least one digit, in range. -/
def parseI64 (s : Bytes) : Option Int :=
  match s with
  | 43 :: rest => (digitsVal rest).bind fun n => if n ≤ i64Max then some (Int.ofNat n) else none
  | 45 :: rest => (digitsVal rest).bind fun n => if n ≤ i64Max + 1 then some (- Int.ofNat n) else none
  | _ => (digitsVal s).bind fun n => if n ≤ i64Max then some (Int.ofNat n) else none

/-- `str::parse::<u64>()`: optional `+`, at least one digit, in range. -/
def parseU64 (s : Bytes) : Option Nat :=
  match s with
  | 43 :: rest => (digitsVal rest).bind fun n => if n ≤ u64Max then some n else none
  | _ => (digitsVal s).bind fun n => if n ≤ u64Max then some n else none

/-- JSON insignificant whitespace. -/
def isWs (b : UInt8) : Bool := b == 32 || b == 10 || b == 13 || b == 9

def stripWs (s : Bytes) : Bytes := ((s.dropWhile isWs).reverse.dropWhile isWs).reverse

/-- The string is JSON text of an unsigned integer `> i64::MAX` that fits `u64`
(`serde_json::from_str` → `Number` with `as_u64() > i64::MAX`): surrounding JSON whitespace,
digits only, no leading zero. Longer digit strings become floats in serde_json, signed ones are
not `u64`. -/
def bigU64 (s : Bytes) : Option Nat :=
  let t := stripWs s
  match t with
  | [] => none
  | c :: _ =>
    if c == 48 then none
    else (digitsVal t).bind fun n => if i64Max < n ∧ n ≤ u64Max then some n else none

def lowerAscii (s : Bytes) : Bytes := s.map fun b => if 65 ≤ b && b ≤ 90 then b + 32 else b

def sTrue : Bytes := [116, 114, 117, 101]
def sFalse : Bytes := [102, 97, 108, 115, 101]
def sOne : Bytes := [49]
def sZero : Bytes := [48]

/-- `match s.to_ascii_lowercase().as_str() { "true"|"1" => true, "false"|"0" => false, _ => null }` -/
def boolWord (s : Bytes) : Option Bool :=
  let l := lowerAscii s
  if l = sTrue ∨ l = sOne then some true
  else if l = sFalse ∨ l = sZero then some false else none

/-- Decimal digits of a natural number. -/
def decNat (n : Nat) : Bytes := (Nat.toDigits 10 n).map fun c => UInt8.ofNat c.toNat

/-- `i64::to_string()`. -/
def decInt (i : Int) : Bytes :=
  match i with
  | Int.ofNat n => decNat n
  | Int.negSucc n => 45 :: decNat (n + 1)

def b64Char (n : Nat) : UInt8 :=
  if n < 26 then UInt8.ofNat (65 + n)
  else if n < 52 then UInt8.ofNat (97 + (n - 26))
  else if n < 62 then UInt8.ofNat (48 + (n - 52))
  else if n = 62 then 43 else 47

/-- `base64::engine::general_purpose::STANDARD.encode`. -/
def base64 : Bytes → Bytes
  | a :: b :: c :: rest =>
    let n := a.toNat * 65536 + b.toNat * 256 + c.toNat
    b64Char (n / 262144) :: b64Char (n / 4096 % 64) :: b64Char (n / 64 % 64) :: b64Char (n % 64) :: base64 rest
  | [a, b] =>
    let n := a.toNat * 65536 + b.toNat * 256
    [b64Char (n / 262144), b64Char (n / 4096 % 64), b64Char (n / 64 % 64), 61]
  | [a] =>
    let n := a.toNat * 65536
    [b64Char (n / 262144), b64Char (n / 4096 % 64), 61, 61]
  | [] => []

/-! ## f64 bit patterns -/

def f64Exp (bits : Nat) : Nat := bits / 2 ^ 52 % 2048
def f64Mant (bits : Nat) : Nat := bits % 2 ^ 52
def f64Neg (bits : Nat) : Bool := bits / 2 ^ 63 % 2 == 1

/-- `f64::is_finite` (what `serde_json::Number::from_f64` accepts). -/
def isFinite (bits : Nat) : Bool := f64Exp bits != 2047

/-- Magnitude `n` as an f64 (round to nearest, ties to even): exponent-and-mantissa bits. -/
def natToF64Bits (n : Nat) : Nat :=
  if n = 0 then 0
  else
    let k := n.log2
    if k ≤ 52 then (1023 + k) * 2 ^ 52 + (n * 2 ^ (52 - k) - 2 ^ 52)
    else
      let sh := k - 52
      let q := n / 2 ^ sh
      let r := n % 2 ^ sh
      let half := 2 ^ (sh - 1)
      let q' := if r > half ∨ (r = half ∧ q % 2 = 1) then q + 1 else q
      if q' = 2 ^ 53 then (1023 + k + 1) * 2 ^ 52
      else (1023 + k) * 2 ^ 52 + (q' - 2 ^ 52)

/-- `i as f64` for an `i64`. -/
def i64ToF64Bits (i : Int) : Nat :=
  match i with
  | Int.ofNat n => natToF64Bits n
  | Int.negSucc n => 2 ^ 63 + natToF64Bits (n + 1)

/-- The integer a finite float denotes, when it is integral. -/
def f64IntVal (bits : Nat) : Option Int :=
  let e := f64Exp bits
  let m := f64Mant bits
  let sign : Int := if f64Neg bits then -1 else 1
  if e = 2047 then none
  else if e = 0 then (if m = 0 then some 0 else none)
  else
    let sig := 2 ^ 52 + m
    if 1075 ≤ e then some (sign * Int.ofNat (sig * 2 ^ (e - 1075)))
    else
      let d := 2 ^ (1075 - e)
      if sig % d = 0 then some (sign * Int.ofNat (sig / d)) else none

/-! ## Cell encoders -/

/-- `ScalarValue::to_string_repr`. -/
def toStringRepr (ext : Ext) : Scalar → Bytes
  | .null => []
  | .bool b => if b then sTrue else sFalse
  | .int i => decInt i
  | .float x => ext.fmtF64 x
  | .ts t => decInt t
  | .utf8 s => s
  | .binary b => base64 b

/-- `ScalarValue::to_json` as decoded by a JSON reader (JSON frames and text rendering). -/
def toJson (ext : Ext) : Scalar → Cell
  | .null => .null
  | .bool b => .bool b
  | .int i => .int i
  | .float x => if isFinite x then .float x else .null
  | .ts t => .int t
  | .utf8 s =>
    match ext.parseContainer s with
    | some c => .json c
    | none =>
      match bigU64 s with
      | some u => .int (Int.ofNat u)
      | none => .str s
  | .binary b => .str (base64 b)

/-- Declared logical type → Arrow builder (`logical_to_arrow_type`). -/
def builderOf (logical : Bytes) : Builder :=
  match exactTypes.find? (fun p => p.1 == logical) with
  | some p => p.2
  | none =>
    match prefixTypes.find? (fun p => p.1.isPrefixOf logical) with
    | some p => p.2
    | none => defaultBuilder

def optCell {α} (f : α → Cell) : Option α → Cell
  | some a => f a
  | none => .null

/-- Whole-batch path: `ColumnBatch::to_record_batch` → `build_*_array_from_scalars` of batch.rs. -/
def arrowWhole (ext : Ext) (b : Builder) (v : Scalar) : Cell :=
  match b with
  | .int64 =>
    match v with
    | .int i => .int i
    | .ts t => .int t
    | .utf8 s => optCell .int (parseI64 s)
    | _ => .null
  | .float64 =>
    match v with
    | .float x => .float x
    | .utf8 s => optCell .float (ext.parseF64 s)
    | _ => .null
  | .bool =>
    match v with
    | .bool x => .bool x
    | .utf8 s => optCell .bool (boolWord s)
    | .int i => .bool (i != 0)
    | _ => .null
  | .tsMillis =>
    match v with
    | .ts t => .int t
    | .int i => .int i
    | .utf8 s => optCell .int (parseI64 s)
    | _ => .null
  | .utf8 =>
    match v with
    | .null => .null
    | .utf8 s => .str s
    | other => .str (toStringRepr ext other)

/-- Row-index path: `build_record_batch(.., Some(indices))` of arrow.rs. -/
def arrowIndexed (ext : Ext) (b : Builder) (v : Scalar) : Cell :=
  match b with
  | .int64 =>
    match v with
    | .int i => .int i
    | .ts t => .int t
    | _ => .null
  | .float64 =>
    match v with
    | .float x => .float x
    | .int i => .float (i64ToF64Bits i)
    | _ => .null
  | .bool =>
    match v with
    | .bool x => .bool x
    | _ => .null
  | .tsMillis =>
    match v with
    | .ts t => .int t
    | .int i => .int i
    | _ => .null
  | .utf8 =>
    match v with
    | .utf8 s => .str s
    | .null => .null
    | other => .str (toStringRepr ext other)

/-! ## The streaming writers -/

abbrev Row := List Scalar
abbrev Batch := List Row

structure Column where
  name : Bytes
  logical : Bytes
  deriving DecidableEq, Repr

abbrev Schema := List Column

/-- LIMIT / OFFSET handed to the writer. -/
structure Settings where
  limit : Option Nat
  offset : Option Nat
  deriving Repr

/-- Which writer: QUERY/REPLAY/COMPARE (`QueryResponseWriter`) or SHOW (`ShowResponseWriter`
with its number of leading materialised frames and the watermark flag). -/
inductive Writer
  | query
  | show (materialized : Nat) (watermark : Bool)
  deriving Repr

/-- Deduplication applied to the rows of one batch. -/
inductive Dedup | off | insertOnly | full
  deriving DecidableEq, Repr

def dedupFor (w : Writer) (batchCount : Nat) : Dedup :=
  match w with
  | .query => .full
  | .show m wm => if wm then .off else if batchCount < m then .insertOnly else .full

structure WState where
  seen : List Nat
  skipped : Nat
  emitted : Nat
  stop : Bool
  deriving Repr

def WState.init : WState := ⟨[], 0, 0, false⟩

/-- `ScalarValue::as_u64` (event id used for deduplication). -/
def asU64 : Scalar → Option Nat
  | .int i => if 0 ≤ i then some i.toNat else none
  | .ts t => if 0 ≤ t then some t.toNat else none
  | .utf8 s => parseU64 s
  | _ => none

/-- `try_accept_row` (query writer) / the body of the row loop (show writer): dedup, then
offset, then limit. Returns whether the row is emitted. -/
def rowStep (cfg : Settings) (d : Dedup) (st : WState) (id : Option Nat) : Bool × WState :=
  let dup := match d, id with
    | .full, some i => decide (i ∈ st.seen)
    | _, _ => false
  if dup then (false, st)
  else
    let st1 : WState := match d, id with
      | .off, _ => st
      | _, none => st
      | _, some i => if i ∈ st.seen then st else { st with seen := i :: st.seen }
    let skip := match cfg.offset with
      | some o => decide (st1.skipped < o)
      | none => false
    if skip then (false, { st1 with skipped := st1.skipped + 1 })
    else
      let full := match cfg.limit with
        | some l => decide (l ≤ st1.emitted)
        | none => false
      if full then (false, { st1 with stop := true })
      else (true, { st1 with emitted := st1.emitted + 1 })

/-- Event id of a row: first column named `event_id`, read with `as_u64`. -/
def rowId (idCol : Option Nat) (r : Row) : Option Nat :=
  match idCol with
  | none => none
  | some c => (r[c]?).bind asU64

/-- The row loop over one batch: selected rows (in order) and the new state. Stops at the
row on which the limit is found reached. -/
def scan (cfg : Settings) (d : Dedup) (idCol : Option Nat) : WState → List Row → List Row × WState
  | st, [] => ([], st)
  | st, r :: rs =>
    let res := rowStep cfg d st (rowId idCol r)
    if res.2.stop then ((if res.1 then [r] else []), res.2)
    else
      let rest := scan cfg d idCol res.2 rs
      ((if res.1 then r :: rest.1 else rest.1), rest.2)

/-- The batch loop (`while !limit_reached { recv }`): for every non-empty batch with at least
one selected row, the batch and its selected rows. `bc` = `batch_count` of the show writer. -/
def select (cfg : Settings) (w : Writer) (idCol : Option Nat) :
    WState → Nat → List Batch → List (Batch × List Row) × WState
  | st, _, [] => ([], st)
  | st, bc, b :: bs =>
    if st.stop then ([], st)
    else if b.isEmpty then select cfg w idCol st bc bs
    else
      let r := scan cfg (dedupFor w bc) idCol st b
      let rest := select cfg w idCol r.2 (bc + 1) bs
      if r.1.isEmpty then rest else ((b, r.1) :: rest.1, rest.2)

def eventIdName : Bytes := [101, 118, 101, 110, 116, 95, 105, 100]

/-- `column_names.iter().position(|n| n == "event_id")` -/
def idColOf (schema : Schema) : Option Nat :=
  let i := schema.findIdx (fun c => c.name == eventIdName)
  if i < schema.length then some i else none

/-- JSON frames after the schema frame. -/
inductive JFrame
  | batch (rows : List (List Cell))
  | row (cells : List Cell)
  deriving DecidableEq, Repr

/-- Decoded JSON / text stream: schema frame, data frames, announced row count. -/
structure JStream where
  cols : List (Bytes × Bytes)
  frames : List JFrame
  endCount : Nat
  deriving Repr

/-- Decoded Arrow IPC stream: schema message, record batches (row-major cells). -/
structure AStream where
  cols : List (Bytes × Builder)
  batches : List (List (List Cell))
  deriving Repr

def jsonRow (ext : Ext) (r : Row) : List Cell := r.map (toJson ext)

def jsonFrames (ext : Ext) (batchMode : Bool) (sel : List (Batch × List Row)) : List JFrame :=
  sel.flatMap fun p =>
    if batchMode then [JFrame.batch (p.2.map (jsonRow ext))]
    else p.2.map fun r => JFrame.row (jsonRow ext r)

/-- `write_json` with the JSON or the Unix renderer (`streaming_batch_size > 0` ⇒ batch
frames, `= 0` ⇒ one row frame per row). -/
def writeJson (ext : Ext) (cfg : Settings) (w : Writer) (batchMode : Bool) (schema : Schema)
    (batches : List Batch) : JStream :=
  let r := select cfg w (idColOf schema) WState.init 0 batches
  { cols := schema.map fun c => (c.name, c.logical)
    frames := jsonFrames ext batchMode r.1
    endCount := r.2.emitted }

def arrowRow (enc : Builder → Scalar → Cell) (builders : List Builder) (r : Row) : List Cell :=
  List.zipWith enc builders r

/-- One record batch: the whole-batch encoder iff every row of the input batch is emitted
(then the index list is `0..len`, which is what the code tests), else the index encoder. -/
def arrowBatch (ext : Ext) (builders : List Builder) (p : Batch × List Row) : List (List Cell) :=
  if p.2.length = p.1.length then p.2.map (arrowRow (arrowWhole ext) builders)
  else p.2.map (arrowRow (arrowIndexed ext) builders)

/-- `write_arrow`. -/
def writeArrow (ext : Ext) (cfg : Settings) (w : Writer) (schema : Schema)
    (batches : List Batch) : AStream :=
  let r := select cfg w (idColOf schema) WState.init 0 batches
  let builders := schema.map fun c => builderOf c.logical
  { cols := schema.map fun c => (c.name, builderOf c.logical)
    batches := r.1.map (arrowBatch ext builders) }

def JFrame.rows : JFrame → List (List Cell)
  | .batch rows => rows
  | .row cells => [cells]

def JStream.rows (s : JStream) : List (List Cell) := s.frames.flatMap JFrame.rows
def AStream.rows (s : AStream) : List (List Cell) := s.batches.flatten

/-! ## One function per JSON-family encoding

The JSON renderer and the line-oriented (Unix) renderer have separate code for every frame
kind, and each renderer has a buffered `render()` for tables; each is its own model function
here (all of them convert cells with `to_json` in the code as it stands), so the
correspondence names the encoding that departs and the agreement between them is a theorem
(`C20_json_family_agree`) rather than a definition. -/

/-- `JsonRenderer::stream_batch`: `batch.iter().map(|row| row.iter().map(|v| v.to_json()))`. -/
def jsonBatchFrame (ext : Ext) (rows : List Row) : List (List Cell) := rows.map (jsonRow ext)

/-- `JsonRenderer::stream_row`. -/
def jsonRowFrame (ext : Ext) (r : Row) : List Cell := r.map (toJson ext)

/-- Cell conversion loop of `UnixRenderer::stream_batch` / `stream_row` (unix.rs). -/
def unixRow (ext : Ext) (r : Row) : List Cell := r.map (toJson ext)

/-- `UnixRenderer::stream_batch`. -/
def unixBatchFrame (ext : Ext) (rows : List Row) : List (List Cell) := rows.map (unixRow ext)

/-- `UnixRenderer::stream_row`. -/
def unixRowFrame (ext : Ext) (r : Row) : List Cell := unixRow ext r

def unixFrames (ext : Ext) (batchMode : Bool) (sel : List (Batch × List Row)) : List JFrame :=
  sel.flatMap fun p =>
    if batchMode then [JFrame.batch (unixBatchFrame ext p.2)]
    else p.2.map fun r => JFrame.row (unixRowFrame ext r)

/-- `write_json` driven with the Unix renderer. -/
def writeUnix (ext : Ext) (cfg : Settings) (w : Writer) (batchMode : Bool) (schema : Schema)
    (batches : List Batch) : JStream :=
  let r := select cfg w (idColOf schema) WState.init 0 batches
  { cols := schema.map fun c => (c.name, c.logical)
    frames := unixFrames ext batchMode r.1
    endCount := r.2.emitted }

/-- Rows the writer emits (scalar rows, in order). -/
def emittedRows (cfg : Settings) (w : Writer) (schema : Schema) (batches : List Batch) : List Row :=
  (select cfg w (idColOf schema) WState.init 0 batches).1.flatMap fun p => p.2

/-- Decoded buffered rendering of a table (`render(Response::ok_table(..))`). The text
rendering has no count. -/
structure Rendered where
  status : Nat
  count : Option Nat
  cols : List (Bytes × Bytes)
  rows : List (List Cell)
  deriving Repr

/-- `JsonRenderer::render`, `ResponseBody::Table`. -/
def renderTableJson (ext : Ext) (schema : Schema) (rows : List Row) (count : Nat) : Rendered :=
  ⟨200, some count, schema.map fun c => (c.name, c.logical), rows.map fun r => r.map (toJson ext)⟩

/-- `UnixRenderer::render`, `ResponseBody::Table`: `200 OK\n{"columns":[[n,t]..],"rows":[..]}\n`. -/
def renderTableUnix (ext : Ext) (schema : Schema) (rows : List Row) (_count : Nat) : Rendered :=
  ⟨200, none, schema.map fun c => (c.name, c.logical), rows.map fun r => r.map (toJson ext)⟩

/-- `ArrowRenderer::render` (JSON fallback), `ResponseBody::Table`. -/
def renderTableArrow (ext : Ext) (schema : Schema) (rows : List Row) (count : Nat) : Rendered :=
  ⟨200, some count, schema.map fun c => (c.name, c.logical), rows.map fun r => r.map (toJson ext)⟩

/-! ## Equality of decoded cells as the property states it -/

def isNaN (bits : Nat) : Bool := f64Exp bits == 2047 && f64Mant bits != 0
def isZeroF (bits : Nat) : Bool := bits % 2 ^ 63 == 0

/-- Numbers numerically equal, nulls as nulls, strings bytewise. -/
def cellEq : Cell → Cell → Bool
  | .null, .null => true
  | .bool a, .bool b => a == b
  | .int a, .int b => a == b
  | .float a, .float b => !isNaN a && !isNaN b && (a == b || (isZeroF a && isZeroF b))
  | .int a, .float b => f64IntVal b == some a
  | .float a, .int b => f64IntVal a == some b
  | .str a, .str b => a == b
  | .json a, .json b => a == b
  | _, _ => false

/-! ## Error responses -/

/-- Status code a reader finds in `render(Response::error(code, msg))`:
JSON: the `status` member; Arrow renderer (JSON fallback): the `status` member;
text: the digits before the first space of the first line `"{code} {message}\n"`. -/
inductive Renderer | json | unix | arrow
  deriving DecidableEq, Repr

/-- First line of the text rendering of an error. -/
def unixErrorHeader (code : Nat) (msg : Bytes) : Bytes := decNat code ++ [32] ++ msg ++ [10]

/-- A reader of the text rendering: leading digits up to the first space. -/
def unixReadCode (out : Bytes) : Option Nat := digitsVal (out.takeWhile (· != 32))

def bodyCode (r : Renderer) (code : Nat) (msg : Bytes) : Option Nat :=
  match r with
  | .json => some code
  | .arrow => some code
  | .unix => unixReadCode (unixErrorHeader code msg)

/-- JSON string escaping of the two serialisers used for error bodies (identical on the
characters they must escape): `"` `\\` and control characters. -/
def hexNib (n : Nat) : UInt8 := if n < 10 then UInt8.ofNat (48 + n) else UInt8.ofNat (87 + n)

def jsonEscapeByte (b : UInt8) : Bytes :=
  if b == 34 then [92, 34]
  else if b == 92 then [92, 92]
  else if b == 8 then [92, 98]
  else if b == 9 then [92, 116]
  else if b == 10 then [92, 110]
  else if b == 12 then [92, 102]
  else if b == 13 then [92, 114]
  else if b < 32 then [92, 117, 48, 48, hexNib (b.toNat / 16), hexNib (b.toNat % 16)]
  else [b]

def jsonString (s : Bytes) : Bytes := [34] ++ s.flatMap jsonEscapeByte ++ [34]

/-- `{"count":0,"status":` -/
def jsonErrHead : Bytes := [123, 34, 99, 111, 117, 110, 116, 34, 58, 48, 44, 34, 115, 116, 97, 116, 117, 115, 34, 58]
/-- `,"message":` -/
def jsonErrMid : Bytes := [44, 34, 109, 101, 115, 115, 97, 103, 101, 34, 58]
/-- `,"results":[]}\n` -/
def jsonErrTail : Bytes := [44, 34, 114, 101, 115, 117, 108, 116, 115, 34, 58, 91, 93, 125, 10]
/-- `{"count":0,"message":` -/
def arrowErrHead : Bytes := [123, 34, 99, 111, 117, 110, 116, 34, 58, 48, 44, 34, 109, 101, 115, 115, 97, 103, 101, 34, 58]
/-- `,"results":[],"status":` -/
def arrowErrMid : Bytes := [44, 34, 114, 101, 115, 117, 108, 116, 115, 34, 58, 91, 93, 44, 34, 115, 116, 97, 116, 117, 115, 34, 58]
/-- `}\n` -/
def arrowErrTail : Bytes := [125, 10]

/-- `JsonRenderer::render(Response::error(code, msg))`:
`{"count":0,"status":C,"message":"M","results":[]}\n`. -/
def jsonErrorBytes (code : Nat) (msg : Bytes) : Bytes :=
  jsonErrHead ++ decNat code ++ jsonErrMid ++ jsonString msg ++ jsonErrTail

/-- `ArrowRenderer::render(Response::error(code, msg))` (a `serde_json::Map`, keys sorted):
`{"count":0,"message":"M","results":[],"status":C}\n`. -/
def arrowErrorBytes (code : Nat) (msg : Bytes) : Bytes :=
  arrowErrHead ++ jsonString msg ++ arrowErrMid ++ decNat code ++ arrowErrTail

def errorBytes (r : Renderer) (code : Nat) (msg : Bytes) : Bytes :=
  match r with
  | .json => jsonErrorBytes code msg
  | .arrow => arrowErrorBytes code msg
  | .unix => unixErrorHeader code msg

def sStatus : Bytes := [115, 116, 97, 116, 117, 115]

/-- `windows(6).any(|w| w == b"status")` -/
def hasStatusWord : Bytes → Bool
  | [] => false
  | b :: rest => sStatus.isPrefixOf (b :: rest) || hasStatusWord rest

/-- `extract_http_status_from_response` (HTTP front end): the status line of the HTTP
response for the bytes a command handler wrote.  `parsed` = what the JSON parser yields for
the *complete* document's `status` member; a truncated document (only the first
`httpParseLen` bytes of an output of `httpSmallLimit` bytes or more) does not parse. -/
def httpStatus (out : Bytes) (parsed : Option Nat) : Nat :=
  if out.head? != some 123 then 200
  else if !hasStatusWord (out.take httpProbeLen) then 200
  else if out.length < httpSmallLimit then
    match parsed with
    | some c => if c ∈ httpKnown then c else 200
    | none => 200
  else 200

end Snel.Response
