import Snel.Model.ParserQuery
/-!
# Model of the parser — part 3: the tokenizer (`tokenizer.rs`), the token-based command parsers,
`parse_command` (`command.rs`) and the dispatcher's variant table (`dispatcher.rs`).
-/
namespace Snel.Parser
open P

/-! ## Tokenizer -/
/-- `Token::Word("<INVALID>")` is modelled as its own constructor: a real word consists of
alphanumerics, '_' and '-' and therefore never equals the sentinel. `Number` keeps the raw
text (its `f64` value matters only for DEFINE and BATCH, which report `unmodelled` then). -/
inductive Token where
  | word (w : Str)
  | number (raw : Str)
  | str (s : Str)
  | sym (c : Char)
  | lbrace | rbrace | semi | lbrack | rbrack | lparen | rparen
  | invalid
deriving DecidableEq, Repr

inductive TState where
  | top
  | word (acc : Str)     -- reversed
  | num (acc : Str)      -- reversed
  | str (acc : Str)      -- reversed
  | esc (acc : Str)      -- inside a string, after a backslash
deriving DecidableEq, Repr

def isTokWs (c : Char) : Bool := c == ' ' || c == '\t' || c == '\n' || c == '\r'
def isTokSym (c : Char) : Bool :=
  c == ':' || c == ',' || c == '=' || c == '>' || c == '<' || c == '!' || c == '.'
def wordCh (U : Uni) (c : Char) : Bool := isAlnumU U c || c == '_' || c == '-'
def numCh (U : Uni) (c : Char) : Bool := isNumericU U c || c == '.' || c == '-'

def unesc (e : Char) : Char :=
  if e == 'n' then '\n' else if e == 't' then '\t' else if e == 'r' then '\r' else e

/-- what the main loop of `tokenize` does with the next character `c` -/
def startTok (U : Uni) (c : Char) : Option Token × TState :=
  if isTokWs c then (none, .top)
  else if c == '{' then (some .lbrace, .top)
  else if c == '}' then (some .rbrace, .top)
  else if c == ';' then (some .semi, .top)
  else if c == '"' then (none, .str [])
  else if isDigit c || c == '-' then (none, .num [c])
  else if isTokSym c then (some (.sym c), .top)
  else if c == '[' then (some .lbrack, .top)
  else if c == ']' then (some .rbrack, .top)
  else if c == '(' then (some .lparen, .top)
  else if c == ')' then (some .rparen, .top)
  else if wordCh U c then (none, .word [c])
  else (some .invalid, .top)

def optCons (t : Option Token) (ts : List Token) : List Token :=
  match t with | some t => t :: ts | none => ts

def tokenizeS (U : Uni) : TState → Str → List Token
  | .top, [] => []
  | .word acc, [] => [.word acc.reverse]
  | .num acc, [] => [.number acc.reverse]
  | .str acc, [] => [.str acc.reverse]
  | .esc acc, [] => [.str acc.reverse]
  | .top, c :: cs => optCons (startTok U c).1 (tokenizeS U (startTok U c).2 cs)
  | .word acc, c :: cs =>
    if wordCh U c then tokenizeS U (.word (c :: acc)) cs
    else .word acc.reverse :: optCons (startTok U c).1 (tokenizeS U (startTok U c).2 cs)
  | .num acc, c :: cs =>
    if numCh U c then tokenizeS U (.num (c :: acc)) cs
    else .number acc.reverse :: optCons (startTok U c).1 (tokenizeS U (startTok U c).2 cs)
  | .str acc, c :: cs =>
    if c == '"' then .str acc.reverse :: tokenizeS U .top cs
    else if c == '\\' then tokenizeS U (.esc acc) cs
    else tokenizeS U (.str (c :: acc)) cs
  | .esc acc, c :: cs => tokenizeS U (.str (unesc c :: acc)) cs

def tokenize (U : Uni) (s : Str) : List Token := tokenizeS U .top s

/-- `number.parse::<f64>().unwrap_or(0.0)` on the raw text of a Number token (characters from
numerics, '.', '-'): the bit pattern. Accepted shapes: `-? d* (. d*)?` with at least one digit. -/
def tokNumberBits (raw : Str) : Nat :=
  let ng := raw.head? == some '-'
  let body := if ng then raw.drop 1 else raw
  let ip := body.takeWhile isDigit
  let r1 := body.dropWhile isDigit
  let fp := match r1 with | '.' :: r => r.takeWhile isDigit | _ => []
  let r2 := match r1 with | '.' :: r => r.dropWhile isDigit | _ => r1
  if !r2.isEmpty || (ip.isEmpty && fp.isEmpty) then 0 else
  match f64OfDec ng ip fp with
  | some b => b
  | none => (if ng then 2 ^ 63 else 0) + 2047 * 2 ^ 52

/-! ## Commands -/
inductive Cmd1 where
  | query (q : Query)
  | replay (r : Replay)
  | store (s : Store)
  | remember (name : Str) (q : Query)
  | showMaterialized (name : Str)
  | ping
  | flush
  | createUser (user : Str) (key : Option Str) (roles : Option (List Str))
  | revokeKey (user : Str)
  | listUsers
  | grant (perms : List Str) (events : List Str) (user : Str)
  | revokePerm (perms : List Str) (events : List Str) (user : Str)
  | showPermissions (user : Str)
deriving DecidableEq, Repr

/-- The image of `parse_command`. A `Batch` never contains a `Batch` (the collector drops
`[` tokens, so an inner `BATCH` always fails at its second token). -/
inductive Command where
  | single (c : Cmd1)
  | batch (cs : List Cmd1)
deriving DecidableEq, Repr

/-- Result of `parse_command`. `unmodelled`: the input is outside the modelled fragment (no
claim); `oof`: model fuel exhausted (proved impossible). -/
inductive Res (α : Type) where
  | ok (c : α)
  | error
  | panic
  | oof
  | unmodelled
deriving DecidableEq, Repr

def ofP (r : PRes α) : Res α :=
  match r with
  | .ok a _ => .ok a
  | .fail => .error
  | .panic => .panic
  | .oof => .oof

def Res.map (f : α → β) : Res α → Res β
  | .ok c => .ok (f c)
  | .error => .error
  | .panic => .panic
  | .oof => .oof
  | .unmodelled => .unmodelled

def fuelOf (s : Str) : Nat := s.length + 2

def wordIs (w : Str) (k : String) : Bool := eqCi w k.toList

/-! ### token-based parsers (the first token is known to be the command word) -/
def isAsciiAlnum (c : Char) : Bool := isLetter c || isDigit c
def validAlias (a : Str) : Bool := a.all (fun c => isAsciiAlnum c || c == '_' || c == '-')

def nameTok : Token → Option Str
  | .word w => some w
  | .str s => some s
  | _ => none

def pingT : List Token → Res Cmd1
  | [_] => .ok .ping
  | _ => .error

def flushT : List Token → Res Cmd1
  | [_] => .ok .flush
  | _ => .error

def showT : List Token → Res Cmd1
  | [_, t] =>
    (match nameTok t with
     | some a => if a.isEmpty then .error else if validAlias a then .ok (.showMaterialized a) else .error
     | none => .error)
  | _ => .error

def listUsersT : List Token → Res Cmd1
  | [_, .word w] => if wordIs w "USERS" then .ok .listUsers else .error
  | _ => .error

def revokeKeyT : List Token → Res Cmd1
  | [_, .word k, t] =>
    if wordIs k "KEY" then (match nameTok t with | some u => .ok (.revokeKey u) | none => .error) else .error
  | _ => .error

def showPermissionsT : List Token → Res Cmd1
  | [_, .word p, .word f, t] =>
    if wordIs p "PERMISSIONS" && wordIs f "FOR" then
      (match nameTok t with | some u => .ok (.showPermissions u) | none => .error)
    else .error
  | _ => .error

/-- the ROLES array loop of create_user.rs: names and commas in any arrangement until `]` -/
def rolesLoop : List Token → List Str → Option (List Str × List Token)
  | [], _ => none
  | .str r :: ts, acc => rolesLoop ts (r :: acc)
  | .word r :: ts, acc => rolesLoop ts (r :: acc)
  | .rbrack :: ts, acc => some (acc.reverse, ts)
  | .sym c :: ts, acc => if c == ',' then rolesLoop ts acc else none
  | _ :: _, _ => none

/-- the `while let Some(Word(word)) = iter.peek()` loop of create_user.rs -/
def createWith : Nat → List Token → Option Str → Option (List Str) → Option (Option Str × Option (List Str) × List Token)
  | 0, ts, k, r => some (k, r, ts)
  | n + 1, ts, k, r =>
    match ts with
    | .word w :: rest =>
      if wordIs w "WITH" then
        (match rest with
         | .word kw2 :: rest2 =>
           if wordIs kw2 "KEY" then
             (match rest2 with
              | t :: rest3 => (match nameTok t with | some key => createWith n rest3 (some key) r | none => none)
              | [] => none)
           else if wordIs kw2 "ROLES" then
             (match rest2 with
              | .lbrack :: rest3 =>
                (match rolesLoop rest3 [] with
                 | some (roles, rest4) => createWith n rest4 k (some roles)
                 | none => none)
              | _ => none)
           else none
         | _ => none)
      else some (k, r, ts)
    | _ => some (k, r, ts)

def createUserT : List Token → Res Cmd1
  | _ :: .word u :: t :: rest =>
    if wordIs u "USER" then
      (match nameTok t with
       | some user =>
         (match createWith (rest.length + 1) rest none none with
          | some (k, r, []) => .ok (.createUser user k r)
          | _ => .error)
       | none => .error)
    else .error
  | _ => .error

/-- the permission list loop of grant_permission.rs / revoke_permission.rs.
Returns `none` on the "Invalid permission" error. -/
def permsLoop : Nat → List Token → List Str → Option (List Str × List Token)
  | 0, ts, acc => some (acc.reverse, ts)
  | n + 1, ts, acc =>
    match ts with
    | .word w :: rest =>
      if wordIs w "READ" || wordIs w "WRITE" then
        let p := if wordIs w "READ" then "read".toList else "write".toList
        (match rest with
         | .sym c :: rest2 => if c == ',' then permsLoop n rest2 (p :: acc) else some ((p :: acc).reverse, rest)
         | _ => some ((p :: acc).reverse, rest))
      else none
    | _ => some (acc.reverse, ts)

/-- the event-type list loop. `none`: "Expected event_type" error. -/
def eventsLoop : Nat → List Token → List Str → Option (List Str × List Token)
  | 0, ts, acc => some (acc.reverse, ts)
  | n + 1, ts, acc =>
    match ts with
    | [] => some (acc.reverse, [])
    | t :: rest =>
      (match nameTok t with
       | some e =>
         (match rest with
          | .sym c :: rest2 => if c == ',' then eventsLoop n rest2 (e :: acc) else some ((e :: acc).reverse, rest)
          | _ => some ((e :: acc).reverse, rest))
       | none => none)

def grantLike (needPerm : Bool) (lastKw : String) (mk : List Str → List Str → Str → Cmd1) : List Token → Res Cmd1
  | _ :: ts =>
    (match permsLoop (ts.length + 1) ts [] with
     | none => .error
     | some (perms, ts1) =>
       if needPerm && perms.isEmpty then .error else
       (match ts1 with
        | .word on :: ts2 =>
          if wordIs on "ON" then
            (match eventsLoop (ts2.length + 1) ts2 [] with
             | none => .error
             | some (evs, ts3) =>
               if evs.isEmpty then .error else
               (match ts3 with
                | [.word to, t] =>
                  if wordIs to lastKw then
                    (match nameTok t with | some u => .ok (mk perms evs u) | none => .error)
                  else .error
                | _ => .error))
          else .error
        | _ => .error))
  | [] => .error

def grantT : List Token → Res Cmd1 := grantLike true "TO" Cmd1.grant
def revokePermT : List Token → Res Cmd1 := grantLike false "FROM" Cmd1.revokePerm

/-! ### REMEMBER (`remember.rs`) -/
def startsWith (p s : Str) : Bool := (stripPrefix p s).isSome

/-- UTF-8 length of a character (Rust strings are UTF-8; `rfind` and slicing work on byte offsets) -/
def utf8Len (c : Char) : Nat :=
  if c.toNat < 0x80 then 1 else if c.toNat < 0x800 then 2 else if c.toNat < 0x10000 then 3 else 4

def byteLen (s : Str) : Nat := (s.map utf8Len).foldr (· + ·) 0

/-- `str::rfind(pat)`: BYTE offset of the last occurrence of `pat` in `s` (`i` = byte offset reached) -/
def rfindFrom (pat : Str) : Str → Nat → Option Nat → Option Nat
  | [], i, best => if startsWith pat [] then some i else best
  | c :: cs, i, best => rfindFrom pat cs (i + utf8Len c) (if startsWith pat (c :: cs) then some i else best)

def rfind (pat s : Str) : Option Nat := rfindFrom pat s 0 none

/-- `&s[..n]` / `&s[n..]`: split at BYTE offset `n`; `none` when `n` is out of bounds or not a
character boundary — Rust panics there. -/
def splitAtByte : Str → Nat → Option (Str × Str)
  | [], n => if n = 0 then some ([], []) else none
  | c :: cs, n =>
    if n = 0 then some ([], c :: cs)
    else if utf8Len c ≤ n then
      (match splitAtByte cs (n - utf8Len c) with
       | some (a, b) => some (c :: a, b)
       | none => none)
    else none

/-- `remember.rs::parse`. The offset of the last " AS " is computed in an upper-cased COPY of the text and
then used to slice the ORIGINAL: `remainder[..as_idx]`, `remainder[as_idx + 4..]`. The copy is made with
`to_ascii_uppercase` (pinned by the constants extractor), which keeps every byte position; a slice at a
byte offset that is not a character boundary of the original is the `panic` branch (proved unreachable:
`Snel.Lemmas.ParserRemember`). The leading `REMEMBER` (8 ASCII bytes: the first word has matched it) is
dropped by characters. -/
def rememberP (S : Sites) (U : Uni) (input : Str) : Res Cmd1 :=
  let remainder := trimStartU U ((trimU U input).drop 8)
  if remainder.isEmpty then .error else
  match rfind " AS ".toList (remainder.map upper) with
  | none => .error
  | some idx =>
    match splitAtByte remainder idx, splitAtByte remainder (idx + 4) with
    | some (before, _), some (_, after) =>
      let queryPart := trimU U before
      if queryPart.isEmpty then .error else
      if !startsWith "QUERY".toList (queryPart.map upper) then .error else
      let alias := trimU U after
      if alias.isEmpty then .error else
      if !validAlias alias then .error else
      (ofP (queryP S (fuelOf queryPart) queryPart)).map (Cmd1.remember alias)
    | _, _ => .panic

/-! ### BATCH (`batch.rs`) -/
/-- the collector loop: `some (buffer, closed)`; `none` on an error inside the loop.
(Number tokens never reach it: such inputs are reported `unmodelled` before.) -/
def batchCollect : List Token → Nat → Str → Option (Str × Bool)
  | [], _, buf => some (buf, false)
  | t :: ts, depth, buf =>
    let sp := if buf.isEmpty then buf else buf ++ [' ']
    match t with
    | .lbrace => batchCollect ts (depth + 1) (buf ++ ['{'])
    | .rbrace => if depth = 0 then none else batchCollect ts (depth - 1) (buf ++ ['}'])
    | .rbrack => if depth ≠ 0 then none else some (buf, true)
    | .word w => batchCollect ts depth (sp ++ w)
    | .str s => batchCollect ts depth (sp ++ '"' :: s ++ ['"'])
    | .number raw => batchCollect ts depth (sp ++ raw)
    | .sym c => batchCollect ts depth (buf ++ [c])
    | .semi => batchCollect ts depth (buf ++ [';'])
    | _ => batchCollect ts depth buf

def splitOn (sep : Char) : Str → Str → List Str
  | [], cur => [cur.reverse]
  | c :: cs, cur => if c == sep then cur.reverse :: splitOn sep cs [] else splitOn sep cs (c :: cur)

def parseParts (parse1 : Str → Res Cmd1) : List Str → Res (List Cmd1)
  | [] => .ok []
  | p :: ps =>
    match parse1 p with
    | .ok c => (parseParts parse1 ps).map (c :: ·)
    | .error => .error
    | .panic => .panic
    | .oof => .oof
    | .unmodelled => .unmodelled

def batchT (U : Uni) (parse1 : Str → Res Cmd1) : List Token → Res Command
  | _ :: .lbrack :: ts =>
    (match batchCollect ts 0 [] with
     | none => .error
     | some (_, false) => .error
     | some (buf, true) =>
       let parts := ((splitOn ';' buf []).map (trimU U)).filter (fun p => !p.isEmpty)
       (match parseParts parse1 parts with
        | .ok [] => .error
        | .ok cs => .ok (.batch cs)
        | .error => .error
        | .panic => .panic
        | .oof => .oof
        | .unmodelled => .unmodelled))
  | _ => .error

/-! ## `parse_command` -/
def secondWordIs (toks : List Token) (k : String) : Bool :=
  match toks with
  | _ :: .word w :: _ => wordIs w k
  | _ => false

/-- everything except BATCH; `onBatch` decides what the BATCH word does. -/
def parse1With (S : Sites) (U : Uni) (onBatch : List Token → Res Cmd1) (raw : Str) : Res Cmd1 :=
  let input := trimU U raw
  let toks := tokenize U input
  if toks.any (· == .invalid) then .error else
  match toks with
  | .word w :: _ =>
    if wordIs w "DEFINE" then .unmodelled
    else if wordIs w "STORE" then (ofP (storeP (fuelOf input) input)).map Cmd1.store
    else if wordIs w "REMEMBER" then rememberP S U input
    else if wordIs w "QUERY" then (ofP (queryP S (fuelOf input) input)).map Cmd1.query
    else if wordIs w "FIND" then (ofP (queryP S (fuelOf input) input)).map Cmd1.query
    else if wordIs w "REPLAY" then (ofP (replayP (fuelOf input) input)).map Cmd1.replay
    else if wordIs w "BATCH" then onBatch toks
    else if wordIs w "PING" then pingT toks
    else if wordIs w "FLUSH" then flushT toks
    else if wordIs w "PLOT" then .unmodelled
    else if wordIs w "CREATE" then createUserT toks
    else if wordIs w "REVOKE" then (if secondWordIs toks "KEY" then revokeKeyT toks else revokePermT toks)
    else if wordIs w "LIST" then listUsersT toks
    else if wordIs w "GRANT" then grantT toks
    else if wordIs w "SHOW" then (if secondWordIs toks "PERMISSIONS" then showPermissionsT toks else showT toks)
    else .error
  | _ => .error

/-- `BATCH` inside a batch part: `batch::parse` fails at its second token unless that is `[`,
which the collector never emits (proved: `Snel.Lemmas.Parser`); `oof` marks that branch. -/
def innerBatch : List Token → Res Cmd1
  | _ :: .lbrack :: _ => .oof
  | _ => .error

/-- BATCH inputs with a Number token (the collector prints its `f64`) or a DEFINE / PLOT word
anywhere are outside the modelled fragment. -/
def batchUnmodelledTok : Token → Bool
  | .number _ => true
  | .word w => wordIs w "DEFINE" || wordIs w "PLOT"
  | _ => false

def isBatchWord (U : Uni) (raw : Str) : Bool :=
  match tokenize U (trimU U raw) with
  | .word w :: _ => wordIs w "BATCH"
  | _ => false

def parseCommandWith (S : Sites) (U : Uni) (raw : Str) : Res Command :=
  let toks := tokenize U (trimU U raw)
  if isBatchWord U raw && !(toks.any (· == .invalid)) then
    (if toks.any batchUnmodelledTok then .unmodelled else batchT U (parse1With S U innerBatch) toks)
  else (parse1With S U innerBatch raw).map Command.single

/-- `parse_command` of the present code -/
def parseCommand (U : Uni) (raw : Str) : Res Command := parseCommandWith Sites.current U raw

/-! ## Dispatch -/
def Cmd1.variant : Cmd1 → String
  | .query _ => "Query"
  | .replay _ => "Replay"
  | .store _ => "Store"
  | .remember _ _ => "RememberQuery"
  | .showMaterialized _ => "ShowMaterialized"
  | .ping => "Ping"
  | .flush => "Flush"
  | .createUser _ _ _ => "CreateUser"
  | .revokeKey _ => "RevokeKey"
  | .listUsers => "ListUsers"
  | .grant _ _ _ => "GrantPermission"
  | .revokePerm _ _ _ => "RevokePermission"
  | .showPermissions _ => "ShowPermissions"

def Command.variant : Command → String
  | .single c => c.variant
  | .batch _ => "Batch"

inductive Dispatch where
  | handled
  | unreachable
deriving DecidableEq, Repr

/-- the `match cmd` of `dispatch_command`: variants with an arm (generated list) are answered by
their handler / arm; a variant without one would fall into an `unreachable!()` arm (before
fbe6de4: `Batch`) — or not compile when there is no `_` arm, as now. -/
def dispatchVariant (v : String) : Dispatch :=
  if Gen.C17.dispatchArms.contains v then .handled else .unreachable

def dispatch (c : Command) : Dispatch := dispatchVariant c.variant

/-! ## Ties to the generated tables (a change of the Rust tables breaks the build here) -/
theorem tie_cmpOps : Gen.C17.cmpOps = cmpOpTable.map (fun p => (String.ofList p.1, p.2.name)) := by decide
theorem tie_granularities : Gen.C17.granularities = granTable.map (fun p => (p.1, p.2.name)) := by decide
theorem tie_clauseStart : Gen.C17.clauseStart = clauseStartTable := by decide
theorem tie_clauseOrder : Gen.C17.clauseOrder =
    ["for_clause", "since_clause", "return_clause", "linked_clause", "where_clause", "using_time_clause",
     "using_clause", "agg_clause", "time_clause", "group_clause", "limit_clause", "offset_clause", "order_clause"] := by decide
theorem tie_factorOrder : Gen.C17.factorOrder = ["not", "paren", "comparison", "in_expr", "atom"] := by decide
theorem tie_valueOrder : Gen.C17.valueOrder = ["string_literal", "number", "ident"] := by decide
theorem tie_replayClauseOrder : Gen.C17.replayClauseOrder = ["since_clause", "return_clause", "using_clause"] := by decide
theorem tie_topDispatch : Gen.C17.topDispatch.map (·.1) =
    ["DEFINE", "STORE", "REMEMBER", "QUERY", "FIND", "REPLAY", "BATCH", "PING", "FLUSH", "PLOT", "CREATE",
     "REVOKE", "LIST", "GRANT", "SHOW"] := by decide
theorem tie_tokWhitespace : ∀ c : Nat, c < 128 → (Gen.C17.tokWhitespace.contains c = isTokWs (Char.ofNat c)) := by decide
theorem tie_tokSymbols : ∀ c : Nat, c < 128 → (Gen.C17.tokSymbols.contains c = isTokSym (Char.ofNat c)) := by decide
theorem tie_rememberUpperIsAscii : Gen.C17.rememberUpperIsAscii = true := by decide
theorem tie_variants : Gen.C17.commandVariants =
    ["Define", "Store", "Query", "RememberQuery", "ShowMaterialized", "Replay", "Ping", "Flush", "Batch", "Compare",
     "CreateUser", "RevokeKey", "ListUsers", "GrantPermission", "RevokePermission", "ShowPermissions"] := by decide

end Snel.Parser
