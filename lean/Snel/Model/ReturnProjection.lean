/-!
Model of `compute_return_projection` (`src/engine/core/read/flow/shard_pipeline.rs`) and of
`ProjectOp` applying the resulting index list to a row.

`input` is the list of column names of the batch schema that arrives at the projection
(core fields + whatever `columns_to_load` chose), `ret` the RETURN list of the command
(`none` = no RETURN clause), `payload` the field names of the event type's schema.
-/
namespace Snel.ReturnProjection

def coreFields : List String := ["context_id", "event_type", "timestamp", "event_id"]

/-- `input_schema.columns().iter().position(|c| c.name == name)` -/
def position (input : List String) (name : String) : Option Nat :=
  match input.idxOf name with
  | i => if i < input.length then some i else none

/-- the loop over `return_fields` -/
def addReturn (input payload : List String) : List String → List Nat → List Nat
  | [], acc => acc
  | f :: fs, acc =>
    let acc' :=
      if payload.contains f then
        match position input f with
        | some idx => if acc.contains idx then acc else acc ++ [idx]
        | none => acc
      else acc
    addReturn input payload fs acc'

/-- `output_indices` -/
def projection (input : List String) (ret : Option (List String)) (payload : List String) :
    List Nat :=
  match ret with
  | none => List.range input.length
  | some [] => List.range input.length
  | some fields => addReturn input payload fields (coreFields.filterMap (position input))

/-- output schema: the input columns at the chosen indices -/
def outNames (input : List String) (idx : List Nat) : List String :=
  idx.filterMap (input[·]?)

/-- `ProjectOp`: the row cells at the chosen indices, untouched -/
def projectRow (idx : List Nat) (row : List α) : List α :=
  idx.filterMap (row[·]?)

end Snel.ReturnProjection
