/-!
Model of the typed column block codec.

Writer: `ColumnGroupBuilder::finish` (`src/engine/core/write/column_group_builder.rs`) and
`ColumnBlockHeader::write_to` (`column/format.rs`).
Reader: `ColumnBlockView::parse` (`column/reader/view.rs`), the decoders of
`column/reader/decoders.rs`, the legacy branch of `ColumnReader::build_zero_copy_values`
(`column/column_reader.rs`) and the per-index getters of `ColumnValues`
(`column/column_values.rs`) as they are used by `ColumnBlockSnapshot::values_to_scalar`.

A column arrives at the writer as a list of *strings* (one per row, `""` for null); here a
string is its UTF-8 byte list. `str::parse::<f64>` is an external function (Rust std) and
is a parameter `pf` (string bytes ↦ IEEE-754 bit pattern) everywhere.

Conventions: a Rust decode error (`Err(ColRead)`) and a Rust slice-index panic are both
`none`. `as u32` truncations are `% 2^32` (through `leBytes 4`).
-/
namespace Snel.ColumnBlock

abbrev Bytes := List UInt8

/-- `PhysicalType` with its `repr(u8)` code. -/
inductive Phys
  | varBytes | i64 | u64 | f64 | bool | i32Date
  deriving DecidableEq, Repr

def Phys.code : Phys → Nat
  | .varBytes => 0 | .i64 => 1 | .u64 => 2 | .f64 => 3 | .bool => 4 | .i32Date => 5

/-- `impl From<u8> for PhysicalType` -/
def Phys.ofCode (n : Nat) : Phys :=
  if n = 1 then .i64 else if n = 2 then .u64 else if n = 3 then .f64
  else if n = 4 then .bool else if n = 5 then .i32Date else .varBytes

/-- The type tag `finish` puts in the header: its `match` has no `I32Date` arm, that type
falls into the `VarBytes` default. -/
def Phys.written : Phys → Phys
  | .i32Date => .varBytes
  | p => p

/-! ### little-endian integers -/

/-- `n.to_le_bytes()` for a `k`-byte unsigned integer (`n` is reduced mod `256^k`). -/
def leBytes : Nat → Nat → Bytes
  | 0, _ => []
  | k + 1, n => UInt8.ofNat (n % 256) :: leBytes k (n / 256)

/-- `uN::from_le_bytes` -/
def unLe : Bytes → Nat
  | [] => 0
  | b :: bs => b.toNat + 256 * unLe bs

/-- two's complement word of an `i64` -/
def toWord (i : Int) : Nat := (i % 18446744073709551616).toNat

/-- `i64::from_le_bytes` on the assembled word -/
def ofWord (w : Nat) : Int :=
  if w < 9223372036854775808 then (w : Int) else (w : Int) - 18446744073709551616

/-! ### `str::parse` for integers and the boolean test of the writer -/

def digitVal (b : UInt8) : Option Nat :=
  if 48 ≤ b.toNat ∧ b.toNat ≤ 57 then some (b.toNat - 48) else none

/-- all-digits, non-empty → value -/
def parseDigits : Bytes → Nat → Option Nat
  | [], acc => some acc
  | b :: bs, acc =>
    match digitVal b with
    | some d => parseDigits bs (acc * 10 + d)
    | none => none

/-- an optional leading `+` -/
def stripPlus (s : Bytes) : Bytes :=
  match s with
  | 43 :: rest => rest
  | _ => s

/-- the digits part: non-empty, all digits -/
def parseBody (body : Bytes) : Option Nat :=
  if body.isEmpty then none else parseDigits body 0

/-- `s.parse::<u64>()`: optional `+`, at least one digit, no overflow. -/
def parseU64 (s : Bytes) : Option Nat :=
  match parseBody (stripPlus s) with
  | some v => if v < 18446744073709551616 then some v else none
  | none => none

/-- `s.parse::<i64>()`: optional `+`/`-`, at least one digit, range check. -/
def parseI64 (s : Bytes) : Option Int :=
  match s with
  | 45 :: rest =>
    (match parseBody rest with
     | some v => if v ≤ 9223372036854775808 then some (-(v : Int)) else none
     | none => none)
  | _ =>
    match parseBody (stripPlus s) with
    | some v => if v < 9223372036854775808 then some (v : Int) else none
    | none => none

def lowerAscii (b : UInt8) : UInt8 :=
  if 65 ≤ b.toNat ∧ b.toNat ≤ 90 then UInt8.ofNat (b.toNat + 32) else b

/-- `v.eq_ignore_ascii_case("true")` / `("false")`, anything else is a null. -/
def parseBool (s : Bytes) : Option Bool :=
  let l := s.map lowerAscii
  if l = [116, 114, 117, 101] then some true
  else if l = [102, 97, 108, 115, 101] then some false
  else none

/-! ### writer -/

/-- `ColumnBlockHeader::write_to`: phys, flags, reserved u16 = 0, row_count u32, aux_len u32.
`flags` has only `FLAG_HAS_NULLS = 1`. -/
def header (phys : Phys) (hasNulls : Bool) (rows aux : Nat) : Bytes :=
  [UInt8.ofNat phys.code, if hasNulls then 1 else 0, 0, 0] ++ leBytes 4 rows ++ leBytes 4 aux

/-- one byte of a bitset: bit `k` is the `k`-th flag (`|= 1 << (i % 8)`). -/
def packByte : List Bool → Nat
  | [] => 0
  | b :: bs => b.toNat + 2 * packByte bs

/-- `vec![0u8; nbytes]` with bit `i % 8` of byte `i / 8` set for every flagged row `i`. -/
def packBits : Nat → List Bool → Bytes
  | 0, _ => []
  | n + 1, bs => UInt8.ofNat (packByte (bs.take 8)) :: packBits n (bs.drop 8)

/-- The null bitset as it goes into aux: present only if some row is null. -/
def auxNulls (isNull : List Bool) : Bytes :=
  if isNull.any id then packBits ((isNull.length + 7) / 8) isNull else []

/-- `(8 - ((ColumnBlockHeader::LEN + aux_len) % 8)) % 8` -/
def padFor (aux0 : Nat) : Nat := (8 - (12 + aux0) % 8) % 8

/-- The I64 / U64 / F64 arms of `finish`: `none` rows get a null bit and a zero word. The
payload start is padded to a multiple of 8 counted from the block start; the pad bytes are
part of `aux_len`. -/
def encodeFixed (phys : Phys) (words : List (Option Nat)) : Bytes :=
  let nulls := auxNulls (words.map Option.isNone)
  let pad := padFor nulls.length
  header phys (words.any Option.isNone) words.length (nulls.length + pad)
    ++ nulls
    ++ List.replicate pad 0
    ++ words.flatMap (fun w => leBytes 8 (w.getD 0))

/-- The Bool arm: optional null bitset in aux, value bitset as payload, no padding. -/
def encodeBool (vals : List (Option Bool)) : Bytes :=
  let nulls := auxNulls (vals.map Option.isNone)
  header .bool (vals.any Option.isNone) vals.length nulls.length
    ++ nulls
    ++ packBits ((vals.length + 7) / 8) (vals.map (· == some true))

/-- The default arm: `row_count` u32 lengths in aux, then the concatenated bytes. -/
def encodeVar (ss : List Bytes) : Bytes :=
  header .varBytes false ss.length (ss.length * 4)
    ++ ss.flatMap (fun s => leBytes 4 s.length)
    ++ ss.flatten

/-- `ColumnGroupBuilder::finish` for one `(column, zone)` group. -/
def encodeBlock (pf : Bytes → Option Nat) (phys : Phys) (strs : List Bytes) : Bytes :=
  match phys with
  | .i64 => encodeFixed .i64 (strs.map fun s => (parseI64 s).map toWord)
  | .u64 => encodeFixed .u64 (strs.map parseU64)
  | .f64 => encodeFixed .f64 (strs.map pf)
  | .bool => encodeBool (strs.map parseBool)
  | .varBytes | .i32Date => encodeVar strs

/-! ### reader -/

/-- What the getters of `ColumnValues` deliver for one row (`values_to_scalar` picks the
getter by physical type): `null` is `None`. A var-bytes row is its byte range; UTF-8
validation happens in `get_str_at` (see `Snel.Value.cellToScalar`). -/
inductive Cell
  | null
  | i64 (v : Int)
  | u64 (v : Nat)
  | f64 (bits : Nat)
  | bool (b : Bool)
  | bytes (b : Bytes)
  deriving DecidableEq, Repr

def allSome : List (Option α) → Option (List α)
  | [] => some []
  | none :: _ => none
  | some x :: xs => (allSome xs).map (x :: ·)

/-- `nb[index / 8] & (1 << (index % 8)) != 0` (`none`: index out of bounds = panic). -/
def bitAt (bs : Bytes) (i : Nat) : Option Bool :=
  (bs[i / 8]?).map fun b => (b.toNat / 2 ^ (i % 8)) % 2 == 1

/-- `u64::from_le_bytes(bytes[off .. off + 8])` -/
def wordAt (bs : Bytes) (off : Nat) : Option Nat :=
  let s := (bs.drop off).take 8
  if s.length = 8 then some (unLe s) else none

/-- `get_i64_at` / `get_u64_at` / `get_f64_at` for `idx in 0..rows`. `rest` is the block
after the 12 header bytes; the null bitset starts at its offset 0 (`aux_start`). -/
def fixedCells (mk : Nat → Cell) (rest : Bytes) (payloadOff rows : Nat) (hasNulls : Bool) :
    Option (List Cell) :=
  allSome ((List.range rows).map fun i =>
    match (if hasNulls then bitAt rest i else some false) with
    | none => none
    | some true => some .null
    | some false => (wordAt rest (payloadOff + 8 * i)).map mk)

/-- `get_bool_at` for `idx in 0..rows`. -/
def boolCells (rest : Bytes) (payloadOff rows : Nat) (hasNulls : Bool) : Option (List Cell) :=
  allSome ((List.range rows).map fun i =>
    match (if hasNulls then bitAt rest i else some false) with
    | none => none
    | some true => some .null
    | some false => (bitAt (rest.drop payloadOff) i).map .bool)

/-- The loop of `VarBytesDecoder::build_values`: `(start, len)` ranges relative to the
payload, `n` rows still to read, `i` rows read. -/
def varRanges (rest : Bytes) (payloadLen : Nat) : Nat → Nat → Nat → Option (List (Nat × Nat))
  | 0, _, _ => some []
  | n + 1, i, cursor =>
    let len := unLe ((rest.drop (4 * i)).take 4)
    if cursor + len > payloadLen then none
    else (varRanges rest payloadLen n (i + 1) (cursor + len)).map ((cursor, len) :: ·)

/-- Legacy header-less block: `[u16 len][bytes]` per row (`build_zero_copy_values`). -/
def legacyCells (bs : Bytes) : Nat → Nat → Option (List Cell)
  | 0, _ => some []
  | n + 1, cursor =>
    if cursor + 2 > bs.length then none
    else
      let len := unLe ((bs.drop cursor).take 2)
      let start := cursor + 2
      if start + len > bs.length then none
      else (legacyCells bs n (start + len)).map (.bytes ((bs.drop start).take len) :: ·)

def alignUp (off align : Nat) : Nat :=
  if off % align = 0 then off else off + (align - off % align)

/-- The per-type decoders on a parsed header; `rest` is the block after its 12 header bytes. -/
def decodeBody (entryRows : Nat) (phys : Phys) (hasNulls : Bool) (rowCount auxLen : Nat)
    (rest : Bytes) : Option (Phys × List Cell) :=
  if auxLen > rest.length then none
  else
    let rows := if rowCount = 0 then entryRows else rowCount
    match phys with
    | .i64 | .u64 | .f64 =>
      let payloadOff := alignUp (12 + auxLen) 8 - 12
      if payloadOff + rows * 8 > rest.length then none
      else
        let mk : Nat → Cell := match phys with
          | .i64 => fun w => .i64 (ofWord w)
          | .u64 => .u64
          | _ => .f64
        (fixedCells mk rest payloadOff rows hasNulls).map (phys, ·)
    | .bool =>
      if auxLen + (rows + 7) / 8 > rest.length then none
      else (boolCells rest auxLen rows hasNulls).map (phys, ·)
    | .varBytes | .i32Date =>
      if rowCount * 4 ≠ auxLen then none
      else
        match varRanges rest (rest.length - auxLen) rowCount 0 0 with
        | none => none
        | some ranges =>
          some (phys, ranges.map fun (start, len) => .bytes ((rest.drop (auxLen + start)).take len))

/-- `ColumnReader::build_zero_copy_values` followed by reading every row.
`entryRows` is `ZoneBlockEntry::num_rows` from the `.zfc` index. Result: the physical type
recorded in the snapshot and the rows. -/
def decodeBlock (entryRows : Nat) (bs : Bytes) : Option (Phys × List Cell) :=
  match bs with
  | c :: f :: _ :: _ :: r0 :: r1 :: r2 :: r3 :: a0 :: a1 :: a2 :: a3 :: rest =>
    decodeBody entryRows (Phys.ofCode c.toNat) (f.toNat % 2 == 1)
      (unLe [r0, r1, r2, r3]) (unLe [a0, a1, a2, a3]) rest
  | _ => (legacyCells bs entryRows 0).map (Phys.varBytes, ·)

/-! ### the column a block denotes -/

/-- What one input string becomes in a column of type `phys`: unparsable ⇒ null. -/
def canonCell (pf : Bytes → Option Nat) (phys : Phys) (s : Bytes) : Cell :=
  match phys with
  | .i64 => match parseI64 s with | some v => .i64 v | none => .null
  | .u64 => match parseU64 s with | some v => .u64 v | none => .null
  | .f64 => match pf s with | some b => .f64 b | none => .null
  | .bool => match parseBool s with | some b => .bool b | none => .null
  | .varBytes | .i32Date => .bytes s

def canon (pf : Bytes → Option Nat) (phys : Phys) (strs : List Bytes) : List Cell :=
  strs.map (canonCell pf phys)

end Snel.ColumnBlock
