import Snel.Model.ShardProto
import Snel.Model.Compact
/-! Line protocol for the compaction planner alone (C05 `plan` stream):
`plan k=<k> idx=<label>:<ty>,<ty>;<label>:<ty>…` — the answer lists the plans in
(level, type, chunk) order, the sorted output ids, the batches in first-occurrence order, and
whether the output ids are pairwise distinct and name no index label. -/
namespace Snel.PlanProto
open Snel.Shard Snel.Proto Snel.ShardProto

def parseEntry (t : String) : Option (Nat × List Nat) :=
  match t.splitOn ":" with
  | [l, tys] => do
    let l ← l.toNat?
    let tys ← (tys.splitOn ",").mapM (·.toNat?)
    some (l, tys)
  | _ => none

def parseIdx (t : String) : Option (List (Nat × List Nat)) :=
  match t.splitOn "=" with
  | ["idx", "-"] => some []
  | ["idx", v] => (v.splitOn ";").mapM parseEntry
  | _ => none

def pairwiseDistinct : List Nat → Bool
  | [] => true
  | x :: xs => !xs.contains x && pairwiseDistinct xs

/-- The decidable content of `GoodBatches` for a plan list: outputs pairwise distinct and none
of them an index label. -/
def goodOuts (index : List (Nat × List Nat)) (outs : List Nat) : Bool :=
  pairwiseDistinct outs && outs.all fun o => !(index.map (·.1)).contains o

def showPlans (k : Nat) (index : List (Nat × List Nat)) : String :=
  let plans := planAll k index
  let ps := plans.map fun p => s!"{p.level}/{p.ty}/{joinNat p.inputs}"
  let bs := (groupPlans plans).map fun b => s!"{joinNat b.inputs}/{joinNat (sortNat b.tys)}"
  let outs := plans.map (·.out)
  let sh (xs : List String) := if xs.isEmpty then "-" else ";".intercalate xs
  s!"plans={sh ps} outs={joinNat (sortNat outs)} batches={sh bs} good={if goodOuts index outs then 1 else 0}"

def answer (line : String) : Option String :=
  match words line with
  | ["plan", k, idx] => do
    let k ← parseKV "k" k
    let idx ← parseIdx idx
    some (showPlans k idx)
  | _ => none

end Snel.PlanProto
