import Snel.Model.ParserCmd
/-!
# A printer for the modelled command fragment (the repo has none) and the well-formedness
predicates of the round-trip theorem.

`Kw` is the spelling of the keywords: any function that spells every keyword with the right
letters in any case. The round trip holds for every such spelling (keywords are
case-insensitive).
-/
namespace Snel.Parser

/-! ## numbers -/
def digitChar (d : Nat) : Char := Char.ofNat (48 + d)

def natDigitsF : Nat → Nat → Str
  | 0, _ => []
  | f + 1, n => if n < 10 then [digitChar n] else natDigitsF f (n / 10) ++ [digitChar (n % 10)]

/-- decimal digits of `n` -/
def natDigits (n : Nat) : Str := natDigitsF (n + 1) n

def printInt (i : Int) : Str :=
  if i < 0 then '-' :: natDigits i.natAbs else natDigits i.natAbs

/-- `k` digits of `n`, zero-padded on the left -/
def padDigits : Nat → Nat → Str
  | 0, _ => []
  | k + 1, n => padDigits k (n / 10) ++ [digitChar (n % 10)]

/-- sign, integer digits and fraction digits of the exact decimal expansion of a finite f64 -/
def f64Parts (bits : Nat) : Bool × Str × Str :=
  let ng := bits / 2 ^ 63 % 2 == 1
  let ex : Nat := bits / 2 ^ 52 % 2048
  let man : Nat := bits % 2 ^ 52
  let m : Nat := if ex = 0 then man else man + 2 ^ 52
  let e : Int := if ex = 0 then -1074 else (ex : Int) - 1075
  if e ≥ 0 then (ng, natDigits (m * 2 ^ e.toNat), ['0'])
  else
    let k := (-e).toNat
    let n := m * 5 ^ k
    (ng, natDigits (n / 10 ^ k), padDigits k (n % 10 ^ k))

def printF64 (bits : Nat) : Str :=
  let p := f64Parts bits
  (if p.1 then ['-'] else []) ++ p.2.1 ++ '.' :: p.2.2

/-! ## values and expressions -/
def quote (s : Str) : Str := '"' :: s ++ ['"']

def printValue : Value → Str
  | .str s => quote s
  | .int i => printInt i
  | .float b => printF64 b
  | .bool _ => []          -- not expressible (excluded by `WFValue`)

def printCmpOp : CmpOp → Str
  | .eq => ['='] | .neq => ['!', '='] | .gt => ['>'] | .gte => ['>', '='] | .lt => ['<'] | .lte => ['<', '=']

/-- spelling of the keywords -/
structure Kw where
  and_ : Str
  or_ : Str
  not_ : Str
  in_ : Str
  query : Str
  where_ : Str
  limit : Str
  offset : Str

def Kw.upper : Kw :=
  ⟨"AND".toList, "OR".toList, "NOT".toList, "IN".toList, "QUERY".toList, "WHERE".toList, "LIMIT".toList, "OFFSET".toList⟩
def Kw.lower : Kw :=
  ⟨"and".toList, "or".toList, "not".toList, "in".toList, "query".toList, "where".toList, "limit".toList, "offset".toList⟩

/-- a spelling of keyword `k`: letters only, equal to `k` up to ASCII case -/
def Spells (s : Str) (k : String) : Prop := s ≠ [] ∧ s.all isLetter = true ∧ eqCi s k.toList = true

instance (s : Str) (k : String) : Decidable (Spells s k) := by unfold Spells; infer_instance

def Kw.Valid (K : Kw) : Prop :=
  Spells K.and_ "AND" ∧ Spells K.or_ "OR" ∧ Spells K.not_ "NOT" ∧ Spells K.in_ "IN" ∧
  Spells K.query "QUERY" ∧ Spells K.where_ "WHERE" ∧ Spells K.limit "LIMIT" ∧ Spells K.offset "OFFSET"

instance (K : Kw) : Decidable K.Valid := by unfold Kw.Valid; infer_instance
instance (S : Sites) : Decidable S.NoPanic := by unfold Sites.NoPanic; infer_instance

def commaJoin : List Str → Str
  | [] => []
  | [x] => x
  | x :: rest => x ++ ',' :: ' ' :: commaJoin rest

def paren (b : Bool) (s : Str) : Str := if b then '(' :: s ++ [')'] else s

/-- `pr K l e`: `e` printed for a context of level `l` (0: operand of nothing / OR's right side,
1: operand of AND's right side / OR's left side, 2: a factor) with the fewest parentheses. -/
def pr (K : Kw) : Nat → Expr → Str
  | _, .cmp f op v =>
    (match op, v with
     | .eq, .bool true => f
     | _, _ => f ++ ' ' :: printCmpOp op ++ ' ' :: printValue v)
  | _, .inList f vs => f ++ ' ' :: K.in_ ++ ' ' :: '(' :: commaJoin (vs.map printValue) ++ [')']
  | _, .not x => K.not_ ++ ' ' :: pr K 2 x
  | l, .and a b => paren (decide (1 < l)) (pr K 2 a ++ ' ' :: K.and_ ++ ' ' :: pr K 1 b)
  | l, .or a b => paren (decide (0 < l)) (pr K 1 a ++ ' ' :: K.or_ ++ ' ' :: pr K 0 b)

def printExpr (K : Kw) (e : Expr) : Str := pr K 0 e

/-- A QUERY command of the fragment event type + WHERE + LIMIT + OFFSET, printed. -/
def printQuery (K : Kw) (q : Query) : Str :=
  K.query ++ ' ' :: (q.eventType
    ++ (match q.whereClause with | some e => ' ' :: (K.where_ ++ ' ' :: pr K 0 e) | none => [])
    ++ (match q.limit with | some v => ' ' :: (K.limit ++ ' ' :: natDigits v) | none => [])
    ++ (match q.offset with | some v => ' ' :: (K.offset ++ ' ' :: natDigits v) | none => []))

/-! ## well-formedness -/
def letterRun (s : Str) : Str := s.takeWhile isLetter

def WFIdent (s : Str) : Prop :=
  ∃ c cs, s = c :: cs ∧ isIdentStart c = true ∧ cs.all isIdentChar = true

/-- `ident` or `ident.ident` -/
def WFFieldShape (f : Str) : Prop :=
  WFIdent f ∨ ∃ i j, f = i ++ '.' :: j ∧ WFIdent i ∧ WFIdent j

/-- A field of a WHERE factor: the shape of `field()`, and its leading letters are not the keyword
NOT (the grammar's `ci("NOT")` matches a keyword in front of `_`, `-`, a digit or `.` —
finding keyword-ident-collision). -/
def WFField (f : Str) : Prop := WFFieldShape f ∧ eqCi (letterRun f) "NOT".toList = false

def WFValue : Value → Prop
  | .str s => s.all notQuote = true
  | .int i => -(Gen.C17.i64Max + 1 : Int) ≤ i ∧ i ≤ Gen.C17.i64Max
  | .float b => b < 2 ^ 64 ∧ f64OfDec (f64Parts b).1 (f64Parts b).2.1 (f64Parts b).2.2 = some b ∧
      (f64Parts b).2.1 ≠ [] ∧ (f64Parts b).2.1.all isDigit = true ∧
      (f64Parts b).2.2 ≠ [] ∧ (f64Parts b).2.2.all isDigit = true
  | .bool _ => False

def WFExpr : Expr → Prop
  | .cmp f op v => WFField f ∧ ((op = .eq ∧ v = .bool true) ∨ WFValue v)
  | .inList f vs => WFField f ∧ ∀ v ∈ vs, WFValue v
  | .and a b => WFExpr a ∧ WFExpr b
  | .or a b => WFExpr a ∧ WFExpr b
  | .not a => WFExpr a

/-- the fragment of `Command::Query` covered by `printQuery` -/
def WFQuery (q : Query) : Prop :=
  WFIdent q.eventType ∧ (∀ e, q.whereClause = some e → WFExpr e) ∧
  (∀ v, q.limit = some v → v ≤ Gen.C17.u32Max) ∧ (∀ v, q.offset = some v → v ≤ Gen.C17.u32Max) ∧
  q.contextId = none ∧ q.since = none ∧ q.timeField = none ∧ q.seqTimeField = none ∧ q.orderBy = none ∧
  q.returnFields = none ∧ q.linkField = none ∧ q.aggs = none ∧ q.timeBucket = none ∧ q.groupBy = none ∧
  q.eventSequence = none

/-- fuel the expression needs (nodes + list lengths) -/
def need : Expr → Nat
  | .cmp _ _ _ => 1
  | .inList _ vs => vs.length + 2
  | .and a b => need a + need b + 1
  | .or a b => need a + need b + 1
  | .not a => need a + 1

end Snel.Parser
