import Snel.Gen.C15
/-!
Model of the sequence-query core:

* `src/engine/core/read/sequence/group.rs`   — `ColumnarGrouper` (link-key extraction, grouping,
  stable sort of every per-type row list by the time field),
* `src/engine/core/read/sequence/matcher.rs` — `SequenceMatcher::match_sequences`
  (groups ordered by earliest time, LIMIT handling) and the two sweeps
  `match_followed_by` / `match_preceded_by`, `matches_where_clause`,
* `src/engine/core/read/sequence/utils.rs`   — `transform_where_clause_for_event_type`,
* `where_evaluator.rs` + `filter/condition.rs` + `condition_evaluator_builder.rs` — evaluation
  of the per-type WHERE on one row of a columnar zone,
* `src/command/handlers/query/dispatch/sequence_streaming.rs::create_sub_query` — the per-type
  sub-query keeps only the rows that pass that type's projected WHERE (`prefilter`).

Strings are byte lists (`List Nat`) so that every definition reduces in the kernel.
Column kinds modelled: typed i64 with null bitmap (`Cell.int`) and var-bytes strings
(`Cell.str`) — the two kinds `SequenceStreamMerger::batches_to_zones` produces. Typed
u64/f64/bool columns are not modelled (`get_u64_at`/`get_f64_at` answer `none`).
The special link-field names, the fallback time value and (via `Snel.Lemmas.Sequence.relations_tied`)
the two time relations come from `Snel.Gen.C15`, regenerated from the Rust text on every check.
Loops are written with fuel (`|A| + |B|` iterations suffice); each arm is one arm of the Rust
`while`. The iteration order of the `HashMap` of groups is an input (`order`).
-/
namespace Snel.Sequence

abbrev Str := List Nat

/-- One cell of a column at a row index. `absent` columns are simply not in `Row.cells`. -/
inductive Cell where
  | int (v : Option Int)   -- typed i64 column; `none` = null bit set
  | str (s : Str)          -- var-bytes column
  deriving DecidableEq, Repr

/-- A row of a `CandidateZone` (`RowIndex {zone_idx,row_idx}` + the values at that index). -/
structure Row where
  zone : Nat
  idx : Nat
  cells : List (Str × Cell)
  deriving DecidableEq, Repr

def cellOf (r : Row) (f : Str) : Option Cell :=
  match r.cells.find? (fun c => c.1 = f) with
  | some c => some c.2
  | none => none

/-! ### `fast_parse_i64` / `str::parse::<i64>` -/

def digitsVal : Str → Option Nat
  | [] => none
  | ds => if ds.all (fun c => 48 ≤ c ∧ c ≤ 57) then some (ds.foldl (fun acc c => acc * 10 + (c - 48)) 0) else none

def parseI64 (s : Str) : Option Int :=
  match s with
  | 45 :: ds => match digitsVal ds with
      | some n => if n ≤ 2 ^ 63 then some (-(n : Int)) else none
      | none => none
  | 43 :: ds => match digitsVal ds with
      | some n => if n < 2 ^ 63 then some (n : Int) else none
      | none => none
  | ds => match digitsVal ds with
      | some n => if n < 2 ^ 63 then some (n : Int) else none
      | none => none

/-- `ColumnValues::get_i64_at` -/
def getI64 (r : Row) (f : Str) : Option Int :=
  match cellOf r f with
  | some (.int v) => v
  | some (.str s) => parseI64 s
  | none => none

/-- `ColumnValues::get_str_at` (a typed i64 column has no string view) -/
def getStr (r : Row) (f : Str) : Option Str :=
  match cellOf r f with
  | some (.str s) => some s
  | _ => none

/-! ### link key (`extract_link_value` + `scalar_to_key`) -/

inductive Key where
  | i64 (v : Int)
  | ts (v : Int)
  | str (s : Str)
  deriving DecidableEq, Repr

/-- "context_id" (generated from `extract_link_value`) -/
def ctxName : Str := Snel.Gen.C15.ctxName
/-- "timestamp" (generated from `extract_link_value`) -/
def tsName : Str := Snel.Gen.C15.tsName

def linkOf (lf : Str) (r : Row) : Option Key :=
  if lf = ctxName then (getStr r lf).map Key.str
  else if lf = tsName then (getI64 r lf).map Key.ts
  else match getI64 r lf with
    | some v => some (Key.i64 v)
    | none => (getStr r lf).map Key.str   -- u64 / f64 views: not modelled column kinds

/-! ### time (`get_timestamp`: `get_i64_at(time_field)` as an i64, 0 when absent) -/

def tsOf (tf : Str) (r : Row) : Int :=
  match getI64 r tf with
  | some t => t
  | none => Snel.Gen.C15.missingTs   -- `unwrap_or(0)`

/-! ### WHERE -/

inductive Lit where
  | int (v : Int)
  | str (s : Str)
  deriving DecidableEq, Repr

inductive Op where
  | eq | neq | gt | gte | lt | lte
  deriving DecidableEq, Repr

/-- `command::types::Expr` restricted to integer / string literals (floats, bools, nulls and
time-like strings are outside the model). `inI`/`inS` are homogeneous IN lists. -/
inductive Expr where
  | cmp (field : Str) (op : Op) (v : Lit)
  | inI (field : Str) (vs : List Int)
  | inS (field : Str) (vs : List Str)
  | and (l r : Expr)
  | or (l r : Expr)
  | not (e : Expr)
  deriving Repr

/-- `parse_event_field`: split at the first '.' -/
def splitField (f : Str) : Option (Str × Str) :=
  if f.contains 46 then some (f.takeWhile (· ≠ 46), (f.dropWhile (· ≠ 46)).drop 1) else none

/-- rewritten leaf field for `target`: `none` = leaf addressed to another event type -/
def leafFor (target : Str) (f : Str) : Option Str :=
  match splitField f with
  | some (ev, name) => if ev = target then some name else none
  | none => some f

/-- `transform_where_clause_for_event_type` -/
def transform (target : Str) : Expr → Option Expr
  | .cmp f op v => (leafFor target f).map fun f' => .cmp f' op v
  | .inI f vs => (leafFor target f).map fun f' => .inI f' vs
  | .inS f vs => (leafFor target f).map fun f' => .inS f' vs
  | .and l r =>
    match transform target l, transform target r with
    | some l', some r' => some (.and l' r')
    | some l', none => some l'
    | none, some r' => some r'
    | none, none => none
  | .or l r =>
    match transform target l, transform target r with
    | some l', some r' => some (.or l' r')
    | some l', none => some l'
    | none, some r' => some r'
    | none, none => none
  | .not e => (transform target e).map .not

def cmpInt (op : Op) (x y : Int) : Bool :=
  match op with
  | .eq => x == y | .neq => x != y | .gt => decide (x > y) | .gte => decide (x ≥ y)
  | .lt => decide (x < y) | .lte => decide (x ≤ y)

/-- `Condition::evaluate_at` of the condition tree `ConditionEvaluatorBuilder::add_where_clause`
builds (every sub-expression yields exactly one condition for the modelled literal kinds). -/
def evalExpr (r : Row) : Expr → Bool
  | .cmp f op (.int v) =>          -- NumericCondition (u64 view absent → i64 view → f64 view absent)
    match getI64 r f with
    | some n => cmpInt op n v
    | none => false
  | .cmp f op (.str s) =>          -- StringCondition
    match getStr r f with
    | some x => (match op with | .eq => x == s | .neq => x != s | _ => false)
    | none => false
  | .inI f vs => (match getI64 r f with | some n => vs.contains n | none => false)
  | .inS f vs => (match getStr r f with | some x => vs.contains x | none => false)
  | .and l r' => evalExpr r l && evalExpr r r'
  | .or l r' => evalExpr r l || evalExpr r r'
  | .not e => !evalExpr r e

/-- `SequenceWhereEvaluator::evaluate_row(event_type, …)`: no evaluator ⇒ passes. -/
def evalSide (wh : Option Expr) (ty : Str) (r : Row) : Bool :=
  match wh with
  | none => true
  | some e => match transform ty e with
    | none => true
    | some e' => evalExpr r e'

/-! ### configuration of one sequence query -/

structure Cfg where
  preceded : Bool        -- `SequenceLink::PrecededBy`
  timeField : Str
  linkField : Str
  tyA : Str              -- `sequence.head.event`
  tyB : Str              -- `sequence.links[0].1.event`
  wh : Option Expr

def Cfg.ts (c : Cfg) (r : Row) : Int := tsOf c.timeField r
def Cfg.okA (c : Cfg) (r : Row) : Bool := evalSide c.wh c.tyA r
def Cfg.okB (c : Cfg) (r : Row) : Bool := evalSide c.wh c.tyB r
/-- `matches_where_clause` -/
def Cfg.pairOk (c : Cfg) (a b : Row) : Bool := c.okA a && c.okB b

/-! ### stable sort (`sort_by_key`) -/

def insertBy {α} (key : α → Int) (x : α) : List α → List α
  | [] => [x]
  | y :: ys => if key x ≤ key y then x :: y :: ys else y :: insertBy key x ys

/-- stable: an element stays in front of later elements with the same key -/
def sortBy {α} (key : α → Int) : List α → List α
  | [] => []
  | x :: xs => insertBy key x (sortBy key xs)

/-! ### grouping -/

/-- rows of one event type (all zones, zone order then row order) that carry link key `k`,
sorted by the time field: `rows_by_type[type]` of the group after `sort_groups_by_timestamp`. -/
def groupRows (c : Cfg) (k : Key) (rows : List Row) : List Row :=
  sortBy c.ts (rows.filter fun r => linkOf c.linkField r = some k)

/-- distinct link keys in first-occurrence order (the key set of the `HashMap`) -/
def dedupKeys : List Key → List Key
  | [] => []
  | k :: ks => k :: (dedupKeys ks).filter (· ≠ k)

def keysOf (c : Cfg) (as bs : List Row) : List Key :=
  dedupKeys ((as ++ bs).filterMap (linkOf c.linkField))

/-- contribution of one type's list to `earliest_ts`: time of its first row, when readable -/
def firstTs (c : Cfg) : List Row → Int
  | [] => Snel.Gen.C15.earliestStart
  | r :: _ => match getI64 r c.timeField with
    | some t => t
    | none => Snel.Gen.C15.earliestStart

abbrev Group := List Row × List Row

def earliest (c : Cfg) (g : Group) : Int := min (firstTs c g.1) (firstTs c g.2)

/-! ### the sweeps -/

abbrev Pair := Row × Row

/-- `match_followed_by`: one `while` iteration per unit of fuel. -/
def fbLoop (c : Cfg) : Nat → List Row → List Row → List Pair
  | 0, _, _ => []
  | _ + 1, [], _ => []
  | _ + 1, _, [] => []
  | fuel + 1, a :: as, b :: bs =>
    if c.ts a ≤ c.ts b then
      -- candidate: WHERE decides whether it is emitted; `a_ptr += 1` either way
      (if c.pairOk a b then [(a, b)] else []) ++ fbLoop c fuel as (b :: bs)
    else
      fbLoop c fuel (a :: as) bs      -- `b_ptr += 1`

def followedBy (c : Cfg) (as bs : List Row) : List Pair :=
  fbLoop c (as.length + bs.length) as bs

/-- inner `while latest_b_ptr + 1 < len` of `match_preceded_by`: returns the latest b before
`tsA` and the rows after it. -/
def advanceB (c : Cfg) (tsA : Int) (b : Row) : List Row → Row × List Row
  | [] => (b, [])
  | b' :: bs => if c.ts b' < tsA then advanceB c tsA b' bs else (b, b' :: bs)

/-- `match_preceded_by`; emitted rows are `(b, a)` as in `matched_rows`. -/
def pbLoop (c : Cfg) : Nat → List Row → List Row → List Pair
  | 0, _, _ => []
  | _ + 1, [], _ => []
  | _ + 1, _, [] => []
  | fuel + 1, a :: as, b :: bs =>
    if c.ts b < c.ts a then
      let lb := advanceB c (c.ts a) b bs
      (if c.pairOk a lb.1 then [(lb.1, a)] else []) ++ pbLoop c fuel as (lb.1 :: lb.2)
    else
      pbLoop c fuel as (b :: bs)      -- `a_ptr += 1` (no b precedes this a; since fix e929a74)

def precededBy (c : Cfg) (as bs : List Row) : List Pair :=
  pbLoop c (as.length + bs.length) as bs

/-- `match_in_group` (single link) -/
def matchInGroup (c : Cfg) (g : Group) : List Pair :=
  if c.preceded then precededBy c g.1 g.2 else followedBy c g.1 g.2

/-- the `for` over the sorted groups in `match_sequences` -/
def runGroups (c : Cfg) (lim : Option Nat) : List Group → List Pair → List Pair
  | [], acc => acc
  | g :: gs, acc =>
    match lim with
    | some n =>
      if acc.length ≥ n then acc                          -- check before the group: `break`
      else if g.1.isEmpty || g.2.isEmpty then runGroups c lim gs acc
      else
        let acc' := acc ++ matchInGroup c g
        if acc'.length ≥ n then acc'.take n                -- `truncate(lim); break`
        else runGroups c lim gs acc'
    | none =>
      if g.1.isEmpty || g.2.isEmpty then runGroups c lim gs acc
      else runGroups c lim gs (acc ++ matchInGroup c g)

def groupsOf (c : Cfg) (as bs : List Row) (order : List Key) : List Group :=
  sortBy (earliest c) (order.map fun k => (groupRows c k as, groupRows c k bs))

/-- `ColumnarGrouper::group_zones_by_link_field` + `SequenceMatcher::match_sequences`.
`lim`: the LIMIT; `as`/`bs`: all rows of the head / target type in zone order; `order`:
iteration order of the group map. -/
def matchSequences (c : Cfg) (lim : Option Nat) (as bs : List Row) (order : List Key) : List Pair :=
  runGroups c lim (groupsOf c as bs order) []

/-- the a-side / b-side row of an emitted pair -/
def aOf (c : Cfg) (p : Pair) : Row := if c.preceded then p.2 else p.1
def bOf (c : Cfg) (p : Pair) : Row := if c.preceded then p.1 else p.2

/-- what the per-type sub-queries deliver: only rows passing that type's projected WHERE -/
def prefilterA (c : Cfg) (as : List Row) : List Row := as.filter c.okA
def prefilterB (c : Cfg) (bs : List Row) : List Row := bs.filter c.okB

end Snel.Sequence
