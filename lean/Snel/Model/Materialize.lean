import Snel.Gen.C14
/-!
# Materialised queries: REMEMBER / SHOW (C14)

Model of
* `command/handlers/remember.rs` (`remember_query_with_data_dir`),
* `command/handlers/show/orchestrator.rs` (`ShowExecutionPipeline::run`, `build_outcome`),
  `show/delta/refresher.rs`, `show/delta/watermark.rs` (`WatermarkDeduplicator::filter`),
  `show/store/frame_streamer.rs`, `show/streaming/response_writer.rs`,
* `engine/materialize/{high_water,sink,spec}.rs`, `store/{materialized_store,manifest}.rs`,
  `store/codec/encoder.rs` + `store/frame/writer.rs` (how a frame's mark is computed),
* `engine/core/zone/selector/pruner/materialization_pruner.rs` and
  `index_selector.rs::MaterializationGuard` (zone / file dropping of the delta query).

Bug for bug. What the code does (facts read off the Rust, all reproduced by the `show`
stream of the C14 check):

* A *frame* is one batch of result rows as it arrived. Its mark is
  `HighWaterMark::new(frame.max_timestamp, frame.max_event_id)` — the two maxima are taken
  **independently** over the rows of the batch (`encoder.rs`), so the pair need not be the
  `(timestamp, event_id)` of any row.
* The sink's mark is the **running lexicographic maximum** of the frame marks
  (`sink.rs`: `self.high_water.advance(..)` on every append, `bootstrap_from_manifest` folds
  `advance` over all frames of the manifest; `HighWaterMark::advance` replaces the mark only by a
  lexicographically larger pair). (Until commit 60e3c76 it was the mark of the last frame —
  finding C14-mark-from-last-frame, fixed.)
* SHOW streams the stored frames, then runs the remembered query with
  `SINCE max(since, mark.ts)` and metadata `(created_at, high_water_ts = mark.ts)`; each delta
  batch is filtered row-wise by `(ts, id) > (mark.ts, mark.id)` (Rust tuple order =
  lexicographic) against the mark the sink had when SHOW began; non-empty filtered batches
  are appended as new frames and sent. No id de-duplication happens when the schema has both
  `timestamp` and `event_id` (always the case for selection queries).
* The orchestrator always passes `materialization_high_water_ts` (`"0"` when there is no
  mark), so the pruner's `created_at` branch is never taken from SHOW.
* SHOW and (since commit f1fe52c, finding C14-remember-in-flush-window, fixed) REMEMBER first
  send `AwaitFlush` to every shard: their query runs when no flush is in its window any more
  (`Store.flushEnd`). Both append / stream raw batches without the id de-duplication of QUERY's
  response writer (`dedupById`), which is what hides the double visibility of a row in the
  window from a plain `QUERY`.

Batch arrival order is scheduling: the functions take the delivered batches as an argument
(`sched`); `LegitShow` / `LegitRemember` say that the batches are a split of what the query
returns.
-/
namespace Snel.Materialize

/-- An applied event as the read path sees it. `ts` is the second stamped by the STORE handler,
`id` the event id assigned by the shard worker, `key` the unique payload key of the harness,
`ctx`/`x` what FOR / WHERE look at. -/
structure Ev where
  ts : Nat
  id : Nat
  shard : Nat
  key : Nat
  ctx : Nat
  x : Nat
deriving DecidableEq, Repr, Inhabited

/-- `(ts, id)` of a row. -/
def Ev.pos (e : Ev) : Nat × Nat := (e.ts, e.id)

/-- Rust's `(a0, a1) > (b0, b1)` on `(u64, u64)`: lexicographic
(`watermark.rs:119`, `high_water.rs:18,25`). -/
def lexGt (a b : Nat × Nat) : Bool :=
  decide (b.1 < a.1) || (a.1 == b.1 && decide (b.2 < a.2))

/-- The remembered selection: a row predicate (event type, FOR, WHERE) and the parsed SINCE. -/
structure Spec where
  pred : Ev → Bool
  since : Option Nat

/-- Row condition of the live query: WHERE/FOR/type and `timestamp >= since`
(`condition_evaluator_builder.rs::add_special_fields`, `CompareOp::Gte`). -/
def Spec.matches (q : Spec) (e : Ev) : Bool :=
  q.pred e && (match q.since with | none => true | some t => decide (t ≤ e.ts))

/-- Comparison operators the harness uses in WHERE. -/
inductive Cmp | eq | ge | le | gt | lt
deriving DecidableEq, Repr

def Cmp.eval : Cmp → Nat → Nat → Bool
  | .eq, a, b => a == b
  | .ge, a, b => decide (b ≤ a)
  | .le, a, b => decide (a ≤ b)
  | .gt, a, b => decide (b < a)
  | .lt, a, b => decide (a < b)

/-- First-order query description used by the driver (`FOR c`, `WHERE x op v`, `SINCE t`). -/
structure QSpec where
  ctx : Option Nat
  cmp : Option (Cmp × Nat)
  since : Option Nat
deriving Repr

def QSpec.toSpec (q : QSpec) : Spec where
  pred e := (match q.ctx with | none => true | some c => e.ctx == c) &&
            (match q.cmp with | none => true | some (op, v) => op.eval e.x v)
  since := q.since

/-! ## Storage as the delta query sees it -/

/-- A zone of a published segment: its rows and the metadata the pruner reads
(`ZoneMeta.timestamp_max`, `ZoneMeta.created_at`; `mtime` = modification second of the
segment's `.zones` file). -/
structure Zone where
  rows : List Ev
  tsMax : Nat
  createdAt : Nat
  mtime : Nat
  /-- the segment (directory) the zone belongs to; zones of one segment share the `.zones` file -/
  seg : Nat := 0
deriving Repr

/-- Memtable rows (active memtables and passive buffers whose segment is not readable yet), the
rows of passive buffers whose segment files are **already readable** (`passive`: a flush job
between "zones written" and "passive buffer cleared" — such a row is scanned twice, from the
buffer and from its zone), and the zones of all readable segments (all shards). -/
structure Store where
  mem : List Ev
  zones : List Zone
  passive : List Ev := []
deriving Repr

/-- Everything a plain scan sees (rows in the flush window twice). -/
def Store.vis (s : Store) : List Ev := s.mem ++ s.passive ++ s.zones.flatMap (·.rows)

def maxOf (l : List Nat) : Nat := l.foldr max 0

/-- `MaterializationPruner::apply` / `segment_fully_materialized`: with a high-water second the
zone is dropped iff `timestamp_max < high_water`, else iff `created_at <= materialization_created_at`. -/
def dropZone (createdAt : Nat) (hwTs : Option Nat) (z : Zone) : Bool :=
  match hwTs with
  | some h => decide (z.tsMax < h)
  | none => decide (z.createdAt ≤ createdAt)

/-- `MaterializationGuard::file_definitely_stale`: `mtime < cutoff.saturating_sub(1)` with
`cutoff = high_water_ts.unwrap_or(created_at)`. -/
def fileStale (createdAt : Nat) (hwTs : Option Nat) (z : Zone) : Bool :=
  decide (z.mtime < hwTs.getD createdAt - Snel.Gen.C14.staleSlack)

/-- `MaterializationGuard::segment_fully_materialized` (`index_selector.rs`), the segment-level
early exit of the delta query: the zone metas of the segment are non-empty and **every one of
them** (`metas.iter().all(..)`) satisfies the drop rule. Zones of a segment are laid out in
context-id order, not in time order, so no single zone bounds the others. -/
def segFullyMaterialized (createdAt : Nat) (hwTs : Option Nat) (metas : List Zone) : Bool :=
  !metas.isEmpty &&
    (if Snel.Gen.C14.segmentGuardAllZones then metas.all (dropZone createdAt hwTs)
     else (metas.getLast?.map (dropZone createdAt hwTs)).getD false)

/-- The per-zone part: file not stale, zone not dropped by `MaterializationPruner`. -/
def zoneKept (guard : Option (Nat × Option Nat)) (z : Zone) : Bool :=
  match guard with
  | none => true
  | some (c, h) => !fileStale c h z && !dropZone c h z

/-- Is the zone read by a query that carries materialisation metadata `guard`? In the order of
`IndexZoneSelector::select_for_segment`: stale file ⇒ nothing of the segment; segment fully
materialised ⇒ nothing; else the pruner decides zone by zone. `all` = the zones of the store. -/
def zoneRead (guard : Option (Nat × Option Nat)) (all : List Zone) (z : Zone) : Bool :=
  match guard with
  | none => true
  | some (c, h) =>
    !fileStale c h z && !segFullyMaterialized c h (all.filter (·.seg == z.seg)) && !dropZone c h z

/-- Rows scanned: memtables always, zones unless dropped. -/
def scanRows (s : Store) (guard : Option (Nat × Option Nat)) : List Ev :=
  s.mem ++ s.passive ++ (s.zones.filter (zoneRead guard s.zones)).flatMap (·.rows)

/-- Result rows of `QUERY q` (guard `none`) or of the delta query of SHOW. -/
def runQuery (s : Store) (q : Spec) (guard : Option (Nat × Option Nat)) : List Ev :=
  (scanRows s guard).filter q.matches

/-- Rows in context order (a flush drains the memtable per context, compaction merges by
context id): insertion sort, stable. -/
def insertByCtx (e : Ev) : List Ev → List Ev
  | [] => [e]
  | x :: l => if e.ctx ≤ x.ctx then e :: x :: l else x :: insertByCtx e l

def sortByCtx : List Ev → List Ev
  | [] => []
  | e :: l => insertByCtx e (sortByCtx l)

/-- The zones of one new segment: rows in context order, one zone per row (the finest layout the
engine can produce, `event_per_zone = 1`; the results of every query in this file are proved
independent of the zone boundaries, `Lemmas.Materialize.delta_filter_eq`).
`ZoneMeta::build`: `timestamp_max` is the largest row timestamp of the zone. -/
def zonesOf (now createdAt seg : Nat) (rows : List Ev) : List Zone :=
  (sortByCtx rows).map fun r => { rows := [r], tsMax := r.ts, createdAt, mtime := now, seg }

def Store.freshSeg (s : Store) : Nat := maxOf (s.zones.map (·.seg)) + 1

/-- Flush of one shard: its memtable rows become the zones of a new segment. -/
def Store.flush (s : Store) (shard now : Nat) : Store :=
  let mv := s.mem.filter (·.shard == shard)
  if mv.isEmpty then s else
  { s with mem := s.mem.filter (fun e => !(e.shard == shard)),
           zones := s.zones ++ zonesOf now now s.freshSeg mv }

/-- The first half of a flush: the segment's files exist (its zones are read), the passive buffer
still holds the rows (`flush_worker.rs` between the points `flusher.zones_written` and
`flush.passive_cleared`). -/
def Store.flushBegin (s : Store) (shard now : Nat) : Store :=
  let mv := s.mem.filter (·.shard == shard)
  if mv.isEmpty then s else
  { mem := s.mem.filter (fun e => !(e.shard == shard)),
    zones := s.zones ++ zonesOf now now s.freshSeg mv,
    passive := s.passive ++ mv }

/-- The second half: the passive buffers are released. -/
def Store.flushEnd (s : Store) : Store := { s with passive := [] }

/-- `QueryResponseWriter` drops a row whose event id was already emitted
(`query/streaming/response_writer.rs::try_accept_row`): what the user sees of `QUERY q`.
REMEMBER and SHOW bypass it. -/
def dedupById : List Ev → List Ev
  | [] => []
  | e :: l => e :: (dedupById l).filter (fun r => !(r.id == e.id))

def queryAnswer (s : Store) (q : Spec) : List Ev := dedupById (runQuery s q none)

/-- Rows of a zone all belong to `shard` (zones are per shard). -/
def Zone.ofShard (z : Zone) (shard : Nat) : Bool := z.rows.all (·.shard == shard)

/-- A compaction round on one shard, coarsely: the shard's zones are merged into one new
segment, rows in context order; `created_at` = max of the inputs (`zone_merger.rs`),
`timestamp_max` recomputed per zone, files new. -/
def Store.compact (s : Store) (shard now : Nat) : Store :=
  let ins := s.zones.filter (·.ofShard shard)
  if ins.length < 2 then s else
  { s with
    zones := s.zones.filter (fun z => !z.ofShard shard) ++
      zonesOf now (maxOf (ins.map (·.createdAt))) s.freshSeg (ins.flatMap (·.rows)) }

/-- Harness-only: every segment's `.zones` file gets the oldest modification time that is still
truthful (the largest `timestamp_max` of its zones), as if it had been written in that second. -/
def Store.backdate (s : Store) : Store :=
  { s with zones := s.zones.map fun z =>
      { z with mtime := maxOf ((s.zones.filter (·.seg == z.seg)).map (·.tsMax)) } }

/-! ## Catalog entry, REMEMBER, SHOW -/

structure Entry where
  q : Spec
  frames : List (List Ev)
  mark : Option (Nat × Nat)
  createdAt : Nat

structure St where
  store : Store
  cat : Nat → Option Entry

def St.init : St := { store := { mem := [], zones := [] }, cat := fun _ => none }

/-- `HighWaterMark::new(frame.max_timestamp, frame.max_event_id)`: independent maxima. -/
def frameHw (f : List Ev) : Nat × Nat := (maxOf (f.map (·.ts)), maxOf (f.map (·.id)))

/-- `HighWaterMark::advance`: replace the mark only by a lexicographically larger pair. -/
def advance (m w : Nat × Nat) : Nat × Nat := if lexGt w m then w else m

/-- The sink's mark: `advance` folded over the frame marks in manifest order, from `(0,0)`
(`bootstrap_from_manifest`; every later append continues the fold). -/
def sinkMark (frames : List (List Ev)) : Nat × Nat :=
  (frames.map frameHw).foldl advance (0, 0)

def isZero (w : Nat × Nat) : Bool := w.1 == 0 && w.2 == 0

def setCat (cat : Nat → Option Entry) (n : Nat) (e : Entry) : Nat → Option Entry :=
  fun k => if k = n then some e else cat k

/-- `sink.append` ignores empty batches. -/
def nonEmpty : List (List Ev) → List (List Ev)
  | [] => []
  | [] :: L => nonEmpty L
  | (x :: xs) :: L => (x :: xs) :: nonEmpty L

/-- REMEMBER QUERY q AS n at second `now`, the initial run delivering `sched`.
Returns the new state and whether the command succeeded. -/
def Entry.initial (q : Spec) (now : Nat) (sched : List (List Ev)) : Entry :=
  let frames := nonEmpty sched
  let hw := sinkMark frames
  { q, frames, mark := if isZero hw then none else some hw, createdAt := now }

def remember (s : St) (n : Nat) (q : Spec) (now : Nat) (sched : List (List Ev)) : St × Bool :=
  match s.cat n with
  | some _ => (s, false)
  | none => ({ s with cat := setCat s.cat n (Entry.initial q now sched) }, true)

/-- `MaterializedQuerySpecExt::delta_command`: SINCE of the delta query. -/
def deltaSince (since : Option Nat) (mark : Option (Nat × Nat)) : Option Nat :=
  match mark with
  | none => since
  | some w =>
    if isZero w then since else
    match since with
    | none => some w.1
    | some t => if t < w.1 then some w.1 else some t

/-- The mark the delta row filter (and the zone guard) of a SHOW compares against
(`DeltaRefresher::new`: `sink.high_water_mark()`): the **manifest's** mark, which advances with
every appended frame — not the catalog entry's, which is rewritten only at the very end of a
completed SHOW (`persist_outcome`, after the response was flushed) and lags behind after a SHOW
whose client went away or whose process died in between. The alternative branch (entry's mark,
the sink's only when the entry has none) is what the source must NOT do; which branch is taken is
read off the source by `tools/consts/C14.py`. -/
def catalogFirstMark (e : Entry) : Nat × Nat :=
  match e.mark with
  | some m => if isZero m then sinkMark e.frames else m
  | none => sinkMark e.frames

def filterMark (e : Entry) : Nat × Nat :=
  if Snel.Gen.C14.deltaFilterFromSink then sinkMark e.frames else catalogFirstMark e

/-- The delta query of `SHOW n`: spec (SINCE from the **catalog** mark, `build_delta_command`) and
zone guard (from the filter mark). -/
def deltaQuery (s : Store) (e : Entry) : List Ev :=
  runQuery s { e.q with since := deltaSince e.q.since e.mark }
    (some (e.createdAt, some (filterMark e).1))

/-- `WatermarkDeduplicator::filter` on every batch, empty results dropped. -/
def keptBatches (w0 : Nat × Nat) (sched : List (List Ev)) : List (List Ev) :=
  nonEmpty (sched.map (·.filter (fun r => lexGt r.pos w0)))

/-- `build_outcome`: the entry's mark after SHOW. -/
def nextMark (old : Option (Nat × Nat)) (w0 hw : Nat × Nat) : Option (Nat × Nat) :=
  if isZero hw then old else if hw = w0 then old else some hw

/-- SHOW n, the delta query delivering `sched`. Returns the new state and the response rows
(`none`: unknown name, error status). -/
def Entry.afterShow (e : Entry) (sched : List (List Ev)) : Entry :=
  let w0 := filterMark e
  let frames' := e.frames ++ keptBatches w0 sched
  { e with frames := frames', mark := nextMark e.mark w0 (sinkMark frames') }

/-- A SHOW that stored its delta frames and never reached the catalog update (the client went
away: the final flush of the response failed; or the process died and was restarted): the
manifest has the new frames, the catalog entry is what it was. -/
def Entry.afterCut (e : Entry) (sched : List (List Ev)) : Entry :=
  { e with frames := e.frames ++ keptBatches (filterMark e) sched }

def showCut (s : St) (n : Nat) (sched : List (List Ev)) : St :=
  match s.cat n with
  | none => s
  | some e => { s with cat := setCat s.cat n (e.afterCut sched) }

def showM (s : St) (n : Nat) (sched : List (List Ev)) : St × Option (List Ev) :=
  match s.cat n with
  | none => (s, none)
  | some e =>
    ({ s with cat := setCat s.cat n (e.afterShow sched) },
      some (e.frames.flatten ++ (keptBatches (filterMark e) sched).flatten))

/-- The batches a SHOW receives are a split of its delta query's result — run behind the
AwaitFlush barrier, i.e. on the store with every flush window closed. -/
def LegitShow (s : St) (n : Nat) (sched : List (List Ev)) : Prop :=
  match s.cat n with
  | none => True
  | some e => sched.flatten.Perm (deltaQuery s.store.flushEnd e)

instance (s : St) (n : Nat) (sched : List (List Ev)) : Decidable (LegitShow s n sched) := by
  unfold LegitShow; split <;> infer_instance

/-- The batches REMEMBER receives are a split of the live query's result, behind the same barrier. -/
def LegitRemember (s : St) (q : Spec) (sched : List (List Ev)) : Prop :=
  sched.flatten.Perm (runQuery s.store.flushEnd q none)

instance (s : St) (q : Spec) (sched : List (List Ev)) : Decidable (LegitRemember s q sched) := by
  unfold LegitRemember; infer_instance

/-! ## Histories -/

inductive Op
  | store (e : Ev)
  /-- flush, compaction, restart, …: any change of placement (hypotheses in `RelayoutOk`) -/
  | relayout (st : Store)
  | remember (n : Nat) (q : Spec) (now : Nat) (sched : List (List Ev))
  | showM (n : Nat) (sched : List (List Ev))
  /-- an interrupted SHOW: frames stored, catalog entry not rewritten, no response -/
  | showCut (n : Nat) (sched : List (List Ev))

def step (s : St) : Op → St
  | .store e => { s with store := { s.store with mem := s.store.mem ++ [e] } }
  | .relayout st => { s with store := st }
  | .remember n q now sched => (remember s n q now sched).1
  | .showM n sched => (showM s n sched).1
  | .showCut n sched => showCut s n sched

def run (s : St) (ops : List Op) : St := ops.foldl step s

/-! ## The AwaitFlush barrier

`engine/shard/flush_progress.rs` (two counters), `engine/store/insert.rs` / `worker.rs::on_flush`
(`next_id` when a memtable is queued for flushing), `flush_worker.rs:258` (`mark_completed` after
the job's task ended, success or not), `worker.rs::on_wait_for_flush` (the barrier SHOW sends to
every shard: `target = submitted`, wait until `completed >= target`). `pending` is a ghost field:
the tickets handed out and not yet completed. -/

structure Progress where
  submitted : Nat
  completed : Nat
  pending : List Nat
deriving Repr

def Progress.init : Progress := { submitted := 0, completed := 0, pending := [] }

/-- `FlushProgress::next_id`: `fetch_add(1) + 1`. -/
def Progress.nextId (p : Progress) : Progress × Nat :=
  ({ p with submitted := p.submitted + 1, pending := p.pending ++ [p.submitted + 1] }, p.submitted + 1)

/-- `FlushProgress::mark_completed`: `completed := max(completed, id)`. -/
def Progress.markCompleted (p : Progress) (id : Nat) : Progress :=
  { p with completed := max p.completed id, pending := p.pending.filter (fun t => !(t == id)) }

/-- `on_wait_for_flush` returns once `completed >= target`. -/
def Progress.barrierOpen (p : Progress) (target : Nat) : Bool := decide (target ≤ p.completed)

end Snel.Materialize
