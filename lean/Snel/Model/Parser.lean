import Snel.Gen.C17
/-!
# Model of sneldb's command parser (`src/command/parser/**`) — part 1: characters, the PEG
combinators, terminals, numbers, the WHERE-expression grammar.

Faithful to rust-peg 0.8 semantics: ordered choice with backtracking, grammar actions run
eagerly (so an `unwrap()` inside an action panics the moment the sequence before it has
matched, whether or not the enclosing alternative would later fail).

Results: `ok a rest | fail | panic | oof`. `oof` (out of fuel) is an artefact of the model;
`Snel.Lemmas.Parser` proves the top-level fuel `|s| + 2` is never exhausted.

Unicode tables of Rust's std (`char::is_alphanumeric`, `is_numeric`, `is_whitespace` on
non-ASCII characters) are a parameter `Uni` (trusted external tables; the harness passes what
the real std says about every non-ASCII character of the input).
-/
namespace Snel.Parser

abbrev Str := List Char

/-! ## Characters -/
def isLetter (c : Char) : Bool := (97 ≤ c.toNat && c.toNat ≤ 122) || (65 ≤ c.toNat && c.toNat ≤ 90)
def isDigit (c : Char) : Bool := 48 ≤ c.toNat && c.toNat ≤ 57
def isIdentStart (c : Char) : Bool := isLetter c || c == '_'
def isIdentChar (c : Char) : Bool := isLetter c || isDigit c || c == '_' || c == '-'
/-- the grammars' `_` rule: `[' ' | '\t' | '\n' | '\r']*` -/
def isWs (c : Char) : Bool := c == ' ' || c == '\t' || c == '\n' || c == '\r'
def lower (c : Char) : Char := if 65 ≤ c.toNat && c.toNat ≤ 90 then Char.ofNat (c.toNat + 32) else c
def upper (c : Char) : Char := if 97 ≤ c.toNat && c.toNat ≤ 122 then Char.ofNat (c.toNat - 32) else c
/-- `str::eq_ignore_ascii_case` -/
def eqCi (a b : Str) : Bool := a.map lower == b.map lower

/-- Rust std's Unicode tables on non-ASCII characters. -/
structure Uni where
  alnum : Char → Bool
  numeric : Char → Bool
  white : Char → Bool

def Uni.ascii : Uni := ⟨fun _ => false, fun _ => false, fun _ => false⟩

def isAlnumU (U : Uni) (c : Char) : Bool := if c.toNat < 128 then isLetter c || isDigit c else U.alnum c
def isNumericU (U : Uni) (c : Char) : Bool := if c.toNat < 128 then isDigit c else U.numeric c
def isWhiteU (U : Uni) (c : Char) : Bool :=
  if c.toNat < 128 then c.toNat == 32 || (9 ≤ c.toNat && c.toNat ≤ 13) else U.white c

def trimStartU (U : Uni) (s : Str) : Str := s.dropWhile (isWhiteU U)
def trimEndU (U : Uni) (s : Str) : Str := (s.reverse.dropWhile (isWhiteU U)).reverse
def trimU (U : Uni) (s : Str) : Str := trimEndU U (trimStartU U s)

/-! ## PEG results and combinators -/
inductive PRes (α : Type) where
  | ok (a : α) (rest : Str)
  | fail
  | panic
  | oof
deriving DecidableEq, Repr

def P (α : Type) := Str → PRes α

namespace P
def pure (a : α) : P α := fun s => .ok a s
def bind (p : P α) (f : α → P β) : P β := fun s =>
  match p s with
  | .ok a r => f a r
  | .fail => .fail
  | .panic => .panic
  | .oof => .oof
/-- ordered choice `p / q` -/
def orElse (p q : P α) : P α := fun s =>
  match p s with
  | .fail => q s
  | r => r
instance : Monad P := { pure := P.pure, bind := P.bind }
instance : OrElse (P α) := ⟨fun p q => P.orElse p (q ())⟩
def failP : P α := fun _ => .fail
def oofP : P α := fun _ => .oof
end P
open P

/-- `p?` -/
def opt (p : P α) : P (Option α) := fun s =>
  match p s with
  | .ok a r => .ok (some a) r
  | .fail => .ok none s
  | .panic => .panic
  | .oof => .oof

/-- `!p` -/
def neg (p : P α) : P Unit := fun s =>
  match p s with
  | .ok _ _ => .fail
  | .fail => .ok () s
  | .panic => .panic
  | .oof => .oof

/-- `p*` (fuel = upper bound on the number of iterations + 1) -/
def many (p : P α) : Nat → P (List α)
  | 0 => oofP
  | n + 1 => fun s =>
    match p s with
    | .ok a r =>
      (match many p n r with
       | .ok as r' => .ok (a :: as) r'
       | .fail => .fail
       | .panic => .panic
       | .oof => .oof)
    | .fail => .ok [] s
    | .panic => .panic
    | .oof => .oof

/-- `p ++ sep` -/
def sepBy1 (p : P α) (sep : P Unit) (n : Nat) : P (List α) := do
  let a ← p
  let as ← many (do sep; p) n
  return a :: as

/-- `p ** sep` -/
def sepBy (p : P α) (sep : P Unit) (n : Nat) : P (List α) :=
  sepBy1 p sep n <|> P.pure []

/-- `$(p)`: the consumed slice -/
def capture (p : P α) : P Str := fun s =>
  match p s with
  | .ok _ r => .ok (s.take (s.length - r.length)) r
  | .fail => .fail
  | .panic => .panic
  | .oof => .oof

def eof : P Unit := fun s => match s with | [] => .ok () [] | _ => .fail

/-! ## Terminals -/
def ws : P Unit := fun s => .ok () (s.dropWhile isWs)

def stripPrefix : Str → Str → Option Str
  | [], s => some s
  | _ :: _, [] => none
  | a :: as, c :: cs => if a == c then stripPrefix as cs else none

/-- literal `"…"` -/
def lit (t : Str) : P Unit := fun s =>
  match stripPrefix t s with
  | some r => .ok () r
  | none => .fail

/-- `ci(k)`: a maximal non-empty run of ASCII letters that equals `k` ignoring ASCII case -/
def kw (k : Str) : P Unit := fun s =>
  let run := s.takeWhile isLetter
  if !run.isEmpty && eqCi run k then .ok () (s.dropWhile isLetter) else .fail

def identWith (more : Char → Bool) : P Str := fun s =>
  match s with
  | c :: cs => if isIdentStart c then .ok (c :: cs.takeWhile more) (cs.dropWhile more) else .fail
  | [] => .fail

/-- `ident()` of query.rs / store.rs -/
def ident : P Str := identWith isIdentChar
/-- `ident()` of replay.rs also accepts ':' -/
def identR : P Str := identWith (fun c => isIdentChar c || c == ':')

def notQuote (c : Char) : Bool := c != '"'

/-- `"\"" chars:$((!"\"" [_])*) "\""` -/
def stringLit : P Str := fun s =>
  match s with
  | c :: cs =>
    if c == '"' then
      (match cs.dropWhile notQuote with
       | _ :: r => .ok (cs.takeWhile notQuote) r
       | [] => .fail)
    else .fail
  | [] => .fail

/-- `field()`: `ident "." ident / ident` -/
def field : P Str :=
  (do let i ← ident; lit ['.']; let j ← ident; return i ++ '.' :: j) <|> ident

/-! ## Numbers -/
def digitVal (c : Char) : Nat := c.toNat - 48
def natOfDigits (ds : Str) : Nat := ds.foldl (fun a c => 10 * a + digitVal c) 0

def digits1 : P Str := fun s =>
  let ds := s.takeWhile isDigit
  if ds.isEmpty then .fail else .ok ds (s.dropWhile isDigit)

/-- `("-")? ['0'..='9']+` → (negative?, digits) -/
def integerTok : P (Bool × Str) := do
  let m ← opt (lit ['-'])
  let ds ← digits1
  return (m.isSome, ds)

/-- `str::parse::<u32>()`: a leading '-' is never accepted for an unsigned type. -/
def convU32 (neg : Bool) (ds : Str) : Option Nat :=
  if neg then none else
  if natOfDigits ds ≤ Gen.C17.u32Max then some (natOfDigits ds) else none

/-- `str::parse::<i64>()` -/
def convI64 (neg : Bool) (ds : Str) : Option Int :=
  if neg then
    (if natOfDigits ds ≤ Gen.C17.i64Max + 1 then some (-(natOfDigits ds : Int)) else none)
  else
    (if natOfDigits ds ≤ Gen.C17.i64Max then some (natOfDigits ds : Int) else none)

/-- `str::parse::<f64>()` (correctly rounded, ties to even) followed by
`Number::from_f64`: `none` when the result is not finite; otherwise the IEEE-754 bit
pattern. Input: sign, integer digits, fraction digits. -/
def f64OfDec (neg : Bool) (ip fp : Str) : Option Nat :=
  let m := natOfDigits (ip ++ fp)
  let den := 10 ^ fp.length
  let sign := if neg then 2 ^ 63 else 0
  if m = 0 then some sign else
  let e0 : Int := (m.log2 : Int) - (den.log2 : Int) - 52
  let q (e : Int) : Nat := if e ≥ 0 then m / (den * 2 ^ e.toNat) else (m * 2 ^ (-e).toNat) / den
  let e1 : Int := if q (e0 + 1) ≥ 2 ^ 52 then e0 + 1 else if q e0 ≥ 2 ^ 52 then e0 else e0 - 1
  let e : Int := if e1 < -1074 then -1074 else e1
  let num : Nat := if e ≥ 0 then m else m * 2 ^ (-e).toNat
  let d : Nat := if e ≥ 0 then den * 2 ^ e.toNat else den
  let qq := num / d
  let r := num % d
  let qr := if 2 * r > d then qq + 1 else if 2 * r = d then (if qq % 2 = 1 then qq + 1 else qq) else qq
  let mag := (e + 1074).toNat * 2 ^ 52 + qr
  if mag ≥ 2047 * 2 ^ 52 then none else some (sign + mag)

/-- Which grammar actions `unwrap()` a failed numeric conversion (`true` = panics). Generated
from the source: after the proposed fix the extractor yields `false` and the model follows. -/
structure Sites where
  limit : Bool
  offset : Bool
  int : Bool
  float : Bool
deriving DecidableEq, Repr

def Sites.current : Sites :=
  ⟨Gen.C17.siteLimitPanics, Gen.C17.siteOffsetPanics, Gen.C17.siteIntPanics, Gen.C17.siteFloatPanics⟩
def Sites.fixed : Sites := ⟨false, false, false, false⟩
/-- the code before the fix commits 3a22cf3 / 871e1a6: every conversion was `unwrap()`ped -/
def Sites.unwrapping : Sites := ⟨true, true, true, true⟩
def Sites.NoPanic (S : Sites) : Prop := S.limit = false ∧ S.offset = false ∧ S.int = false ∧ S.float = false

/-- a failed conversion inside a grammar action -/
def badConv (panics : Bool) : P α := fun _ => if panics then .panic else .fail

/-! ## Values and expressions -/
inductive Value where
  | str (s : Str)
  | int (i : Int)
  | float (bits : Nat)
  | bool (b : Bool)
deriving DecidableEq, Repr

inductive CmpOp where
  | eq | neq | gt | gte | lt | lte
deriving DecidableEq, Repr

inductive Expr where
  | cmp (f : Str) (op : CmpOp) (v : Value)
  | inList (f : Str) (vs : List Value)
  | and (a b : Expr)
  | or (a b : Expr)
  | not (a : Expr)
deriving DecidableEq, Repr

/-- `number()` -/
def numberP (S : Sites) : P Value := do
  let (ng, ip) ← integerTok
  let fp ← opt (do lit ['.']; digits1)
  match fp with
  | some fp =>
    (match f64OfDec ng ip fp with
     | some bits => return .float bits
     | none => badConv S.float)
  | none =>
    (match convI64 ng ip with
     | some i => return .int i
     | none => badConv S.int)

/-- `value()`: string_literal / number / ident -/
def valueP (S : Sites) : P Value :=
  (do let s ← stringLit; return Value.str s)
  <|> numberP S
  <|> (do let i ← ident; return Value.str i)

/-- `cmp_op()` in the grammar's order -/
def cmpOpTable : List (Str × CmpOp) :=
  [(['!', '='], .neq), (['>', '='], .gte), (['<', '='], .lte), (['='], .eq), (['>'], .gt), (['<'], .lt)]

def CmpOp.name : CmpOp → String
  | .eq => "Eq" | .neq => "Neq" | .gt => "Gt" | .gte => "Gte" | .lt => "Lt" | .lte => "Lte"

def firstLit : List (Str × α) → P α
  | [] => failP
  | (t, a) :: rest => (do lit t; return a) <|> firstLit rest

def cmpOpP : P CmpOp := firstLit cmpOpTable

def commaSep : P Unit := do ws; lit [',']; ws

def comparison (S : Sites) : P Expr := do
  let f ← field; ws; let op ← cmpOpP; ws; let v ← valueP S
  return .cmp f op v

def inExpr (S : Sites) (n : Nat) : P Expr := do
  let f ← field; ws; kw "IN".toList; ws; lit ['(']; ws
  let vs ← sepBy (valueP S) commaSep n
  ws; lit [')']
  return .inList f vs

def atom : P Expr := do
  let f ← field
  return .cmp f .eq (.bool true)

/-- `factor()`: NOT factor / "(" expr ")" / comparison / in_expr / atom.
`n0`: fuel of the IN list; `inner`: the parser for a parenthesised expression. -/
def factorWith (S : Sites) (n0 : Nat) (inner : P Expr) : Nat → P Expr
  | 0 => oofP
  | n + 1 =>
    (do kw "NOT".toList; ws; let x ← factorWith S n0 inner n; return Expr.not x)
    <|> (do lit ['(']; ws; let e ← inner; ws; lit [')']; return e)
    <|> comparison S
    <|> inExpr S n0
    <|> atom

/-- `and_expr()`: `factor _ AND _ and_expr / factor` (the second alternative re-parses the
same factor, which yields the same result; the model parses it once). -/
def andWith (factor : P Expr) : Nat → P Expr
  | 0 => oofP
  | n + 1 => do
    let x ← factor
    (do ws; kw "AND".toList; ws; let y ← andWith factor n; return Expr.and x y) <|> P.pure x

/-- `or_expr()`: `and_expr _ OR _ or_expr / and_expr` -/
def orWith (andE : P Expr) : Nat → P Expr
  | 0 => oofP
  | n + 1 => do
    let x ← andE
    (do ws; kw "OR".toList; ws; let y ← orWith andE n; return Expr.or x y) <|> P.pure x

def factorP (S : Sites) (n : Nat) (inner : P Expr) (m1 : Nat) : P Expr := factorWith S n inner m1
def andP (S : Sites) (n : Nat) (inner : P Expr) (m1 m2 : Nat) : P Expr := andWith (factorP S n inner m1) m2
def orP (S : Sites) (n : Nat) (inner : P Expr) (m1 m2 m3 : Nat) : P Expr := orWith (andP S n inner m1 m2) m3

/-- `expr()` with fuel -/
def exprF (S : Sites) : Nat → P Expr
  | 0 => oofP
  | n + 1 => orP S n (exprF S n) n n n

end Snel.Parser
