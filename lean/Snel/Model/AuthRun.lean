import Snel.Model.Auth
/-!
Scenario machine for the C13 correspondence: the server-side state (`State`), the bound user
of each open connection, a clock, and the number of tokens minted so far. One `Step` is one
thing the harness does to the real code (an `AuthManager` API call, a request line pushed
through the real gate + `parse_command` + `dispatch_command`, a clock advance, a restart of
the auth layer).
-/
namespace Snel.Auth

inductive Step
  | mk (id key : Str) (roles : List Str)            -- AuthManager::create_user_with_roles
  | setPerm (id et : Str) (p : Perm)                -- AuthManager::grant_permission
  | dropPerm (id et : Str)                          -- AuthManager::revoke_permission
  | revKey (id : Str)                               -- AuthManager::revoke_key
  | conn (k : Nat)                                  -- open (or re-open) connection k
  | req (k : Nat) (line : Str) (parsed : Option Cmd) -- a request line on connection k;
      -- `parsed` = what `parse_command` made of the command text the gate let through
  | tick (d : Nat)                                  -- d seconds pass
  | restart                                         -- new AuthManager loaded from the auth WAL
  | direct (mgr : Bool) (uid : Option Str) (c : Cmd) -- dispatch_command without a gate
  deriving Repr

structure Sys where
  st : State
  conns : List (Nat × Option Str)
  now : Nat
  minted : Nat
  deriving Repr

inductive Out
  | api (r : ApiResult)
  | unit
  | rejected
  | authOk (user : Str)
  | passed (cmd user : Str) (status : Option Status)   -- none = parse error
  | status (s : Status)
  deriving DecidableEq, Repr

def connUser (s : Sys) (k : Nat) : Option Str :=
  match s.conns.find? (fun c => c.1 == k) with
  | some (_, u) => u
  | none => none

def setConn (s : Sys) (k : Nat) (u : Option Str) : Sys :=
  { s with conns := (k, u) :: s.conns.filter (fun c => !(c.1 == k)) }

/-- One step. `mac`, `alnum` as in `Snel.Auth`; `tokenOf n` is the n-th token the server mints. -/
def step (mac : Str → Str → Str) (alnum : Char → Bool) (tokenOf : Nat → Str) (cfg : Cfg)
    (s : Sys) : Step → Out × Sys
  | .mk id key roles =>
    let (r, st') := createUser alnum s.st id key roles
    (.api r, { s with st := st' })
  | .setPerm id et p =>
    let (r, st') := setPermission s.st id et p
    (.api r, { s with st := st' })
  | .dropPerm id et =>
    let (r, st') := dropPermission s.st id et
    (.api r, { s with st := st' })
  | .revKey id =>
    let (r, st') := revokeKey s.st id
    (.api r, { s with st := st' })
  | .conn k => (.unit, setConn s k none)
  | .tick d => (.unit, { s with now := s.now + d })
  | .restart => (.unit, { s with st := reload s.st, conns := [] })
  | .direct mgr uid c =>
    let (status, st') := dispatch alnum s.st mgr uid c
    (.status status, { s with st := st' })
  | .req k line parsed =>
    match gate mac cfg s.st (connUser s k) s.now line with
    | .reject => (.rejected, s)
    | .authOk u =>
      let s1 := setConn s k (some u)
      (.authOk u, { s1 with st := mintToken cfg s1.st s1.now u (tokenOf s1.minted), minted := s1.minted + 1 })
    | .pass cmd user =>
      match parsed with
      | none => (.passed cmd user none, s)
      | some c =>
        let (status, st') := dispatch alnum s.st cfg.hasManager (some user) c
        (.passed cmd user (some status), { s with st := st' })

def run (mac : Str → Str → Str) (alnum : Char → Bool) (tokenOf : Nat → Str) (cfg : Cfg) :
    Sys → List Step → List Out
  | _, [] => []
  | s, x :: xs =>
    let (o, s') := step mac alnum tokenOf cfg s x
    o :: run mac alnum tokenOf cfg s' xs

end Snel.Auth
