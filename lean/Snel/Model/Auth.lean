import Snel.Gen.C13
/-!
Model of SnelDB's authentication gate and per-command authorisation.

Sources (all under `/repo/src`):
* `frontend/tcp/listener.rs` — `check_auth`, `TcpAuthState::authenticate` (function `gate`);
  `frontend/unix/connection.rs`, `frontend/http/dispatcher.rs`, `frontend/ws/listener.rs` —
  the variants `gateUnix`, `gateHttp`, `gateWs` of the same decision;
* `engine/auth/signature.rs` — `verify_signature`, `parse_auth`;
* `engine/auth/manager.rs` — `validate_session_token`, `generate_session_token`, `revoke_key`;
* `engine/auth/types.rs` — `PermissionCache::{can_read, can_write, is_admin, update_user}`;
* `engine/auth/user_ops.rs`, `permission_ops.rs` — create / revoke-key / grant / revoke;
* `command/dispatcher.rs` and `command/handlers/*` — which handler is given the identity
  and which right it asks for (`authorize`), and the state updates of the management commands
  (`exec`).

Strings are `List Char`; every `.len()` of the Rust code is a **byte** length (`utf8Len`).
`mac : Key → Msg → Sig` stands for `hex(HMAC-SHA256(key, msg))` and is a parameter: nothing
below depends on what it computes, only on *which* key and message the code feeds it.
`alnum : Char → Bool` stands for `char::is_alphanumeric` (Unicode tables of the Rust std).
The user cache and the permission cache of `AuthManager` are updated together by every
operation (`update_user` right after `insert`), so the permission cache is modelled as a view
of the user records.
-/
namespace Snel.Auth
open Snel.Gen.C13

abbrev Str := List Char

/-! ## String primitives (byte lengths, Rust's `trim`, splitting) -/

/-- UTF-8 length of one scalar value. -/
def charLen (c : Char) : Nat :=
  if c.toNat < 0x80 then 1 else if c.toNat < 0x800 then 2 else if c.toNat < 0x10000 then 3 else 4

/-- `str::len()`. -/
def utf8Len : Str → Nat
  | [] => 0
  | c :: cs => charLen c + utf8Len cs

/-- `char::is_whitespace` (Unicode `White_Space`). -/
def isWs (c : Char) : Bool :=
  let n := c.toNat
  (9 ≤ n && n ≤ 13) || n == 32 || n == 0x85 || n == 0xA0 || n == 0x1680 ||
  (0x2000 ≤ n && n ≤ 0x200A) || n == 0x2028 || n == 0x2029 || n == 0x202F || n == 0x205F || n == 0x3000

def trimStart (s : Str) : Str := s.dropWhile isWs
def trimEnd (s : Str) : Str := (s.reverse.dropWhile isWs).reverse
/-- `str::trim`. -/
def trim (s : Str) : Str := trimEnd (trimStart s)

def lowerAscii (c : Char) : Char :=
  if 65 ≤ c.toNat ∧ c.toNat ≤ 90 then Char.ofNat (c.toNat + 32) else c

/-- `bytes_eq_ignore_ascii_case(&bytes[..n], lit)` for an ASCII literal `lit` of length `n`. -/
def startsWithIgnoreAsciiCase (lit s : Str) : Bool :=
  lit.length ≤ s.length && (s.take lit.length).map lowerAscii == lit.map lowerAscii

def isPrefix : Str → Str → Bool
  | [], _ => true
  | _ :: _, [] => false
  | p :: ps, c :: cs => p == c && isPrefix ps cs

/-- Split at the first occurrence of `c` (`position(|b| b == c)` / first step of `parse_auth`). -/
def splitFirst (c : Char) : Str → Option (Str × Str)
  | [] => none
  | x :: xs =>
    if x == c then some ([], xs)
    else match splitFirst c xs with
      | some (a, b) => some (x :: a, b)
      | none => none

/-- Split at the **last** occurrence of `pat` (`rfind(pat)` + `split_at` + `strip_prefix`):
`(text before, text after the marker)`. -/
def splitLast (pat : Str) : Str → Option (Str × Str)
  | [] => if pat.isEmpty then some ([], []) else none
  | c :: cs =>
    match splitLast pat cs with
    | some (b, a) => some (c :: b, a)
    | none => if isPrefix pat (c :: cs) then some ([], (c :: cs).drop pat.length) else none

/-! ## State -/

/-- `PermissionSet`. -/
structure Perm where
  read : Bool
  write : Bool
  deriving DecidableEq, Repr

/-- `UserKey` (user cache entry). `perms` is the `HashMap<event_type, PermissionSet>`. -/
structure User where
  id : Str
  key : Str
  active : Bool
  roles : List Str
  perms : List (Str × Perm)
  deriving DecidableEq, Repr

/-- `SessionToken` keyed by its token. -/
structure Session where
  token : Str
  user : Str
  expiresAt : Nat
  deriving DecidableEq, Repr

/-- Auth caches + the parts of the engine state the handlers' answers depend on. -/
structure State where
  users : List User
  sessions : List Session
  schemas : List Str       -- event types with a schema in the registry
  remembered : List Str    -- names in the materialisation catalog
  /-- The auth WAL (`storage.rs`): every `persist_user` appends the whole user record (id, key,
  active, roles, *all* permission entries — also the all-false ones), oldest first. -/
  wal : List User
  deriving DecidableEq, Repr

def State.empty : State := ⟨[], [], [], [], []⟩

def findUser (st : State) (id : Str) : Option User := st.users.find? (fun u => u.id == id)

/-- `HashMap::insert` keyed by the user id. -/
def putUser : List User → User → List User
  | [], u => [u]
  | x :: xs, u => if x.id == u.id then u :: xs else x :: putUser xs u

def findPerm (ps : List (Str × Perm)) (et : Str) : Option Perm :=
  (ps.find? (fun p => p.1 == et)).map (·.2)

def putPerm : List (Str × Perm) → Str → Perm → List (Str × Perm)
  | [], et, p => [(et, p)]
  | x :: xs, et, p => if x.1 == et then (et, p) :: xs else x :: putPerm xs et p

def hasRole (u : User) (names : List Str) : Bool := u.roles.any (fun r => names.contains r)

/-- `PermissionCache::is_admin`. -/
def isAdmin (st : State) (id : Str) : Bool :=
  match findUser st id with
  | some u => hasRole u adminRoles
  | none => false

/-- `PermissionCache::can_read`, in the code's order. -/
def canRead (st : State) (id et : Str) : Bool :=
  match findUser st id with
  | none => false
  | some u =>
    if hasRole u adminRoles then true
    else
      match findPerm u.perms et with
      | some p =>
        if p.read then true
        else if !p.read && !p.write then false
        else hasRole u readOnlyRoles || hasRole u editorRoles
      | none => hasRole u readOnlyRoles || hasRole u editorRoles

/-- `PermissionCache::can_write`. -/
def canWrite (st : State) (id et : Str) : Bool :=
  match findUser st id with
  | none => false
  | some u =>
    if hasRole u adminRoles then true
    else
      match findPerm u.perms et with
      | some p => p.write
      | none => hasRole u editorRoles || hasRole u writeOnlyRoles

/-! ## Signatures and tokens -/

/-- `signature::verify_signature`: length limits, user in cache, active, constant-time compare
with the recomputed MAC (equality of byte strings). -/
def verify (mac : Str → Str → Str) (st : State) (msg user sig : Str) : Bool :=
  if utf8Len sig > maxSignatureLength then false
  else if utf8Len user > maxUserIdLength then false
  else match findUser st user with
    | none => false
    | some u => u.active && sig == mac u.key msg

/-- `signature::parse_auth`: `user:signature:command` at the first two colons. -/
def parseAuth (s : Str) : Option (Str × Str × Str) :=
  match splitFirst ':' s with
  | none => none
  | some (user, rest) =>
    match splitFirst ':' rest with
    | none => none
    | some (sig, cmd) =>
      if user.isEmpty || utf8Len user > maxUserIdLength then none
      else if utf8Len sig > maxSignatureLength then none
      else some (user, sig, cmd)

/-- `AuthManager::validate_session_token`: known, not expired (`expires_at < now` is expired),
owner still in the cache and active. -/
def validateToken (st : State) (now : Nat) (tok : Str) : Option Str :=
  match st.sessions.find? (fun s => s.token == tok) with
  | none => none
  | some s =>
    if s.expiresAt < now then none
    else match findUser st s.user with
      | some u => if u.active then some s.user else none
      | none => none

/-! ## The gate -/

structure Cfg where
  bypass : Bool        -- CONFIG.auth.bypass_auth
  hasManager : Bool    -- the front end was given an AuthManager
  expiry : Nat         -- session_token_expiry_seconds
  deriving DecidableEq, Repr

inductive GateOut
  | reject
  | authOk (user : Str)               -- AUTH accepted: connection bound to `user`, token minted
  | pass (cmd : Str) (user : Str)     -- command to parse, identity handed to the dispatcher
  deriving DecidableEq, Repr

/-- The ` TOKEN <t>` branch of `check_auth`: `some` = accepted, `none` = fall through. -/
def tokenBranch (st : State) (now : Nat) (t : Str) : Option GateOut :=
  match splitLast tokenMarker t with
  | none => none
  | some (before, after) =>
    let tok := trim after
    if !tok.isEmpty && utf8Len tok ≤ maxTokenLength then
      match validateToken st now tok with
      | some u => some (.pass (trim before) u)
      | none => none
    else none

/-- Connection-bound `sig:cmd` and inline `user:sig:cmd`, i.e. `check_auth` after the token
branch. -/
def sigBranch (mac : Str → Str → Str) (st : State) (conn : Option Str) (t : Str) : GateOut :=
  match conn with
  | some u =>
    match splitFirst ':' t with
    | some (sig, rest) =>
      let c := trim rest
      if verify mac st c u sig then .pass c u else .reject
    | none => .reject
  | none =>
    match parseAuth t with
    | some (user, sig, cmd) => if verify mac st cmd user sig then .pass cmd user else .reject
    | none => .reject

/-- `TcpAuthState::authenticate` on a trimmed line that starts with `AUTH `. -/
def authCommand (mac : Str → Str → Str) (cfg : Cfg) (st : State) (t : Str) : GateOut :=
  match splitFirst ':' (trim (t.drop authPrefix.length)) with
  | none => .reject
  | some (user, sig) =>
    if !cfg.hasManager then .reject
    else if verify mac st user user sig then .authOk user else .reject

/-- `check_auth` of the TCP listener, branch for branch. `conn` is the connection's bound
user (`TcpAuthState.user_id`), `now` the clock in seconds. -/
def gate (mac : Str → Str → Str) (cfg : Cfg) (st : State) (conn : Option Str) (now : Nat)
    (input : Str) : GateOut :=
  if cfg.bypass then .pass (trim input) bypassUserId
  else
    let t := trim input
    if startsWithIgnoreAsciiCase authPrefix t then authCommand mac cfg st t
    else if !cfg.hasManager then .pass t noAuthUserId
    else
      match tokenBranch st now t with
      | some r => r
      | none => sigBranch mac st conn t

/-- The gate with the token branch removed (used to state that payload text cannot trigger
it). -/
def gateNoToken (mac : Str → Str → Str) (cfg : Cfg) (st : State) (conn : Option Str)
    (input : Str) : GateOut :=
  if cfg.bypass then .pass (trim input) bypassUserId
  else
    let t := trim input
    if startsWithIgnoreAsciiCase authPrefix t then authCommand mac cfg st t
    else if !cfg.hasManager then .pass t noAuthUserId
    else sigBranch mac st conn t

/-- Unix-socket `Connection::check_auth`: inline form only; bypass / no-manager return the
input as given (the caller has trimmed it). -/
def gateUnix (mac : Str → Str → Str) (cfg : Cfg) (st : State) (input : Str) : GateOut :=
  if cfg.bypass then .pass input bypassUserId
  else if !cfg.hasManager then .pass input noAuthUserId
  else sigBranch mac st none (trim input)

/-- HTTP `check_auth_with_headers`: `X-Auth-User` / `X-Auth-Signature` over the trimmed body,
else inline. -/
def gateHttp (mac : Str → Str → Str) (cfg : Cfg) (st : State) (hdr : Option (Str × Str))
    (input : Str) : GateOut :=
  if cfg.bypass then .pass input bypassUserId
  else if !cfg.hasManager then .pass input noAuthUserId
  else
    match hdr with
    | some (user, sig) => if verify mac st (trim input) user sig then .pass input user else .reject
    | none => sigBranch mac st none (trim input)

/-- WebSocket: token fast path first (needs a manager, not the bypass flag), then the TCP gate. -/
def gateWs (mac : Str → Str → Str) (cfg : Cfg) (st : State) (conn : Option Str) (now : Nat)
    (input : Str) : GateOut :=
  let t := trim input
  match (if cfg.hasManager then tokenBranch st now t else none) with
  | some r => r
  | none => gate mac cfg st conn now t

/-- `generate_session_token` with the random token made explicit. -/
def mintToken (cfg : Cfg) (st : State) (now : Nat) (user tok : Str) : State :=
  { st with sessions := ⟨tok, user, now + cfg.expiry⟩ :: st.sessions.filter (fun s => !(s.token == tok)) }

/-! ## Commands as the dispatcher sees them -/

/-- Variants of `Command` (what `parse_command` produced). Event types a read command
touches are explicit: `query head tail` is a (sequence) query, `compare` lists every side's
types, `replay none` replays every type of a context. -/
inductive Cmd
  | store (et : Str) (payloadOk : Bool)
  | query (head : Str) (tail : List Str)
  | compare (ets : List Str)
  | replay (et : Option Str)
  | remember (name : Str) (head : Str) (tail : List Str)
  | show (name : Str)
  | flush
  | ping
  | batch
  | define (et : Str)
  | createUser (id : Str) (key : Str) (roles : List Str)   -- key: given, or the generated one
  | revokeKey (id : Str)
  | listUsers
  | grant (perms : List Str) (ets : List Str) (user : Str)
  | revoke (perms : List Str) (ets : List Str) (user : Str)
  | showPermissions (user : Str)
  deriving DecidableEq, Repr

/-- Name of the `Command` variant (as spelled in `dispatcher.rs`). -/
def Cmd.variant : Cmd → Str
  | .store .. => "Store".toList
  | .query .. => "Query".toList
  | .compare .. => "Compare".toList
  | .replay .. => "Replay".toList
  | .remember .. => "RememberQuery".toList
  | .show .. => "ShowMaterialized".toList
  | .flush => "Flush".toList
  | .ping => "Ping".toList
  | .batch => "Batch".toList
  | .define .. => "Define".toList
  | .createUser .. => "CreateUser".toList
  | .revokeKey .. => "RevokeKey".toList
  | .listUsers => "ListUsers".toList
  | .grant .. => "GrantPermission".toList
  | .revoke .. => "RevokePermission".toList
  | .showPermissions .. => "ShowPermissions".toList

/-- Does `dispatch_command` hand `user_id` to this command's handler? Read off the generated
table of dispatcher arms. -/
def passesIdentity (c : Cmd) : Bool := identityArms.contains c.variant

/-- Does the dispatcher's arm answer an error by itself, without calling any handler (BATCH:
"BATCH is not supported by this endpoint")? -/
def refused (c : Cmd) : Bool := refusedArms.contains c.variant

/-- Has `dispatch_command` an arm for it at all? (A variant without one can only exist behind a
panicking fallback arm — `fallbackPanics`; the present dispatcher has an arm for every variant.) -/
def dispatched (c : Cmd) : Bool :=
  identityArms.contains c.variant || anonymousArms.contains c.variant || refusedArms.contains c.variant

inductive Verdict
  | crash          -- no arm: a fallback arm would panic (`unreachable!`)
  | refused        -- the arm answers 400 itself; no handler runs
  | unauthorized   -- 401
  | forbidden      -- 403
  | internal       -- 500 before the handler ("Authentication not configured")
  | proceed        -- the handler goes on to do its work
  deriving DecidableEq, Repr

/-- The identity test shared by all handlers that look at one: no identity ⇒ 401, the
reserved id `bypass` skips the check, otherwise the right must be present. -/
def checkId (uid : Option Str) (right : Str → Bool) : Verdict :=
  match uid with
  | none => .unauthorized
  | some u => if !(u == bypassUserId) && !right u then .forbidden else .proceed

/-- Authorisation as dispatched: which handler sees the identity, which right it asks for.
`mgr` = an `AuthManager` is passed to the dispatcher. -/
def authorize (st : State) (mgr : Bool) (uid : Option Str) (c : Cmd) : Verdict :=
  if !dispatched c then .crash
  else if !passesIdentity c then (if refused c then .refused else .proceed)
  else
    match c with
    | .store et _ => if mgr then checkId uid (fun u => canWrite st u et) else .proceed
    | .query head tail =>
      -- head type, then every FOLLOWED BY / PRECEDED BY target (fix 6e1140a); all answer 403
      if mgr then checkId uid (fun u => canRead st u head && tail.all (fun t => canRead st u t)) else .proceed
    | .define _ => if mgr then checkId uid (fun u => isAdmin st u) else .proceed
    | .createUser .. | .revokeKey _ | .listUsers | .grant .. | .revoke .. | .showPermissions _ =>
      if mgr then checkId uid (fun u => isAdmin st u) else .internal
    | _ => .proceed

/-! ## Management operations (state updates) -/

/-- `validate_user_id`. -/
inductive IdCheck | ok | invalid | tooLong
  deriving DecidableEq, Repr

def validateUserId (alnum : Char → Bool) (id : Str) : IdCheck :=
  if id.isEmpty then .invalid
  else if reservedIds.contains id then .invalid   -- `bypass`, `no-auth` (fix 8e1fb08)
  else if utf8Len id > maxUserIdLength then .tooLong
  else if !id.all (fun c => alnum c || c == '_' || c == '-') then .invalid
  else .ok

inductive ApiResult | ok | exists_ | invalidId | idTooLong | keyTooLong | noUser
  deriving DecidableEq, Repr

/-- `create_user_with_roles`. -/
def createUser (alnum : Char → Bool) (st : State) (id key : Str) (roles : List Str) : ApiResult × State :=
  match validateUserId alnum id with
  | .invalid => (.invalidId, st)
  | .tooLong => (.idTooLong, st)
  | .ok =>
    if utf8Len key > maxSecretKeyLength then (.keyTooLong, st)
    else match findUser st id with
      | some _ => (.exists_, st)
      | none => (.ok, { st with users := putUser st.users ⟨id, key, true, roles, []⟩,
                                wal := st.wal ++ [⟨id, key, true, roles, []⟩] })

/-- `AuthManager::revoke_key`: mark inactive, drop every session of the user. -/
def revokeKey (st : State) (id : Str) : ApiResult × State :=
  match findUser st id with
  | none => (.noUser, st)
  | some u =>
    (.ok, { st with users := putUser st.users { u with active := false },
                    sessions := st.sessions.filter (fun s => !(s.user == id)),
                    wal := st.wal ++ [{ u with active := false }] })

/-- `AuthManager::grant_permission` (sets the permission set of one event type). -/
def setPermission (st : State) (id et : Str) (p : Perm) : ApiResult × State :=
  match findUser st id with
  | none => (.noUser, st)
  | some u => (.ok, { st with users := putUser st.users { u with perms := putPerm u.perms et p },
                              wal := st.wal ++ [{ u with perms := putPerm u.perms et p }] })

/-- `AuthManager::revoke_permission` (removes the entry). -/
def dropPermission (st : State) (id et : Str) : ApiResult × State :=
  match findUser st id with
  | none => (.noUser, st)
  | some u =>
    (.ok, { st with users := putUser st.users { u with perms := u.perms.filter (fun p => !(p.1 == et)) },
                    wal := st.wal ++ [{ u with perms := u.perms.filter (fun p => !(p.1 == et)) }] })

/-- `load_users` + `dedupe_latest` (`db_ops.rs`): the latest record of every user id wins, the
record is taken whole. (Records carry a second-granular `persisted_at`; on ties the later record
in the file wins (`>=`). A clock stepping backwards between two writes is not modelled.) -/
def loadUsers (wal : List User) : List User := wal.foldl putUser []

/-- Server restart as far as auth goes (`FrontendContext::from_config`): a fresh `AuthManager`
whose user and permission caches are rebuilt from the auth WAL; session tokens are gone. -/
def reload (st : State) : State := { st with users := loadUsers st.wal, sessions := [] }

/-- The caches hold exactly what a reload would produce (every operation persists the record it
then inserts into the caches). -/
def WalInSync (st : State) : Prop := st.users = loadUsers st.wal

def existingPerm (st : State) (id et : Str) : Perm :=
  match findUser st id with
  | some u => (findPerm u.perms et).getD ⟨false, false⟩
  | none => ⟨false, false⟩

/-- Status classes of a response. -/
inductive Status | s200 | s400 | s401 | s403 | s500 | panic
  deriving DecidableEq, Repr

/-- One iteration of the GRANT handler's loop: merge `want` into the existing set. -/
def grantOne (st : State) (want : Perm) (user et : Str) : ApiResult × State :=
  setPermission st user et
    ⟨(existingPerm st user et).read || want.read, (existingPerm st user et).write || want.write⟩

/-- GRANT handler loop: per event type, schema must exist, merge with the existing set. Earlier
event types keep their grant when a later one fails. -/
def grantLoop (st : State) (want : Perm) (user : Str) : List Str → Status × State
  | [] => (.s200, st)
  | et :: ets =>
    if !st.schemas.contains et then (.s400, st)
    else
      match grantOne st want user et with
      | (.ok, st') => grantLoop st' want user ets
      | (_, st') => (.s400, st')

/-- One iteration of the REVOKE handler's loop: store the reduced set. -/
def revokeOne (st : State) (rr rw : Bool) (user et : Str) : ApiResult × State :=
  setPermission st user et
    ⟨(existingPerm st user et).read && !rr, (existingPerm st user et).write && !rw⟩

/-- REVOKE handler loop: no schema check; stores the reduced set (an all-false set stays as an
explicit denial). -/
def revokeLoop (st : State) (rr rw : Bool) (user : Str) : List Str → Status × State
  | [] => (.s200, st)
  | et :: ets =>
    match revokeOne st rr rw user et with
    | (.ok, st') => revokeLoop st' rr rw user ets
    | (_, st') => (.s400, st')

def permNames (perms : List Str) : Option Perm :=
  perms.foldl (fun acc p =>
    match acc with
    | none => none
    | some a => if p == "read".toList then some { a with read := true }
                else if p == "write".toList then some { a with write := true } else none)
    (some ⟨false, false⟩)

/-- What a handler does once its check passed: status class and new state. -/
def exec (alnum : Char → Bool) (st : State) (c : Cmd) : Status × State :=
  match c with
  | .store et ok =>
    if (trim et).isEmpty then (.s400, st)
    else if !st.schemas.contains et then (.s400, st)
    else if !ok then (.s400, st) else (.s200, st)
  | .query head _ => if (trim head).isEmpty then (.s400, st) else (.s200, st)
  | .compare ets => if ets.length < 2 then (.s400, st) else (.s200, st)
  | .replay _ => (.s200, st)
  | .remember name _ _ =>
    if st.remembered.contains name then (.s500, st) else (.s200, { st with remembered := name :: st.remembered })
  | .show name => if st.remembered.contains name then (.s200, st) else (.s500, st)
  | .flush => (.s200, st)
  | .ping => (.s200, st)
  | .batch => (.s400, st)   -- not reachable: the dispatcher refuses BATCH before any handler
  | .define et =>
    if st.schemas.contains et then (.s500, st) else (.s200, { st with schemas := et :: st.schemas })
  | .createUser id key roles =>
    match createUser alnum st id key roles with
    | (.ok, st') => (.s200, st')
    | (_, st') => (.s400, st')
  | .revokeKey id =>
    match revokeKey st id with
    | (.ok, st') => (.s200, st')
    | (_, st') => (.s400, st')
  | .listUsers => (.s200, st)
  | .grant perms ets user =>
    match permNames perms with
    | none => (.s400, st)
    | some want => grantLoop st want user ets
  | .revoke perms ets user =>
    revokeLoop st (perms.isEmpty || perms.contains "read".toList) (perms.isEmpty || perms.contains "write".toList) user ets
  | .showPermissions user => if (findUser st user).isSome then (.s200, st) else (.s400, st)

/-- `dispatch_command`: authorisation, then the handler. The QUERY handler tests the empty
event type before the permission. -/
def dispatch (alnum : Char → Bool) (st : State) (mgr : Bool) (uid : Option Str) (c : Cmd) : Status × State :=
  match c with
  | .query head _ =>
    if (trim head).isEmpty then (.s400, st)
    else match authorize st mgr uid c with
      | .proceed => exec alnum st c
      | .unauthorized => (.s401, st)
      | .forbidden => (.s403, st)
      | .internal => (.s500, st)
      | .refused => (.s400, st)
      | .crash => (.panic, st)
  | _ =>
    match authorize st mgr uid c with
    | .proceed => exec alnum st c
    | .unauthorized => (.s401, st)
    | .forbidden => (.s403, st)
    | .internal => (.s500, st)
    | .refused => (.s400, st)
    | .crash => (.panic, st)

/-! ## Specification side: the rights a command needs, and who holds them -/

/-- Ground truth of the property text: read = admin, read permission on the type, or a
reading role; write likewise; admin = admin role. (The code is stricter in places — explicit
all-false sets override roles — which the property allows.) -/
def specRead (st : State) (id et : Str) : Bool :=
  match findUser st id with
  | none => false
  | some u => hasRole u adminRoles || hasRole u readOnlyRoles || hasRole u editorRoles ||
      (match findPerm u.perms et with | some p => p.read | none => false)

def specWrite (st : State) (id et : Str) : Bool :=
  match findUser st id with
  | none => false
  | some u => hasRole u adminRoles || hasRole u editorRoles || hasRole u writeOnlyRoles ||
      (match findPerm u.perms et with | some p => p.write | none => false)

def specAdmin (st : State) (id : Str) : Bool := isAdmin st id

/-- Event types whose events a command returns (or derives its answer from). `all` = the types
present in the engine, for an untyped REPLAY. -/
def readsOf (all : List Str) : Cmd → List Str
  | .query h t => h :: t
  | .compare ets => ets
  | .replay (some et) => [et]
  | .replay none => all
  | .remember _ h t => h :: t
  | _ => []

def writesOf : Cmd → List Str
  | .store et _ => [et]
  | _ => []

def needsAdmin : Cmd → Bool
  | .define _ | .createUser .. | .revokeKey _ | .listUsers | .grant .. | .revoke .. | .showPermissions _ => true
  | _ => false

/-- The sequence tail of a (remembered) query: the event types after `FOLLOWED BY` /
`PRECEDED BY`. -/
def seqTail : Cmd → List Str
  | .query _ t => t
  | .remember _ _ t => t
  | _ => []

/-! ## Later operations (for statements that hold "from now on") -/

/-- Anything that can change the auth state after a given moment: a command executed by
whomever (`exec` — i.e. already authorised), a minted token, a direct `AuthManager` call. -/
inductive Later
  | cmd (c : Cmd)
  | mint (now : Nat) (user tok : Str)
  | mk (id key : Str) (roles : List Str)
  | setPerm (id et : Str) (p : Perm)
  | dropPerm (id et : Str)
  | revKey (id : Str)
  deriving Repr

def applyOne (alnum : Char → Bool) (cfg : Cfg) (st : State) : Later → State
  | .cmd c => (exec alnum st c).2
  | .mint now user tok => mintToken cfg st now user tok
  | .mk id key roles => (createUser alnum st id key roles).2
  | .setPerm id et p => (setPermission st id et p).2
  | .dropPerm id et => (dropPermission st id et).2
  | .revKey id => (revokeKey st id).2

def applyLater (alnum : Char → Bool) (cfg : Cfg) (st : State) : List Later → State
  | [] => st
  | l :: ls => applyLater alnum cfg (applyOne alnum cfg st l) ls

/-- Does a later operation give `id` a permission entry for `et` again (GRANT naming both, or
a direct `grant_permission` / `revoke_permission` call on that pair — the latter *removes* the
explicit denial and so re-exposes role-based access)? -/
def regrants (id et : Str) : Later → Bool
  | .cmd (.grant _ ets u) => u == id && ets.contains et
  | .setPerm u e _ => u == id && e == et
  | .dropPerm u e => u == id && e == et
  | _ => false

/-- No account carries the reserved id `bypass`. Holds in every state reachable through the
API from an empty user table (`validate_user_id` refuses the id); an account persisted by a
pre-fix server and loaded from the auth WAL is outside that set. -/
def NoBypassAccount (st : State) : Prop := findUser st bypassUserId = none

def isHex (c : Char) : Bool :=
  (48 ≤ c.toNat && c.toNat ≤ 57) || (97 ≤ c.toNat && c.toNat ≤ 102)

/-- Every stored session token is a string of lower-case hex digits (what
`generate_session_token` produces: `hex::encode` of 32 random bytes). -/
def TokensHex (st : State) : Prop := ∀ s ∈ st.sessions, ∀ c ∈ s.token, isHex c = true

/-- A later operation mints only hex tokens. -/
def LaterHex : Later → Prop
  | .mint _ _ tok => ∀ c ∈ tok, isHex c = true
  | _ => True

end Snel.Auth
