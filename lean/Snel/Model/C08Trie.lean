import Snel.Model.C08Enc
import Snel.Gen.C08
/-!
Model of `SurfTrie::build_from_sorted` (`surf_trie.rs`) and of the probe code in
`zone_surf_filter.rs` (`find_first_key_geq`, `find_last_key_leq`, `find_first_key`,
`find_last_key`, `may_overlap_ge/le`, `zones_overlapping_ge/le`) — C08.

Two levels:

* **tree level** (`Trie`/`Kids`, `insT`, `build`, `geqT`, `leqT`, `mayOverlapGe/Le`): the byte trie the
  builder grows in its `nodes` vector (children in a `BTreeMap`, i.e. sorted by label), and the
  search written as a recursion over that tree. The explicit stack of the code becomes the
  call stack: "pop the stack until an entry has a next / previous sibling" is the `none` /
  `.back` result travelling up. This is the level the soundness theorems are about.
  Deliberate simplification: the code's `descend_leftmost/rightmost` can return `None` without
  backtracking when it runs into a childless non-terminal node; `build` never produces such a
  node below the root (`Snel.C08.wfT_build`), so the tree-level search does not carry
  that third outcome. The flat level does.
* **flat level** (`Flat`, `flatten`, `Flat.geq`, `Flat.leq`, …): the five BFS arrays the builder emits
  and a line-by-line port of the explicit-stack search on them (loops bounded by fuel).
  Compared for equality with the Rust arrays / answers by the `trie` and `surf` streams; the
  driver additionally checks on every case that tree level and flat level agree.
-/
namespace Snel.C08

mutual
inductive Trie where
  | node (term : Bool) (kids : Kids)
inductive Kids where
  | nil
  | cons (b : Nat) (c : Trie) (rest : Kids)
end

def Trie.empty : Trie := .node false .nil

/-- Chain of fresh nodes for the rest of a key. -/
def single : List Nat → Trie
  | [] => .node true .nil
  | b :: bs => .node false (.cons b (single bs) .nil)

mutual
/-- One iteration of `for key in sorted { … }`: walk / create the path, mark terminal. -/
def insT : List Nat → Trie → Trie
  | [], .node _ k => .node true k
  | b :: bs, .node t k => .node t (insK b bs k)
/-- `children.get(&b)` / `children.insert(b, id)` on the label-sorted child map. -/
def insK (b : Nat) (bs : List Nat) : Kids → Kids
  | .nil => .cons b (single bs) .nil
  | .cons b' c rest =>
    if b = b' then .cons b' (insT bs c) rest
    else if b < b' then .cons b (single bs) (.cons b' c rest)
    else .cons b' c (insK b bs rest)
end

/-- The node tree of `build_from_sorted(keys)` (shape only; node ids do not matter for the BFS
arrays because children are visited in label order). -/
def build (keys : List (List Nat)) : Trie := keys.foldl (fun t k => insT k t) Trie.empty

mutual
/-- Keys stored in a subtree (relative to its root), in lexicographic order. -/
def keysT : Trie → List (List Nat)
  | .node term kids => (if term then [[]] else []) ++ keysK kids
def keysK : Kids → List (List Nat)
  | .nil => []
  | .cons b c rest => (keysT c).map (b :: ·) ++ keysK rest
end

mutual
/-- `descend_leftmost` / `find_first_key`: stop at the first terminal, else take the first edge. -/
def leftmostT : Trie → Option (List Nat)
  | .node term kids => if term then some [] else leftmostK kids
def leftmostK : Kids → Option (List Nat)
  | .nil => none
  | .cons b c _ => (leftmostT c).map (b :: ·)
end

mutual
/-- `descend_rightmost` / `find_last_key`: follow the last edge until a childless node. -/
def rightmostT : Trie → Option (List Nat)
  | .node term kids =>
    match kids with
    | .nil => if term then some [] else none
    | .cons _ _ _ => rightmostK kids
/-- Last child of a non-empty child list, then on from there. -/
def rightmostK : Kids → Option (List Nat)
  | .nil => none
  | .cons b c rest =>
    match rest with
    | .nil => (rightmostT c).map (b :: ·)
    | .cons _ _ _ => rightmostK rest
end

mutual
/-- `find_first_key_geq` below a node, for the remaining target bytes. `none` = nothing here,
the caller tries its next greater sibling (the code's stack pop). -/
def geqT : Trie → List Nat → Option (List Nat)
  | .node term kids, [] => leftmostT (.node term kids)
  | .node _ kids, tb :: rest => geqK kids tb rest
/-- Scan of the label slice for the first label `≥ tb` (`simd_first_ge`). -/
def geqK : Kids → Nat → List Nat → Option (List Nat)
  | .nil, _, _ => none
  | .cons b c more, tb, rest =>
    if b < tb then geqK more tb rest
    else if b = tb then
      match geqT c rest with
      | some k => some (b :: k)
      | none =>
        match more with
        | .nil => none
        | .cons b2 c2 _ => (leftmostT c2).map (b2 :: ·)
    else (leftmostT c).map (b :: ·)
end

/-- Result of the `≤` search below a node: a key, or "backtrack" together with what the code
would return if no ancestor has a smaller sibling (`Some(path)` iff the node where the descent
got stuck is terminal — ancestors are *not* consulted, see `C08_overlap_le_fails`). -/
inductive LeRes where
  | found (k : List Nat)
  | back (fallback : Option (List Nat))
  deriving Repr, DecidableEq

mutual
/-- `find_last_key_leq` below a node. -/
def leqT : Trie → List Nat → LeRes
  | .node term kids, [] =>
    match rightmostT (.node term kids) with
    | some k => .found k
    | none => if term then .found [] else .back none
  | .node term kids, tb :: rest =>
    match leqK kids none tb rest with
    | some r => r
    | none => .back (if term then some [] else none)
/-- Scan of the label slice for the last label `≤ tb` (`simd_last_le`); `prev` is the sibling
just before the current one. `none` = no label `≤ tb` in this slice. -/
def leqK : Kids → Option (Nat × Trie) → Nat → List Nat → Option LeRes
  | .nil, _, _, _ => none
  | .cons b c more, prev, tb, rest =>
    match leqK more (some (b, c)) tb rest with
    | some r => some r
    | none =>
      if b ≤ tb then
        if b = tb then
          match leqT c rest with
          | .found k => some (.found (b :: k))
          | .back fb =>
            match prev with
            | some (pb, pc) =>
              match rightmostT pc with
              | some k => some (.found (pb :: k))
              | none => some (.back none)
            | none => some (.back (fb.map (b :: ·)))
        else
          match rightmostT c with
          | some k => some (.found (b :: k))
          | none => some (.back none)
      else none
end

def findGeq (t : Trie) (target : List Nat) : Option (List Nat) := geqT t target

def findLeq (t : Trie) (target : List Nat) : Option (List Nat) :=
  match leqT t target with
  | .found k => some k
  | .back fb => fb

/-- `may_overlap_ge_with_stats(lower, inclusive).0`. -/
def mayOverlapGe (t : Trie) (lower : List Nat) (incl : Bool) : Bool :=
  if incl then (findGeq t lower).isSome
  else
    match findGeq t lower with
    | some k =>
      if lexLt lower k then true
      else
        match rightmostT t with
        | some l => lexLt lower l
        | none => false
    | none => false

/-- `may_overlap_le_with_stats(upper, inclusive).0`. -/
def mayOverlapLe (t : Trie) (upper : List Nat) (incl : Bool) : Bool :=
  if incl then (findLeq t upper).isSome
  else
    match findLeq t upper with
    | some k =>
      if lexLt k upper then true
      else
        match leftmostT t with
        | some f => lexLt f upper
        | none => false
    | none => false

/-- `zones_overlapping_ge/le`: ids of the entries whose trie may overlap, in entry order. -/
def zonesOverlapping (entries : List (Nat × Trie)) (ge : Bool) (bound : List Nat) (incl : Bool) :
    List Nat :=
  (entries.filter fun e => if ge then mayOverlapGe e.2 bound incl else mayOverlapLe e.2 bound incl).map (·.1)

/-! ## Flat level -/

/-- The arrays of `SurfTrie`. -/
structure Flat where
  degrees : Array Nat := #[]
  childOffsets : Array Nat := #[]
  labels : Array Nat := #[]
  edgeToChild : Array Nat := #[]
  termBits : Array Nat := #[]
  deriving Repr

def kidsList : Kids → List (Nat × Trie)
  | .nil => []
  | .cons b c rest => (b, c) :: kidsList rest

mutual
def sizeT : Trie → Nat
  | .node _ k => 1 + sizeK k
def sizeK : Kids → Nat
  | .nil => 0
  | .cons _ c rest => sizeT c + sizeK rest
end

/-- Second BFS pass of the builder. A node's children get the BFS indices `nextNode, …` because
they are appended to the queue in label order. `terms` collects the terminal flags. -/
def bfs : Nat → List Trie → Nat → Nat → Flat → Array Bool → Flat × Array Bool
  | 0, _, _, _, f, terms => (f, terms)
  | _ + 1, [], _, _, f, terms => (f, terms)
  | fuel + 1, .node term kids :: q, nextNode, nextEdge, f, terms =>
    let ks := kidsList kids
    let n := ks.length
    let f' : Flat :=
      { degrees := f.degrees.push n
        childOffsets := f.childOffsets.push nextEdge
        labels := f.labels ++ (ks.map (·.1)).toArray
        edgeToChild := f.edgeToChild ++ ((List.range n).map (nextNode + ·)).toArray
        termBits := f.termBits }
    bfs fuel (q ++ ks.map (·.2)) (nextNode + n) (nextEdge + n) f' (terms.push term)

/-- Bit-pack the terminal flags, bit `i % 8` of byte `i / 8`. -/
def packBits (terms : Array Bool) : Array Nat :=
  let nbytes := (terms.size + 7) / 8
  (List.range nbytes).toArray.map fun byte =>
    (List.range 8).foldl (fun acc bit => if terms.getD (byte * 8 + bit) false then acc + 2 ^ bit else acc) 0

def flatten (t : Trie) : Flat :=
  let (f, terms) := bfs (sizeT t + 1) [t] 1 0 {} #[]
  { f with termBits := packBits terms }

namespace Flat

def childRange (f : Flat) (node : Nat) : Nat × Nat :=
  let s := f.childOffsets.getD node 0
  (s, s + f.degrees.getD node 0)

def isTerminal (f : Flat) (node : Nat) : Bool :=
  match f.termBits[node / 8]? with
  | some b => (b / 2 ^ (node % 8)) % 2 == 1
  | none => false

/-- `descend_leftmost` (also `find_first_key` from the root). -/
def descendLeft (f : Flat) : Nat → Nat → List Nat → Option (List Nat)
  | 0, _, _ => none
  | fuel + 1, node, out =>
    if f.isTerminal node then some out.reverse
    else
      let (s, e) := f.childRange node
      if s == e then none
      else descendLeft f fuel (f.edgeToChild.getD s 0) (f.labels.getD s 0 :: out)

/-- `descend_rightmost` (also `find_last_key` from the root). -/
def descendRight (f : Flat) : Nat → Nat → List Nat → Option (List Nat)
  | 0, _, _ => none
  | fuel + 1, node, out =>
    let (s, e) := f.childRange node
    if s == e then (if f.isTerminal node then some out.reverse else none)
    else descendRight f fuel (f.edgeToChild.getD (e - 1) 0) (f.labels.getD (e - 1) 0 :: out)

/-- Index of the first `true` (`bits.trailing_zeros()` of a non-zero mask). -/
def firstTrue : List Bool → Option Nat
  | [] => none
  | true :: _ => some 0
  | false :: bs => (firstTrue bs).map (· + 1)

/-- Index of the last `true` (highest set bit of a non-zero mask). -/
def lastTrue (bs : List Bool) : Option Nat :=
  (firstTrue bs.reverse).map fun i => bs.length - 1 - i

/-- `simd_first_ge(slice, tb)`, chunk by chunk as the code does it: while a full chunk of
`lanes` labels is left, compare the chunk, **narrow the lane mask to `maskBits` bits**
(`to_bitmask() as u16`) and take the lowest set bit; then the scalar tail. `lanes` and
`maskBits` come from the source (`Snel.Gen.C08.surfGeLanes/surfGeMaskBits`); with
`maskBits ≥ lanes` this is the first index with `slice[i] ≥ tb`. -/
def simdFirstGe (lanes maskBits : Nat) (slice : List Nat) (tb : Nat) : Nat → Nat → Option Nat
  | 0, _ => none
  | fuel + 1, i =>
    if 0 < lanes ∧ i + lanes ≤ slice.length then
      match firstTrue ((((slice.drop i).take lanes).map fun v => decide (tb ≤ v)).take maskBits) with
      | some j => some (i + j)
      | none => simdFirstGe lanes maskBits slice tb fuel (i + lanes)
    else
      (firstTrue ((slice.drop i).map fun v => decide (tb ≤ v))).map (i + ·)

/-- `simd_last_le(slice, tb)`: full chunks from the end, mask narrowed to `maskBits`,
`j = (LANES - 1) - leading_zeros(bits)` where `leading_zeros` counts inside the narrowed
mask; then the scalar loop downwards from `i`. -/
def simdLastLe (lanes maskBits : Nat) (slice : List Nat) (tb : Nat) : Nat → Nat → Option Nat
  | 0, _ => none
  | fuel + 1, i =>
    if 0 < lanes ∧ lanes ≤ i then
      let start := i - lanes
      match lastTrue ((((slice.drop start).take lanes).map fun v => decide (v ≤ tb)).take maskBits) with
      | some hb => some (start + ((lanes - 1) - (maskBits - 1 - hb)))
      | none => simdLastLe lanes maskBits slice tb fuel start
    else
      lastTrue ((slice.take i).map fun v => decide (v ≤ tb))

/-- `simd_first_ge` on `labels[s..s+n]`: absolute index. -/
def firstGe (f : Flat) (tb : Nat) (n s : Nat) : Option Nat :=
  let slice := (f.labels.extract s (s + n)).toList
  (simdFirstGe Snel.Gen.C08.surfGeLanes Snel.Gen.C08.surfGeMaskBits slice tb (slice.length + 1) 0).map (s + ·)

/-- `simd_last_le` on `labels[s..s+n]`: absolute index. -/
def lastLe (f : Flat) (tb : Nat) (s n : Nat) : Option Nat :=
  let slice := (f.labels.extract s (s + n)).toList
  (simdLastLe Snel.Gen.C08.surfLeLanes Snel.Gen.C08.surfLeMaskBits slice tb (slice.length + 1) slice.length).map (s + ·)

def nodeFuel (f : Flat) : Nat := f.degrees.size + 2

/-- Backtrack loop of `find_first_key_geq`: stack entries `(end, chosen, path_len)`;
`path` is kept reversed. -/
def geqBack (f : Flat) (path : List Nat) : List (Nat × Nat × Nat) → Option (List Nat)
  | [] => none
  | (be, chosen, plen) :: st =>
    if chosen + 1 < be then
      let p := path.drop (path.length - plen)
      f.descendLeft f.nodeFuel (f.edgeToChild.getD (chosen + 1) 0) (f.labels.getD (chosen + 1) 0 :: p)
    else geqBack f path st

/-- Main loop of `find_first_key_geq_with_stats`; recursion on the remaining target. -/
def geqLoop (f : Flat) : List Nat → Nat → List Nat → List (Nat × Nat × Nat) → Option (List Nat)
  | [], node, path, _ => f.descendLeft f.nodeFuel node path
  | tb :: rest, node, path, stack =>
    let (s, e) := f.childRange node
    match f.firstGe tb (e - s) s with
    | some idx =>
      if f.labels.getD idx 0 == tb then
        geqLoop f rest (f.edgeToChild.getD idx 0) (tb :: path) ((e, idx, path.length) :: stack)
      else
        f.descendLeft f.nodeFuel (f.edgeToChild.getD idx 0) (f.labels.getD idx 0 :: path)
    | none => geqBack f path stack

def geq (f : Flat) (target : List Nat) : Option (List Nat) := geqLoop f target 0 [] []

/-- Backtrack loop of `find_last_key_leq`: entries `(start, chosen, path_len)`. -/
def leqBack (f : Flat) (path : List Nat) (node : Nat) : List (Nat × Nat × Nat) → Option (List Nat)
  | [] => if f.isTerminal node then some path.reverse else none
  | (bs, chosen, plen) :: st =>
    if bs < chosen then
      let p := path.drop (path.length - plen)
      f.descendRight f.nodeFuel (f.edgeToChild.getD (chosen - 1) 0) (f.labels.getD (chosen - 1) 0 :: p)
    else leqBack f path node st

def leqLoop (f : Flat) : List Nat → Nat → List Nat → List (Nat × Nat × Nat) → Option (List Nat)
  | [], node, path, _ =>
    match f.descendRight f.nodeFuel node path with
    | some k => some k
    | none => if f.isTerminal node then some path.reverse else none
  | tb :: rest, node, path, stack =>
    let (s, e) := f.childRange node
    match f.lastLe tb s (e - s) with
    | some idx =>
      if f.labels.getD idx 0 == tb then
        leqLoop f rest (f.edgeToChild.getD idx 0) (tb :: path) ((s, idx, path.length) :: stack)
      else
        f.descendRight f.nodeFuel (f.edgeToChild.getD idx 0) (f.labels.getD idx 0 :: path)
    | none => leqBack f path node stack

def leq (f : Flat) (target : List Nat) : Option (List Nat) := leqLoop f target 0 [] []

def mayOverlapGe (f : Flat) (lower : List Nat) (incl : Bool) : Bool :=
  if incl then (f.geq lower).isSome
  else
    match f.geq lower with
    | some k =>
      if lexLt lower k then true
      else
        match f.descendRight f.nodeFuel 0 [] with
        | some l => lexLt lower l
        | none => false
    | none => false

def mayOverlapLe (f : Flat) (upper : List Nat) (incl : Bool) : Bool :=
  if incl then (f.leq upper).isSome
  else
    match f.leq upper with
    | some k =>
      if lexLt k upper then true
      else
        match f.descendLeft f.nodeFuel 0 [] with
        | some m => lexLt m upper
        | none => false
    | none => false

end Flat

/-! ## the filter of one field of one segment, and `RangePruner::apply_surf_only` -/

inductive NKind where
  | I | U | F
  deriving Repr, DecidableEq

/-- Numeric kind of one value as `is_field_numeric_consistent` sees it; `none` = not numeric. -/
def svKind : SV → Option NKind
  | .int64 _ => some .I
  | .ts _ => some .I
  | .f64 _ => some .F
  | .utf8 s pf =>
    if (parseI64 s).isSome then some .I
    else if (parseU64 s).isSome then some .U
    else if pf.isSome then some .F
    else none
  | _ => none

/-- `is_field_numeric_consistent` over the field's values of all zones (events lacking the field
are skipped): all numeric, one kind, at least one value. -/
def numericConsistent : List SV → Option NKind → Bool
  | [], k => k.isSome
  | v :: vs, k =>
    match svKind v with
    | none => false
    | some t =>
      match k with
      | none => numericConsistent vs (some t)
      | some k0 => if k0 = t then numericConsistent vs (some k0) else false

/-- `ZoneSurfFilter::build_all_filtered` for one field: `none` = no `.zsrf` file is written.
A zone takes part only if its **first** event carries the field (`dynamic_keys` comes from
`zp.events.get(0)`) and at least one of its values encodes. Zones are given in id order. -/
def surfBuild (zones : List (Nat × List (Option SV))) : Option (List (Nat × Trie)) :=
  let all := zones.flatMap fun z => z.2.filterMap id
  if !numericConsistent all none then none
  else
    let entries := zones.filterMap fun z =>
      match z.2 with
      | some _ :: _ =>
        let keys := z.2.filterMap fun o => o.bind encodeValue
        if keys.isEmpty then none else some (z.1, build keys)
      | _ => none
    if entries.isEmpty then none else some entries

/-- `RangePruner::apply_surf_only` given the loaded filter: `none` = "no answer, caller falls
back to all zones" (unencodable literal, or more than `MIN_ZONES_FOR_THRESHOLD` zones of which
at least `MATCH_THRESHOLD` matched). The f64 comparison `matched >= total * 0.9` is written on
integers (`den * matched ≥ num * total`; equal for every total below 2^50). -/
def surfPrune (entries : List (Nat × Trie)) (ge : Bool) (incl : Bool) (lit : SV) : Option (List Nat) :=
  if entries.isEmpty then none
  else
    match encodeValue lit with
    | none => none
    | some bytes =>
      let zs := zonesOverlapping entries ge bytes incl
      if entries.length > Snel.Gen.C08.surfMinZones ∧
          Snel.Gen.C08.surfMatchDen * zs.length ≥ Snel.Gen.C08.surfMatchNum * entries.length then none
      else some zs

end Snel.C08
