import Snel.Lemmas.Parser
/-! REMEMBER: ASCII upper-casing keeps byte offsets, so slicing the original at an offset found in the
upper-cased copy is always on a character boundary. -/
set_option linter.unusedSimpArgs false
set_option linter.unusedVariables false
namespace Snel.Parser

theorem utf8Len_pos (c : Char) : 1 ≤ utf8Len c := by
  unfold utf8Len; split <;> (try split) <;> (try split) <;> omega

theorem upper_ascii : ∀ n, n < 128 → utf8Len (upper (Char.ofNat n)) = 1 := by decide

/-- `to_ascii_uppercase` keeps the UTF-8 length of every character -/
theorem utf8Len_upper (c : Char) : utf8Len (upper c) = utf8Len c := by
  by_cases h : c.toNat < 128
  · have h1 := upper_ascii c.toNat h
    have h2 : Char.ofNat c.toNat = c := Char.ofNat_toNat c
    rw [h2] at h1
    rw [h1]
    simp [utf8Len, h]
  · have : upper c = c := by
      unfold upper
      split
      · rename_i hh; simp at hh; omega
      · rfl
    rw [this]

theorem byteLen_nil : byteLen [] = 0 := rfl
theorem byteLen_cons (c : Char) (s : Str) : byteLen (c :: s) = utf8Len c + byteLen s := rfl

theorem byteLen_append (a b : Str) : byteLen (a ++ b) = byteLen a + byteLen b := by
  induction a with
  | nil => simp [byteLen_nil]
  | cons c cs ih => simp [byteLen_cons, ih]; omega

theorem byteLen_map_upper (s : Str) : byteLen (s.map upper) = byteLen s := by
  induction s with
  | nil => rfl
  | cons c cs ih => simp [byteLen_cons, ih, utf8Len_upper]

/-- slicing at the byte offset of a character index succeeds and gives `take` / `drop` -/
theorem splitAtByte_take (s : Str) : ∀ i, i ≤ s.length →
    splitAtByte s (byteLen (s.take i)) = some (s.take i, s.drop i) := by
  induction s with
  | nil => intro i _; simp [splitAtByte, byteLen_nil]
  | cons c cs ih =>
    intro i hi
    cases i with
    | zero => simp [splitAtByte, byteLen_nil]
    | succ i =>
      have hp := utf8Len_pos c
      have := ih i (by simpa using hi)
      simp only [List.take_succ_cons, List.drop_succ_cons, byteLen_cons, splitAtByte]
      have h0 : ¬ (utf8Len c + byteLen (cs.take i) = 0) := by omega
      have h1 : utf8Len c ≤ utf8Len c + byteLen (cs.take i) := by omega
      simp only [h0, h1, if_false, if_true, Nat.add_sub_cancel_left, this]

/-- what `rfind` returns is the byte offset of a character index at which the pattern starts -/
theorem rfindFrom_spec (pat : Str) : ∀ (s : Str) (base : Nat) (best : Option Nat) (r : Nat),
    rfindFrom pat s base best = some r →
    best = some r ∨ ∃ i, i ≤ s.length ∧ r = base + byteLen (s.take i) ∧ startsWith pat (s.drop i) = true := by
  intro s
  induction s with
  | nil =>
    intro base best r h
    simp only [rfindFrom] at h
    split at h
    · rename_i hp
      right; exact ⟨0, by simp, by simp [byteLen_nil] at h ⊢; omega, by simpa using hp⟩
    · left; exact h
  | cons c cs ih =>
    intro base best r h
    simp only [rfindFrom] at h
    rcases ih _ _ r h with h1 | ⟨i, hi, hr, hs⟩
    · split at h1
      · rename_i hp
        right
        refine ⟨0, by simp, ?_, by simpa using hp⟩
        simp [byteLen_nil] at h1 ⊢; omega
      · left; exact h1
    · right
      exact ⟨i + 1, by simpa using hi, by simp [byteLen_cons]; omega, by simpa using hs⟩

theorem startsWith_as (t : Str) (h : startsWith " AS ".toList t = true) :
    ∃ r, t = ' ' :: 'A' :: 'S' :: ' ' :: r := by
  have e : " AS ".toList = [' ', 'A', 'S', ' '] := by decide
  rw [e] at h
  rcases t with _ | ⟨a, _ | ⟨b, _ | ⟨c, _ | ⟨d, r⟩⟩⟩⟩
  · simp [startsWith, stripPrefix] at h
  · by_cases e1 : ' ' = a <;> simp [startsWith, stripPrefix, e1] at h
  · by_cases e1 : ' ' = a <;> by_cases e2 : 'A' = b <;> simp [startsWith, stripPrefix, e1, e2] at h
  · by_cases e1 : ' ' = a <;> by_cases e2 : 'A' = b <;> by_cases e3 : 'S' = c <;>
      simp [startsWith, stripPrefix, e1, e2, e3] at h
  · by_cases e1 : ' ' = a <;> by_cases e2 : 'A' = b <;> by_cases e3 : 'S' = c <;> by_cases e4 : ' ' = d <;>
      simp [startsWith, stripPrefix, e1, e2, e3, e4] at h
    exact ⟨r, by subst e1 e2 e3 e4; rfl⟩

/-- **REMEMBER's two slices are always on character boundaries of the original text.** -/
theorem remember_split (s : Str) (idx : Nat) (h : rfind " AS ".toList (s.map upper) = some idx) :
    ∃ i, splitAtByte s idx = some (s.take i, s.drop i) ∧
         splitAtByte s (idx + 4) = some (s.take (i + 4), s.drop (i + 4)) := by
  rcases rfindFrom_spec _ _ 0 none idx h with h0 | ⟨i, hi, hr, hs⟩
  · simp at h0
  · simp only [List.length_map] at hi
    rw [← List.map_drop] at hs
    obtain ⟨r, hr4⟩ := startsWith_as _ hs
    -- the four characters of the original at position i
    have hlen : i + 4 ≤ s.length := by
      have := congrArg List.length hr4
      simp at this; omega
    have hb : byteLen (s.take (i + 4)) = byteLen (s.take i) + 4 := by
      have e : s.take (i + 4) = s.take i ++ (s.drop i).take 4 := by
        rw [List.take_add]
      rw [e, byteLen_append]
      have : byteLen ((s.drop i).take 4) = byteLen (((s.drop i).map upper).take 4) := by
        rw [← List.map_take, byteLen_map_upper]
      rw [this, hr4]
      have t4 : (' ' :: 'A' :: 'S' :: ' ' :: r).take 4 = [' ', 'A', 'S', ' '] := rfl
      rw [t4]
      have b4 : byteLen [' ', 'A', 'S', ' '] = 4 := by decide
      rw [b4]
    have hidx : idx = byteLen (s.take i) := by
      rw [hr, Nat.zero_add, ← List.map_take, byteLen_map_upper]
    refine ⟨i, ?_, ?_⟩
    · rw [hidx]; exact splitAtByte_take s i hi
    · rw [hidx, ← hb]; exact splitAtByte_take s (i + 4) hlen

end Snel.Parser
