import Snel.Model.Rlte
import Snel.Lemmas.Order
/-! Lemmas about the RLTE zone pre-selection (C10). -/
namespace Snel.Rlte
open Snel.Order

/-- A flushed zone with everything it holds: the sortable forms of its ORDER BY values. -/
structure ZoneData where
  shard : Nat
  seg : Nat
  zone : Nat
  vals : List Bytes

def ZoneData.toZone (z : ZoneData) : Zone := ⟨z.shard, z.seg, z.zone, buildLadder z.vals⟩

/-- Rows a query reads from the segments under a plan. -/
def rowsRead (plan : Option Plan) (zs : List ZoneData) : List Bytes :=
  (zs.filter fun z => zoneRead plan z.shard z.seg z.zone).flatMap (·.vals)

def sliceOf (asc : Bool) (n m : Nat) (rows : List Bytes) : List Bytes :=
  ((isort (fun a b => if asc then bytesLe a b else bytesLe b a) rows).drop m).take n

/-- "The pre-selected zones hold the rows at positions m..m+n of the order": the slice computed
    from the zones the plan lets the shards read equals the slice computed from all zones. -/
def RlteKeeps (zs : List ZoneData) (asc : Bool) (n m zoneSize : Nat) : Prop :=
  sliceOf asc n m (rowsRead (planWithRlte (zs.map ZoneData.toZone) asc (some n) (some m) zoneSize none) zs)
    = sliceOf asc n m (zs.flatMap (·.vals))

def enc (i : Int) : Bytes := (sortable (.int i)).getD []

def witness : List ZoneData :=
  [⟨0, 1, 0, [enc 1, enc 100]⟩, ⟨0, 1, 1, [enc 2, enc 3]⟩, ⟨0, 1, 2, [enc 4, enc 5]⟩,
   ⟨0, 1, 3, [enc 6, enc 7]⟩, ⟨0, 1, 4, [enc 8, enc 9]⟩]


/-- The numeric value of a single-entry ladder. -/
def zval (z : Zone) : Nat := ((z.ladder.filterMap parseU64).head?).getD 0

/-- A zone whose ladder is one numeric entry: a zone with a single row whose value reads as u64
    (every zone when `event_per_zone = 1` and the field is an integer). -/
def SingleNumeric (z : Zone) : Prop := ∃ b u, z.ladder = [b] ∧ parseU64 b = some u

def before (asc : Bool) (a b : Nat) : Bool := if asc then decide (a ≤ b) else decide (a ≥ b)

theorem single_facts {z : Zone} (h : SingleNumeric z) :
    ladderNums z.ladder = [zval z] ∧ minMaxNumeric z.ladder = some (zval z, zval z) := by
  obtain ⟨b, u, hb, hu⟩ := h
  simp [ladderNums, minMaxNumeric, zval, hb, hu, isort, insertBy]

theorem lbUb_single {z : Zone} (h : SingleNumeric z) (t : Nat) (asc : Bool) (zs : Nat) :
    lbUbNumeric z.ladder t asc zs = if before asc (zval z) t then (zs, zs) else (0, 0) := by
  have hf := (single_facts h).1
  unfold lbUbNumeric
  simp only [hf, List.head?_cons, List.getLast?_singleton]
  cases asc
  · simp only [before, Bool.false_eq_true, if_false, decide_eq_true_eq]
    by_cases h1 : zval z < t
    · have h2 : ¬ zval z ≥ t := by omega
      simp [h1, h2]
    · have h2 : zval z ≥ t := by omega
      simp [h1, h2]
  · simp only [before, if_true, decide_eq_true_eq]
    by_cases h1 : zval z > t
    · have h2 : ¬ zval z ≤ t := by omega
      simp [h1, h2]
    · have h2 : zval z ≤ t := by omega
      simp [h1, h2]

/-- The greedy accumulation over constant bounds. -/
theorem greedy_const_some (k zs : Nat) : ∀ (l : List Nat) (cum t : Nat),
    greedy k (l.map fun u => (u, zs)) cum = some t →
    ∃ pre post, l = pre ++ t :: post ∧ k ≤ cum + (pre.length + 1) * zs := by
  intro l
  induction l with
  | nil => intro cum t h; simp [greedy] at h
  | cons u us ih =>
    intro cum t h
    simp only [List.map_cons, greedy] at h
    split at h
    · cases h
      exact ⟨[], us, rfl, by simp; omega⟩
    · obtain ⟨pre, post, e, hk⟩ := ih _ _ h
      refine ⟨u :: pre, post, by rw [e]; rfl, ?_⟩
      simp only [List.length_cons]
      have : (pre.length + 1 + 1) * zs = (pre.length + 1) * zs + zs := by
        rw [Nat.add_mul (pre.length + 1) 1 zs]; simp
      omega

theorem greedy_none_bound {τ : Type} (k : Nat) : ∀ (l : List (τ × Nat)) (cum : Nat),
    greedy k l cum = none → cum + (l.map (·.2)).sum < k ∨ l = [] ∧ True := by
  intro l
  induction l with
  | nil => intro cum _; right; exact ⟨rfl, trivial⟩
  | cons x xs ih =>
    intro cum h
    obtain ⟨t, ub⟩ := x
    simp only [greedy] at h
    split at h
    · cases h
    · left
      rcases ih _ h with h1 | ⟨rfl, _⟩
      · simp only [List.map_cons, List.sum_cons]; omega
      · simp only [List.map_cons, List.map_nil, List.sum_cons, List.sum_nil]; omega

theorem greedy_none_of_sum_lt {τ : Type} (k : Nat) : ∀ (l : List (τ × Nat)) (cum : Nat),
    cum + (l.map (·.2)).sum < k → greedy k l cum = none := by
  intro l
  induction l with
  | nil => intro cum _; rfl
  | cons x xs ih =>
    intro cum h
    obtain ⟨t, ub⟩ := x
    simp only [List.map_cons, List.sum_cons] at h
    simp only [greedy]
    rw [if_neg (by omega)]
    exact ih _ (by omega)


abbrev Env := Nat × Nat × List Bytes

def envLe (asc : Bool) : Env → Env → Bool :=
  if asc then fun a b => decide (a.1 < b.1 ∨ (a.1 = b.1 ∧ a.2.1 ≤ b.2.1))
  else fun a b => decide (a.2.1 > b.2.1 ∨ (a.2.1 = b.2.1 ∧ a.1 ≥ b.1))

theorem envLe_leOn (asc : Bool) : LeOn (envLe asc) (fun _ => True) := by
  cases asc
  · constructor
    · intro a b _ _; simp only [envLe, Bool.false_eq_true, if_false, decide_eq_true_eq]; omega
    · intro a b c _ _ _; simp only [envLe, Bool.false_eq_true, if_false, decide_eq_true_eq]; omega
  · constructor
    · intro a b _ _; simp only [envLe, if_true, decide_eq_true_eq]; omega
    · intro a b c _ _ _; simp only [envLe, if_true, decide_eq_true_eq]; omega

def envOf (z : Zone) : Env := (zval z, zval z, z.ladder)

theorem envs_eq (zones : List Zone) (h : ∀ z ∈ zones, SingleNumeric z) :
    (zones.filterMap fun z => (minMaxNumeric z.ladder).map fun mm => (mm.1, mm.2, z.ladder)) = zones.map envOf := by
  induction zones with
  | nil => rfl
  | cons z zs ih =>
    have hz := (single_facts (h z (by simp))).2
    simp only [List.filterMap_cons, hz, Option.map_some, List.map_cons]
    rw [ih (fun y hy => h y (by simp [hy]))]
    rfl

theorem sum_le_of_le (zs : Nat) : ∀ l : List Nat, (∀ x ∈ l, x ≤ zs) → l.sum ≤ l.length * zs := by
  intro l
  induction l with
  | nil => intro _; simp
  | cons x xs ih =>
    intro h
    have := ih (fun y hy => h y (by simp [hy]))
    have hx := h x (by simp)
    simp only [List.sum_cons, List.length_cons]
    rw [Nat.add_mul]; omega

theorem cutoffNumeric_single (zones : List Zone) (h : ∀ z ∈ zones, SingleNumeric z) (asc : Bool) (k zs : Nat) :
    cutoffNumeric zones asc k zs =
      greedy k (((isort (envLe asc) (zones.map envOf)).map (·.1)).map fun u => (u, zs)) 0 := by
  unfold cutoffNumeric
  simp only [envs_eq zones h]
  have hle : (if asc then fun (a b : Env) => decide (a.1 < b.1 ∨ (a.1 = b.1 ∧ a.2.1 ≤ b.2.1))
      else fun a b => decide (a.2.1 > b.2.1 ∨ (a.2.1 = b.2.1 ∧ a.1 ≥ b.1))) = envLe asc := rfl
  rw [hle, List.map_map]
  congr 1
  apply List.map_congr_left
  intro e he
  have he' := (isort_perm (envLe asc) (zones.map envOf)).subset he
  obtain ⟨z, hz, rfl⟩ := List.mem_map.mp he'
  have hs := h z hz
  simp only [Function.comp, envOf]
  have : (if asc = true then zval z else zval z) = zval z := by cases asc <;> rfl
  rw [this, lbUb_single hs]
  have hb : before asc (zval z) (zval z) = true := by cases asc <;> simp [before]
  simp [hb]

/-- **Soundness of the pre-selection for single-row integer zones.**  If every zone's ladder is a
    single numeric entry (one row per zone — `event_per_zone = 1` — and a value that reads as u64,
    as all sortable integer encodings do), there is no WHERE bound, and a plan is produced, then
    the kept zones are exactly the zones whose value lies at or before a cutoff `t` in the
    requested direction, and they are at least `FACTOR·(LIMIT+OFFSET) / zoneSize` many.  So a zone
    that is not kept is preceded by at least that many kept rows, and with `zoneSize ≤ FACTOR` none
    of the first `LIMIT+OFFSET` rows is lost. -/
theorem plan_single_sound (zones : List Zone) (h : ∀ z ∈ zones, SingleNumeric z) (asc : Bool)
    (limit offset : Option Nat) (zs : Nat) (hzs : 0 < zs) (p : Plan)
    (hp : planWithRlte zones asc limit offset zs none = some p) :
    ∃ t, p.kept = zones.filter (fun z => before asc (zval z) t) ∧
      rlteK limit offset ≤ p.kept.length * zs := by
  unfold planWithRlte at hp
  simp only at hp
  split at hp
  · cases hp
  · split at hp
    · cases hp
    · rename_i hk hne
      rw [cutoffNumeric_single zones h asc _ zs] at hp
      cases hg : greedy (rlteK limit offset) (((isort (envLe asc) (zones.map envOf)).map (·.1)).map fun u => (u, zs)) 0 with
      | some t =>
        rw [hg] at hp
        simp only at hp
        obtain ⟨pre, post, hsplit, hk'⟩ := greedy_const_some _ zs _ 0 t hg
        have hfilter : (zones.filter fun z => decide ((lbUbNumeric z.ladder t asc zs).2 > 0))
            = zones.filter (fun z => before asc (zval z) t) := by
          apply List.filter_congr
          intro z hz
          rw [lbUb_single (h z hz)]
          cases hb : before asc (zval z) t <;> simp <;> omega
        -- the sorted values up to the cutoff all lie before it
        have hsorted := isort_sorted (envLe_leOn asc) (zones.map envOf) (fun _ _ => trivial)
        have hmem : ∀ e ∈ isort (envLe asc) (zones.map envOf), e.2.1 = e.1 := by
          intro e he
          obtain ⟨z, _, rfl⟩ := List.mem_map.mp ((isort_perm _ _).subset he)
          rfl
        have hpw : ((isort (envLe asc) (zones.map envOf)).map (·.1)).Pairwise (fun a b => before asc a b = true) := by
          rw [List.pairwise_map]
          refine List.Pairwise.imp_of_mem ?_ hsorted
          intro a b ha hb hab
          have ea := hmem a ha
          have eb := hmem b hb
          cases asc
          · simp only [envLe, Bool.false_eq_true, if_false, decide_eq_true_eq] at hab
            simp only [before, Bool.false_eq_true, if_false, decide_eq_true_eq]; omega
          · simp only [envLe, if_true, decide_eq_true_eq] at hab
            simp only [before, if_true, decide_eq_true_eq]; omega
        rw [hsplit] at hpw
        have hpre : ∀ x ∈ pre, before asc x t = true := by
          intro x hx
          exact (List.pairwise_append.mp hpw).2.2 x hx t (by simp)
        have htt : before asc t t = true := by cases asc <;> simp [before]
        have hcount : pre.length + 1 ≤ (zones.filter (fun z => before asc (zval z) t)).length := by
          have e1 : (zones.filter (fun z => before asc (zval z) t)).length
              = List.countP (fun u => before asc u t) ((zones.map envOf).map (·.1)) := by
            rw [← List.countP_eq_length_filter, List.map_map, List.countP_map]
            rfl
          have e2 : List.countP (fun u => before asc u t) ((zones.map envOf).map (·.1))
              = List.countP (fun u => before asc u t) ((isort (envLe asc) (zones.map envOf)).map (·.1)) :=
            ((isort_perm (envLe asc) (zones.map envOf)).map _).countP_eq _ |>.symm
          rw [e1, e2, hsplit, List.countP_append, List.countP_cons]
          have : List.countP (fun u => before asc u t) pre = pre.length := List.countP_eq_length.mpr hpre
          simp only [htt, if_true]
          omega
        rw [hfilter] at hp
        split at hp
        · cases hp
        · cases hp
          refine ⟨t, rfl, ?_⟩
          simp only
          have : (pre.length + 1) * zs ≤ (zones.filter (fun z => before asc (zval z) t)).length * zs :=
            Nat.mul_le_mul_right zs hcount
          omega
      | none =>
        exfalso
        rw [hg] at hp
        simp only at hp
        -- the numeric envelopes cannot cover k; the string envelopes cover no more
        have hsum : (zones.length) * zs < rlteK limit offset := by
          rcases greedy_none_bound _ _ 0 hg with h1 | ⟨h1, _⟩
          · simp only [List.map_map, Nat.zero_add] at h1
            have : (List.map ((fun x => x.2) ∘ (fun u => (u, zs)) ∘ fun x => x.1) (isort (envLe asc) (zones.map envOf))).sum
                = zones.length * zs := by
              have : List.map ((fun x => x.2) ∘ (fun u => (u, zs)) ∘ fun x => x.1) (isort (envLe asc) (zones.map envOf))
                  = List.replicate zones.length zs := by
                rw [List.eq_replicate_iff]
                refine ⟨by simp [(isort_perm (envLe asc) (zones.map envOf)).length_eq], ?_⟩
                intro x hx
                obtain ⟨_, _, rfl⟩ := List.mem_map.mp hx
                rfl
              rw [this]; clear this; induction zones.length with
              | zero => simp
              | succ n ih => simp [List.replicate_succ, ih, Nat.add_mul]; omega
            omega
          · exfalso
            have := congrArg List.length h1
            simp [(isort_perm (envLe asc) (zones.map envOf)).length_eq] at this
            exact hne (by simp [this])
        have hstr : cutoffString zones asc (rlteK limit offset) zs = none := by
          unfold cutoffString
          apply greedy_none_of_sum_lt
          simp only [Nat.zero_add, List.map_map]
          refine Nat.lt_of_le_of_lt (Nat.le_trans (sum_le_of_le zs _ ?_) ?_) hsum
          · intro x hx
            obtain ⟨e, _, rfl⟩ := List.mem_map.mp hx
            simp only [Function.comp, lbUbString]
            exact Nat.min_le_right _ _
          · apply Nat.mul_le_mul_right
            simp only [List.length_map]
            rw [(isort_perm _ _).length_eq]
            exact List.length_filterMap_le _ _
        rw [hstr] at hp
        cases hp

end Snel.Rlte
