import Snel.Lemmas.ShardDirs
/-!
The segment index is the commit point of a flush: every directory is named by the index except
the one the flush worker has just written and not yet registered (job at step 1). Holds in every
history without a kill; a kill is exactly what can leave an unregistered directory behind, and the
restart does not serve such a directory (`published`).
-/
namespace Snel.Shard

def Indexed (s : Shard) : Prop :=
  ∀ p ∈ s.segs, (∃ j ∈ s.jobs, j.seg = p.1 ∧ j.step = 1 ∧ j.evs ≠ []) ∨
    (s.indexExists = true ∧ ∃ ent ∈ s.index, ent.1 = p.1)

theorem init_indexed (cap k : Nat) : Indexed (Shard.init cap k) := by
  intro p hp; simp [Shard.init] at hp

theorem walAppend_indexExists (s : Shard) (e : Ev) : (walAppend s e).indexExists = s.indexExists := by
  unfold walAppend
  by_cases ho : s.walOrphan <;> simp only [ho, if_true, if_false, Bool.false_eq_true] <;> split <;> simp

theorem indexed_of_frame {s t : Shard} (hs : t.segs = s.segs) (hi : t.index = s.index)
    (hx : t.indexExists = s.indexExists) (hj : ∀ j ∈ s.jobs, j ∈ t.jobs) (h : Indexed s) : Indexed t := by
  intro p hp
  rw [hs] at hp
  rcases h p hp with ⟨j, hjm, h1⟩ | ⟨he, ent, hent, h2⟩
  · exact Or.inl ⟨j, hj j hjm, h1⟩
  · exact Or.inr ⟨by rw [hx]; exact he, ent, by rw [hi]; exact hent, h2⟩

theorem rotate_indexed {s : Shard} (h : Indexed s) : Indexed (rotate s) :=
  indexed_of_frame (s := s) rfl rfl rfl (fun j hj => by simp [rotate, hj]) h

theorem store_indexed {s : Shard} (e : Ev) (h : Indexed s) : Indexed (store s e) := by
  obtain ⟨_, _, hj, _, _, hs, _⟩ := walAppend_frame s e
  have h1 : Indexed { walAppend s e with mem := (walAppend s e).mem ++ [e] } :=
    indexed_of_frame (s := s) hs (walAppend_index s e) (walAppend_indexExists s e)
      (fun j hjm => by simpa [hj] using hjm) h
  unfold store
  simp only
  split
  · exact rotate_indexed h1
  · exact h1

theorem loadIndex_of_exists {s : Shard} (h : s.indexExists = true) : loadIndex s = s := by
  simp [loadIndex, h]

theorem flushStep_indexed {s : Shard} (h : Indexed s) : Indexed (flushStep s) := by
  unfold flushStep
  cases hjobs : s.jobs with
  | nil => simpa [hjobs] using h
  | cons j rest =>
    have hsplit : ∀ x ∈ s.jobs, x = j ∨ x ∈ rest := fun x hx => by rw [hjobs] at hx; simpa using hx
    simp only
    -- a witness job (step 1, non-empty) other than the head stays queued
    have keep : ∀ (p : Nat × List Ev), (j.step ≠ 1 ∨ j.evs = [] ∨ j.seg ≠ p.1) →
        (∃ w ∈ s.jobs, w.seg = p.1 ∧ w.step = 1 ∧ w.evs ≠ []) →
        ∃ w ∈ rest, w.seg = p.1 ∧ w.step = 1 ∧ w.evs ≠ [] := by
      rintro p hne ⟨w, hw, h1, h2, h3⟩
      rcases hsplit w hw with rfl | hr
      · rcases hne with hne | hne | hne
        · exact absurd h2 hne
        · exact absurd hne h3
        · exact absurd h1 hne
      · exact ⟨w, hr, h1, h2, h3⟩
    by_cases hemp : j.evs.isEmpty = true
    · -- empty job: dropped
      simp only [hemp, if_true]
      have hnil : j.evs = [] := by simpa using hemp
      intro p hp
      rcases h p hp with hw | hr
      · obtain ⟨w, hw, hh⟩ := keep p (Or.inr (Or.inl hnil)) hw
        exact Or.inl ⟨w, hw, hh⟩
      · exact Or.inr hr
    · simp only [hemp, if_false, Bool.false_eq_true]
      have hne : j.evs ≠ [] := by intro hc; apply hemp; simp [hc]
      match hst : j.step with
      | 0 =>
        intro p hp
        simp only [List.mem_append, List.mem_singleton] at hp
        rcases hp with hp | rfl
        · rcases h p hp with hw | hr
          · obtain ⟨w, hw, hh⟩ := keep p (Or.inl (by omega)) hw
            exact Or.inl ⟨w, by simp [hw], hh⟩
          · exact Or.inr hr
        · exact Or.inl ⟨{ j with step := 1 }, by simp, rfl, rfl, hne⟩
      | 1 =>
        intro p hp
        by_cases hpid : p.1 = j.seg
        · exact Or.inr ⟨rfl, (j.seg, typesOf j.evs), by simp, hpid.symm⟩
        · rcases h p hp with hw | ⟨hex, ent, hent, he⟩
          · obtain ⟨w, hw, hh⟩ := keep p (Or.inr (Or.inr (fun hc => hpid hc.symm))) hw
            exact Or.inl ⟨w, by simp [hw], hh⟩
          · refine Or.inr ⟨rfl, ent, ?_, he⟩
            rw [loadIndex_of_exists hex]
            simp only [List.mem_append, List.mem_filter, List.mem_singleton]
            exact Or.inl ⟨hent, by simpa [he] using hpid⟩
      | 2 =>
        intro p hp
        rcases h p hp with hw | hr
        · obtain ⟨w, hw, hh⟩ := keep p (Or.inl (by omega)) hw
          exact Or.inl ⟨w, by simp [hw], hh⟩
        · exact Or.inr hr
      | 3 =>
        intro p hp
        rcases h p hp with hw | hr
        · obtain ⟨w, hw, hh⟩ := keep p (Or.inl (by omega)) hw
          exact Or.inl ⟨w, by simp [hw], hh⟩
        · exact Or.inr hr
      | 4 =>
        intro p hp
        have hp' : p ∈ s.segs := by simpa [walClean] using hp
        rcases h p hp' with hw | hr
        · obtain ⟨w, hw, hh⟩ := keep p (Or.inl (by omega)) hw
          exact Or.inl ⟨w, by simp [hw], hh⟩
        · exact Or.inr (by simpa [walClean] using hr)
      | n + 5 =>
        intro p hp
        rcases h p hp with hw | hr
        · obtain ⟨w, hw, hh⟩ := keep p (Or.inl (by omega)) hw
          exact Or.inl ⟨w, hw, hh⟩
        · exact Or.inr hr

theorem drain_indexed (n : Nat) : ∀ {s : Shard}, Indexed s → Indexed (drain n s) := by
  induction n with
  | zero => intro s h; exact h
  | succ n ih =>
    intro s h
    unfold drain
    split
    · exact h
    · exact ih (flushStep_indexed h)

/-- With no job queued every directory is served by a restart. -/
theorem indexed_served {s : Shard} (h : Indexed s) (hj : s.jobs = []) :
    ∀ p ∈ s.segs, Served s p.1 := by
  intro p hp _
  rcases h p hp with ⟨j, hjm, _⟩ | ⟨_, ent, hent, he⟩
  · rw [hj] at hjm; simp at hjm
  · exact ⟨ent, hent, he⟩

theorem restart_indexed {s : Shard} (h : Indexed s) (hj : s.jobs = []) : Indexed (restart (crash s)) := by
  intro p hp
  have hp' : p ∈ s.segs := by simpa [restart, crash] using hp
  rcases h p hp' with ⟨j, hjm, _⟩ | ⟨hex, ent, hent, he⟩
  · rw [hj] at hjm; simp at hjm
  · obtain ⟨hi, hx⟩ := restart_index_of_exists hex
    exact Or.inr ⟨hx, ent, by rw [hi]; exact hent, he⟩

/-! ## The index file exists from the first start on -/

theorem store_indexExists (s : Shard) (e : Ev) : (store s e).indexExists = s.indexExists := by
  have h := walAppend_indexExists s e
  unfold store
  simp only
  split <;> simp [rotate, h]

theorem flushStep_indexExists {s : Shard} (h : s.indexExists = true) : (flushStep s).indexExists = true := by
  unfold flushStep
  cases s.jobs with
  | nil => exact h
  | cons j rest =>
    simp only
    split
    · exact h
    · split <;> simp [walClean, h]

theorem drain_indexExists (n : Nat) : ∀ {s : Shard}, s.indexExists = true → (drain n s).indexExists = true := by
  induction n with
  | zero => intro s h; exact h
  | succ n ih =>
    intro s h
    unfold drain
    split
    · exact h
    · exact ih (flushStep_indexExists h)

theorem step_indexExists {s : Shard} (o : Op) (h : s.indexExists = true) : (step s o).indexExists = true := by
  cases o with
  | store e => simpa [step, store_indexExists] using h
  | flushCmd => exact drain_indexExists _ (by simpa [flushCmd, rotate] using h)
  | flushStep => exact flushStep_indexExists h
  | drain => exact drain_indexExists _ h
  | crash => exact (restart_index_of_exists h).2
  | shutdown =>
    have h0 : (drainAll s).indexExists = true := drain_indexExists _ h
    have h1 : (shutdown s).indexExists = true :=
      drain_indexExists _ (by simpa [flushCmd, rotate] using h0)
    exact (restart_index_of_exists h1).2

theorem runOps_indexExists (ops : List Op) : ∀ {s : Shard}, s.indexExists = true → (runOps s ops).indexExists = true := by
  induction ops with
  | nil => intro s h; exact h
  | cons o ops ih => intro s h; simpa [runOps] using ih (step_indexExists o h)

end Snel.Shard
