import Snel.Model.Route
import Snel.Lemmas.IdGen
/-! Helper lemmas for C12 (routing, locality invariant, fan-out of reads). -/
namespace Snel.Route
open Snel.IdGen Snel.Gen

/-! ### routing -/

theorem route_lt (ctx : Ctx) {n : Nat} (hn : 0 < n) : route ctx n < n := Nat.mod_lt _ hn

/-! ### the id generator puts the tag it is given into every id, whatever the clock does -/

theorem seq_lt_seqMod (q : Nat) : (q + 1) % 65536 % seqMod < seqMod :=
  Nat.mod_lt _ (by unfold seqMod; exact Nat.two_pow_pos _)

theorem tagOf_compose (m sh q : Nat) (hq : q < seqMod) : tagOf (compose m sh q) = sh % shardMod := by
  rw [compose_eq _ _ _ hq, tagOf_composeA _ _ _ hq]

theorem step_tag {g g' : Gen} {clk clk' : List Nat} {sh id : Nat}
    (h : step g clk sh = some (id, g', clk')) : tagOf id = sh % shardMod := by
  have hpos : 0 < seqMod := by unfold seqMod; exact Nat.two_pow_pos _
  cases clk with
  | nil => simp [step] at h
  | cons now rest =>
    simp only [step] at h
    repeat' split at h
    all_goals first
      | (simp at h; done)
      | (simp only [Option.some.injEq, Prod.mk.injEq] at h
         obtain ⟨rfl, _, _⟩ := h
         first
           | exact tagOf_compose _ _ _ hpos
           | exact tagOf_compose _ _ _ (seq_lt_seqMod _))

/-! ### list facts -/

theorem flatMap_single {α β : Type} (f : α → List β) :
    ∀ (l : List α) (i : Nat) (x : α), l[i]? = some x →
      (∀ j y, l[j]? = some y → j ≠ i → f y = []) → l.flatMap f = f x := by
  intro l
  induction l with
  | nil => intro i x h; simp at h
  | cons a as ih =>
    intro i x hx hoth
    cases i with
    | zero =>
      simp only [List.getElem?_cons_zero, Option.some.injEq] at hx
      subst hx
      have : as.flatMap f = [] := by
        rw [List.flatMap_eq_nil_iff]
        intro y hy
        obtain ⟨j, hj⟩ := List.getElem?_of_mem hy
        exact hoth (j + 1) y (by simpa using hj) (by omega)
      simp [List.flatMap_cons, this]
    | succ k =>
      have ha : f a = [] := hoth 0 a (by simp) (by omega)
      have hx' : as[k]? = some x := by simpa using hx
      have := ih k x hx' (fun j y hj hne => hoth (j + 1) y (by simpa using hj) (by omega))
      simp [List.flatMap_cons, ha, this]

theorem flatMap_set_append {α β : Type} (f : α → List β) (e : β) :
    ∀ (l : List α) (i : Nat) (x x' : α), l[i]? = some x → f x' = f x ++ [e] →
      ((l.set i x').flatMap f).Perm (l.flatMap f ++ [e]) := by
  intro l
  induction l with
  | nil => intro i x x' h; simp at h
  | cons a as ih =>
    intro i x x' hx hf
    cases i with
    | zero =>
      simp only [List.getElem?_cons_zero, Option.some.injEq] at hx
      subst hx
      simp only [List.set_cons_zero, List.flatMap_cons, hf, List.append_assoc]
      exact List.Perm.append_left _ List.perm_append_comm
    | succ k =>
      have hx' : as[k]? = some x := by simpa using hx
      simp only [List.set_cons_succ, List.flatMap_cons, List.append_assoc]
      exact List.Perm.append_left _ (ih k x x' hx' hf)

/-! ### the response writer's de-duplication -/

theorem dedupIds_sublist : ∀ (l : List Ev) (seen : List Nat), (dedupIds l seen).Sublist l := by
  intro l
  induction l with
  | nil => intro seen; simp [dedupIds]
  | cons x xs ih =>
    intro seen
    simp only [dedupIds]
    split
    · exact (ih seen).trans (List.sublist_cons_self _ _)
    · exact (ih _).cons_cons _

/-- No id is lost: every id that arrives (and was not seen before) is in the response. -/
theorem dedupIds_ids : ∀ (l : List Ev) (seen : List Nat) (e : Ev), e ∈ l → e.id ∉ seen →
    ∃ e' ∈ dedupIds l seen, e'.id = e.id := by
  intro l
  induction l with
  | nil => intro seen e h; simp at h
  | cons x xs ih =>
    intro seen e he hs
    simp only [dedupIds]
    split
    · rename_i hx
      have : e ∈ xs := by
        rcases List.mem_cons.mp he with rfl | h
        · exact absurd hx hs
        · exact h
      exact ih seen e this hs
    · by_cases hid : e.id = x.id
      · exact ⟨x, by simp, hid.symm⟩
      · have : e ∈ xs := by
          rcases List.mem_cons.mp he with rfl | h
          · exact absurd rfl hid
          · exact h
        obtain ⟨e', h1, h2⟩ := ih (x.id :: seen) e this (by simp [hid, hs])
        exact ⟨e', by simp [h1], h2⟩

/-- With pairwise distinct ids nothing is dropped. -/
theorem dedupIds_eq_self : ∀ (l : List Ev) (seen : List Nat), (l.map Ev.id).Nodup →
    (∀ e ∈ l, e.id ∉ seen) → dedupIds l seen = l := by
  intro l
  induction l with
  | nil => intro seen _ _; simp [dedupIds]
  | cons x xs ih =>
    intro seen hnd hs
    simp only [List.map_cons, List.nodup_cons] at hnd
    simp only [dedupIds]
    rw [if_neg (hs x (by simp))]
    congr 1
    apply ih _ hnd.2
    intro e he
    simp only [List.mem_cons, not_or]
    refine ⟨?_, hs e (by simp [he])⟩
    intro heq
    exact hnd.1 (by rw [← heq]; exact List.mem_map_of_mem he)

/-- Each id appears at most once in a response. -/
theorem dedupIds_nodup : ∀ (l : List Ev) (seen : List Nat),
    ((dedupIds l seen).map Ev.id).Nodup ∧ ∀ e ∈ dedupIds l seen, e.id ∉ seen := by
  intro l
  induction l with
  | nil => intro seen; simp [dedupIds]
  | cons x xs ih =>
    intro seen
    simp only [dedupIds]
    split
    · exact ih seen
    · rename_i hx
      obtain ⟨h1, h2⟩ := ih (x.id :: seen)
      refine ⟨?_, ?_⟩
      · simp only [List.map_cons, List.nodup_cons]
        refine ⟨?_, h1⟩
        intro hmem
        obtain ⟨e, he, heq⟩ := List.mem_map.mp hmem
        exact h2 e he (by simp [heq])
      · intro e he
        rcases List.mem_cons.mp he with rfl | h
        · exact hx
        · intro hs; exact h2 e h (by simp [hs])

/-! ### the invariant of the system -/

/-- Events of context `c` held by the shard `c` routes to. -/
def homeEvents (s : System) (c : Ctx) : List Ev :=
  match s.shards[route c s.shards.length]? with
  | some sh => sh.events.filter fun e => e.ctx == c
  | none => []

/-- All events held by any shard, in shard order. -/
def allEvents (s : System) : List Ev := s.shards.flatMap Shard.events

structure Inv (n : Nat) (s : System) : Prop where
  len : s.shards.length = n
  /-- locality: whatever a shard holds routes to it, carries its tag, has a non-blank context -/
  home : ∀ i sh, s.shards[i]? = some sh → ∀ e ∈ sh.events,
      route e.ctx n = i ∧ tagOf e.id = tagArg i % shardMod ∧ blank e.ctx = false
  /-- per context, the accepted STOREs in order are what the home shard holds, in order -/
  perCtx : ∀ c, s.applied.filter (fun e => e.ctx == c) = homeEvents s c
  /-- globally, the accepted STOREs are what the shards hold together -/
  perm : s.applied.Perm (allEvents s)

theorem inv_init (n : Nat) : Inv n (System.init n) := by
  refine ⟨by simp [System.init], ?_, ?_, ?_⟩
  · intro i sh h e he
    simp only [System.init, List.getElem?_replicate] at h
    split at h
    · simp only [Option.some.injEq] at h; subst h; simp at he
    · simp at h
  · intro c
    simp only [System.init, homeEvents, List.filter_nil, List.length_replicate, List.getElem?_replicate]
    split <;> rename_i h
    · split at h
      · simp only [Option.some.injEq] at h; subst h; simp
      · simp at h
    · rfl
  · simp only [System.init, allEvents]
    have : (List.replicate n (⟨Gen.init, []⟩ : Shard)).flatMap Shard.events = [] := by
      rw [List.flatMap_eq_nil_iff]
      intro y hy
      rw [List.eq_of_mem_replicate hy]
    rw [this]

theorem inv_restart {n : Nat} {s : System} (h : Inv n s) : Inv n s.restart := by
  refine ⟨by simp [System.restart, h.len], ?_, ?_, ?_⟩
  · intro i sh hi e he
    simp only [System.restart, List.getElem?_map, Option.map_eq_some_iff] at hi
    obtain ⟨sh0, h0, rfl⟩ := hi
    exact h.home i sh0 h0 e he
  · intro c
    have := h.perCtx c
    simp only [System.restart, homeEvents, List.length_map, List.getElem?_map] at this ⊢
    rw [this]
    cases s.shards[route c s.shards.length]? <;> rfl
  · have : allEvents s.restart = allEvents s := by
      simp only [allEvents, System.restart, List.flatMap_map]
    rw [this]; exact h.perm

theorem inv_store {n : Nat} {s : System} (h : Inv n s) (ctx : Ctx) (key : Nat) (clk : List Nat) :
    Inv n (s.store ctx key clk) := by
  unfold System.store
  split
  · exact h
  · rename_i hb
    simp only
    split
    · exact h
    · rename_i sh hsh
      split
      · exact h
      · rename_i id g clk' hstep
        have hlen := h.len
        have hi : route ctx s.shards.length < s.shards.length := by
          have := (List.getElem?_eq_some_iff.mp hsh).1; exact this
        refine ⟨by simp [hlen], ?_, ?_, ?_⟩
        · intro j shj hj e he
          by_cases hij : route ctx s.shards.length = j
          · subst hij
            rw [List.getElem?_set_self hi] at hj
            simp only [Option.some.injEq] at hj
            subst hj
            rcases List.mem_append.mp he with he | he
            · exact h.home _ sh hsh e he
            · simp only [List.mem_singleton] at he
              subst he
              refine ⟨by rw [hlen], step_tag hstep, by simpa using hb⟩
          · rw [List.getElem?_set_ne hij] at hj
            exact h.home j shj hj e he
        · intro c
          simp only [homeEvents, List.length_set, List.filter_append]
          rw [h.perCtx c]
          by_cases hc : route ctx s.shards.length = route c s.shards.length
          · rw [← hc, List.getElem?_set_self hi]
            simp only [homeEvents, ← hc, hsh, List.filter_append]
          · rw [List.getElem?_set_ne hc]
            have : ((⟨ctx, id, key⟩ : Ev).ctx == c) = false := by
              simp only [beq_eq_false_iff_ne, ne_eq]
              intro heq; exact hc (by rw [heq])
            simp [homeEvents, this]
        · simp only [allEvents]
          refine (List.Perm.append_right _ h.perm).trans (List.Perm.symm ?_)
          exact flatMap_set_append Shard.events _ _ _ sh _ hsh rfl

theorem inv_run {n : Nat} (ops : List Op) : ∀ {s : System}, Inv n s → Inv n (s.run ops) := by
  induction ops with
  | nil => intro s h; exact h
  | cons op ops ih =>
    intro s h
    simp only [System.run, List.foldl_cons]
    apply ih
    cases op with
    | store c k clk => exact inv_store h c k clk
    | restart => exact inv_restart h

theorem inv_reach (n : Nat) (ops : List Op) : Inv n ((System.init n).run ops) :=
  inv_run ops (inv_init n)

/-! ### reads under the invariant -/

/-- A scoped query is answered with rows only by the home shard. -/
theorem arrivals_scoped {n : Nat} {s : System} (h : Inv n s) (c : Ctx) :
    s.arrivals (some c) = homeEvents s c := by
  unfold System.arrivals homeEvents
  cases hx : s.shards[route c s.shards.length]? with
  | none =>
    simp only
    rw [List.flatMap_eq_nil_iff]
    intro sh hsh
    -- no shard at the home index means there are no shards at all
    have hlen : s.shards.length = 0 := by
      rcases Nat.eq_zero_or_pos s.shards.length with h0 | hpos
      · exact h0
      · have := route_lt c hpos
        rw [List.getElem?_eq_none_iff] at hx
        omega
    have : s.shards = [] := List.eq_nil_of_length_eq_zero hlen
    rw [this] at hsh; simp at hsh
  | some x =>
    simp only
    have := flatMap_single (Shard.answer (some c)) s.shards _ x hx (by
      intro j y hj hne
      simp only [Shard.answer]
      rw [List.filter_eq_nil_iff]
      intro e he
      have := (h.home j y hj e he).1
      simp only [beq_iff_eq]
      intro heq
      apply hne
      rw [← this, heq, h.len])
    rw [this]; rfl

theorem arrivals_unscoped (s : System) : s.arrivals none = allEvents s := rfl

/-- An applied event sits in the shard its context routes to. -/
theorem applied_home {n : Nat} {s : System} (h : Inv n s) {e : Ev} (he : e ∈ s.applied) :
    ∃ sh, s.shards[route e.ctx n]? = some sh ∧ e ∈ sh.events := by
  have hm : e ∈ s.applied.filter (fun x => x.ctx == e.ctx) := by simp [he]
  rw [h.perCtx e.ctx] at hm
  unfold homeEvents at hm
  rw [h.len] at hm
  split at hm
  · rename_i sh hsh
    exact ⟨sh, hsh, (List.mem_filter.mp hm).1⟩
  · simp at hm

/-! ### one lifetime, clock inside the id window: ids are pairwise distinct -/

/-- Per-shard order invariant of a single lifetime. -/
structure ShardOk (i : Nat) (sh : Shard) : Prop where
  gen : GenOk sh.gen
  sorted : (sh.events.map Ev.id).Pairwise (· < ·)
  bound : ∀ e ∈ sh.events, InRange sh.gen.last ∧ e.id ≤ composeA sh.gen.last (tagArg i) sh.gen.seq

def Mono (s : System) : Prop := ∀ i sh, s.shards[i]? = some sh → ShardOk i sh

theorem mono_init (n : Nat) : Mono (System.init n) := by
  intro i sh h
  simp only [System.init, List.getElem?_replicate] at h
  split at h
  · simp only [Option.some.injEq] at h; subst h
    exact ⟨init_ok, by simp, by simp⟩
  · simp at h

theorem mono_store {s : System} (h : Mono s) (ctx : Ctx) (key : Nat) (clk : List Nat)
    (hclk : ∀ r ∈ clk, InRange r) : Mono (s.store ctx key clk) := by
  unfold System.store
  split
  · exact h
  · simp only
    split
    · exact h
    · rename_i sh hsh
      split
      · exact h
      · rename_i id g clk' hstep
        have hi : route ctx s.shards.length < s.shards.length := (List.getElem?_eq_some_iff.mp hsh).1
        have hok := h _ sh hsh
        obtain ⟨hg', hin', hid, _, hprev⟩ := step_spec hok.gen hclk hstep
        intro j shj hj
        by_cases hij : route ctx s.shards.length = j
        · subst hij
          rw [List.getElem?_set_self hi] at hj
          simp only [Option.some.injEq] at hj
          subst hj
          have hlt : ∀ e ∈ sh.events, e.id < id := by
            intro e he
            obtain ⟨hr, hle⟩ := hok.bound e he
            exact Nat.lt_of_le_of_lt hle (hprev hr)
          refine ⟨hg', ?_, ?_⟩
          · simp only [List.map_append, List.map_cons, List.map_nil]
            rw [List.pairwise_append]
            refine ⟨hok.sorted, by simp, ?_⟩
            intro a ha b hb
            simp only [List.mem_singleton] at hb
            subst hb
            obtain ⟨e, he, rfl⟩ := List.mem_map.mp ha
            exact hlt e he
          · intro e he
            refine ⟨hin', ?_⟩
            rcases List.mem_append.mp he with he | he
            · exact Nat.le_of_lt (by rw [← hid]; exact hlt e he)
            · simp only [List.mem_singleton] at he
              subst he
              exact Nat.le_of_eq hid
        · rw [List.getElem?_set_ne hij] at hj
          exact h j shj hj

def NoRestart (ops : List Op) : Prop := ∀ op ∈ ops, op ≠ Op.restart

def ClocksInRange (ops : List Op) : Prop :=
  ∀ c k clk, Op.store c k clk ∈ ops → ∀ r ∈ clk, InRange r

theorem mono_run (ops : List Op) : ∀ {s : System}, Mono s → NoRestart ops → ClocksInRange ops →
    Mono (s.run ops) := by
  induction ops with
  | nil => intro s h _ _; exact h
  | cons op ops ih =>
    intro s h hnr hcr
    simp only [System.run, List.foldl_cons]
    apply ih
    · cases op with
      | store c k clk => exact mono_store h c k clk (hcr c k clk (by simp))
      | restart => exact absurd rfl (hnr _ (by simp))
    · intro op hop; exact hnr op (by simp [hop])
    · intro c k clk hop; exact hcr c k clk (by simp [hop])

/-- Ids of everything the shards hold are pairwise distinct when every shard's ids increase
and the tag identifies the shard (`n ≤ 2^10`). -/
theorem allEvents_ids_nodup {n : Nat} {s : System} (hinv : Inv n s) (hm : Mono s)
    (hn : n ≤ 2 ^ idShardBits) : ((allEvents s).map Ev.id).Nodup := by
  unfold List.Nodup allEvents
  rw [List.pairwise_map, List.pairwise_flatMap]
  constructor
  · intro sh hsh
    obtain ⟨i, hi⟩ := List.getElem?_of_mem hsh
    have := (hm i sh hi).sorted
    rw [List.pairwise_map] at this
    exact this.imp (fun h => Nat.ne_of_lt h)
  · rw [List.pairwise_iff_getElem]
    intro i j hi hj hij x hx y hy heq
    have hx' := (hinv.home i _ (List.getElem?_eq_getElem hi) x hx).2.1
    have hy' := (hinv.home j _ (List.getElem?_eq_getElem hj) y hy).2.1
    rw [heq, hy'] at hx'
    have h1024 : (2 : Nat) ^ idShardBits = 1024 := by unfold idShardBits; rfl
    have hlen := hinv.len
    simp only [tagArg, shardMod, h1024, Snel.Gen.C12.shardTagCastBits] at hx' hn
    omega

/-! ### reads planned with a per-shard zone map -/

theorem answer_eq_filter (q : Option Ctx) (sh : Shard) :
    Shard.answer q sh = sh.events.filter (qmatches q) := by
  cases q with
  | none =>
    have : qmatches none = fun _ => true := rfl
    simp only [Shard.answer, this]
    induction sh.events with
    | nil => rfl
    | cons x xs ih => simp [← ih]
  | some c => rfl

theorem mem_arrivals_iff (s : System) (q : Option Ctx) (e : Ev) :
    e ∈ s.arrivals q ↔ ∃ (i : Nat) (sh : Shard), s.shards[i]? = some sh ∧ e ∈ sh.events ∧ qmatches q e = true := by
  unfold System.arrivals
  rw [List.mem_flatMap]
  constructor
  · rintro ⟨sh, hsh, he⟩
    obtain ⟨i, hi⟩ := List.getElem?_of_mem hsh
    rw [answer_eq_filter, List.mem_filter] at he
    exact ⟨i, sh, hi, he.1, he.2⟩
  · rintro ⟨i, sh, hi, he, hq⟩
    refine ⟨sh, List.mem_of_getElem? hi, ?_⟩
    rw [answer_eq_filter, List.mem_filter]
    exact ⟨he, hq⟩

theorem mem_arrivalsPlan_iff (t : Tiered) (q : Option Ctx) (zm : ZoneMap) (e : Ev) :
    e ∈ t.arrivalsPlan q zm ↔
      ∃ (i : Nat) (sh : Shard), t.sys.shards[i]? = some sh ∧ e ∈ sh.answerPlan q zm i (t.flushedOf i) := by
  unfold Tiered.arrivalsPlan Tiered.askedPlan
  rw [List.mem_flatMap]
  constructor
  · rintro ⟨i, _, he⟩
    split at he
    · rename_i sh hsh; exact ⟨i, sh, hsh, he⟩
    · simp at he
  · rintro ⟨i, sh, hsh, he⟩
    refine ⟨i, List.mem_range.mpr (List.getElem?_eq_some_iff.mp hsh).1, ?_⟩
    rw [hsh]; exact he

/-- A row a shard sends under a zone map is a row it would send without one. -/
theorem answerPlan_subset (q : Option Ctx) (zm : ZoneMap) (i f : Nat) (sh : Shard) (e : Ev)
    (he : e ∈ sh.answerPlan q zm i f) : e ∈ sh.events ∧ qmatches q e = true := by
  unfold Shard.answerPlan at he
  split at he
  · exact List.mem_filter.mp he
  · split at he
    · rw [List.mem_filter, List.mem_append] at he
      refine ⟨?_, he.2⟩
      rcases he.1 with h | h
      · exact List.mem_of_mem_take (List.mem_filter.mp h).1
      · exact List.mem_of_mem_drop h
    · rw [List.mem_filter] at he
      exact ⟨List.mem_of_mem_drop he.1, he.2⟩

/-- In-memory rows are sent under every zone map — also by a shard the map does not mention. -/
theorem answerPlan_mem (q : Option Ctx) (zm : ZoneMap) (i f : Nat) (sh : Shard) (e : Ev)
    (he : e ∈ sh.memRows f) (hq : qmatches q e = true) : e ∈ sh.answerPlan q zm i f := by
  unfold Shard.answerPlan
  split
  · exact List.mem_filter.mpr ⟨List.mem_of_mem_drop he, hq⟩
  · split
    · exact List.mem_filter.mpr ⟨List.mem_append.mpr (Or.inr he), hq⟩
    · exact List.mem_filter.mpr ⟨he, hq⟩

/-- The zone map lets the flushed row `e` of shard `i` through. -/
def ZoneMapAllows (zm : ZoneMap) (i : Nat) (e : Ev) : Prop :=
  match zm with
  | none => True
  | some m => ∃ allowed, m.lookup i = some allowed ∧ allowed e = true

theorem answerPlan_seg (q : Option Ctx) (zm : ZoneMap) (i f : Nat) (sh : Shard) (e : Ev)
    (he : e ∈ sh.segRows f) (hq : qmatches q e = true) (ha : ZoneMapAllows zm i e) :
    e ∈ sh.answerPlan q zm i f := by
  unfold Shard.answerPlan
  cases zm with
  | none => exact List.mem_filter.mpr ⟨List.mem_of_mem_take he, hq⟩
  | some m =>
    obtain ⟨allowed, hl, hall⟩ := ha
    simp only [hl]
    exact List.mem_filter.mpr ⟨List.mem_append.mpr (Or.inl (List.mem_filter.mpr ⟨he, hall⟩)), hq⟩

theorem mem_seg_or_mem (sh : Shard) (f : Nat) (e : Ev) (he : e ∈ sh.events) :
    e ∈ sh.segRows f ∨ e ∈ sh.memRows f := by
  unfold Shard.segRows Shard.memRows
  rw [← List.take_append_drop f sh.events] at he
  exact List.mem_append.mp he

end Snel.Route
