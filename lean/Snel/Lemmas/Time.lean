import Snel.Model.Time
/-! Helper lemmas for C16 (time normalisation). Core Lean only. -/
namespace Snel.Time

/-! ## Calendar -/

/-- The intermediate quantities of `civilFromDays`, with the facts the proofs need. -/
structure CivilParts (z : Int) where
  era : Int
  c : Int
  q : Int
  yy : Int
  doy : Int
  mp : Int
  hz : z + 719468 = era * 146097 + c * 36524 + q * 1461 + yy * 365 + doy
  hc : 0 ≤ c ∧ c ≤ 3
  hq : 0 ≤ q ∧ q ≤ 24
  hyy : 0 ≤ yy ∧ yy ≤ 3
  hdoy : 0 ≤ doy ∧ doy ≤ 365
  /-- day 365 of a March-based year exists only before a leap February -/
  hleap : doy = 365 → yy = 3 ∧ (q < 24 ∨ c = 3)
  hmp : mp = (5 * doy + 2) / 153
  heq : civilFromDays z =
    (c * 100 + q * 4 + yy + era * 400 + (if (if mp < 10 then mp + 3 else mp - 9) ≤ 2 then 1 else 0),
     (if mp < 10 then mp + 3 else mp - 9).toNat,
     (doy - (153 * mp + 2) / 5 + 1).toNat)

theorem civilParts (z : Int) : Nonempty (CivilParts z) := by
  let z' := z + 719468
  let era := z' / 146097
  let doe := z' - era * 146097
  let c := if doe / 36524 < 3 then doe / 36524 else 3
  let doc := doe - c * 36524
  let q := doc / 1461
  let doq := doc - q * 1461
  let yy := if doq / 365 < 3 then doq / 365 else 3
  let doy := doq - yy * 365
  have hdoe : 0 ≤ doe ∧ doe < 146097 := by omega
  have hcdef : (doe / 36524 < 3 ∧ c = doe / 36524) ∨ (¬ doe / 36524 < 3 ∧ c = 3) := by
    by_cases h : doe / 36524 < 3
    · left; exact ⟨h, if_pos h⟩
    · right; exact ⟨h, if_neg h⟩
  have hc : 0 ≤ c ∧ c ≤ 3 := by omega
  have hdoc : 0 ≤ doc ∧ doc ≤ 36524 ∧ (doc = 36524 → c = 3) := by omega
  have hq : 0 ≤ q ∧ q ≤ 24 := by omega
  have hdoq : 0 ≤ doq ∧ doq ≤ 1460 ∧ (doq = 1460 → q < 24 ∨ c = 3) := by omega
  have hyydef : (doq / 365 < 3 ∧ yy = doq / 365) ∨ (¬ doq / 365 < 3 ∧ yy = 3) := by
    by_cases h : doq / 365 < 3
    · left; exact ⟨h, if_pos h⟩
    · right; exact ⟨h, if_neg h⟩
  have hyy : 0 ≤ yy ∧ yy ≤ 3 := by omega
  have hdoy : 0 ≤ doy ∧ doy ≤ 365 ∧ (doy = 365 → yy = 3 ∧ doq = 1460) := by omega
  exact ⟨{ era := era, c := c, q := q, yy := yy, doy := doy, mp := (5 * doy + 2) / 153,
           hz := by omega, hc := hc, hq := hq, hyy := hyy, hdoy := ⟨hdoy.1, hdoy.2.1⟩,
           hleap := fun h => ⟨(hdoy.2.2 h).1, hdoq.2.2 (hdoy.2.2 h).2⟩, hmp := rfl, heq := rfl }⟩

theorem CivilParts.mp_bounds {z : Int} (p : CivilParts z) : 0 ≤ p.mp ∧ p.mp ≤ 11 := by
  have := p.hdoy; have := p.hmp; omega

/-- `daysFromCivil` undoes `civilFromDays` — for every day number. -/
theorem daysFromCivil_civilFromDays (z : Int) :
    daysFromCivil (civilFromDays z).1 (civilFromDays z).2.1 (civilFromDays z).2.2 = z := by
  obtain ⟨p⟩ := civilParts z
  rw [p.heq]
  have h1 := p.hz; have h2 := p.hc; have h3 := p.hq; have h4 := p.hyy; have h5 := p.hdoy
  have h6 := p.hmp; have h7 := p.mp_bounds
  unfold daysFromCivil
  simp only []
  by_cases h : p.mp < 10
  · simp only [h, if_true]
    have e1 : ¬ ((p.mp + 3).toNat ≤ 2) := by omega
    have e2 : ¬ (p.mp + 3 ≤ 2) := by omega
    simp only [e1, e2, if_false]
    omega
  · simp only [h, if_false]
    have e1 : (p.mp - 9).toNat ≤ 2 := by omega
    have e2 : p.mp - 9 ≤ 2 := by omega
    simp only [e1, e2, if_true]
    omega

theorem isLeap_iff (y : Int) : isLeap y = true ↔ (y % 4 = 0 ∧ y % 100 ≠ 0) ∨ y % 400 = 0 := by
  unfold isLeap
  simp [Bool.or_eq_true, Bool.and_eq_true, bne_iff_ne]

/-- The date `civilFromDays` returns exists: month 1–12, day 1–length of that month. -/
theorem civilFromDays_valid (z : Int) :
    1 ≤ (civilFromDays z).2.1 ∧ (civilFromDays z).2.1 ≤ 12 ∧ 1 ≤ (civilFromDays z).2.2 ∧
      (civilFromDays z).2.2 ≤ daysInMonth (civilFromDays z).1 (civilFromDays z).2.1 := by
  obtain ⟨p⟩ := civilParts z
  rw [p.heq]
  have h2 := p.hc; have h3 := p.hq; have h4 := p.hyy; have h5 := p.hdoy
  have h6 := p.hmp; have h7 := p.mp_bounds; have h8 := p.hleap
  simp only []
  by_cases h : p.mp < 10
  · simp only [h, if_true]
    have e2 : ¬ (p.mp + 3 ≤ 2) := by omega
    simp only [e2, if_false]
    refine ⟨by omega, by omega, by omega, ?_⟩
    unfold daysInMonth
    have hm : (p.mp + 3).toNat ≠ 2 := by omega
    simp only [hm, if_false]
    split <;> omega
  · simp only [h, if_false]
    have e2 : p.mp - 9 ≤ 2 := by omega
    simp only [e2, if_true]
    refine ⟨by omega, by omega, by omega, ?_⟩
    unfold daysInMonth
    by_cases hm : (p.mp - 9).toNat = 2
    · simp only [hm, if_true]
      have hmp11 : p.mp = 11 := by omega
      by_cases hl : isLeap (p.c * 100 + p.q * 4 + p.yy + p.era * 400 + 1) = true
      · simp only [hl, if_true]; omega
      · simp only [hl]
        have hn : ¬ p.doy = 365 := by
          intro hd
          apply hl
          rw [isLeap_iff]
          have := h8 hd
          omega
        simp only [Bool.false_eq_true, if_false]
        omega
    · simp only [hm, if_false]
      split <;> omega

/-! ## Digits and scanners -/

theorem digit_table : ∀ k : Fin 10, isDigit (Char.ofNat (48 + k.val)) = true ∧
    digitVal (Char.ofNat (48 + k.val)) = k.val ∧ isWs (Char.ofNat (48 + k.val)) = false := by decide

theorem isDigit_digitChar (d : Nat) : isDigit (digitChar d) = true :=
  (digit_table ⟨d % 10, Nat.mod_lt _ (by decide)⟩).1

theorem digitVal_digitChar (d : Nat) : digitVal (digitChar d) = d % 10 :=
  (digit_table ⟨d % 10, Nat.mod_lt _ (by decide)⟩).2.1

theorem isWs_digitChar (d : Nat) : isWs (digitChar d) = false :=
  (digit_table ⟨d % 10, Nat.mod_lt _ (by decide)⟩).2.2

theorem num2_pad2 (n : Nat) (r : List Char) (h : n < 100) :
    num2 (digitChar (n / 10) :: digitChar n :: r) = some (n, r) := by
  simp only [num2, isDigit_digitChar, digitVal_digitChar, Bool.and_self, if_true]
  congr 2
  omega

theorem num4_pad4 (n : Nat) (r : List Char) (h : n < 10000) :
    num4 (digitChar (n / 1000) :: digitChar (n / 100) :: digitChar (n / 10) :: digitChar n :: r)
      = some (n, r) := by
  simp only [num4, isDigit_digitChar, digitVal_digitChar, Bool.and_self, if_true]
  congr 2
  omega

theorem expect_cons (c : Char) (r : List Char) : expect c (c :: r) = some r := by
  simp [expect]

theorem dropDigits_append (f rest : List Char) (hf : f.all isDigit = true)
    (hr : ∀ c r, rest = c :: r → isDigit c = false) : dropDigits (f ++ rest) = rest := by
  induction f with
  | nil =>
    cases rest with
    | nil => rfl
    | cons c r => simp [dropDigits, hr c r rfl]
  | cons a f ih =>
    simp only [List.all_cons, Bool.and_eq_true] at hf
    simp [dropDigits, hf.1, ih hf.2]

theorem skipFraction_fmt (f rest : List Char) (hf : f.all isDigit = true)
    (hr : ∀ c r, rest = c :: r → isDigit c = false ∧ c ≠ '.') :
    skipFraction ((if f.isEmpty then [] else '.' :: f) ++ rest) = some rest := by
  cases f with
  | nil =>
    simp only [List.isEmpty_nil, if_true, List.nil_append]
    cases rest with
    | nil => rfl
    | cons c r =>
      have := (hr c r rfl).2
      unfold skipFraction
      split
      · rename_i heq; cases heq; exact absurd rfl this
      · rfl
  | cons a f =>
    simp only [List.all_cons, Bool.and_eq_true] at hf
    simp only [List.isEmpty_cons, Bool.false_eq_true, if_false, List.cons_append, skipFraction, hf.1, if_true]
    rw [dropDigits_append f rest hf.2 (fun c r h => (hr c r h).1)]

theorem parseOffset_num (c : Char) (hc : c = '+' ∨ c = '-' ∨ c = '−') (a : Nat) (ha : a ≤ 1439) :
    parseOffset (c :: digitChar (a / 60 / 10) :: digitChar (a / 60) :: ':' ::
        digitChar (a % 60 / 10) :: digitChar (a % 60) :: [])
      = some (if c == '+' then ((a * 60 : Nat) : Int) else -((a * 60 : Nat) : Int), []) := by
  have h3 : a % 60 / 10 % 10 ≤ 5 := by omega
  rcases hc with rfl | rfl | rfl <;>
    simp [parseOffset, isDigit_digitChar, digitVal_digitChar, h3] <;> omega

theorem parseOffset_zulu (z : Char) (hz : z = 'Z' ∨ z = 'z') : parseOffset [z] = some (0, []) := by
  rcases hz with rfl | rfl <;> simp [parseOffset]

/-- Reading back a string laid out as RFC 3339 fields. -/
theorem parseRfc3339_fields (y mo d hh mi ss : Nat) (sep : Char) (frac offStr : List Char) (off : Int)
    (hy : y < 10000) (hmo : mo < 100) (hd : d < 100) (hhh : hh < 100) (hmi : mi < 100) (hss : ss < 100)
    (hsep : sep = 'T' ∨ sep = 't' ∨ sep = ' ')
    (hfrac : frac.all isDigit = true)
    (hoff : parseOffset offStr = some (off, []))
    (hhead : ∀ c r, offStr = c :: r → isDigit c = false ∧ c ≠ '.') :
    parseRfc3339 (pad4 y ++ '-' :: (pad2 mo ++ '-' :: (pad2 d ++ sep :: (pad2 hh ++ ':' ::
        (pad2 mi ++ ':' :: (pad2 ss ++ ((if frac.isEmpty then [] else '.' :: frac) ++ offStr)))))))
      = if (validYmd y mo d && decide (hh ≤ 23) && decide (mi ≤ 59) && decide (ss ≤ 60)) = true then
          some (daysFromCivil y mo d * 86400 + ((hh * 3600 + mi * 60 + min ss 59 : Nat) : Int) - off)
        else none := by
  have hs : (sep == 'T' || sep == 't' || sep == ' ') = true := by
    rcases hsep with rfl | rfl | rfl <;> decide
  unfold parseRfc3339
  simp only [pad4, pad2, List.cons_append, List.nil_append, num4_pad4 _ _ hy, expect_cons,
    num2_pad2 _ _ hmo, num2_pad2 _ _ hd, num2_pad2 _ _ hhh, num2_pad2 _ _ hmi, num2_pad2 _ _ hss,
    hs, Bool.not_true, Bool.false_eq_true, if_false,
    skipFraction_fmt frac offStr hfrac hhead, hoff, List.isEmpty_nil]
  by_cases hv : (validYmd y mo d && decide (hh ≤ 23) && decide (mi ≤ 59) && decide (ss ≤ 60)) = true
  · simp only [hv, Bool.not_true, Bool.false_eq_true, if_false, if_true]
  · simp only [hv, Bool.not_false, if_true]
    simp

theorem Style.ok_iff (st : Style) : st.ok = true ↔
    (st.sep = 'T' ∨ st.sep = 't' ∨ st.sep = ' ') ∧ st.frac.all isDigit = true ∧
    (st.zulu = none ∨ st.zulu = some 'Z' ∨ st.zulu = some 'z') ∧ (st.minus = '-' ∨ st.minus = '−') := by
  unfold Style.ok
  simp only [Bool.and_eq_true, Bool.or_eq_true, beq_iff_eq]
  constructor
  · rintro ⟨⟨⟨h1, h2⟩, h3⟩, h4⟩
    exact ⟨by rcases h1 with (h | h) | h <;> simp [h], h2, by rcases h3 with (h | h) | h <;> simp [h], h4⟩
  · rintro ⟨h1, h2, h3, h4⟩
    exact ⟨⟨⟨by rcases h1 with h | h | h <;> simp [h], h2⟩, by rcases h3 with h | h | h <;> simp [h]⟩, h4⟩

theorem parseOffset_fmtOffset (offMin : Int) (st : Style) (hst : st.ok = true)
    (h : -1439 ≤ offMin ∧ offMin ≤ 1439) :
    parseOffset (fmtOffset offMin st) = some (offMin * 60, []) ∧
      ∀ c r, fmtOffset offMin st = c :: r → isDigit c = false ∧ c ≠ '.' := by
  obtain ⟨_, _, hz, hm⟩ := (Style.ok_iff st).1 hst
  unfold fmtOffset
  by_cases h0 : offMin = 0
  · subst h0
    simp only [if_true]
    rcases hz with hz | hz | hz
    · rw [hz]
      simp only [pad2]
      have key : ∀ c : Char, (c = '+' ∨ c = '-' ∨ c = '−') →
          parseOffset (c :: ([digitChar (0 / 10), digitChar 0] ++ ':' :: [digitChar (0 / 10), digitChar 0]))
            = some (0 * 60, []) ∧ (isDigit c = false ∧ c ≠ '.') := by
        intro c hc
        have := parseOffset_num c hc 0 (by omega)
        refine ⟨?_, by rcases hc with rfl | rfl | rfl <;> decide⟩
        simpa using this
      have hc : (if st.negZero = true then st.minus else '+') = '+' ∨
          (if st.negZero = true then st.minus else '+') = '-' ∨ (if st.negZero = true then st.minus else '+') = '−' := by
        split
        · rcases hm with hm | hm <;> simp [hm]
        · simp
      refine ⟨(key _ hc).1, ?_⟩
      intro c r hcr
      simp only [List.cons.injEq] at hcr
      rw [← hcr.1]
      exact (key _ hc).2
    · rw [hz]
      refine ⟨parseOffset_zulu 'Z' (Or.inl rfl), ?_⟩
      intro c r hcr
      simp only [List.cons.injEq] at hcr
      rw [← hcr.1]; decide
    · rw [hz]
      refine ⟨parseOffset_zulu 'z' (Or.inr rfl), ?_⟩
      intro c r hcr
      simp only [List.cons.injEq] at hcr
      rw [← hcr.1]; decide
  · simp only [h0, if_false, pad2]
    have ha : offMin.natAbs ≤ 1439 := by omega
    by_cases hneg : offMin < 0
    · simp only [hneg, if_true]
      have hc : st.minus = '+' ∨ st.minus = '-' ∨ st.minus = '−' := Or.inr hm
      have := parseOffset_num st.minus hc offMin.natAbs ha
      have hne : (st.minus == '+') = false := by rcases hm with hm | hm <;> simp [hm]
      refine ⟨?_, ?_⟩
      · simp only [List.cons_append, List.nil_append]
        rw [this, hne]
        simp only [Bool.false_eq_true, if_false]
        congr 2
        omega
      · intro c r hcr
        simp only [List.cons.injEq] at hcr
        rw [← hcr.1]
        rcases hm with hm | hm <;> rw [hm] <;> decide
    · simp only [hneg, if_false]
      have := parseOffset_num '+' (Or.inl rfl) offMin.natAbs ha
      refine ⟨?_, ?_⟩
      · simp only [List.cons_append, List.nil_append]
        rw [this]
        simp only [beq_self_eq_true, if_true]
        congr 2
        omega
      · intro c r hcr
        simp only [List.cons.injEq] at hcr
        rw [← hcr.1]; decide

theorem daysInMonth_le (y : Int) (m : Nat) : daysInMonth y m ≤ 31 := by
  unfold daysInMonth; split <;> (try split) <;> (try split) <;> omega

/-- Offsets RFC 3339 allows: whole minutes up to ±23:59. -/
def OffsetOk (offMin : Int) : Prop := -1439 ≤ offMin ∧ offMin ≤ 1439

instance (o : Int) : Decidable (OffsetOk o) := by unfold OffsetOk; infer_instance

/-- The local date of instant `t` at offset `offMin` has a four-digit year (0000–9999). -/
def YearOk (t offMin : Int) : Prop :=
  0 ≤ (civilFromDays ((t + offMin * 60) / 86400)).1 ∧ (civilFromDays ((t + offMin * 60) / 86400)).1 ≤ 9999

instance (t o : Int) : Decidable (YearOk t o) := by unfold YearOk; infer_instance

theorem parseRfc3339_format (t offMin : Int) (st : Style) (hst : st.ok = true)
    (hoff : OffsetOk offMin) (hy : YearOk t offMin) :
    parseRfc3339 (format t offMin st) = some t := by
  obtain ⟨hsep, hfrac, _, _⟩ := (Style.ok_iff st).1 hst
  obtain ⟨hpo, hhead⟩ := parseOffset_fmtOffset offMin st hst hoff
  have hval := civilFromDays_valid ((t + offMin * 60) / 86400)
  have hrt := daysFromCivil_civilFromDays ((t + offMin * 60) / 86400)
  unfold YearOk at hy
  simp only [format, formatBody, List.append_assoc, List.cons_append]
  generalize hcv : civilFromDays ((t + offMin * 60) / 86400) = cv at hval hrt hy ⊢
  obtain ⟨y, m, d⟩ := cv
  simp only at hval hrt hy ⊢
  have hd31 := daysInMonth_le y m
  have hsod : ((t + offMin * 60) % 86400).toNat < 86400 := by omega
  rw [parseRfc3339_fields y.toNat m d _ _ _ st.sep st.frac _ (offMin * 60) (by omega) (by omega)
    (by omega) (by omega) (by omega) (by omega) hsep hfrac hpo hhead]
  have hyy : ((y.toNat : Nat) : Int) = y := by omega
  have hv : validYmd (y.toNat : Int) m d = true := by
    rw [hyy]
    unfold validYmd minYear maxYear
    simp only [Bool.and_eq_true, decide_eq_true_eq]
    omega
  have hcond : (validYmd (y.toNat : Int) m d && decide (((t + offMin * 60) % 86400).toNat / 3600 ≤ 23)
      && decide (((t + offMin * 60) % 86400).toNat / 60 % 60 ≤ 59)
      && decide (((t + offMin * 60) % 86400).toNat % 60 ≤ 60)) = true := by
    simp only [hv, Bool.true_and, Bool.and_eq_true, decide_eq_true_eq]
    omega
  rw [if_pos hcond, hyy, hrt]
  congr 1
  omega

theorem trimStart_of_not_ws (c : Char) (r : List Char) (h : isWs c = false) :
    trimStart (c :: r) = c :: r := by
  simp [trimStart, h]

theorem trim_eq_self (s : List Char) (c₁ c₂ : Char) (r₁ r₂ : List Char)
    (h1 : s = c₁ :: r₁) (h2 : s = r₂ ++ [c₂]) (hc1 : isWs c₁ = false) (hc2 : isWs c₂ = false) :
    trim s = s := by
  unfold trim trimEnd
  rw [h1, trimStart_of_not_ws c₁ r₁ hc1, ← h1, h2]
  simp only [List.reverse_append, List.reverse_cons, List.reverse_nil, List.nil_append,
    List.singleton_append]
  rw [trimStart_of_not_ws c₂ _ hc2]
  simp

theorem fmtOffset_last (offMin : Int) (st : Style) (hst : st.ok = true) :
    ∃ r c, fmtOffset offMin st = r ++ [c] ∧ isWs c = false := by
  obtain ⟨_, _, hz, _⟩ := (Style.ok_iff st).1 hst
  unfold fmtOffset
  split
  · rcases hz with hz | hz | hz <;> rw [hz]
    · exact ⟨(if st.negZero = true then st.minus else '+') :: (pad2 0 ++ [':', digitChar (0 / 10)]),
        digitChar 0, by simp [pad2], isWs_digitChar _⟩
    · exact ⟨[], 'Z', rfl, by decide⟩
    · exact ⟨[], 'z', rfl, by decide⟩
  · exact ⟨(if offMin < 0 then st.minus else '+') :: (pad2 (offMin.natAbs / 60) ++ [':', digitChar (offMin.natAbs % 60 / 10)]),
      digitChar (offMin.natAbs % 60), by simp [pad2], isWs_digitChar _⟩

/-- The whole parser on a formatted instant. -/
theorem parseStr_format (t offMin : Int) (st : Style) (hst : st.ok = true)
    (hoff : OffsetOk offMin) (hy : YearOk t offMin) :
    parseStr (format t offMin st) = some t := by
  have htrim : trim (format t offMin st) = format t offMin st := by
    obtain ⟨r, c, hrc, hc⟩ := fmtOffset_last offMin st hst
    have h1 : ∃ r₁, format t offMin st
        = digitChar ((civilFromDays ((t + offMin * 60) / 86400)).1.toNat / 1000) :: r₁ := by
      simp only [format, formatBody, pad4, List.cons_append]
      exact ⟨_, rfl⟩
    obtain ⟨r₁, h1⟩ := h1
    exact trim_eq_self _ _ c r₁ (formatBody t offMin st ++ r) h1
      (by rw [format, hrc, List.append_assoc]) (isWs_digitChar _) hc
  unfold parseStr
  simp only [htrim, parseRfc3339_format t offMin st hst hoff hy]

/-! ## Integer epochs -/

theorem numDigitsAux_eq : ∀ (k f x : Nat), (10 ^ k ≤ x ∨ k = 0) → x < 10 ^ (k + 1) → k < f →
    numDigitsAux f x = k + 1
  | 0, f + 1, x, _, hx, _ => by
    have : x < 10 := by simpa using hx
    simp [numDigitsAux, this]
  | k + 1, f + 1, x, hlo, hx, hf => by
    have hlo' : 10 ^ (k + 1) ≤ x := by rcases hlo with h | h <;> omega
    have h10 : 10 ^ (k + 1) = 10 * 10 ^ k := by rw [Nat.pow_succ, Nat.mul_comm]
    have h10' : 10 ^ (k + 1 + 1) = 10 * 10 ^ (k + 1) := by rw [Nat.pow_succ, Nat.mul_comm]
    have hp : 0 < 10 ^ k := Nat.pow_pos (by decide)
    have hge : ¬ x < 10 := by omega
    have ih := numDigitsAux_eq k f (x / 10) (Or.inl (by omega)) (by omega) (by omega)
    simp only [numDigitsAux, hge, if_false, ih]
    omega

theorem numDigits_eq (k x : Nat) (hlo : 10 ^ k ≤ x ∨ k = 0) (hhi : x < 10 ^ (k + 1)) (hk : k < 40) :
    numDigits x = k + 1 := numDigitsAux_eq k 40 x hlo hhi hk

/-- The source floors (`div_euclid`) since commit 700d14d; breaks if the arms go back to `/`. -/
theorem divUnit_eq (n : Int) (dv : Nat) : divUnit n dv = n / (dv : Int) := by
  simp [divUnit, Snel.Gen.C16.unitDivFloors]

/-- `normalize_integer_epoch` on a value whose digit count is known. -/
theorem normalize_of_digits (n : Int) (k dv : Nat) (hlo : 10 ^ k ≤ n.natAbs ∨ k = 0)
    (hhi : n.natAbs < 10 ^ (k + 1)) (hk : k < 40)
    (hl : lookupUnit (k + 1) Snel.Gen.C16.unitTable = some dv) :
    normalizeIntegerEpoch n =
      if i64Min ≤ n / (dv : Int) ∧ n / (dv : Int) ≤ i64Max then some (n / (dv : Int)) else none := by
  unfold normalizeIntegerEpoch
  rw [numDigits_eq k _ hlo hhi hk, hl]
  simp only [divUnit_eq]

theorem normalize_band (n t : Int) (k dv : Nat) (hlo : 10 ^ k ≤ n.natAbs ∨ k = 0)
    (hhi : n.natAbs < 10 ^ (k + 1)) (hk : k < 40)
    (hl : lookupUnit (k + 1) Snel.Gen.C16.unitTable = some dv)
    (hq : n / (dv : Int) = t) (hfit : i64Min ≤ t ∧ t ≤ i64Max) :
    normalizeIntegerEpoch n = some t := by
  rw [normalize_of_digits n k dv hlo hhi hk hl, hq, if_pos hfit]

/-- Seconds, milliseconds, microseconds and nanoseconds of a non-negative instant whose second
count has 9 or 10 digits: every unit is recognised, any sub-unit remainder is dropped. -/
theorem units_band_pos (t : Int) (h1 : 10 ^ 8 ≤ t) (h2 : t < 10 ^ 10) :
    normalizeIntegerEpoch t = some t ∧
    (∀ r : Int, 0 ≤ r → r < 1000 → normalizeIntegerEpoch (t * 1000 + r) = some t) ∧
    (∀ r : Int, 0 ≤ r → r < 1000000 → normalizeIntegerEpoch (t * 1000000 + r) = some t) ∧
    (∀ r : Int, 0 ≤ r → r < 1000000000 → normalizeIntegerEpoch (t * 1000000000 + r) = some t) := by
  have hfit : i64Min ≤ t ∧ t ≤ i64Max := by unfold i64Min i64Max; omega
  by_cases h : t < 10 ^ 9
  · refine ⟨?_, ?_, ?_, ?_⟩
    · exact normalize_band t t 8 1 (Or.inl (by omega)) (by omega) (by decide) (by decide)
        (by simp) hfit
    · intro r hr hr'
      exact normalize_band _ t 11 1000 (Or.inl (by omega)) (by omega) (by decide) (by decide)
        (by omega) hfit
    · intro r hr hr'
      exact normalize_band _ t 14 1000000 (Or.inl (by omega)) (by omega) (by decide) (by decide)
        (by omega) hfit
    · intro r hr hr'
      exact normalize_band _ t 17 1000000000 (Or.inl (by omega)) (by omega) (by decide) (by decide)
        (by omega) hfit
  · refine ⟨?_, ?_, ?_, ?_⟩
    · exact normalize_band t t 9 1 (Or.inl (by omega)) (by omega) (by decide) (by decide)
        (by simp) hfit
    · intro r hr hr'
      exact normalize_band _ t 12 1000 (Or.inl (by omega)) (by omega) (by decide) (by decide)
        (by omega) hfit
    · intro r hr hr'
      exact normalize_band _ t 15 1000000 (Or.inl (by omega)) (by omega) (by decide) (by decide)
        (by omega) hfit
    · intro r hr hr'
      exact normalize_band _ t 18 1000000000 (Or.inl (by omega)) (by omega) (by decide) (by decide)
        (by omega) hfit

/-- Negative instants in the mirrored band: `div_euclid` floors, so a value with a sub-second
remainder is read as the whole second of its instant, like RFC 3339 fractions and floats. -/
theorem units_band_neg (t : Int) (h1 : -(10 ^ 10) < t) (h2 : t < -(10 ^ 8)) :
    normalizeIntegerEpoch t = some t ∧
    (∀ r : Int, 0 ≤ r → r < 1000 → normalizeIntegerEpoch (t * 1000 + r) = some t) ∧
    (∀ r : Int, 0 ≤ r → r < 1000000 → normalizeIntegerEpoch (t * 1000000 + r) = some t) ∧
    (∀ r : Int, 0 ≤ r → r < 1000000000 → normalizeIntegerEpoch (t * 1000000000 + r) = some t) := by
  have hfit : i64Min ≤ t ∧ t ≤ i64Max := by unfold i64Min i64Max; omega
  refine ⟨?_, ?_, ?_, ?_⟩
  · by_cases h : -(10 ^ 9) < t
    · exact normalize_band t t 8 1 (Or.inl (by omega)) (by omega) (by decide) (by decide)
        (by simp) hfit
    · exact normalize_band t t 9 1 (Or.inl (by omega)) (by omega) (by decide) (by decide)
        (by simp) hfit
  · intro r hr hr'
    by_cases hr0 : r = 0
    · subst hr0
      simp only [Int.add_zero]
      by_cases h : -(10 ^ 9) < t
      · exact normalize_band _ _ 11 1000 (Or.inl (by omega)) (by omega) (by decide) (by decide)
          (by omega) hfit
      · exact normalize_band _ _ 12 1000 (Or.inl (by omega)) (by omega) (by decide) (by decide)
          (by omega) hfit
    · by_cases h : -(10 ^ 9) ≤ t
      · exact normalize_band _ _ 11 1000 (Or.inl (by omega)) (by omega) (by decide) (by decide)
          (by omega) hfit
      · exact normalize_band _ _ 12 1000 (Or.inl (by omega)) (by omega) (by decide) (by decide)
          (by omega) hfit
  · intro r hr hr'
    by_cases hr0 : r = 0
    · subst hr0
      simp only [Int.add_zero]
      by_cases h : -(10 ^ 9) < t
      · exact normalize_band _ _ 14 1000000 (Or.inl (by omega)) (by omega) (by decide) (by decide)
          (by omega) hfit
      · exact normalize_band _ _ 15 1000000 (Or.inl (by omega)) (by omega) (by decide) (by decide)
          (by omega) hfit
    · by_cases h : -(10 ^ 9) ≤ t
      · exact normalize_band _ _ 14 1000000 (Or.inl (by omega)) (by omega) (by decide) (by decide)
          (by omega) hfit
      · exact normalize_band _ _ 15 1000000 (Or.inl (by omega)) (by omega) (by decide) (by decide)
          (by omega) hfit
  · intro r hr hr'
    by_cases hr0 : r = 0
    · subst hr0
      simp only [Int.add_zero]
      by_cases h : -(10 ^ 9) < t
      · exact normalize_band _ _ 17 1000000000 (Or.inl (by omega)) (by omega) (by decide) (by decide)
          (by omega) hfit
      · exact normalize_band _ _ 18 1000000000 (Or.inl (by omega)) (by omega) (by decide) (by decide)
          (by omega) hfit
    · by_cases h : -(10 ^ 9) ≤ t
      · exact normalize_band _ _ 17 1000000000 (Or.inl (by omega)) (by omega) (by decide) (by decide)
          (by omega) hfit
      · exact normalize_band _ _ 18 1000000000 (Or.inl (by omega)) (by omega) (by decide) (by decide)
          (by omega) hfit

/-! ## Sites -/

theorem u64AsI64_of_nonneg (t : Int) (h0 : 0 ≤ t) (h1 : t ≤ i64Max) : u64AsI64 t.toNat = t := by
  unfold u64AsI64 i64Max at *
  have : t.toNat < 2 ^ 63 := by omega
  simp only [this, if_true]
  omega

theorem sites_string (s : List Char) (t : Int) (hp : parseStr s = some t) :
    normalizeJson (.str s) = .ok t ∧ rewriteLiteral (.str s) = .int t ∧
    rowCondition (.str s) = .num t ∧ sinceCondition s = some t ∧
    prunerTsU64 (SV.ofJson (.str s)) = (max t 0).toNat ∧
    prunerTsU64 (SV.ofJson (rewriteLiteral (.str s))) = (max t 0).toNat := by
  refine ⟨?_, ?_, ?_, ?_, ?_, ?_⟩ <;>
    simp [normalizeJson, rewriteLiteral, rowCondition, sinceCondition, prunerTsU64, SV.ofJson, hp]

theorem listMin_le : ∀ (zone : List Int) (x : Int), x ∈ zone → listMin zone ≤ x := by
  intro zone x hx
  cases zone with
  | nil => cases hx
  | cons a as =>
    unfold listMin
    have key : ∀ (l : List Int) (acc : Int), l.foldl min acc ≤ acc ∧ ∀ y ∈ l, l.foldl min acc ≤ y := by
      intro l
      induction l with
      | nil => intro acc; exact ⟨Int.le_refl _, fun y hy => by cases hy⟩
      | cons b l ih =>
        intro acc
        have := ih (min acc b)
        refine ⟨by simp only [List.foldl_cons]; omega, ?_⟩
        intro y hy
        simp only [List.foldl_cons]
        rcases List.mem_cons.1 hy with rfl | hy
        · omega
        · exact this.2 y hy
    rcases List.mem_cons.1 hx with rfl | hx
    · exact (key as x).1
    · exact (key as a).2 x hx

theorem le_listMax : ∀ (zone : List Int) (x : Int), x ∈ zone → x ≤ listMax zone := by
  intro zone x hx
  cases zone with
  | nil => cases hx
  | cons a as =>
    unfold listMax
    have key : ∀ (l : List Int) (acc : Int), acc ≤ l.foldl max acc ∧ ∀ y ∈ l, y ≤ l.foldl max acc := by
      intro l
      induction l with
      | nil => intro acc; exact ⟨Int.le_refl _, fun y hy => by cases hy⟩
      | cons b l ih =>
        intro acc
        have := ih (max acc b)
        refine ⟨by simp only [List.foldl_cons]; omega, ?_⟩
        intro y hy
        simp only [List.foldl_cons]
        rcases List.mem_cons.1 hy with rfl | hy
        · omega
        · exact this.2 y hy
    rcases List.mem_cons.1 hx with rfl | hx
    · exact (key as x).1
    · exact (key as a).2 x hx

/-- The per-zone test never drops a zone that holds a row satisfying the comparison with the
instant the pruner compares against. -/
theorem zoneKept_sound (op : Op) (ts : Int) (zone : List Int) (x : Int) (hx : x ∈ zone)
    (hop : op ≠ .neq) (hsat : op.eval x ts = true) : zoneKept op ts zone = some true := by
  have hmin := listMin_le zone x hx
  have hmax := le_listMax zone x hx
  cases op <;> simp only [Op.eval, zoneKept, decide_eq_true_eq, beq_iff_eq, ne_eq, not_true] at *
  · subst hsat; simp [hx]
  · simp; omega
  · simp; omega
  · simp; omega
  · simp; omega

/-! ## ZoneTemporalIndex -/

theorem ztiKey_one (mn t : Int) (h : mn ≤ t) : ztiKey mn 1 t = (t - mn).toNat := by
  unfold ztiKey
  rw [Int.ediv_one]
  congr 1
  omega

/-- With stride 1 `contains_ts` is exactly membership in the values the index was built from. -/
theorem zti_contains_stride1 (vals : List Int) (ts : Int) :
    (ztiBuild vals 1).contains ts = true ↔ ts ∈ vals := by
  unfold ZTI.contains ztiBuild
  simp only []
  constructor
  · intro h
    by_cases hr : ts < listMin vals ∨ ts > listMax vals
    · simp [hr] at h
    · have h1 : ¬ ((1 : Int) > 1 ∧ (ts - listMin vals) % 1 ≠ 0) := by omega
      simp only [hr, h1, if_false, List.contains_eq_mem, List.mem_map, decide_eq_true_eq] at h
      obtain ⟨t, ht, hk⟩ := h
      have hmin := listMin_le vals t ht
      rw [ztiKey_one _ _ hmin, ztiKey_one _ _ (by omega)] at hk
      have : t = ts := by omega
      rw [← this]; exact ht
  · intro hmem
    have hmin := listMin_le vals ts hmem
    have hmax := le_listMax vals ts hmem
    have hr : ¬ (ts < listMin vals ∨ ts > listMax vals) := by omega
    have h1 : ¬ ((1 : Int) > 1 ∧ (ts - listMin vals) % 1 ≠ 0) := by omega
    simp only [hr, h1, if_false, List.contains_eq_mem, List.mem_map, decide_eq_true_eq]
    exact ⟨ts, hmem, rfl⟩

theorem ztiKeeps_stride1 (op : Op) (ts : Int) (zone : List Int) :
    ztiKeeps op ts (ztiBuild zone 1) = zoneKept op ts zone := by
  cases op <;> simp only [ztiKeeps, zoneKept] <;> try rfl
  congr 1
  rw [Bool.eq_iff_iff, zti_contains_stride1]
  simp

/-! ## Buckets -/

theorem daysFromCivil_day (y : Int) (m d : Nat) :
    daysFromCivil y m d = daysFromCivil y m 1 + ((d : Int) - 1) := by
  unfold daysFromCivil
  simp only []
  omega

theorem daysInMonth_cases (y : Int) (m : Nat) :
    (m = 2 ∧ isLeap y = true ∧ daysInMonth y m = 29) ∨ (m = 2 ∧ isLeap y = false ∧ daysInMonth y m = 28) ∨
    ((m = 4 ∨ m = 6 ∨ m = 9 ∨ m = 11) ∧ daysInMonth y m = 30) ∨
    (m ≠ 2 ∧ m ≠ 4 ∧ m ≠ 6 ∧ m ≠ 9 ∧ m ≠ 11 ∧ daysInMonth y m = 31) := by
  unfold daysInMonth
  by_cases h2 : m = 2
  · cases hl : isLeap y <;> simp [h2]
  · by_cases h : m = 4 ∨ m = 6 ∨ m = 9 ∨ m = 11
    · simp [h2, h]
    · simp only [h2, h, if_false]
      refine Or.inr (Or.inr (Or.inr ⟨h2, ?_, ?_, ?_, ?_, trivial⟩)) <;> omega

/-- A valid date lies inside its civil year. -/
theorem daysFromCivil_in_year (y : Int) (m d : Nat) (hm : 1 ≤ m ∧ m ≤ 12)
    (hd : 1 ≤ d ∧ d ≤ daysInMonth y m) :
    daysFromCivil y 1 1 ≤ daysFromCivil y m d ∧ daysFromCivil y m d < daysFromCivil (y + 1) 1 1 := by
  have hl : isLeap y = true ∨ isLeap y = false := by cases isLeap y <;> simp
  have hdim := daysInMonth_cases y m
  have hleap := isLeap_iff y
  unfold daysFromCivil
  simp only []
  by_cases h2 : m ≤ 2
  · simp only [h2, if_true]
    simp only [show ((1 : Nat) ≤ 2) = True from by simp, if_true]
    rcases hl with hl | hl
    · have := hleap.1 hl
      omega
    · have : ¬ ((y % 4 = 0 ∧ y % 100 ≠ 0) ∨ y % 400 = 0) := fun h => by rw [hleap.2 h] at hl; cases hl
      omega
  · simp only [h2, if_false]
    simp only [show ((1 : Nat) ≤ 2) = True from by simp, if_true]
    omega

/-- January 1 of successive years: strictly increasing day numbers. -/
theorem yearStart_lt (y : Int) : daysFromCivil y 1 1 < daysFromCivil (y + 1) 1 1 :=
  (daysFromCivil_in_year y 1 1 (by omega) (by unfold daysInMonth; simp)).2

theorem yearStart_mono (y : Int) (k : Nat) : daysFromCivil (y + 1) 1 1 ≤ daysFromCivil (y + 1 + k) 1 1 := by
  induction k with
  | zero => simp
  | succ k ih =>
    have := yearStart_lt (y + 1 + k)
    have e : y + 1 + ((k + 1 : Nat) : Int) = y + 1 + (k : Int) + 1 := by omega
    rw [e]
    omega

/-- Two valid dates with the same day number lie in the same year. -/
theorem year_unique (y y' : Int) (m d m' d' : Nat) (hm : 1 ≤ m ∧ m ≤ 12) (hd : 1 ≤ d ∧ d ≤ daysInMonth y m)
    (hm' : 1 ≤ m' ∧ m' ≤ 12) (hd' : 1 ≤ d' ∧ d' ≤ daysInMonth y' m')
    (h : daysFromCivil y m d = daysFromCivil y' m' d') : y = y' := by
  have a := daysFromCivil_in_year y m d hm hd
  have b := daysFromCivil_in_year y' m' d' hm' hd'
  by_cases hlt : y < y'
  · have := yearStart_mono y (y' - y - 1).toNat
    have e : y + 1 + (((y' - y - 1).toNat : Nat) : Int) = y' := by omega
    rw [e] at this
    omega
  · by_cases hgt : y' < y
    · have := yearStart_mono y' (y - y' - 1).toNat
      have e : y' + 1 + (((y - y' - 1).toNat : Nat) : Int) = y := by omega
      rw [e] at this
      omega
    · omega

/-- Day number of the first of the next month. -/
theorem monthStart_succ (y : Int) (m : Nat) (hm : 1 ≤ m ∧ m ≤ 11) :
    daysFromCivil y (m + 1) 1 = daysFromCivil y m 1 + (daysInMonth y m : Int) := by
  have hdim := daysInMonth_cases y m
  have hleap := isLeap_iff y
  have hl : isLeap y = true ∨ isLeap y = false := by cases isLeap y <;> simp
  have hne : ¬ ((y % 4 = 0 ∧ y % 100 ≠ 0) ∨ y % 400 = 0) → isLeap y = false := by
    intro h; rcases hl with hl | hl
    · exact absurd (hleap.1 hl) h
    · exact hl
  unfold daysFromCivil
  simp only []
  by_cases h1 : m = 1
  · subst h1; simp; omega
  by_cases h2 : m = 2
  · subst h2
    simp
    by_cases h400 : y % 400 = 0
    · have hl' : isLeap y = true := hleap.2 (Or.inr h400)
      rcases hdim with h | h | h | h
      · omega
      · rw [hl'] at h; exact absurd h.2.1 (by simp)
      · omega
      · omega
    · by_cases h4 : y % 4 = 0
      · by_cases h100 : y % 100 = 0
        · have hl' : isLeap y = false := hne (by omega)
          rcases hdim with h | h | h | h
          · rw [hl'] at h; exact absurd h.2.1 (by simp)
          · omega
          · omega
          · omega
        · have hl' : isLeap y = true := hleap.2 (Or.inl ⟨h4, h100⟩)
          rcases hdim with h | h | h | h
          · omega
          · rw [hl'] at h; exact absurd h.2.1 (by simp)
          · omega
          · omega
      · have hl' : isLeap y = false := hne (by omega)
        rcases hdim with h | h | h | h
        · rw [hl'] at h; exact absurd h.2.1 (by simp)
        · omega
        · omega
        · omega
  · have hcases : m = 3 ∨ m = 4 ∨ m = 5 ∨ m = 6 ∨ m = 7 ∨ m = 8 ∨ m = 9 ∨ m = 10 ∨ m = 11 := by omega
    rcases hcases with rfl | rfl | rfl | rfl | rfl | rfl | rfl | rfl | rfl <;>
      simp [daysInMonth] <;> omega

theorem monthStart_mono (y : Int) (m : Nat) (k : Nat) (hm : 1 ≤ m) (hk : m + 1 + k ≤ 12) :
    daysFromCivil y m 1 + (daysInMonth y m : Int) ≤ daysFromCivil y (m + 1 + k) 1 := by
  induction k with
  | zero => rw [Nat.add_zero, monthStart_succ y m ⟨hm, by omega⟩]; omega
  | succ k ih =>
    have := ih (by omega)
    have e : m + 1 + (k + 1) = (m + 1 + k) + 1 := by omega
    rw [e, monthStart_succ y (m + 1 + k) ⟨by omega, by omega⟩]
    omega

/-- `daysFromCivil` is injective on existing dates. -/
theorem daysFromCivil_inj (y y' : Int) (m d m' d' : Nat) (hm : 1 ≤ m ∧ m ≤ 12)
    (hd : 1 ≤ d ∧ d ≤ daysInMonth y m) (hm' : 1 ≤ m' ∧ m' ≤ 12) (hd' : 1 ≤ d' ∧ d' ≤ daysInMonth y' m')
    (h : daysFromCivil y m d = daysFromCivil y' m' d') : y = y' ∧ m = m' ∧ d = d' := by
  have hy := year_unique y y' m d m' d' hm hd hm' hd' h
  subst hy
  rw [daysFromCivil_day y m d, daysFromCivil_day y m' d'] at h
  have hmm : m = m' := by
    by_cases hlt : m < m'
    · have := monthStart_mono y m (m' - m - 1) hm.1 (by omega)
      have e : m + 1 + (m' - m - 1) = m' := by omega
      rw [e] at this
      omega
    · by_cases hgt : m' < m
      · have := monthStart_mono y m' (m - m' - 1) hm'.1 (by omega)
        have e : m' + 1 + (m - m' - 1) = m := by omega
        rw [e] at this
        omega
      · omega
  subst hmm
  exact ⟨rfl, rfl, by omega⟩

/-- `civilFromDays` undoes `daysFromCivil` on every existing date. -/
theorem civilFromDays_daysFromCivil (y : Int) (m d : Nat) (hm : 1 ≤ m ∧ m ≤ 12)
    (hd : 1 ≤ d ∧ d ≤ daysInMonth y m) : civilFromDays (daysFromCivil y m d) = (y, m, d) := by
  have hv := civilFromDays_valid (daysFromCivil y m d)
  have hr := daysFromCivil_civilFromDays (daysFromCivil y m d)
  obtain ⟨a, b, c⟩ := daysFromCivil_inj _ y _ _ m d ⟨hv.1, hv.2.1⟩ ⟨hv.2.2.1, hv.2.2.2⟩ hm hd hr
  exact Prod.ext a (Prod.ext b c)

theorem bucketLocal_hour (ws : Nat) (l : Int) :
    bucketLocal .hour ws l ≤ l ∧ l < bucketLocal .hour ws l + 3600 ∧ bucketLocal .hour ws l % 3600 = 0 := by
  simp only [bucketLocal]; omega

theorem bucketLocal_day (ws : Nat) (l : Int) :
    bucketLocal .day ws l ≤ l ∧ l < bucketLocal .day ws l + 86400 ∧ bucketLocal .day ws l % 86400 = 0 := by
  simp only [bucketLocal]; omega

/-- Week buckets start at midnight of the configured weekday (`(day + 3) % 7` is the number of
days from Monday: 1970-01-01 was a Thursday) and last seven days. -/
theorem bucketLocal_week (ws : Nat) (hws : ws < 7) (l : Int) :
    bucketLocal .week ws l ≤ l ∧ l < bucketLocal .week ws l + 604800 ∧
      bucketLocal .week ws l % 86400 = 0 ∧ (bucketLocal .week ws l / 86400 + 3) % 7 = ws := by
  simp only [bucketLocal]; omega

theorem bucketLocal_month (ws : Nat) (l : Int) :
    bucketLocal .month ws l
        = daysFromCivil (civilFromDays (l / 86400)).1 (civilFromDays (l / 86400)).2.1 1 * 86400 ∧
      bucketLocal .month ws l ≤ l ∧
      l < bucketLocal .month ws l
        + (daysInMonth (civilFromDays (l / 86400)).1 (civilFromDays (l / 86400)).2.1 : Int) * 86400 := by
  have hv := civilFromDays_valid (l / 86400)
  have hr := daysFromCivil_civilFromDays (l / 86400)
  rw [daysFromCivil_day] at hr
  simp only [bucketLocal]
  refine ⟨trivial, ?_, ?_⟩ <;> omega

theorem bucketLocal_year (ws : Nat) (l : Int) :
    bucketLocal .year ws l = daysFromCivil (civilFromDays (l / 86400)).1 1 1 * 86400 ∧
      bucketLocal .year ws l ≤ l ∧
      l < daysFromCivil ((civilFromDays (l / 86400)).1 + 1) 1 1 * 86400 := by
  have hv := civilFromDays_valid (l / 86400)
  have hr := daysFromCivil_civilFromDays (l / 86400)
  have hy := daysFromCivil_in_year _ _ _ ⟨hv.1, hv.2.1⟩ ⟨hv.2.2.1, hv.2.2.2⟩
  rw [hr] at hy
  simp only [bucketLocal]
  refine ⟨trivial, ?_, ?_⟩ <;> omega

end Snel.Time
