import Snel.Model.Query
/-!
Helper definitions and lemmas for `Snel.Props.C02`.
-/
namespace Snel.Query

/-! ## hypotheses of the partial theorems -/

/-- The string is not turned into a number by `add_where_clause`. -/
def nonNumeric (s : Str) : Bool := (Snel.Time.parseStr s).isNone && (Snel.Time.parseI64 s).isNone

def isEqNeq (op : Op) : Bool := op = .eq || op = .neq

/-- A literal of the field's own kind, spelled so that literal typing keeps its kind. -/
def ownLit (k : Kind) (op : Op) (l : Lit) : Bool :=
  match k, l with
  | .int, .int _ => true
  | .u64, .int i => decide (0 ≤ i)
  | .time, .int _ => true
  | .time, .str s => (Snel.Time.parseStr s).isSome
  | .str, .str s => isEqNeq op && nonNumeric s
  | .enum _, .str s => isEqNeq op && nonNumeric s
  | _, _ => false

def isIntLit : Lit → Bool
  | .int _ => true
  | _ => false

/-- `IN` lists covered by the faithfulness theorems: integer literals on int / u64 (≥ 0) /
datetime fields, non-number-looking strings on string / enum fields. -/
def ownList (k : Kind) (vs : List Lit) : Bool :=
  !vs.isEmpty && vs.all fun l => ownLit k .eq l && (isIntLit l || match k with | .str | .enum _ => true | _ => false)

def Faithful (sch : Schema) : Expr → Bool
  | .cmp f op l => match sch[f]? with | some k => ownLit k op l | none => false
  | .inn f vs => match sch[f]? with | some k => ownList k vs | none => false
  | .and a b => Faithful sch a && Faithful sch b
  | .or a b => Faithful sch a && Faithful sch b
  | .not a => Faithful sch a

def conformsVal : Kind → Val → Bool
  | .int, .int _ => true
  | .int, .null => true
  | .time, .int _ => true
  | .time, .null => true
  | .u64, .int i => decide (0 ≤ i)
  | .u64, .null => true
  | .str, .str _ => true
  | .enum _, .str _ => true
  | .float, _ => true
  | .bool, _ => true
  | _, _ => false

/-- The row has a value of the declared kind in every field (nulls allowed in numeric fields). -/
def Conforms (sch : Schema) (r : Row) : Prop :=
  ∀ f k, sch[f]? = some k → ∃ v, r.get f = some v ∧ conformsVal k v = true

/-- Every leaf's zone list, on every segment, contains every zone holding a row that satisfies
the leaf. -/
def LeafSound (w : World) (e : Expr) : Prop :=
  ∀ j s, (j, s) ∈ enumFrom 0 w.segs → ∀ z ∈ s.zones, ∀ f op l, (f, op, l) ∈ e.leaves →
    (∃ r ∈ z.rows, leafSpec w.sch f op l r = true) → (w.sel j s f op l).contains z.id = true

/-! ## small facts -/

theorem onDy_ofInt (op : Op) (a b : Int) : op.onDy (Dy.ofInt a) (Dy.ofInt b) = op.onInt a b := by
  simp [Op.onDy, Op.onInt, Dy.lt, Dy.eq, Dy.ofInt]

theorem cmpCond_int (op : Op) (i : Int) : cmpCond op (.int i) = .num op i := by
  simp [cmpCond, Lit.numeric, Lit.temporal, Lit.asI64]

theorem cmpCond_str_nonnum (op : Op) (s : Str) (h : nonNumeric s = true) :
    cmpCond op (.str s) = .str op s := by
  simp only [nonNumeric, Bool.and_eq_true, Option.isNone_iff_eq_none] at h
  simp [cmpCond, Lit.numeric, Lit.temporal, Lit.asI64, h.1, h.2]

theorem cmpCond_str_temporal (op : Op) (s : Str) (t : Int) (h : Snel.Time.parseStr s = some t) :
    cmpCond op (.str s) = .num op t := by
  simp [cmpCond, Lit.numeric, Lit.temporal, h]

theorem R_and_val (x y : Bool) : (R.val x).and (fun _ => R.val y) = .val (x && y) := by
  cases x <;> cases y <;> rfl

theorem R_or_val (x y : Bool) : (R.val x).or (fun _ => R.val y) = .val (x || y) := by
  cases x <;> cases y <;> rfl

theorem strOp_spec (op : Op) (h : isEqNeq op = true) (x s : Str) : strOp op x s = op.onStr x s := by
  cases op <;> simp_all [isEqNeq, strOp, Op.onStr, Op.holds]

/-! ## leaves: memtable tier -/

/-- One comparison, memtable: never dropped, and decided like the reference. -/
theorem memLeaf_faithful (k : Kind) (op : Op) (l : Lit) (v : Val)
    (ho : ownLit k op l = true) (hv : conformsVal k v = true) :
    leafR (cmpCond op l) (memLeaf (cmpCond op l) (some v)) = .val ((specLeaf k (some v) op l).getD false) := by
  cases k <;> cases l <;> simp [ownLit] at ho
  -- int, int
  · rename_i i
    rw [cmpCond_int]
    cases v <;> simp [conformsVal] at hv <;>
      simp [leafR, memLeaf, memAsI64, specLeaf, Lit.num?, Val.num?, onDy_ofInt]
  -- u64, int
  · rename_i i
    rw [cmpCond_int]
    cases v <;> simp [conformsVal] at hv <;>
      simp [leafR, memLeaf, memAsI64, specLeaf, Lit.num?, Val.num?, onDy_ofInt]
  -- str, str
  · rename_i s
    rw [cmpCond_str_nonnum op s ho.2]
    cases v <;> simp [conformsVal] at hv
    simp [leafR, memLeaf, memText, specLeaf, strOp_spec op ho.1]
  -- time, int
  · rename_i i
    rw [cmpCond_int]
    cases v <;> simp [conformsVal] at hv <;>
      simp [leafR, memLeaf, memAsI64, specLeaf, Lit.num?, Val.num?, onDy_ofInt]
  -- time, str
  · rename_i s
    obtain ⟨t, ht⟩ := Option.isSome_iff_exists.mp ho
    rw [cmpCond_str_temporal op s t ht]
    cases v <;> simp [conformsVal] at hv <;>
      simp [leafR, memLeaf, memAsI64, specLeaf, ht, Val.num?, onDy_ofInt]
  -- enum, str
  · rename_i vs s
    rw [cmpCond_str_nonnum op s ho.2]
    cases v <;> simp [conformsVal] at hv
    rename_i x
    have h := ho.1
    by_cases hxs : x = s <;>
      cases op <;> simp [isEqNeq] at h <;> simp [leafR, memLeaf, memText, specLeaf, strOp, hxs]

/-! ## leaves: flushed tier -/

theorem zoneLeaf_faithful (top : Bool) (k : Kind) (op : Op) (l : Lit) (v : Val)
    (ho : ownLit k op l = true) (hv : conformsVal k v = true) :
    leafR (cmpCond op l) (zoneLeaf top (cmpCond op l) (some (cellOf k v))) =
      .val ((specLeaf k (some v) op l).getD false) := by
  cases k <;> cases l <;> simp [ownLit] at ho
  -- int, int
  · rename_i i
    rw [cmpCond_int]
    cases v <;> simp [conformsVal] at hv <;> cases top <;>
      simp [leafR, zoneLeaf, numSimd, numAt, cellOf, Cell.u64?, Cell.i64?, Cell.f64?, specLeaf, Lit.num?,
        Val.num?, onDy_ofInt]
  -- u64, int
  · rename_i i
    rw [cmpCond_int]
    have hi : ¬ i < 0 := by omega
    cases v with
    | null =>
      cases top <;>
        simp [leafR, zoneLeaf, numSimd, numAt, cellOf, Cell.u64?, Cell.i64?, Cell.f64?, specLeaf, Lit.num?, Val.num?]
    | int x =>
      simp [conformsVal] at hv
      have hx : max x 0 = x := by omega
      cases top <;>
        simp [leafR, zoneLeaf, numSimd, numAt, cellOf, Cell.u64?, specLeaf, Lit.num?,
          Val.num?, onDy_ofInt, hi, hv, hx]
    | _ => simp [conformsVal] at hv
  -- str, str
  · rename_i s
    rw [cmpCond_str_nonnum op s ho.2]
    cases v <;> simp [conformsVal] at hv
    cases top <;> simp [leafR, zoneLeaf, cellOf, valText, Cell.str?, specLeaf, strOp_spec op ho.1]
  -- time, int
  · rename_i i
    rw [cmpCond_int]
    cases v <;> simp [conformsVal] at hv <;> cases top <;>
      simp [leafR, zoneLeaf, numSimd, numAt, cellOf, Cell.u64?, Cell.i64?, Cell.f64?, specLeaf, Lit.num?,
        Val.num?, onDy_ofInt]
  -- time, str
  · rename_i s
    obtain ⟨t, ht⟩ := Option.isSome_iff_exists.mp ho
    rw [cmpCond_str_temporal op s t ht]
    cases v <;> simp [conformsVal] at hv <;> cases top <;>
      simp [leafR, zoneLeaf, numSimd, numAt, cellOf, Cell.u64?, Cell.i64?, Cell.f64?, specLeaf, ht,
        Val.num?, onDy_ofInt]
  -- enum, str
  · rename_i vs s
    rw [cmpCond_str_nonnum op s ho.2]
    cases v <;> simp [conformsVal] at hv
    rename_i x
    have h := ho.1
    by_cases hxs : x = s <;> cases top <;> cases op <;> simp [isEqNeq] at h <;>
      simp [leafR, zoneLeaf, cellOf, valText, Cell.str?, specLeaf, strOp, hxs]

/-! ## IN lists -/

def litInt : Lit → Int
  | .int i => i
  | _ => 0

theorem numerics_ints (vs : List Lit) (h : vs.all isIntLit = true) :
    numerics vs = some (vs.map litInt) := by
  induction vs with
  | nil => rfl
  | cons l ls ih =>
    simp only [List.all_cons, Bool.and_eq_true] at h
    obtain ⟨h1, h2⟩ := h
    cases l <;> simp [isIntLit] at h1
    simp [numerics, Lit.numeric, Lit.temporal, Lit.asI64, ih h2, litInt]

theorem numerics_nonnum (l : Lit) (ls : List Lit) (h : l.numeric = none) : numerics (l :: ls) = none := by
  simp [numerics, h]

theorem numeric_str_nonnum (s : Str) (h : nonNumeric s = true) : (Lit.str s).numeric = none := by
  simp only [nonNumeric, Bool.and_eq_true, Option.isNone_iff_eq_none] at h
  simp [Lit.numeric, Lit.temporal, Lit.asI64, h.1, h.2]

/-- Integer list on an integer-like kind. -/
theorem inInts_spec (k : Kind) (hk : k = .int ∨ k = .u64 ∨ k = .time) (x : Int) (vs : List Lit)
    (h : vs.all isIntLit = true) :
    (vs.map litInt).contains x = vs.any fun l => (specLeaf k (some (.int x)) .eq l).getD false := by
  induction vs with
  | nil => rfl
  | cons l ls ih =>
    simp only [List.all_cons, Bool.and_eq_true] at h
    obtain ⟨h1, h2⟩ := h
    cases l <;> simp [isIntLit] at h1
    rename_i i
    have : (specLeaf k (some (.int x)) .eq (.int i)).getD false = decide (x = i) := by
      rcases hk with rfl | rfl | rfl <;>
        simp [specLeaf, Lit.num?, Val.num?, onDy_ofInt, Op.onInt, Op.holds]
    rw [List.map_cons, List.contains_cons, List.any_cons, this, ih h2]
    by_cases hxi : x = i <;> simp [litInt, hxi]

theorem inInts_null (k : Kind) (hk : k = .int ∨ k = .u64 ∨ k = .time) (vs : List Lit)
    (h : vs.all isIntLit = true) :
    (vs.any fun l => (specLeaf k (some .null) .eq l).getD false) = false := by
  induction vs with
  | nil => rfl
  | cons l ls ih =>
    simp only [List.all_cons, Bool.and_eq_true] at h
    obtain ⟨h1, h2⟩ := h
    cases l <;> simp [isIntLit] at h1
    rw [List.any_cons, ih h2]
    rcases hk with rfl | rfl | rfl <;> simp [specLeaf, Lit.num?, Val.num?]

/-- String list on a string / enum kind. -/
theorem inStrs_spec (k : Kind) (hk : k = .str ∨ ∃ vs, k = .enum vs) (x : Str) (vs : List Lit)
    (h : vs.all (fun l => match l with | .str _ => true | _ => false) = true) :
    (vs.map Lit.inText).contains x = vs.any fun l => (specLeaf k (some (.str x)) .eq l).getD false := by
  induction vs with
  | nil => rfl
  | cons l ls ih =>
    simp only [List.all_cons, Bool.and_eq_true] at h
    obtain ⟨h1, h2⟩ := h
    cases l <;> simp at h1
    rename_i s
    have : (specLeaf k (some (.str x)) .eq (.str s)).getD false = decide (x = s) := by
      rcases hk with rfl | ⟨vs, rfl⟩ <;> simp [specLeaf, Op.onStr, Op.holds]
    rw [List.map_cons, List.contains_cons, List.any_cons, this, ih h2]
    by_cases hxs : x = s <;> simp [Lit.inText, hxs]

/-- The conditions an `ownList` becomes, and their value on a conforming cell, memtable tier. -/
theorem memIn_faithful (k : Kind) (vs : List Lit) (v : Val)
    (ho : ownList k vs = true) (hv : conformsVal k v = true) :
    leafR (inCond vs) (memLeaf (inCond vs) (some v)) =
      .val (vs.any fun l => (specLeaf k (some v) .eq l).getD false) := by
  simp only [ownList, Bool.and_eq_true, Bool.not_eq_true', List.all_eq_true] at ho
  obtain ⟨hne, hall⟩ := ho
  cases vs with
  | nil => simp at hne
  | cons l0 ls =>
    cases k
    -- int
    · have hi : (l0 :: ls).all isIntLit = true := by
        simp only [List.all_eq_true]; intro l hl; have := hall l hl; simp at this; exact this.2
      cases v <;> simp [conformsVal] at hv
      · simp [inCond, numerics_ints _ hi, leafR, memLeaf, memAsI64, inInts_null .int (.inl rfl) _ hi]
      · rename_i x
        have := inInts_spec .int (.inl rfl) x _ hi
        simp [inCond, numerics_ints _ hi, leafR, memLeaf, memAsI64] at this ⊢
        exact this
    -- u64
    · have hi : (l0 :: ls).all isIntLit = true := by
        simp only [List.all_eq_true]; intro l hl; have := hall l hl; simp at this; exact this.2
      cases v <;> simp [conformsVal] at hv
      · simp [inCond, numerics_ints _ hi, leafR, memLeaf, memAsI64, inInts_null .u64 (.inr (.inl rfl)) _ hi]
      · rename_i x
        have := inInts_spec .u64 (.inr (.inl rfl)) x _ hi
        simp [inCond, numerics_ints _ hi, leafR, memLeaf, memAsI64] at this ⊢
        exact this
    -- float
    · have := hall l0 (by simp); cases l0 <;> simp [ownLit] at this
    -- str
    · have h0 := hall l0 (by simp)
      cases l0 <;> simp [ownLit, isIntLit] at h0
      rename_i s0
      have hs : (Lit.str s0 :: ls).all (fun l => match l with | .str _ => true | _ => false) = true := by
        simp only [List.all_eq_true]; intro l hl; have := hall l hl
        cases l <;> simp [ownLit] at this ⊢
      cases v <;> simp [conformsVal] at hv
      rename_i x
      have := inStrs_spec .str (.inl rfl) x _ hs
      simp [inCond, numerics_nonnum _ ls (numeric_str_nonnum s0 h0.2), leafR, memLeaf, memText] at this ⊢
      exact this
    -- bool
    · have := hall l0 (by simp); cases l0 <;> simp [ownLit] at this
    -- time
    · have hi : (l0 :: ls).all isIntLit = true := by
        simp only [List.all_eq_true]; intro l hl; have := hall l hl; simp at this; exact this.2
      cases v <;> simp [conformsVal] at hv
      · simp [inCond, numerics_ints _ hi, leafR, memLeaf, memAsI64, inInts_null .time (.inr (.inr rfl)) _ hi]
      · rename_i x
        have := inInts_spec .time (.inr (.inr rfl)) x _ hi
        simp [inCond, numerics_ints _ hi, leafR, memLeaf, memAsI64] at this ⊢
        exact this
    -- enum
    · rename_i evs
      have h0 := hall l0 (by simp)
      cases l0 <;> simp [ownLit, isIntLit] at h0
      rename_i s0
      have hs : (Lit.str s0 :: ls).all (fun l => match l with | .str _ => true | _ => false) = true := by
        simp only [List.all_eq_true]; intro l hl; have := hall l hl
        cases l <;> simp [ownLit] at this ⊢
      cases v <;> simp [conformsVal] at hv
      rename_i x
      have := inStrs_spec (.enum evs) (.inr ⟨evs, rfl⟩) x _ hs
      simp [inCond, numerics_nonnum _ ls (numeric_str_nonnum s0 h0.2), leafR, memLeaf, memText] at this ⊢
      exact this

theorem zoneIn_faithful (k : Kind) (vs : List Lit) (v : Val)
    (ho : ownList k vs = true) (hv : conformsVal k v = true) :
    leafR (inCond vs) (zoneLeaf false (inCond vs) (some (cellOf k v))) =
      .val (vs.any fun l => (specLeaf k (some v) .eq l).getD false) := by
  simp only [ownList, Bool.and_eq_true, Bool.not_eq_true', List.all_eq_true] at ho
  obtain ⟨hne, hall⟩ := ho
  cases vs with
  | nil => simp at hne
  | cons l0 ls =>
    cases k
    -- int
    · have hi : (l0 :: ls).all isIntLit = true := by
        simp only [List.all_eq_true]; intro l hl; have := hall l hl; simp at this; exact this.2
      cases v <;> simp [conformsVal] at hv
      · simp [inCond, numerics_ints _ hi, leafR, zoneLeaf, inNumAt, cellOf, Cell.u64?, Cell.i64?, Cell.f64?,
          inInts_null .int (.inl rfl) _ hi]
      · rename_i x
        have := inInts_spec .int (.inl rfl) x _ hi
        simp [inCond, numerics_ints _ hi, leafR, zoneLeaf, inNumAt, cellOf, Cell.u64?, Cell.i64?] at this ⊢
        exact this
    -- u64
    · have hi : (l0 :: ls).all isIntLit = true := by
        simp only [List.all_eq_true]; intro l hl; have := hall l hl; simp at this; exact this.2
      cases v <;> simp [conformsVal] at hv
      · simp [inCond, numerics_ints _ hi, leafR, zoneLeaf, inNumAt, cellOf, Cell.u64?, Cell.i64?, Cell.f64?,
          inInts_null .u64 (.inr (.inl rfl)) _ hi]
      · rename_i x
        have hx : max x 0 = x := by omega
        have := inInts_spec .u64 (.inr (.inl rfl)) x _ hi
        simp [inCond, numerics_ints _ hi, leafR, zoneLeaf, inNumAt, cellOf, Cell.u64?, hv, hx] at this ⊢
        exact this
    -- float
    · have := hall l0 (by simp); cases l0 <;> simp [ownLit] at this
    -- str
    · have h0 := hall l0 (by simp)
      cases l0 <;> simp [ownLit, isIntLit] at h0
      rename_i s0
      have hs : (Lit.str s0 :: ls).all (fun l => match l with | .str _ => true | _ => false) = true := by
        simp only [List.all_eq_true]; intro l hl; have := hall l hl
        cases l <;> simp [ownLit] at this ⊢
      cases v <;> simp [conformsVal] at hv
      rename_i x
      have := inStrs_spec .str (.inl rfl) x _ hs
      simp [inCond, numerics_nonnum _ ls (numeric_str_nonnum s0 h0.2), leafR, zoneLeaf, cellOf, valText,
        Cell.str?] at this ⊢
      exact this
    -- bool
    · have := hall l0 (by simp); cases l0 <;> simp [ownLit] at this
    -- time
    · have hi : (l0 :: ls).all isIntLit = true := by
        simp only [List.all_eq_true]; intro l hl; have := hall l hl; simp at this; exact this.2
      cases v <;> simp [conformsVal] at hv
      · simp [inCond, numerics_ints _ hi, leafR, zoneLeaf, inNumAt, cellOf, Cell.u64?, Cell.i64?, Cell.f64?,
          inInts_null .time (.inr (.inr rfl)) _ hi]
      · rename_i x
        have := inInts_spec .time (.inr (.inr rfl)) x _ hi
        simp [inCond, numerics_ints _ hi, leafR, zoneLeaf, inNumAt, cellOf, Cell.u64?, Cell.i64?] at this ⊢
        exact this
    -- enum
    · rename_i evs
      have h0 := hall l0 (by simp)
      cases l0 <;> simp [ownLit, isIntLit] at h0
      rename_i s0
      have hs : (Lit.str s0 :: ls).all (fun l => match l with | .str _ => true | _ => false) = true := by
        simp only [List.all_eq_true]; intro l hl; have := hall l hl
        cases l <;> simp [ownLit] at this ⊢
      cases v <;> simp [conformsVal] at hv
      rename_i x
      have := inStrs_spec (.enum evs) (.inr ⟨evs, rfl⟩) x _ hs
      simp [inCond, numerics_nonnum _ ls (numeric_str_nonnum s0 h0.2), leafR, zoneLeaf, cellOf, valText,
        Cell.str?] at this ⊢
      exact this

/-! ## whole expressions -/

theorem evalMem_faithful (sch : Schema) (e : Expr) (r : Row)
    (hf : Faithful sch e = true) (hc : Conforms sch r) :
    evalMem e r = .val (specEval sch e r) := by
  induction e with
  | cmp f op l =>
    simp only [Faithful] at hf
    cases hk : sch[f]? with
    | none => simp [hk] at hf
    | some k =>
      simp only [hk] at hf
      obtain ⟨v, hv, hcv⟩ := hc f k hk
      simp only [evalMem, specEval, leafSpec, hk, hv]
      exact memLeaf_faithful k op l v hf hcv
  | inn f vs =>
    simp only [Faithful] at hf
    cases hk : sch[f]? with
    | none => simp [hk] at hf
    | some k =>
      simp only [hk] at hf
      obtain ⟨v, hv, hcv⟩ := hc f k hk
      simp only [evalMem, specEval, leafSpec, hk, hv]
      exact memIn_faithful k vs v hf hcv
  | and a b iha ihb =>
    simp only [Faithful, Bool.and_eq_true] at hf
    simp only [evalMem, specEval, iha hf.1, ihb hf.2, R_and_val]
  | or a b iha ihb =>
    simp only [Faithful, Bool.and_eq_true] at hf
    simp only [evalMem, specEval, iha hf.1, ihb hf.2, R_or_val]
  | not a ih =>
    simp only [Faithful] at hf
    simp only [evalMem, specEval, ih hf, R.not]

theorem evalZoneIn_faithful (sch : Schema) (e : Expr) (r : Row)
    (hf : Faithful sch e = true) (hc : Conforms sch r) :
    evalZoneIn sch e r = .val (specEval sch e r) := by
  induction e with
  | cmp f op l =>
    simp only [Faithful] at hf
    cases hk : sch[f]? with
    | none => simp [hk] at hf
    | some k =>
      simp only [hk] at hf
      obtain ⟨v, hv, hcv⟩ := hc f k hk
      simp only [evalZoneIn, specEval, leafSpec, cellAt, hk, hv]
      exact zoneLeaf_faithful false k op l v hf hcv
  | inn f vs =>
    simp only [Faithful] at hf
    cases hk : sch[f]? with
    | none => simp [hk] at hf
    | some k =>
      simp only [hk] at hf
      obtain ⟨v, hv, hcv⟩ := hc f k hk
      simp only [evalZoneIn, specEval, leafSpec, cellAt, hk, hv]
      exact zoneIn_faithful k vs v hf hcv
  | and a b iha ihb =>
    simp only [Faithful, Bool.and_eq_true] at hf
    simp only [evalZoneIn, specEval, iha hf.1, ihb hf.2, R_and_val]
  | or a b iha ihb =>
    simp only [Faithful, Bool.and_eq_true] at hf
    simp only [evalZoneIn, specEval, iha hf.1, ihb hf.2, R_or_val]
  | not a ih =>
    simp only [Faithful] at hf
    simp only [evalZoneIn, specEval, ih hf, R.not]

theorem evalZone_faithful (sch : Schema) (e : Expr) (r : Row)
    (hf : Faithful sch e = true) (hc : Conforms sch r) :
    evalZone sch e r = .val (specEval sch e r) := by
  cases e with
  | cmp f op l =>
    simp only [Faithful] at hf
    cases hk : sch[f]? with
    | none => simp [hk] at hf
    | some k =>
      simp only [hk] at hf
      obtain ⟨v, hv, hcv⟩ := hc f k hk
      simp only [evalZone, specEval, leafSpec, cellAt, hk, hv]
      exact zoneLeaf_faithful true k op l v hf hcv
  | inn f vs => exact evalZoneIn_faithful sch _ r hf hc
  | and a b => exact evalZoneIn_faithful sch _ r hf hc
  | or a b => exact evalZoneIn_faithful sch _ r hf hc
  | not a => exact evalZoneIn_faithful sch _ r hf hc

/-! ## zone combination -/

theorem prune_superset (sch : Schema) (sel : Nat → Op → Lit → List Nat) (rows : List Row)
    (z : Nat) (e : Expr) (hnf : e.notFree = true)
    (hleaf : ∀ f op l, (f, op, l) ∈ e.leaves → (∃ r ∈ rows, leafSpec sch f op l r = true) →
      (sel f op l).contains z = true)
    (hm : ∃ r ∈ rows, specEval sch e r = true) :
    inCand sel z false e = true := by
  induction e with
  | cmp f op l =>
    simp only [inCand]
    exact hleaf f op l (by simp [Expr.leaves]) (by simpa [specEval] using hm)
  | inn f vs =>
    obtain ⟨r, hr, hs⟩ := hm
    simp only [specEval, List.any_eq_true] at hs
    obtain ⟨l, hl, hls⟩ := hs
    simp only [inCand, List.any_eq_true]
    exact ⟨l, hl, hleaf f .eq l (by simp only [Expr.leaves, List.mem_map]; exact ⟨l, hl, rfl⟩) ⟨r, hr, hls⟩⟩
  | and a b iha ihb =>
    simp only [Expr.notFree, Bool.and_eq_true] at hnf
    obtain ⟨r, hr, hs⟩ := hm
    simp only [specEval, Bool.and_eq_true] at hs
    simp only [inCand, Bool.and_eq_true]
    exact ⟨iha hnf.1 (fun f op l h => hleaf f op l (by simp [Expr.leaves, h])) ⟨r, hr, hs.1⟩,
           ihb hnf.2 (fun f op l h => hleaf f op l (by simp [Expr.leaves, h])) ⟨r, hr, hs.2⟩⟩
  | or a b iha ihb =>
    simp only [Expr.notFree, Bool.and_eq_true] at hnf
    obtain ⟨r, hr, hs⟩ := hm
    simp only [specEval, Bool.or_eq_true] at hs
    simp only [inCand, Bool.or_eq_true]
    rcases hs with hs | hs
    · exact .inl (iha hnf.1 (fun f op l h => hleaf f op l (by simp [Expr.leaves, h])) ⟨r, hr, hs⟩)
    · exact .inr (ihb hnf.2 (fun f op l h => hleaf f op l (by simp [Expr.leaves, h])) ⟨r, hr, hs⟩)
  | not a _ => simp [Expr.notFree] at hnf

theorem foldl_some_isSome (sel : Nat → Op → Lit → List Nat) (uid : Nat → Op → Lit → Bool) (z f : Nat)
    (vs : List Lit) (acc : Option Bool) :
    (vs.foldl (fun acc l => if (sel f .eq l).contains z then some (uid f .eq l) else acc) acc).isSome =
      (acc.isSome || vs.any fun l => (sel f .eq l).contains z) := by
  induction vs generalizing acc with
  | nil => simp
  | cons l ls ih =>
    simp only [List.foldl_cons, List.any_cons, ih]
    by_cases h : z ∈ sel f .eq l
    · simp [h]
    · simp [h]

theorem candU_isSome (sel : Nat → Op → Lit → List Nat) (uid : Nat → Op → Lit → Bool) (z : Nat)
    (neg : Bool) (e : Expr) : (candU sel uid z neg e).isSome = inCand sel z neg e := by
  induction e generalizing neg with
  | cmp f op l =>
    cases neg <;> simp only [candU, inCand] <;> split <;> simp_all
  | inn f vs =>
    cases neg
    · simp only [candU, inCand, foldl_some_isSome]; simp
    · simp only [candU, inCand]; split <;> simp_all
  | and a b iha ihb =>
    cases neg
    · simp only [candU, inCand, ← iha, ← ihb]
      cases candU sel uid z false a <;> cases candU sel uid z false b <;> rfl
    · simp only [candU, inCand, ← iha, ← ihb]
      cases candU sel uid z true a <;> cases candU sel uid z true b <;> rfl
  | or a b iha ihb =>
    cases neg
    · simp only [candU, inCand, ← iha, ← ihb]
      cases candU sel uid z false a <;> cases candU sel uid z false b <;> rfl
    · simp only [candU, inCand, ← iha, ← ihb]
      cases candU sel uid z true a <;> cases candU sel uid z true b <;> rfl
  | not a ih => simp only [candU, inCand, ih]

/-! ## membership plumbing -/

theorem enumFrom_mem {α} (l : List α) (i j : Nat) (x : α) (h : (j, x) ∈ enumFrom i l) : x ∈ l := by
  induction l generalizing i with
  | nil => simp [enumFrom] at h
  | cons y ys ih =>
    simp only [enumFrom, List.mem_cons, Prod.mk.injEq] at h
    rcases h with ⟨_, rfl⟩ | h
    · simp
    · exact List.mem_cons_of_mem _ (ih _ h)

theorem mem_enumFrom {α} (l : List α) (i : Nat) (x : α) (h : x ∈ l) : ∃ j, (j, x) ∈ enumFrom i l := by
  induction l generalizing i with
  | nil => simp at h
  | cons y ys ih =>
    simp only [List.mem_cons] at h
    rcases h with rfl | h
    · exact ⟨i, by simp [enumFrom]⟩
    · obtain ⟨j, hj⟩ := ih (i + 1) h
      exact ⟨j, by simp [enumFrom, hj]⟩

theorem candFlagged_mem (w : World) (e : Expr) (z : Zone) (u : Bool) :
    (z, u) ∈ w.candFlagged e ↔ ∃ j s, (j, s) ∈ enumFrom 0 w.segs ∧ z ∈ s.zones ∧
      candU (w.sel j s) (fun f op l => (w.selU j s f op l).2) z.id false e = some u := by
  simp only [World.candFlagged, List.mem_flatMap, List.mem_filterMap, Option.map_eq_some_iff, Prod.mk.injEq,
    Prod.exists]
  constructor
  · rintro ⟨j, s, hjs, z', hz', u', hu', rfl, rfl⟩
    exact ⟨j, s, hjs, hz', hu'⟩
  · rintro ⟨j, s, hjs, hz, hu⟩
    exact ⟨j, s, hjs, z, hz, u, hu, rfl, rfl⟩

theorem hydrated_sub (w : World) (e : Expr) (z : Zone) (h : z ∈ w.hydrated e) :
    ∃ u, (z, u) ∈ w.candFlagged e := by
  simp only [World.hydrated, List.mem_map, Prod.exists] at h
  obtain ⟨z', u, hm, rfl⟩ := h
  exact ⟨u, hm⟩

theorem hydrated_iff (w : World) (e : Expr) (z : Zone) :
    z ∈ w.hydrated e ↔ ∃ j s, (j, s) ∈ enumFrom 0 w.segs ∧ z ∈ s.zones ∧
      inCand (w.sel j s) z.id false e = true := by
  constructor
  · intro h
    obtain ⟨u, hu⟩ := hydrated_sub w e z h
    obtain ⟨j, s, hjs, hz, hc⟩ := (candFlagged_mem w e z u).mp hu
    refine ⟨j, s, hjs, hz, ?_⟩
    rw [← candU_isSome (w.sel j s) (fun f op l => (w.selU j s f op l).2), hc]; rfl
  · rintro ⟨j, s, hjs, hz, hin⟩
    rw [← candU_isSome (w.sel j s) (fun f op l => (w.selU j s f op l).2)] at hin
    obtain ⟨u, hu⟩ := Option.isSome_iff_exists.mp hin
    simp only [World.hydrated, List.mem_map, Prod.exists]
    exact ⟨z, u, (candFlagged_mem w e z u).mpr ⟨j, s, hjs, hz, hu⟩, rfl⟩

theorem candRows_stored (w : World) (e : Expr) (r : Row) (h : r ∈ w.candRows e) : r ∈ w.stored := by
  simp only [World.candRows, List.mem_flatMap] at h
  obtain ⟨z, hz, hr⟩ := h
  obtain ⟨u, hu⟩ := hydrated_sub w e z hz
  obtain ⟨j, s, hjs, hzs, _⟩ := (candFlagged_mem w e z u).mp hu
  simp only [World.stored, List.mem_append, List.mem_flatMap]
  exact .inr ⟨s, enumFrom_mem _ _ _ _ hjs, z, hzs, hr⟩

theorem hits_sound (w : World) (e : Expr) (r : Row) (h : r ∈ w.hits e) :
    (r ∈ w.mem ∧ (evalMem e r).accepts = true ∧ w.ctxOk r = true) ∨
    (r ∈ w.candRows e ∧ (evalZone w.sch e r).accepts = true ∧ w.ctxOk r = true) := by
  simp only [World.hits, World.memHits, World.zoneHits, List.mem_append, List.mem_filter, Bool.and_eq_true] at h
  exact h

theorem hits_stored (w : World) (e : Expr) (r : Row) (h : r ∈ w.hits e) : r ∈ w.stored := by
  rcases hits_sound w e r h with ⟨hm, _⟩ | ⟨hz, _⟩
  · simp [World.stored, hm]
  · exact candRows_stored w e r hz

theorem memtable_exact (w : World) (e : Expr) (hs : w.segs = []) (r : Row) :
    r ∈ w.hits e ↔ r ∈ w.stored ∧ (evalMem e r).accepts = true ∧ w.ctxOk r = true := by
  simp [World.hits, World.memHits, World.zoneHits, World.candRows, World.hydrated, World.candFlagged,
    World.stored, hs, enumFrom]

theorem memtable_exact_spec (w : World) (e : Expr) (hs : w.segs = [])
    (hf : Faithful w.sch e = true) (hc : ∀ r ∈ w.stored, Conforms w.sch r) (r : Row) :
    r ∈ w.hits e ↔ r ∈ w.stored ∧ specEval w.sch e r = true ∧ w.ctxOk r = true := by
  rw [memtable_exact w e hs r]
  constructor
  · rintro ⟨h1, h2, h3⟩
    rw [evalMem_faithful w.sch e r hf (hc r h1)] at h2
    exact ⟨h1, h2, h3⟩
  · rintro ⟨h1, h2, h3⟩
    refine ⟨h1, ?_, h3⟩
    rw [evalMem_faithful w.sch e r hf (hc r h1)]
    exact h2

theorem exact_partial (w : World) (e : Expr) (hnf : e.notFree = true)
    (hfm : Faithful w.sch e = true)
    (hc : ∀ r ∈ w.stored, Conforms w.sch r)
    (hleaf : LeafSound w e) (r : Row) :
    (r ∈ w.hits e ↔ r ∈ w.stored ∧ specEval w.sch e r = true ∧ w.ctxOk r = true) ∧
    w.panics e = false := by
  constructor
  · constructor
    · intro h
      have hst := hits_stored w e r h
      rcases hits_sound w e r h with ⟨_, ha, hx⟩ | ⟨_, ha, hx⟩
      · rw [evalMem_faithful w.sch e r hfm (hc r hst)] at ha
        exact ⟨hst, ha, hx⟩
      · rw [evalZone_faithful w.sch e r hfm (hc r hst)] at ha
        exact ⟨hst, ha, hx⟩
    · rintro ⟨hst, hsp, hx⟩
      simp only [World.stored, List.mem_append, List.mem_flatMap] at hst
      simp only [World.hits, World.memHits, World.zoneHits, List.mem_append, List.mem_filter, Bool.and_eq_true]
      rcases hst with hm | ⟨s, hs, z, hz, hr⟩
      · refine .inl ⟨hm, ?_, hx⟩
        rw [evalMem_faithful w.sch e r hfm (hc r (by simp [World.stored, hm]))]
        exact hsp
      · have hrst : r ∈ w.stored := by
          simp only [World.stored, List.mem_append, List.mem_flatMap]
          exact .inr ⟨s, hs, z, hz, hr⟩
        refine .inr ⟨?_, ?_, hx⟩
        · obtain ⟨j, hj⟩ := mem_enumFrom w.segs 0 s hs
          have hin : inCand (w.sel j s) z.id false e = true :=
            prune_superset w.sch (w.sel j s) z.rows z.id e hnf
              (fun f op l hl hex => hleaf j s hj z hz f op l hl hex) ⟨r, hr, hsp⟩
          rw [← candU_isSome (w.sel j s) (fun f op l => (w.selU j s f op l).2)] at hin
          obtain ⟨u, hu⟩ := Option.isSome_iff_exists.mp hin
          have hcf : (z, u) ∈ w.candFlagged e := (candFlagged_mem w e z u).mpr ⟨j, s, hj, hz, hu⟩
          simp only [World.candRows, List.mem_flatMap, World.hydrated, List.mem_map, Prod.exists]
          exact ⟨z, ⟨z, u, hcf, rfl⟩, hr⟩
        · rw [evalZone_faithful w.sch e r hfm (hc r hrst)]
          exact hsp
  · simp only [World.panics, Bool.or_eq_false_iff, List.any_eq_false, decide_eq_true_eq]
    constructor
    · intro x hx
      rw [evalMem_faithful w.sch e x hfm (hc x (by simp [World.stored, hx]))]
      simp
    · intro x hx
      rw [evalZone_faithful w.sch e x hfm (hc x (candRows_stored w e x hx))]
      simp

theorem layout_independent (w₁ w₂ : World) (e : Expr) (hsch : w₁.sch = w₂.sch)
    (hfor : w₁.forCtx = w₂.forCtx) (hst : ∀ r, r ∈ w₁.stored ↔ r ∈ w₂.stored)
    (hnf : e.notFree = true)
    (hfm : Faithful w₁.sch e = true)
    (hc : ∀ r ∈ w₁.stored, Conforms w₁.sch r)
    (h₁ : LeafSound w₁ e) (h₂ : LeafSound w₂ e)
    (r : Row) : r ∈ w₁.hits e ↔ r ∈ w₂.hits e := by
  have e1 := (exact_partial w₁ e hnf hfm hc h₁ r).1
  have hc2 : ∀ r ∈ w₂.stored, Conforms w₂.sch r := fun x hx => hsch ▸ hc x ((hst x).mpr hx)
  have e2 := (exact_partial w₂ e hnf (hsch ▸ hfm) hc2 h₂ r).1
  rw [e1, e2, hst r, hsch]
  simp [World.ctxOk, hfor]

end Snel.Query
